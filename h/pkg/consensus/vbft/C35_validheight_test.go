package vbft

// C35, unit "validheight" — the proposer's choice of the verification height
// while block-persisted events are in flight (engine xs, DESIGN §4 C35).
//
// The units in txnpool/proc treat a commit as one atomic step (ledger, pool and
// consensus-side validator learn of a block together) and transcribe
// Server.validHeight.  Here the REAL Server.validHeight of a minimal vbft.Server
// is asked for the height that makeProposal hands to the pool and to
// IncrementValidator.Verify, and a commit is split into its three asynchronous
// parts:
//
//	seal   the block is sealed and persisted: the ledger (reference model)
//	       advances; one persisted-event is queued for the pool actor and one
//	       for the consensus actor
//	evp    the pool actor receives its oldest queued event
//	       (TXPoolServer.cleanTransactionList); evpr: the same with the default
//	       configuration's re-verification of the remaining pool
//	evv    the consensus actor receives its oldest queued event (the
//	       incrValidator.AddBlock of Server.handleBlockPersistCompleted)
//
// Submissions (real TxPoolService.handleTransaction -> stateless + stateful
// validators -> handleRsp -> TXPool) and proposals (real validHeight, real
// getTxPool, real IncrementValidator.Verify, the loop of makeProposal) are
// explored in every order against these deliveries, each queue at most
// c35vMaxLag blocks long.  The verdict is the property's, judged against the
// ledger: no duplicate hash, nothing already on chain, per EVM sender nonces
// account nonce, +1, +2 ...

import (
	"encoding/hex"
	"fmt"
	"math/big"
	"sort"
	"strings"
	"testing"

	ethcomm "github.com/ethereum/go-ethereum/common"
	ethtypes "github.com/ethereum/go-ethereum/core/types"
	ethcrypto "github.com/ethereum/go-ethereum/crypto"
	"github.com/ontio/ontology-crypto/signature"
	"github.com/ontio/ontology/account"
	"github.com/ontio/ontology/cmd/utils"
	"github.com/ontio/ontology/common"
	"github.com/ontio/ontology/common/config"
	"github.com/ontio/ontology/common/constants"
	"github.com/ontio/ontology/common/log"
	"github.com/ontio/ontology/core/ledger"
	"github.com/ontio/ontology/core/payload"
	cstates "github.com/ontio/ontology/core/states"
	"github.com/ontio/ontology/core/store"
	"github.com/ontio/ontology/core/store/leveldbstore"
	"github.com/ontio/ontology/core/store/overlaydb"
	"github.com/ontio/ontology/core/types"
	params "github.com/ontio/ontology/smartcontract/service/native/global_params"
	"github.com/ontio/ontology/smartcontract/service/native/ont"
	nutils "github.com/ontio/ontology/smartcontract/service/native/utils"
	sstates "github.com/ontio/ontology/smartcontract/states"
	"github.com/ontio/ontology/smartcontract/storage"
	"github.com/ontio/ontology/txnpool/proc"
	"github.com/ontio/ontology/validator/increment"
	"github.com/ontio/ontology/validator/stateful"
	"github.com/ontio/ontology/validator/stateless"
	"github.com/ontio/ontology/verifshim/vh"
	"github.com/ontio/ontology/verifshim/vkeys"
	"github.com/ontio/ontology/verifshim/xs"
)

const (
	c35vMaxLag = 2  // a recipient's persisted-events lag the ledger by at most this many blocks
	c35vH0     = 10 // ledger height of the initial state
)

// ---------------------------------------------------------------- fake ledger (reference model)

type c35vModel struct {
	height uint32
	chain  map[common.Uint256]bool
	acct   map[common.Address]uint64
}

type c35vLedger struct {
	store.LedgerStore // nil: any query this path is not known to make panics and is reported
	m                 *c35vModel
}

var c35vCache *storage.CacheDB // fixed ONG balance of the EVM sender

func (l *c35vLedger) GetCurrentBlockHeight() uint32 { return l.m.height }
func (l *c35vLedger) IsContainTransaction(h common.Uint256) (bool, error) {
	return l.m.chain[h], nil
}
func (l *c35vLedger) GetEthAccount(a ethcomm.Address) (*storage.EthAccount, error) {
	return &storage.EthAccount{Nonce: l.m.acct[common.Address(a)]}, nil
}
func (l *c35vLedger) GetCacheDB() *storage.CacheDB { return c35vCache }
func (l *c35vLedger) PreExecuteContract(tx *types.Transaction) (*sstates.PreExecResult, error) {
	// the only pre-execution on this path: getGlobalParam(["gasPrice"]) of the pool's price floor
	ps := params.Params{{Key: "gasPrice", Value: "0"}}
	sink := common.NewZeroCopySink(nil)
	ps.Serialization(sink)
	return &sstates.PreExecResult{State: 1, Gas: 20000, Result: hex.EncodeToString(sink.Bytes())}, nil
}

// ---------------------------------------------------------------- alphabet

type c35vTx struct {
	id    string
	tx    *types.Transaction
	evm   bool
	nonce uint64
	price uint64
}

func c35vEvmTx(nonce uint64, price int64, variant int) *types.Transaction {
	k, err := ethcrypto.ToECDSA(ethcrypto.Keccak256([]byte("verif-c35-validheight-sender")))
	if err != nil {
		panic(err)
	}
	to := ethcomm.HexToAddress("0x4592d8f8d7b001e72cb26a73e4fa1806a51ac79d")
	to[19] += byte(variant)
	tx := ethtypes.NewTransaction(nonce, to, big.NewInt(1000000000), 21000, new(big.Int).Mul(big.NewInt(price), big.NewInt(constants.GWei)), nil)
	signed, err := ethtypes.SignTx(tx, ethtypes.NewEIP155Signer(big.NewInt(int64(config.DefConfig.P2PNode.EVMChainId))), k)
	if err != nil {
		panic(err)
	}
	otx, err := types.TransactionFromEIP155(signed)
	if err != nil {
		panic(err)
	}
	return otx
}

func c35vNativeTx(i int) *types.Transaction {
	pri, pub := vkeys.P256(170 + i)
	acct := &account.Account{PrivateKey: pri, PublicKey: pub, Address: types.AddressFromPubKey(pub), SigScheme: signature.SHA256withECDSA}
	m := &types.MutableTransaction{TxType: types.InvokeNeo, Nonce: uint32(2000 + i), GasPrice: 1, GasLimit: 20000,
		Payload: &payload.InvokeCode{Code: []byte("ont")}, Payer: acct.Address}
	if err := utils.SignTransaction(acct, m); err != nil {
		panic(err)
	}
	tx, err := m.IntoImmutable()
	if err != nil {
		panic(err)
	}
	return tx
}

type c35vEnv struct {
	r         *vh.Run
	txs       []*c35vTx
	byHash    map[common.Uint256]*c35vTx
	byID      map[string]*c35vTx
	sender    common.Address
	stateless *stateless.ValidatorPool
	stateful  *stateful.ValidatorPool
	maxProp   int
	pfx       string // prefix of this unit's event labels and outcome classes ("vh." / "rs.")
	// rootA0: the last block of the initial state carried the sender's nonce-0
	// transaction A0 (unit "restart"); A0 is then history, not part of the alphabet
	rootA0 bool
	fixed  []*c35vTx
}

func (e *c35vEnv) add(id string, tx *types.Transaction, evm bool, nonce, price uint64) {
	e.register(id, tx, evm, nonce, price, true)
}

func (e *c35vEnv) register(id string, tx *types.Transaction, evm bool, nonce, price uint64, alphabet bool) {
	t := &c35vTx{id: id, tx: tx, evm: evm, nonce: nonce, price: price}
	if _, dup := e.byHash[tx.Hash()]; dup {
		panic("duplicate alphabet tx " + id)
	}
	if alphabet {
		e.txs = append(e.txs, t)
	} else {
		e.fixed = append(e.fixed, t)
	}
	e.byHash[tx.Hash()] = t
	e.byID[id] = t
	if evm {
		e.sender = tx.Payer
	}
}

// One EVM sender: nonces 0,1(,2) at 1 GWei and, for nonce 0 and for nonce 1, a
// competing transaction with other content at 2 GWei (it replaces the first in
// the pool, or is what another proposer sealed while the first sits in this
// node's pool); native transactions.
func (e *c35vEnv) buildAlphabet(thorough bool) {
	e.byHash, e.byID = map[common.Uint256]*c35vTx{}, map[string]*c35vTx{}
	if e.rootA0 {
		// unit "restart": A0 was sealed in the last block of the initial state; the
		// alphabet is the sender's NEXT nonces: 1 (two competing transactions), 2, 3
		e.register("A0", c35vEvmTx(0, 1, 0), true, 0, 1, false)
		e.add("A1", c35vEvmTx(1, 1, 0), true, 1, 1)
		e.add("A1x", c35vEvmTx(1, 2, 1), true, 1, 2)
		e.add("A2", c35vEvmTx(2, 1, 0), true, 2, 1)
		if thorough {
			e.add("A2x", c35vEvmTx(2, 2, 1), true, 2, 2)
			e.add("A3", c35vEvmTx(3, 1, 0), true, 3, 1)
		}
		e.add("N1", c35vNativeTx(1), false, 0, 1)
		return
	}
	e.add("A0", c35vEvmTx(0, 1, 0), true, 0, 1)
	e.add("A0x", c35vEvmTx(0, 2, 1), true, 0, 2)
	e.add("A1", c35vEvmTx(1, 1, 0), true, 1, 1)
	e.add("A1x", c35vEvmTx(1, 2, 1), true, 1, 2)
	if thorough {
		e.add("A2", c35vEvmTx(2, 1, 0), true, 2, 1)
	}
	e.add("N1", c35vNativeTx(1), false, 0, 1)
	if thorough {
		e.add("N2", c35vNativeTx(2), false, 0, 1)
	}
}

func (e *c35vEnv) name(h common.Uint256) string {
	if t := e.byHash[h]; t != nil {
		return t.id
	}
	return "?" + h.ToHexString()[:8]
}

// ---------------------------------------------------------------- system under test

type c35vSys struct {
	m      *c35vModel
	led    *ledger.Ledger
	srv    *proc.TXPoolServer
	svc    *proc.TxPoolService
	server *Server        // the minimal real vbft.Server: validHeight reads incrValidator only
	qPool  []*types.Block // persisted, event not yet delivered to the pool actor
	qVal   []*types.Block // persisted, event not yet delivered to the consensus actor
	cls    []string       // outcome classes of the last event
}

func (e *c35vEnv) persist(st *c35vSys, txs []*c35vTx) *types.Block {
	st.m.height++
	blk := &types.Block{Header: &types.Header{Height: st.m.height}}
	for _, t := range txs {
		st.m.chain[t.tx.Hash()] = true
		if t.evm {
			st.m.acct[t.tx.Payer] = t.nonce + 1
		}
		blk.Transactions = append(blk.Transactions, t.tx)
	}
	return blk
}

func (e *c35vEnv) toPool(st *c35vSys, blk *types.Block, reverify bool) {
	// the pool works on its own copy of the slice (cleanTransactionList appends to it)
	cp := &types.Block{Header: blk.Header, Transactions: append([]*types.Transaction{}, blk.Transactions...)}
	st.srv.VerifC35BlockPersisted(cp, reverify, func(l []*types.Transaction) {
		sort.Slice(l, func(i, j int) bool { return e.name(l[i].Hash()) < e.name(l[j].Hash()) })
	})
}

func (e *c35vEnv) init() interface{} {
	st := &c35vSys{m: &c35vModel{height: c35vH0 - 2, chain: map[common.Uint256]bool{}, acct: map[common.Address]uint64{}}}
	st.led = &ledger.Ledger{LedgerStore: &c35vLedger{m: st.m}}
	ledger.DefLedger = st.led
	st.srv, st.svc = proc.VerifC35NewServer(e.stateless, e.stateful)
	st.server = &Server{incrValidator: increment.NewIncrementValidator(20)}
	// a node in steady state: the last two (empty) blocks were persisted and both events delivered
	for i := 0; i < 2; i++ {
		var txs []*c35vTx
		if e.rootA0 && i == 1 {
			txs = e.fixed // the last block carried A0: the account nonce is 1, the validator window remembers it
		}
		blk := e.persist(st, txs)
		e.toPool(st, blk, false)
		st.server.incrValidator.AddBlock(blk)
	}
	return st
}

func (e *c35vEnv) committable(st *c35vSys, t *c35vTx) bool {
	if st.m.chain[t.tx.Hash()] {
		return false
	}
	return !t.evm || st.m.acct[t.tx.Payer] == t.nonce
}

func (e *c35vEnv) canSeal(st *c35vSys) bool {
	return len(st.qPool) < c35vMaxLag && len(st.qVal) < c35vMaxLag
}

func (e *c35vEnv) events(si interface{}) []string {
	st := si.(*c35vSys)
	if e.r.R.NViolations >= 20 {
		return nil // enough counterexamples (shortest first); the run is reported as capped
	}
	var ev []string
	for _, t := range e.txs {
		ev = append(ev, e.pfx+"sub:"+t.id)
	}
	ev = append(ev, e.pfx+"prop")
	if e.canSeal(st) {
		ev = append(ev, e.pfx+"call")
		for _, t := range e.txs {
			if e.committable(st, t) {
				ev = append(ev, e.pfx+"seal:"+t.id)
			}
		}
		ev = append(ev, e.pfx+"seal:-")
	}
	if len(st.qPool) > 0 {
		ev = append(ev, e.pfx+"evp", e.pfx+"evpr")
	}
	if len(st.qVal) > 0 {
		ev = append(ev, e.pfx+"evv")
	}
	ev = append(ev, e.pfx+"vclean")
	return ev
}

func (e *c35vEnv) lag(st *c35vSys) string {
	switch {
	case len(st.qPool) > 0 && len(st.qVal) > 0:
		return "pool+validator"
	case len(st.qPool) > 0:
		return "pool"
	case len(st.qVal) > 0:
		return "validator"
	}
	return "none"
}

func (e *c35vEnv) submit(st *c35vSys, t *c35vTx) {
	res, inPool := st.svc.VerifC35Submit(t.tx)
	switch {
	case res.Err.Success():
		st.cls = append(st.cls, e.pfx+"submit:accepted")
	case inPool:
		st.cls = append(st.cls, e.pfx+"submit:refused-already-in-pool")
	case strings.Contains(res.Desc, "lower nonce"):
		st.cls = append(st.cls, e.pfx+"submit:refused:lower-nonce")
	default:
		st.cls = append(st.cls, e.pfx+"submit:refused:"+strings.Replace(res.Err.Error(), " ", "-", -1))
	}
}

// propose: the REAL Server.validHeight, then the loop of Server.makeProposal
func (e *c35vEnv) propose(st *c35vSys) (prop []*c35vTx, vk, vd string) {
	lag := e.lag(st)
	blkNum := st.m.height + 1 // the block after the last sealed one
	_, end0 := st.server.incrValidator.BlockRange()
	validHeight := st.server.validHeight(blkNum)
	start1, end1 := st.server.incrValidator.BlockRange()
	// the validator was reset (Clean by a consensus stop/restart or by validHeight itself) since the initial state
	afterReset := end1 == 0 || start1 > c35vH0-1
	window := "kept"
	if end1 == 0 {
		window = "dropped"
		if end0 == 0 {
			window = "empty"
		}
	}
	nonceCtx := make(map[common.Address]uint64)
	var txs []*types.Transaction
	avl, nre := st.srv.VerifC35GetTxPool(true, validHeight)
	for _, en := range avl {
		if err := st.server.incrValidator.Verify(en.Tx, validHeight, nonceCtx); err == nil {
			txs = append(txs, en.Tx)
		}
	}
	// the expired entries were handed to the stateful validator; their verdicts arrive after the proposal is out
	st.srv.VerifC35Deliver(nre)

	// ---- verdict on the proposal (judged against the ledger)
	sfx := ""
	if lag != "none" {
		sfx = "@persist-event-in-flight"
	}
	if afterReset && end1 != 0 {
		sfx += "@validator-refilled-after-reset"
	}
	var ids []string
	for _, tx := range txs {
		t := e.byHash[tx.Hash()]
		if t == nil {
			return nil, "proposal:unknown-transaction" + sfx, "a transaction never submitted is proposed"
		}
		ids = append(ids, t.id)
		prop = append(prop, t)
	}
	ctx := fmt.Sprintf("proposal %v for block %d (validHeight %d, validator window %s, events in flight: %s)", ids, blkNum, validHeight, window, lag)
	seen := map[common.Uint256]bool{}
	var next uint64
	started := false
	for _, t := range prop {
		h := t.tx.Hash()
		if seen[h] {
			return prop, "proposal:duplicate-hash" + sfx, fmt.Sprintf("%s contains %s twice", ctx, t.id)
		}
		seen[h] = true
		if st.m.chain[h] {
			return prop, "proposal:already-on-chain" + sfx, fmt.Sprintf("%s contains %s which is already on chain", ctx, t.id)
		}
		if t.evm {
			if !started {
				started = true
				next = st.m.acct[t.tx.Payer]
				if t.nonce < next {
					return prop, "proposal:first-nonce-below-account-nonce" + sfx, fmt.Sprintf("%s: first nonce is %d, account nonce is %d", ctx, t.nonce, next)
				}
				if t.nonce > next {
					return prop, "proposal:first-nonce-above-account-nonce" + sfx, fmt.Sprintf("%s: first nonce is %d, account nonce is %d", ctx, t.nonce, next)
				}
			}
			if t.nonce != next {
				return prop, "proposal:nonces-not-consecutive" + sfx, fmt.Sprintf("%s: continues with nonce %d where %d is due", ctx, t.nonce, next)
			}
			next++
		}
	}
	n := fmt.Sprintf("n=%d", len(prop))
	if len(prop) > 2 {
		n = "n>2"
	}
	st.cls = append(st.cls, e.pfx+"propose:lag="+lag+",window="+window, e.pfx+"proposal:"+n)
	if len(avl) > len(prop) {
		st.cls = append(st.cls, e.pfx+"proposal:validator-filtered")
	}
	if afterReset && end1-start1 >= 2 {
		// the window was refilled with at least two blocks after a reset
		c := e.pfx + "propose:after-reset,refilled>=2"
		st.cls = append(st.cls, c)
		if len(avl) > len(prop) {
			st.cls = append(st.cls, c+",validator-filtered")
		}
		if len(prop) > 0 {
			st.cls = append(st.cls, c+",non-empty")
		}
	}
	if nre > 0 {
		st.cls = append(st.cls, e.pfx+"proposal:expired-reverified")
	}
	if len(prop) > e.maxProp {
		e.maxProp = len(prop)
	}
	return prop, "", ""
}

func (e *c35vEnv) seal(st *c35vSys, txs []*c35vTx) {
	blk := e.persist(st, txs)
	st.qPool = append(st.qPool, blk)
	st.qVal = append(st.qVal, blk)
}

func (e *c35vEnv) known(ev string) bool {
	if !strings.HasPrefix(ev, e.pfx) {
		return false
	}
	f := strings.SplitN(strings.TrimPrefix(ev, e.pfx), ":", 2)
	switch f[0] {
	case "prop", "call", "evp", "evpr", "evv", "vclean":
		return len(f) == 1
	case "sub":
		return len(f) == 2 && e.byID[f[1]] != nil
	case "seal":
		return len(f) == 2 && (f[1] == "-" || e.byID[f[1]] != nil)
	}
	return false
}

func (e *c35vEnv) apply(si interface{}, ev string) (vk, vd string) {
	st := si.(*c35vSys)
	ledger.DefLedger = st.led
	st.cls = nil
	pn := vh.Catch(func() {
		f := strings.SplitN(strings.TrimPrefix(ev, e.pfx), ":", 2)
		switch f[0] {
		case "sub":
			e.submit(st, e.byID[f[1]])
		case "prop":
			_, vk, vd = e.propose(st)
		case "call":
			var prop []*c35vTx
			prop, vk, vd = e.propose(st)
			if vk == "" && len(prop) > 0 && e.canSeal(st) {
				e.seal(st, prop)
				st.cls = append(st.cls, e.pfx+"seal:own-proposal")
			}
		case "seal":
			if f[1] == "-" {
				e.seal(st, nil)
				st.cls = append(st.cls, e.pfx+"seal:empty")
			} else if t := e.byID[f[1]]; e.committable(st, t) && e.canSeal(st) {
				e.seal(st, []*c35vTx{t})
				st.cls = append(st.cls, e.pfx+"seal:foreign-single")
			}
		case "evp", "evpr":
			if len(st.qPool) > 0 {
				blk := st.qPool[0]
				st.qPool = st.qPool[1:]
				e.toPool(st, blk, f[0] == "evpr")
				st.cls = append(st.cls, e.pfx+"event-to-pool")
			}
		case "evv":
			if len(st.qVal) > 0 {
				blk := st.qVal[0]
				st.qVal = st.qVal[1:]
				st.server.incrValidator.AddBlock(blk) // Server.handleBlockPersistCompleted
				st.cls = append(st.cls, e.pfx+"event-to-validator")
			}
		case "vclean":
			st.server.incrValidator.Clean()
			st.cls = append(st.cls, e.pfx+"validator-reset")
		}
	})
	if pn != "" {
		if strings.Contains(pn, "VERIF-INFRA") {
			panic(pn)
		}
		return "panic:" + strings.SplitN(ev, ":", 2)[0], ev + " panicked: " + pn
	}
	return vk, vd
}

func (e *c35vEnv) queue(q []*types.Block) string {
	var out []string
	for _, b := range q {
		var ids []string
		for _, tx := range b.Transactions {
			ids = append(ids, e.name(tx.Hash()))
		}
		sort.Strings(ids) // equal-fee native transactions come out of the pool in map order; EVM ids sort by nonce
		out = append(out, fmt.Sprintf("%d:%s", b.Header.Height, strings.Join(ids, "+")))
	}
	return strings.Join(out, " ")
}

func (e *c35vEnv) key(si interface{}) string {
	st := si.(*c35vSys)
	var ch []string
	for h := range st.m.chain {
		ch = append(ch, e.name(h))
	}
	sort.Strings(ch)
	return fmt.Sprintf("h%d a%d chain[%s] %s | %s | qp[%s] qv[%s]", st.m.height, st.m.acct[e.sender], strings.Join(ch, ","),
		st.srv.VerifC35Pool().VerifC35Dump(e.name), st.server.incrValidator.VerifC35Dump(e.name), e.queue(st.qPool), e.queue(st.qVal))
}

func (e *c35vEnv) keyRec(si interface{}) string {
	k := e.key(si)
	e.r.StateKey(k)
	return k
}

func (e *c35vEnv) check(si interface{}, hist []string) (string, string) {
	st := si.(*c35vSys)
	for _, c := range st.cls {
		e.r.Class(c)
	}
	e.r.Eval(1)
	if st.srv.VerifC35Pending() != 0 {
		return "harness:pending-not-empty", "transactions left in the verifying list"
	}
	return "", ""
}

// The unit runs two searches with the same events and the same oracle:
//
//	"vh."  from a steady node whose 2-block validator window is empty of
//	       transactions, over the sender's nonces 0.. ;
//	"rs."  (validator restart) from a steady node whose last block - on chain, in
//	       the window, delivered to the pool - carried the sender's nonce-0
//	       transaction, over the sender's NEXT nonces and one level deeper.  The
//	       histories "the validator is reset AFTER it has seen the sender
//	       (consensus stop/restart, or validHeight finding the window out of
//	       step), is refilled by two or more further blocks of which one carries
//	       the sender's next nonce (sealed elsewhere while a competing
//	       transaction sits in this node's pool), and a proposal is built" all
//	       lie within that depth: the validator must behave after a reset as it
//	       does on first use.
func TestVerif_C35_validheight(t *testing.T) {
	r := vh.Start(t, "C35", "validheight")
	defer r.Finish()
	_ = log.Log().SetDebugLevel(log.FatalLog)
	saveLedger, saveCfg := ledger.DefLedger, *config.DefConfig
	defer func() { ledger.DefLedger = saveLedger; *config.DefConfig = saveCfg }()
	if config.DefConfig.P2PNode.EVMChainId == 0 {
		config.DefConfig.P2PNode.EVMChainId = 12345
	}
	config.DefConfig.P2PNode.NetworkId = 3 // a private network: EVM transactions are admitted from height 0
	config.DefConfig.Common.GasPrice = 0
	config.DefConfig.Consensus.MaxTxInBlock = 60000

	sl, sf := stateless.NewValidatorPool(2), stateful.NewValidatorPool(1)
	ov := overlaydb.NewOverlayDB(leveldbstore.NewMemLevelDBStore())
	c35vCache = storage.NewCacheDB(ov)
	type search struct {
		e     *c35vEnv
		depth int
		root  string
	}
	var searches []*search
	for _, rootA0 := range []bool{false, true} {
		e := &c35vEnv{r: r, pfx: "vh.", rootA0: rootA0, stateless: sl, stateful: sf}
		sr := &search{e: e, depth: r.Pick(6, 7), root: "2-block validator window without transactions, account nonce 0"}
		if rootA0 {
			e.pfx = "rs."
			sr.depth = r.Pick(7, 8)
			sr.root = "2-block validator window whose last block (on chain, delivered to pool and validator) carried the sender's nonce-0 transaction, account nonce 1"
		}
		e.buildAlphabet(r.Thorough())
		c35vCache.Put(ont.GenBalanceKey(nutils.OngContractAddress, e.sender), cstates.NativeTokenBalanceFromInteger(1000000000).MustToStorageItemBytes())
		searches = append(searches, sr)
	}

	r.Rule("breadth-first search over histories of: submit any of the pre-signed transactions (one EIP-155 sender: consecutive nonces and competing higher-priced same-nonce transactions; native txs) through the real handleTransaction/validators/handleRsp; build a proposal with the height the REAL vbft Server.validHeight returns (real getTxPool + IncrementValidator.Verify as makeProposal does); seal+persist a block (the own proposal, a single transaction proposed elsewhere, or empty) = the ledger advances and one persisted-event is queued for the pool and one for the consensus-side validator; deliver the oldest queued event to the pool (with and without re-verification of the remaining pool) or to the validator, in any order relative to each other, to submissions and to proposals; reset of the validator (enabled in every state). Two searches: 'vh.' from a node that has not seen the sender yet, 'rs.' from a node whose validator window and chain already hold the sender's nonce-0 transaction (so that reset-after-use, refill by >=2 blocks and a proposal fit into the depth). State = ledger model + complete pool + validator window + both event queues; every proposal is checked against the ledger for duplicate hash / tx already on chain / consecutive nonces from the account nonce")
	var bounds []string
	for _, sr := range searches {
		bounds = append(bounds, fmt.Sprintf("search %s %d transactions in the alphabet, initial state = steady node at height %d, %s, depth<=%d", sr.e.pfx, len(sr.e.txs), c35vH0, sr.root, sr.depth))
	}
	r.Bound(fmt.Sprintf("unit validheight: %s; each event queue <= %d blocks", strings.Join(bounds, "; "), c35vMaxLag))
	r.Assume("validator verdicts are delivered before the next event; 'on chain' = sealed and persisted (the ledger answers for every sealed block); balances always suffice; pre-execution on re-verification passes")
	mkcfg := func(sr *search) xs.Config {
		e := sr.e
		return xs.Config{Init: e.init, Events: e.events, Apply: e.apply, Key: e.keyRec, Check: e.check, MaxDepth: sr.depth,
			MaxStates: r.Pick(400000, 2000000), ShardFirst: true}
	}
	var rc struct {
		History []string `json:"history"`
	}
	if r.ReplayCase(&rc) {
		r.State(1)
		for _, sr := range searches {
			mine := len(rc.History) > 0
			for _, ev := range rc.History {
				mine = mine && sr.e.known(ev)
			}
			if !mine {
				continue // a case recorded by the other search or by another unit of this property
			}
			cfg := mkcfg(sr)
			cfg.Key = sr.e.key
			if k, d := xs.Replay(cfg, rc.History); k != "" {
				r.Violation(k, d, map[string]interface{}{"history": rc.History})
			}
			r.Trans(int64(len(rc.History)))
		}
		return
	}
	for _, sr := range searches {
		stt := xs.Run(r, mkcfg(sr))
		r.State(-stt.States)
		r.Set(sr.e.pfx+"per_depth_new_states", stt.PerDepth)
		r.Class(fmt.Sprintf(sr.e.pfx+"longest-proposal=%d", sr.e.maxProp))
	}
	if r.R.NViolations >= 20 {
		r.Capped("exploration stopped after 20 violations")
	}
}

package vbft

import (
	"bytes"
	"fmt"
	"sort"
	"strings"
	"testing"

	"github.com/ontio/ontology/common"
	"github.com/ontio/ontology/common/config"
	vconfig "github.com/ontio/ontology/consensus/vbft/config"
	"github.com/ontio/ontology/core/states"
	scommon "github.com/ontio/ontology/core/store/common"
	"github.com/ontio/ontology/core/store/overlaydb"
	gov "github.com/ontio/ontology/smartcontract/service/native/governance"
	nutils "github.com/ontio/ontology/smartcontract/service/native/utils"
	"github.com/ontio/ontology/verifshim/vh"
)

// C30, production path: GetPeersConfig builds the peer list by ranging over a
// Go map (arbitrary order) and getChainConfig feeds it to GenesisChainConfig.
// The map order cannot be chosen from here, so it is covered by composition:
// (a) the list GetPeersConfig returns is checked as a set against the pool;
// (b) the real GenesisChainConfig is run on EVERY order of exactly that list
//     and must give one configuration;
// (c) getChainConfig (whatever order the runtime picked, several calls) must
//     give that same configuration.

var c30pkeys = []string{
	"0253ccfd439b29eca0fe90ca7c6eaa1f98572a054aa2d1d56e72ad96c466107a85",
	"035eb654bad6c6409894b9b42289a43614874c7984bde6b03aaf6fc1d0486d9d45",
	"0281d198c0dd3737a9c39191bc2d1af7d65a44261a8a64d6ef74d63f27cfb5ed92",
	"023967bba3060bf8ade06d9bad45d02853f6c623e4d4f52d767eb56df4d364a99f",
	"038bfc50b0e3f0e5df6d451069065cbfa7ab5d382a5839cce82e0c963edb026e94",
	"03f1095289e7fddb882f1cb3e158acc1c30d9de606af21c97ba851821e8b6ea535",
	"0215865baab70607f4a2413a7a9ba95ab2c3c0202d5b7731c6824eef48e899fc90",
	"02991768dafcdc1fbd3a29fda0ba78ea52da8df118eceecbdc7c4520979b01f85f",
}

type c30ppeer struct {
	Index    uint32 `json:"index"`
	Key      string `json:"key"`
	InitPos  uint64 `json:"init_pos"`
	TotalPos uint64 `json:"total_pos"`
	Status   uint8  `json:"status"`
}

type c30pcase struct {
	K     uint32     `json:"k"`
	L     uint32     `json:"l"`
	C     uint32     `json:"c"`
	Pool  []c30ppeer `json:"pool"`
	Order []int      `json:"order,omitempty"`
}

func c30pRawKey(key []byte) []byte {
	// what getRawStorageItemFromMemDb builds: ST_STORAGE | contract | key
	return append(append([]byte{byte(scommon.ST_STORAGE)}, nutils.GovernanceContractAddress[:]...), key...)
}

const c30pView = 7

var c30pTx = common.Uint256{0xC3, 0x30, 9}

func c30pMemDB(K, L, C uint32, pool []c30ppeer) *overlaydb.MemDB {
	db := overlaydb.NewMemDB(16*1024, 16)
	put := func(key []byte, val []byte) { db.Put(c30pRawKey(key), states.GenRawStorageItem(val)) }
	var vb bytes.Buffer
	(&gov.GovernanceView{View: c30pView, Height: 100, TxHash: c30pTx}).Serialize(&vb)
	put([]byte(gov.GOVERNANCE_VIEW), vb.Bytes())
	// no pre-config pending: a tombstone makes the key known-and-absent, so the nil ledger is never consulted
	db.Delete(c30pRawKey([]byte(gov.PRE_CONFIG)))
	sink := common.NewZeroCopySink(nil)
	(&gov.Configuration{N: K, C: C, K: K, L: L, BlockMsgDelay: 10000, HashMsgDelay: 10000, PeerHandshakeTimeout: 10, MaxBlockChangeView: 1000}).Serialization(sink)
	put([]byte(gov.VBFT_CONFIG), sink.Bytes())
	pm := &gov.PeerPoolMap{PeerPoolMap: map[string]*gov.PeerPoolItem{}}
	for _, p := range pool {
		pm.PeerPoolMap[p.Key] = &gov.PeerPoolItem{Index: p.Index, PeerPubkey: p.Key, Status: gov.Status(p.Status), InitPos: p.InitPos, TotalPos: p.TotalPos}
	}
	sink = common.NewZeroCopySink(nil)
	pm.Serialization(sink)
	put(append([]byte(gov.PEER_POOL), gov.GetUint32Bytes(c30pView)...), sink.Bytes())
	return db
}

func c30pRender(ch *vconfig.ChainConfig) string {
	var sb strings.Builder
	for _, p := range ch.Peers {
		fmt.Fprintf(&sb, "%d=%s;", p.Index, p.ID[:8])
	}
	fmt.Fprintf(&sb, "|N=%d,C=%d|", ch.N, ch.C)
	for _, x := range ch.PosTable {
		fmt.Fprintf(&sb, "%d,", x)
	}
	return sb.String()
}

func c30pOne(r *vh.Run, K, L, C uint32, pool []c30ppeer, allOrders bool) {
	cs := c30pcase{K: K, L: L, C: C, Pool: pool}
	shape := fmt.Sprintf("n=%d,K=%d,L=%d", len(pool), K, L)
	db := c30pMemDB(K, L, C, pool)
	const blk = 5
	// (a) the list as a set
	var list []*config.VBFTPeerStakeInfo
	var err error
	if pan := vh.Catch(func() { list, err = GetPeersConfig(db) }); pan != "" || err != nil {
		r.Violationf("GetPeersConfig:fails", cs, "%s: %v %s", shape, err, pan)
		return
	}
	r.Eval(1)
	want := map[string]string{}
	for _, p := range pool {
		want[p.Key] = fmt.Sprintf("%d/%d", p.Index, p.InitPos+p.TotalPos)
	}
	got := map[string]string{}
	for _, p := range list {
		got[p.PeerPubkey] = fmt.Sprintf("%d/%d", p.Index, p.InitPos)
	}
	if len(list) != len(pool) || fmt.Sprint(got) != fmt.Sprint(want) {
		r.Violationf("GetPeersConfig:set-differs-from-pool", cs, "%s: returned %v, pool %v", shape, got, want)
		return
	}
	// (b) every order of that list through the real GenesisChainConfig
	conf, err := GetVbftConfigInfo(db)
	r.Need(err == nil && conf.K == K && conf.L == L && conf.C == C, "GetVbftConfigInfo: %v %+v", err, conf)
	sort.Slice(list, func(i, j int) bool { return list[i].Index < list[j].Index })
	ref := ""
	var n int64
	enum := func(f func(p []int) bool) {
		if allOrders {
			vh.Permutations(len(list), f)
			return
		}
		m := len(list)
		for rot := 0; rot < m; rot++ {
			p, q := make([]int, m), make([]int, m)
			for i := range p {
				p[i], q[i] = (i+rot)%m, (m-1-i+rot)%m
			}
			if !f(p) || !f(q) {
				return
			}
		}
	}
	enum(func(p []int) bool {
		in := make([]*config.VBFTPeerStakeInfo, len(p))
		for i, o := range p {
			c := *list[o]
			in[i] = &c
		}
		var ch *vconfig.ChainConfig
		var e error
		pan := vh.Catch(func() { ch, e = vconfig.GenesisChainConfig(conf, in, c30pTx, blk) })
		n++
		out := fmt.Sprintf("error %v %s", e, pan)
		if ch != nil {
			out = c30pRender(ch)
		}
		if ref == "" {
			ref = out
		}
		if out != ref {
			c2 := cs
			c2.Order = append([]int{}, p...)
			r.Violationf("order-dependent:list-order", c2, "%s: list order %v gives %s, index order gives %s", shape, p, out, ref)
			return false
		}
		return true
	})
	r.Eval(n)
	// (c) the production path, repeatedly (the runtime picks the map order)
	orders := map[string]bool{}
	for rep := 0; rep < 12; rep++ {
		var ch *vconfig.ChainConfig
		var e error
		pan := vh.Catch(func() { ch, e = getChainConfig(db, blk) })
		r.Eval(1)
		if pan != "" || e != nil || ch == nil {
			r.Violationf("getChainConfig:fails", cs, "%s: %v %s", shape, e, pan)
			return
		}
		if out := c30pRender(ch); out != ref {
			r.Violationf("order-dependent:getChainConfig", cs, "%s: getChainConfig gives %s, GenesisChainConfig on the sorted list gives %s", shape, out, ref)
			return
		}
		if l2, e2 := GetPeersConfig(db); e2 == nil {
			var sb strings.Builder
			for _, p := range l2 {
				fmt.Fprintf(&sb, "%d,", p.Index)
			}
			orders[sb.String()] = true
		}
	}
	r.Add("map_orders_seen", int64(len(orders)))
	ties := 0
	st := make([]uint64, len(pool))
	for i, p := range pool {
		st[i] = p.InitPos + p.TotalPos
	}
	sort.Slice(st, func(i, j int) bool { return st[i] > st[j] })
	for i := 1; i < len(st); i++ {
		if st[i] == st[i-1] {
			ties++
		}
	}
	cut := "no-cut"
	if int(K) < len(st) {
		cut = "cut-strict"
		if st[K-1] == st[K] {
			cut = "cut-tied"
		}
	}
	r.ClassN(fmt.Sprintf("%s:%s,ties=%d", shape, cut, ties), n+12)
}

func TestVerif_C30_peersconfig(t *testing.T) {
	r := vh.Start(t, "C30", "peersconfig")
	defer r.Finish()
	r.Rule("real GetPeersConfig/GetVbftConfigInfo/getChainConfig over a MemDB holding governance view, vbft config and peer pool (no ledger): pools of n in {4,5,7,8} candidate/consensus peers, total stakes = every multiset over the alphabet split between InitPos and TotalPos, placed on the keys in 2 arrangements; the returned list must equal the pool as a set, the real GenesisChainConfig on every order of that list (all n! for n<=7, rotations/reversals for n=8) must give one configuration, and getChainConfig (12 calls, runtime-chosen map order) must give the same. classes = (shape, cut, number of stake ties)")
	r.Assume("map iteration order is not controlled; it is covered by composition: GetPeersConfig only decides the ORDER of a list whose content is checked, and every order of that list is executed")
	var rc c30pcase
	if r.ReplayCase(&rc) && rc.Pool != nil {
		c30pOne(r, rc.K, rc.L, rc.C, rc.Pool, len(rc.Pool) <= 7)
		return
	}
	type shape struct {
		n       int
		K, L, C uint32
		alpha   []uint64
	}
	small := []uint64{0, 1, 10000}
	mid := []uint64{0, 1, 10000, 10001}
	big := []uint64{0, 1, 2, 10000, 10001, 1 << 60}
	shapes := []shape{{4, 4, 8, 1, big}, {5, 4, 8, 1, mid}, {7, 7, 112, 2, []uint64{0, 10000}}, {8, 7, 112, 2, small}}
	if r.Thorough() {
		shapes = []shape{{4, 4, 8, 1, big}, {4, 3, 6, 1, big}, {5, 4, 8, 1, big}, {7, 4, 8, 1, mid}, {7, 7, 14, 2, mid}, {7, 7, 112, 2, small}, {8, 7, 112, 2, mid}}
	}
	item := 0
	sets := 0
outer:
	for _, sh := range shapes {
		var rec func(pos, from int, s []uint64)
		var ms [][]uint64
		rec = func(pos, from int, s []uint64) {
			if pos == sh.n {
				ms = append(ms, append([]uint64{}, s...))
				return
			}
			for i := from; i < len(sh.alpha); i++ {
				rec(pos+1, i, append(s, sh.alpha[i]))
			}
		}
		rec(0, 0, nil)
		for _, st := range ms {
			for arr := 0; arr < 2; arr++ {
				if arr == 1 && st[0] == st[len(st)-1] {
					continue
				}
				item++
				if !r.Mine(item) {
					continue
				}
				if r.Expired() {
					break outer
				}
				pool := make([]c30ppeer, sh.n)
				for i := range pool {
					s := st[i]
					if arr == 1 {
						s = st[sh.n-1-i]
					}
					// split the stake between InitPos and TotalPos in three ways
					ip, tp := s, uint64(0)
					switch i % 3 {
					case 1:
						ip, tp = 0, s
					case 2:
						ip, tp = s/2, s-s/2
					}
					status := uint8(gov.ConsensusStatus)
					if i%2 == 1 {
						status = uint8(gov.CandidateStatus)
					}
					pool[i] = c30ppeer{Index: uint32(10 + i), Key: c30pkeys[i], InitPos: ip, TotalPos: tp, Status: status}
				}
				c30pOne(r, sh.K, sh.L, sh.C, pool, sh.n <= 7)
				sets++
			}
		}
	}
	r.Set("pools", int64(sets))
	r.Sample(c30pcase{K: 4, L: 8, C: 1, Pool: []c30ppeer{{10, c30pkeys[0], 10000, 0, 2}, {11, c30pkeys[1], 0, 10000, 1}, {12, c30pkeys[2], 0, 1, 2}, {13, c30pkeys[3], 0, 0, 1}}})
	r.Need(sets > 0, "no pool evaluated")
}

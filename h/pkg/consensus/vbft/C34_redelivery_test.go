package vbft

// C34, unit "redelivery" — can two honest nodes DECIDE different blocks because
// one of them received some messages more than once?
//
// The network may deliver a message again: Server.onConsensusMsg deliberately
// lets a commit message that is already in the message pool through, vbft
// re-broadcasts its own commit messages (ReBroadcast action), and a node that
// enters a round with pooled messages feeds them to its block pool and then
// hands the first of them to the message loop once more.  Duplication belongs
// to the same family as the delays, losses and reorderings the property
// quantifies over.  The Server-level search (C34_safety_test.go) delivers every
// in-flight message at most once per destination; this unit adds repetition at
// the level of the seal decision, for worlds beyond N=4:
//
//   * one proposal A by the leader (peer 1) with its empty variant;
//   * every other peer is absent, or has sent an endorsement of A, an
//     endorsement of A's empty variant, a commit for A or a commit for A's
//     empty variant (honest-form messages, real signatures of the peer named;
//     commit messages carry endorsements really made for the same variant);
//   * node Y receives these messages once each, in one of two canonical orders;
//     node X receives the SAME messages in the SAME order of first arrival, but
//     some of them again (1..3 deliveries of a commit, 1..2 of an endorsement or
//     of the proposal; a copy may arrive at ANY point after the original;
//     bounded total number of extra deliveries);
//   * both feed a real BlockPool the way Server.processMsgEvent does
//     (newBlockProposal / newBlockEndorsement / newBlockCommitment, the real
//     commitDone after every accepted commit message once the proposal is
//     there, and once more at the end = commit timeout); the first "done" is
//     the node's seal decision;
//   * violation: X and Y both decide and decide different blocks (the full and
//     the empty variant, or blocks of different proposers).
//
// Nothing is compared between different arrival ORDERS or different message
// SUBSETS (that dependence is the business of the two other units, where it is
// a known finding): the two nodes differ in repetition only.

import (
	"fmt"
	"sort"
	"strings"
	"testing"

	"github.com/ontio/ontology/common"
	"github.com/ontio/ontology/core/signature"
	"github.com/ontio/ontology/verifshim/vh"
)

const (
	c34rAbsent  = 0
	c34rE       = 1 // endorsement of A delivered
	c34rEe      = 2 // endorsement of A's empty variant delivered
	c34rK       = 3 // commit for A delivered (the peer's endorsement of A was made; commit lists may carry it)
	c34rKe      = 4 // commit for A's empty variant delivered (its empty endorsement was made)
	c34rNStates = 5
)

var c34rPolicies = []string{"all-made-endorsements-of-the-variant", "all-but-own", "no-endorsements"}

type c34rWorld struct {
	q     *c34qWorld
	ehash common.Uint256
	eend  map[uint32]*blockEndorseMsg
	ecsig map[uint32][]byte
}

func c34rNewWorld(n, c uint32) *c34rWorld {
	w := &c34rWorld{q: c34qNewWorld(n, c), eend: map[uint32]*blockEndorseMsg{}, ecsig: map[uint32][]byte{}}
	w.ehash = w.q.props[0].Block.EmptyBlock.Hash()
	for i := uint32(2); i <= n; i++ {
		s, err := signature.Sign(w.q.accts[i], w.ehash[:])
		if err != nil {
			panic(err)
		}
		e := &blockEndorseMsg{Endorser: i, EndorsedProposer: 1, BlockNum: 1, EndorsedBlockHash: w.ehash, EndorseForEmpty: true, EndorserSig: s}
		if err := e.Verify(w.q.accts[i].PublicKey); err != nil {
			panic("VERIF-INFRA empty endorsement does not pass the real Verify: " + err.Error())
		}
		w.eend[i] = e
		if w.ecsig[i], err = signature.Sign(w.q.accts[i], w.ehash[:]); err != nil {
			panic(err)
		}
		if err := w.commitEmpty(i, nil).Verify(w.q.accts[i].PublicKey); err != nil {
			panic("VERIF-INFRA empty commit does not pass the real Verify: " + err.Error())
		}
	}
	return w
}

// the form constructCommitMsg gives a commit for the empty variant
func (w *c34rWorld) commitEmpty(k uint32, list []uint32) *blockCommitMsg {
	es := make(map[uint32][]byte, len(list))
	for _, j := range list {
		es[j] = w.eend[j].EndorserSig
	}
	return &blockCommitMsg{Committer: k, BlockProposer: 1, BlockNum: 1, CommitBlockHash: w.ehash, CommitForEmpty: true,
		ProposerSig: w.q.props[0].EmptyBlockProposerSig, EndorsersSig: es, CommitterSig: w.ecsig[k]}
}

// what one node has received once each (the base view, node Y)
type c34rView struct {
	Endorse      []uint32 `json:"endorsements_delivered"`
	EndorseEmpty []uint32 `json:"empty_endorsements_delivered"`
	Commit       []uint32 `json:"commits_delivered"`
	CommitEmpty  []uint32 `json:"empty_commits_delivered"`
	Policy       int      `json:"commit_list_policy"`
	Reverse      bool     `json:"reverse_order"`
}

type c34rItem struct {
	kind  int // 0 proposal, 1 endorsement, 2 commit
	peer  uint32
	empty bool
}

func (it c34rItem) label() string {
	e := ""
	if it.empty {
		e = "-for-empty"
	}
	switch it.kind {
	case 0:
		return "proposal(1)"
	case 1:
		return fmt.Sprintf("endorse%s(%d)", e, it.peer)
	}
	return fmt.Sprintf("commit%s(%d)", e, it.peer)
}

func c34rHas(l []uint32, x uint32) bool {
	for _, y := range l {
		if y == x {
			return true
		}
	}
	return false
}

// base sequence: proposal, endorsements and commits by ascending peer (or exactly the reverse)
func (v *c34rView) sequence(n uint32) []c34rItem {
	seq := []c34rItem{{kind: 0, peer: 1}}
	for i := uint32(2); i <= n; i++ {
		if c34rHas(v.Endorse, i) {
			seq = append(seq, c34rItem{1, i, false})
		}
		if c34rHas(v.EndorseEmpty, i) {
			seq = append(seq, c34rItem{1, i, true})
		}
	}
	for i := uint32(2); i <= n; i++ {
		if c34rHas(v.Commit, i) {
			seq = append(seq, c34rItem{2, i, false})
		}
		if c34rHas(v.CommitEmpty, i) {
			seq = append(seq, c34rItem{2, i, true})
		}
	}
	if v.Reverse {
		for i, j := 0, len(seq)-1; i < j; i, j = i+1, j-1 {
			seq[i], seq[j] = seq[j], seq[i]
		}
	}
	return seq
}

func c34rSorted(a, b []uint32) []uint32 {
	l := append(append([]uint32{}, a...), b...)
	sort.Slice(l, func(i, j int) bool { return l[i] < l[j] })
	return l
}

// endorser list a commit message of peer k carries: endorsements really made for the same variant
func (v *c34rView) list(k uint32, empty bool) []uint32 {
	made := c34rSorted(v.Endorse, v.Commit)
	if empty {
		made = c34rSorted(v.EndorseEmpty, v.CommitEmpty)
	}
	switch v.Policy {
	case 0:
		return made
	case 1:
		var l []uint32
		for _, j := range made {
			if j != k {
				l = append(l, j)
			}
		}
		return l
	}
	return nil
}

// the peers that must be faulty for the messages of the view to exist: an honest committer commits a variant only
// after its endorse round completed for it (endorseDone: more than C signatures for the block, the proposer's
// included / more than C empty endorsements)
func (v *c34rView) faulty(c uint32) []uint32 {
	var f []uint32
	if uint32(len(v.Endorse)+len(v.Commit)) < c {
		f = append(f, v.Commit...)
	}
	if uint32(len(v.EndorseEmpty)+len(v.CommitEmpty)) < c+1 {
		f = append(f, v.CommitEmpty...)
	}
	sort.Slice(f, func(i, j int) bool { return f[i] < f[j] })
	return f
}

// node X's delivery sequence: order[i] is the index (in the base sequence) of the i-th message delivered
func c34rExpand(seq []c34rItem, order []int) []c34rItem {
	out := make([]c34rItem, len(order))
	for i, j := range order {
		out[i] = seq[j]
	}
	return out
}

// a well-formed order: every base message occurs, first occurrences in base order, at most 3 deliveries of a commit
// and 2 of anything else
func c34rOrderOK(seq []c34rItem, order []int) bool {
	cnt := make([]int, len(seq))
	next := 0
	for _, j := range order {
		if j < 0 || j >= len(seq) || j > next {
			return false
		}
		if j == next {
			next++
		}
		cnt[j]++
		if cnt[j] > 2 && (seq[j].kind != 2 || cnt[j] > 3) {
			return false
		}
	}
	return next == len(seq)
}

// c34rSequences enumerates every delivery sequence of node X that is not the base sequence itself: the messages of
// seq first arrive in the order of seq; at any point a message that has arrived already may arrive again (<=2 further
// copies of a commit, <=1 of an endorsement or the proposal), at most `budget` extra deliveries in total.
func c34rSequences(seq []c34rItem, budget int, f func(order []int)) {
	L := len(seq)
	cnt := make([]int, L)
	order := make([]int, 0, L+budget)
	var rec func(next, left int)
	rec = func(next, left int) {
		if next == L && len(order) > L {
			f(order)
		}
		if next < L {
			order = append(order, next)
			rec(next+1, left)
			order = order[:len(order)-1]
		}
		if left > 0 {
			for j := 0; j < next; j++ {
				max := 1
				if seq[j].kind == 2 {
					max = 2
				}
				if cnt[j] >= max {
					continue
				}
				cnt[j]++
				order = append(order, j)
				rec(next, left-1)
				order = order[:len(order)-1]
				cnt[j]--
			}
		}
	}
	rec(0, budget)
}

// the commit messages of a view, built once (every delivery hands the pool a copy of its own, as off the wire)
type c34rMsgs struct {
	full, empty map[uint32]*blockCommitMsg
}

func (w *c34rWorld) prepare(v *c34rView) *c34rMsgs {
	p := &c34rMsgs{full: map[uint32]*blockCommitMsg{}, empty: map[uint32]*blockCommitMsg{}}
	for _, k := range v.Commit {
		p.full[k] = w.q.commit(0, k, v.list(k, false))
	}
	for _, k := range v.CommitEmpty {
		p.empty[k] = w.commitEmpty(k, v.list(k, true))
	}
	return p
}

// decide plays a delivery sequence into a fresh real BlockPool the way processMsgEvent does and returns the node's
// seal decision (c34qUndecided / c34qFull / c34qEmpty / c34qForeign) and the number of deliveries consumed by then.
func (w *c34rWorld) decide(p *c34rMsgs, seq []c34rItem) (int, int) {
	q := w.q
	pool := &BlockPool{server: q.srv, HistoryLen: 64, candidateBlocks: make(map[uint32]*CandidateInfo)}
	q.srv.blockPool = pool
	prop := false
	verdict := func(proposer uint32, forEmpty bool) int {
		switch {
		case proposer != 1:
			return c34qForeign
		case forEmpty:
			return c34qEmpty
		}
		return c34qFull
	}
	for i, it := range seq {
		switch it.kind {
		case 0:
			pool.newBlockProposal(q.props[0])
			prop = true
		case 1:
			src := q.end[0][it.peer]
			if it.empty {
				src = w.eend[it.peer]
			}
			m := *src
			pool.newBlockEndorsement(&m)
		case 2:
			src := p.full[it.peer]
			if it.empty {
				src = p.empty[it.peer]
			}
			m := *src
			if err := pool.newBlockCommitment(&m); err != nil {
				continue
			}
			if proposer, forEmpty, done := pool.commitDone(1, q.c, q.n); done && prop {
				return verdict(proposer, forEmpty), i + 1
			}
		}
	}
	// commit timeout
	if proposer, forEmpty, done := pool.commitDone(1, q.c, q.n); done && prop {
		return verdict(proposer, forEmpty), len(seq)
	}
	return c34qUndecided, len(seq)
}

type c34rCase struct {
	Unit   string   `json:"unit"`
	N      uint32   `json:"n"`
	C      uint32   `json:"c"`
	Faulty []uint32 `json:"faulty_peers"`
	View   c34rView `json:"messages_delivered_once_to_node_y"`
	Order  []int    `json:"node_x_delivery_order_as_indices_into_node_y_deliveries"`
	SeqY   []string `json:"node_y_deliveries"`
	SeqX   []string `json:"node_x_deliveries"`
}

func c34rLabels(seq []c34rItem) []string {
	var l []string
	for _, it := range seq {
		l = append(l, it.label())
	}
	return l
}

var c34rKindNames = []string{"proposal", "endorse", "endorse-for-empty", "commit", "commit-for-empty"}

// kinds (bit set over c34rKindNames) of the messages delivered AGAIN to X among its first `used` deliveries
func c34rKindMask(xs []c34rItem, used int) int {
	var seen [3 * 64]bool
	mask := 0
	for i, it := range xs {
		if i >= used {
			break
		}
		id := it.kind*64 + int(it.peer)*2
		k := it.kind*2 - 1
		if it.kind == 0 {
			k = 0
		}
		if it.empty {
			id++
			k++
		}
		if seen[id] {
			mask |= 1 << uint(k)
		}
		seen[id] = true
	}
	return mask
}

func c34rKinds(mask int) string {
	var l []string
	for i, n := range c34rKindNames {
		if mask&(1<<uint(i)) != 0 {
			l = append(l, n)
		}
	}
	if len(l) == 0 {
		return "nothing"
	}
	return strings.Join(l, "+")
}

// judge runs both nodes on fresh pools; key and detail when they decide different blocks
func (w *c34rWorld) judge(c *c34rCase) (string, string) {
	seq := c.View.sequence(w.q.n)
	if !c34rOrderOK(seq, c.Order) {
		return "", ""
	}
	xs := c34rExpand(seq, c.Order)
	p := w.prepare(&c.View)
	dy, _ := w.decide(p, seq)
	dx, used := w.decide(p, xs)
	if dx == c34qUndecided || dy == c34qUndecided || dx == dy {
		return "", ""
	}
	c.SeqY, c.SeqX = c34rLabels(seq), c34rLabels(xs)
	key := fmt.Sprintf("redelivery:two-blocks-decided:%s-and-%s-of-one-proposer:N=%d,C=%d:re-delivered=%s",
		c34qKindName[dy], c34qKindName[dx], w.q.n, w.q.c, c34rKinds(c34rKindMask(xs, used)))
	detail := fmt.Sprintf("N=%d C=%d, faulty peers %v (%s), honest-form messages only. Node Y receives {%s} once each and decides to seal the %s of proposer 1; node X receives the same messages in the same order of first arrival, some of them again: {%s}, and decides to seal the %s (after %d deliveries)",
		w.q.n, w.q.c, c.Faulty, c34qVariant(c.Faulty), strings.Join(c.SeqY, " "), c34qKindName[dy], strings.Join(c.SeqX, " "), c34qKindName[dx], used)
	return key, detail
}

var c34rOutcome = map[int]string{c34qUndecided: "undecided", c34qFull: "decides-block", c34qEmpty: "decides-empty-block", c34qForeign: "decides-block-of-a-proposer-without-messages"}

func TestVerif_C34_Redelivery(t *testing.T) {
	r := vh.Start(t, "C34", "redelivery")
	defer r.Finish()
	r.Rule("worlds (N,C); one proposal A of the leader; per other peer {absent | endorsement of A delivered | endorsement of A's empty variant delivered | commit for A delivered | commit for A's empty variant delivered} x endorser list carried by commit messages {all endorsements made for the same variant, all but the committer's own, none} x two orders of first arrival (proposal, endorsements, commits by ascending peer; the exact reverse); views needing more than C faulty peers (a committer of a variant whose endorse round cannot have completed) are dropped. Node Y gets every message once. Node X gets the same messages in the same order of first arrival and, at ANY later point, any of them again (<=2 further copies of a commit, <=1 of an endorsement or the proposal, bounded total number of extra deliveries): every such sequence. Each delivery is played into a fresh real BlockPool as processMsgEvent does (newBlockProposal / newBlockEndorsement / newBlockCommitment; real commitDone after every accepted commit once the proposal is there, and at the end as the commit timeout); the first 'done' is the seal decision. Violation: X and Y both decide and decide different blocks")
	r.Assume("honest-form messages only (real signatures by the peer named; commit lists hold endorsements really made for the same variant; forged lists are known findings of the other units); every peer supports one variant; reachability of a message set through the node control flow is over-approximated (any peer may endorse and commit; a variant is committed by an honest peer only when enough endorsements for it were made, otherwise its committers count as faulty, at most C); the two nodes differ in repetition only, not in order or subset; block-pool level (msgPool bookkeeping and timers of the Server are not run); one height")
	type wc struct {
		n, c   uint32
		budget int // extra deliveries to node X
	}
	worlds := []wc{{4, 1, 2}, {5, 1, 2}, {6, 1, 2}, {7, 2, 1}}
	if r.Thorough() {
		worlds = []wc{{4, 1, 3}, {5, 1, 3}, {6, 1, 3}, {7, 2, 2}, {7, 1, 2}, {8, 2, 1}}
	}
	var rc c34rCase
	if r.IsReplay() {
		if r.ReplayCase(&rc) && rc.Unit == "redelivery" && rc.N != 0 {
			w := c34rNewWorld(rc.N, rc.C)
			if k, d := w.judge(&rc); k != "" {
				r.Violation(k, d, rc)
			}
		}
		return
	}
	var bounds []string
	item := 0
	for _, wd := range worlds {
		bounds = append(bounds, fmt.Sprintf("(%d,%d)<=%d extra", wd.n, wd.c, wd.budget))
		var w *c34rWorld
		tag := fmt.Sprintf("redelivery:N=%d,C=%d", wd.n, wd.c)
		// work items: (world, what peers 2 and 3 did)
		for first := 0; first < c34rNStates*c34rNStates; first++ {
			item++
			if !r.Mine(item - 1) {
				continue
			}
			if w == nil {
				w = c34rNewWorld(wd.n, wd.c)
			}
			type hit struct {
				c      c34rCase
				detail string
				size   int
			}
			best := map[string]*hit{}
			var bestKeys []string
			radix := make([]int, wd.n-3)
			for i := range radix {
				radix[i] = c34rNStates
			}
			var runs, bases int64
			expired := false
			vh.Odometer(radix, func(d []int) bool {
				if r.Expired() {
					expired = true
					return false
				}
				var v c34rView
				for i, st := range append([]int{first / c34rNStates, first % c34rNStates}, d...) {
					m := uint32(i + 2)
					switch st {
					case c34rE:
						v.Endorse = append(v.Endorse, m)
					case c34rEe:
						v.EndorseEmpty = append(v.EndorseEmpty, m)
					case c34rK:
						v.Commit = append(v.Commit, m)
					case c34rKe:
						v.CommitEmpty = append(v.CommitEmpty, m)
					}
				}
				fl := v.faulty(wd.c)
				if uint32(len(fl)) > wd.c {
					return true
				}
				npol := len(c34rPolicies)
				if len(v.Commit)+len(v.CommitEmpty) == 0 {
					npol = 1
				}
				for pol := 0; pol < npol; pol++ {
					for rev := 0; rev < 2; rev++ {
						vv := v
						vv.Policy, vv.Reverse = pol, rev == 1
						seq := vv.sequence(wd.n)
						pm := w.prepare(&vv)
						dy, _ := w.decide(pm, seq)
						runs++
						bases++
						r.Class(tag + ":once-each:" + c34rOutcome[dy])
						c34rSequences(seq, wd.budget, func(order []int) {
							xs := c34rExpand(seq, order)
							dx, used := w.decide(pm, xs)
							runs++
							if mask := c34rKindMask(xs, used); mask != 0 {
								for i, k := range c34rKindNames {
									if mask&(1<<uint(i)) != 0 {
										r.Class("redelivery:" + k + "-delivered-again-before-the-decision:" + c34rOutcome[dx])
									}
								}
							}
							switch {
							case dx == dy:
							case dy == c34qUndecided:
								r.Class(tag + ":decision-only-with-repetition")
							case dx == c34qUndecided:
								r.Class(tag + ":no-decision-with-repetition")
							default:
								// every extra delivery necessary: with any one of them removed X decides like Y
								seen := make([]bool, len(seq))
								for i, j := range order {
									if !seen[j] {
										seen[j] = true
										continue
									}
									less := append(append([]int{}, order[:i]...), order[i+1:]...)
									runs++
									if d2, _ := w.decide(pm, c34rExpand(seq, less)); d2 != dy {
										return
									}
								}
								c := c34rCase{Unit: "redelivery", N: wd.n, C: wd.c, Faulty: fl, View: vv, Order: append([]int{}, order...)}
								k, det := w.judge(&c)
								if k == "" {
									t.Fatalf("VERIF-INFRA %s: differing decisions did not reproduce on fresh pools: %+v", tag, c)
								}
								if h := best[k]; h == nil || len(xs) < h.size {
									if h == nil {
										bestKeys = append(bestKeys, k)
									}
									best[k] = &hit{c, det, len(xs)}
								}
							}
						})
					}
				}
				return true
			})
			if expired {
				break
			}
			r.Eval(runs)
			r.Trace(runs)
			r.Add(tag+".views_once_each", bases)
			r.Add(tag+".delivery_sequences", runs)
			sort.Strings(bestKeys)
			for _, k := range bestKeys {
				r.Violation(k, best[k].detail, best[k].c)
			}
			if first == c34rKe*c34rNStates+c34rK && wd.n == 4 {
				r.Sample(map[string]interface{}{"world": tag, "peer_2": "commit-for-empty", "peer_3": "commit", "views_once_each": bases, "delivery_sequences": runs})
			}
		}
	}
	r.Bound(fmt.Sprintf("worlds (N,C) in %s, one height, one proposal with its empty variant, 5^(N-1) supporter assignments x 3 commit-list policies x 2 orders of first arrival, every delivery sequence of node X with at most the stated number of extra deliveries (<=2 per commit, <=1 per endorsement/proposal) at any later point", strings.Join(bounds, " ")))
}

package vbft

// C34, unit "decisionquorum" — can two honest nodes DECIDE different blocks
// from the messages two disjoint camps of peers can produce?
//
// The Server-level search (C34_safety_test.go) is bound to N=4, C=1.  The seal
// decision itself (BlockPool.commitDone -> getCommitConsensus / signature
// count) depends on N and C, and the property quantifies over every N >= 3C+1.
// This unit decides the property for the decision rule on message SETS, for
// worlds (N,C) that include sizes not of the form 3C+1:
//
//   * two competing proposals, A by the leader (peer 1) and B by the second
//     proposer (peer 2);
//   * every peer other than a block's proposer may support it by an
//     endorsement, a commit message, or both; an HONEST peer supports at most
//     one of A and B (the proposers support their own block), a Byzantine
//     peer (0..C of them, any identity) may support both, towards different
//     nodes, with the same well-formed messages;
//   * node X has received some subset of the messages supporting A, node Y
//     some subset of the messages supporting B ("view"); both feed them to a
//     real BlockPool and ask the real commitDone;
//   * violation: X's commitDone declares one block and Y's another.
//
// Only HONEST-FORM messages are built: real signatures of the peer named in
// the message, commit messages whose endorser list holds only endorsements
// that were really made for that block (by peers of the same camp), a proposer
// never endorses or commits its own block (endorseBlock/commitBlock return
// early for it), and a commit is only made when at least C endorsements exist
// (endorseDone needs C+1 signatures, the proposer's included).  Forged
// indices and junk endorser lists are the business of C31 and of the
// Server-level unit (known findings); they are deliberately not used here.
//
// The search is factored: X's decision depends only on X's view, so for each
// side the table "camp S -> is there a view built from S's messages that makes
// commitDone declare the block" is computed by running EVERY view once; then
// every pair of camps compatible with a fault set F is looked up.  The
// reported case is re-run on two fresh pools (this is also what --replay does).

import (
	"fmt"
	"math"
	"sort"
	"strings"
	"testing"

	"github.com/ontio/ontology/account"
	"github.com/ontio/ontology/common"
	vconfig "github.com/ontio/ontology/consensus/vbft/config"
	"github.com/ontio/ontology/core/signature"
	"github.com/ontio/ontology/verifshim/vh"
)

const (
	c34qAbsent   = 0 // not a supporter
	c34qE        = 1 // endorsement made and delivered, no commit delivered
	c34qK        = 2 // commit delivered, no endorsement made
	c34qKmadeE   = 3 // commit delivered, endorsement made but not delivered (can be named in commit messages)
	c34qEK       = 4 // endorsement and commit delivered
	c34qMadeOnly = 5 // endorsement made, nothing of this peer delivered directly (can be named in commit messages)
	c34qNStates  = 6
)

var c34qPolicies = []string{"all-made-endorsements", "all-made-endorsements-but-own", "lowest-C-made-endorsements", "no-endorsements"}

type c34qWorld struct {
	n, c  uint32
	accts map[uint32]*account.Account
	props [2]*blockProposalMsg
	hash  [2]common.Uint256
	end   [2]map[uint32]*blockEndorseMsg
	csig  [2]map[uint32][]byte
	srv   *Server
}

func c34qProposer(side int) uint32 { return uint32(side + 1) }

func c34qNewWorld(n, c uint32) *c34qWorld {
	w := &c34qWorld{n: n, c: c, accts: map[uint32]*account.Account{}}
	for i := uint32(1); i <= n; i++ {
		w.accts[i] = c31acct(int(i) + 60)
	}
	sign := func(i uint32, h common.Uint256) []byte {
		s, err := signature.Sign(w.accts[i], h[:])
		if err != nil {
			panic(err)
		}
		return s
	}
	for side := 0; side < 2; side++ {
		p := c34qProposer(side)
		blk, eblk := c31header(p, uint64(p)+100, false), c31header(p, uint64(p)+100, true)
		bh, eh := blk.Hash(), eblk.Hash()
		blk.Header.SigData = [][]byte{sign(p, bh)}
		eblk.Header.SigData = [][]byte{sign(p, eh)}
		m := &blockProposalMsg{Block: &Block{Block: blk, EmptyBlock: eblk, Info: &vconfig.VbftBlockInfo{Proposer: p}},
			BlockProposerSig: blk.Header.SigData[0], EmptyBlockProposerSig: eblk.Header.SigData[0]}
		if err := m.Verify(w.accts[p].PublicKey); err != nil {
			panic("VERIF-INFRA proposal does not pass the real Verify: " + err.Error())
		}
		w.props[side], w.hash[side] = m, bh
		w.end[side], w.csig[side] = map[uint32]*blockEndorseMsg{}, map[uint32][]byte{}
		for i := uint32(1); i <= n; i++ {
			if i == p {
				continue // a proposer neither endorses nor commits its own block
			}
			e := &blockEndorseMsg{Endorser: i, EndorsedProposer: p, BlockNum: 1, EndorsedBlockHash: bh, EndorserSig: sign(i, bh)}
			if err := e.Verify(w.accts[i].PublicKey); err != nil {
				panic("VERIF-INFRA endorsement does not pass the real Verify: " + err.Error())
			}
			w.end[side][i] = e
			w.csig[side][i] = sign(i, bh)
		}
	}
	// every commit message used below has the form commit(side, k, list): check the form once per (side, k)
	// with the longest list (Verify looks at the committer's signature only)
	for side := 0; side < 2; side++ {
		var all []uint32
		for i := uint32(1); i <= n; i++ {
			if i != c34qProposer(side) {
				all = append(all, i)
			}
		}
		for _, k := range all {
			if err := w.commit(side, k, all).Verify(w.accts[k].PublicKey); err != nil {
				panic("VERIF-INFRA commit does not pass the real Verify: " + err.Error())
			}
		}
	}
	pp := NewPeerPool(int(n), nil)
	var ids []uint32
	for i := uint32(1); i <= n; i++ {
		if err := pp.addPeer(&vconfig.PeerConfig{Index: i, ID: vconfig.PubkeyID(w.accts[i].PublicKey)}); err != nil {
			panic(err)
		}
		ids = append(ids, i)
	}
	// roles: every peer is endorser and committer (the real selection overlaps the two lists when there are
	// fewer than 2C+1 of a kind; the roles only decide who broadcasts, commitDone reads them for empty
	// endorsements only)
	w.srv = &Server{Index: n, config: &vconfig.ChainConfig{N: n, C: c}, peerPool: pp,
		stateMgr:                 &StateMgr{currentState: Synced},
		chainStore:               &ChainStore{chainedBlockNum: 0},
		currentParticipantConfig: &BlockParticipantConfig{BlockNum: 1, Proposers: []uint32{1, 2}, Endorsers: ids, Committers: ids}}
	return w
}

func (w *c34qWorld) commit(side int, k uint32, list []uint32) *blockCommitMsg {
	es := make(map[uint32][]byte, len(list))
	for _, j := range list {
		es[j] = w.end[side][j].EndorserSig // the endorsement really made by j
	}
	return &blockCommitMsg{Committer: k, BlockProposer: c34qProposer(side), BlockNum: 1, CommitBlockHash: w.hash[side],
		ProposerSig: w.props[side].BlockProposerSig, EndorsersSig: es, CommitterSig: w.csig[side][k]}
}

// a view: what one node has received of the messages supporting one block
type c34qView struct {
	Side    int      `json:"side"` // 0: block A of peer 1, 1: block B of peer 2
	Prop    bool     `json:"proposal_delivered"`
	Endorse []uint32 `json:"endorsements_delivered"`
	Commit  []uint32 `json:"commits_delivered"`
	Made    []uint32 `json:"endorsements_made"` // superset of Endorse; what commit messages may carry
	Policy  int      `json:"commit_list_policy"`
	Reverse bool     `json:"reverse_order"`
}

func (v *c34qView) list(c uint32, k uint32) []uint32 {
	switch v.Policy {
	case 0:
		return v.Made
	case 1:
		var l []uint32
		for _, j := range v.Made {
			if j != k {
				l = append(l, j)
			}
		}
		return l
	case 2:
		if uint32(len(v.Made)) > c {
			return v.Made[:c]
		}
		return v.Made
	}
	return nil
}

func (v *c34qView) camp() uint32 { // bit i-1 for supporter i
	var m uint32
	for _, l := range [][]uint32{v.Endorse, v.Commit, v.Made} {
		for _, i := range l {
			m |= 1 << (i - 1)
		}
	}
	return m
}

func (v *c34qView) messages() int {
	n := len(v.Endorse) + len(v.Commit)
	if v.Prop {
		n++
	}
	return n
}

func (v *c34qView) describe(c uint32) string {
	var parts []string
	if v.Prop {
		parts = append(parts, fmt.Sprintf("proposal(%d)", c34qProposer(v.Side)))
	}
	for _, e := range v.Endorse {
		parts = append(parts, fmt.Sprintf("endorse(%d)", e))
	}
	for _, k := range v.Commit {
		parts = append(parts, fmt.Sprintf("commit(%d,E=%v)", k, v.list(c, k)))
	}
	if v.Reverse {
		for i, j := 0, len(parts)-1; i < j; i, j = i+1, j-1 {
			parts[i], parts[j] = parts[j], parts[i]
		}
	}
	return strings.Join(parts, " ")
}

const (
	c34qUndecided = iota
	c34qFull
	c34qEmpty
	c34qForeign
)

// decide feeds the view to a fresh real BlockPool and asks the real commitDone.
func (w *c34qWorld) decide(v *c34qView) (int, string) {
	pool := &BlockPool{server: w.srv, HistoryLen: 64, candidateBlocks: make(map[uint32]*CandidateInfo)}
	w.srv.blockPool = pool
	side := v.Side
	if !v.Reverse {
		if v.Prop {
			pool.newBlockProposal(w.props[side])
		}
		for _, e := range v.Endorse {
			pool.newBlockEndorsement(w.end[side][e])
		}
		for _, k := range v.Commit {
			pool.newBlockCommitment(w.commit(side, k, v.list(w.c, k)))
		}
	} else {
		for i := len(v.Commit) - 1; i >= 0; i-- {
			k := v.Commit[i]
			pool.newBlockCommitment(w.commit(side, k, v.list(w.c, k)))
		}
		for i := len(v.Endorse) - 1; i >= 0; i-- {
			pool.newBlockEndorsement(w.end[side][v.Endorse[i]])
		}
		if v.Prop {
			pool.newBlockProposal(w.props[side])
		}
	}
	proposer, forEmpty, done := pool.commitDone(1, w.c, w.n)
	if !done {
		return c34qUndecided, ""
	}
	path := "endorse-sigs"
	if c := pool.candidateBlocks[1]; c != nil {
		if p, _ := getCommitConsensus(c.CommitMsgs, int(w.c), int(w.n)); p != math.MaxUint32 {
			path = "commit-msgs"
		}
	}
	switch {
	case proposer != c34qProposer(side):
		return c34qForeign, path
	case forEmpty:
		return c34qEmpty, path
	}
	return c34qFull, path
}

type c34qCase struct {
	Unit   string   `json:"unit"`
	N      uint32   `json:"n"`
	C      uint32   `json:"c"`
	Faulty []uint32 `json:"faulty_peers"`
	X      c34qView `json:"node_x_view"`
	Y      c34qView `json:"node_y_view"`
}

func c34qVariant(faulty []uint32) string {
	if len(faulty) == 0 {
		return "no-faulty-peer"
	}
	var roles []string
	for _, f := range faulty {
		switch f {
		case 1:
			roles = append(roles, "leader")
		case 2:
			roles = append(roles, "second-proposer")
		default:
			roles = append(roles, "non-proposer")
		}
	}
	sort.Strings(roles)
	return fmt.Sprintf("%d-byzantine(%s)", len(faulty), strings.Join(roles, "+"))
}

var c34qKindName = map[int]string{c34qFull: "block", c34qEmpty: "empty-block", c34qForeign: "block-of-a-proposer-without-messages"}

func c34qPop(m uint32) int {
	n := 0
	for ; m != 0; m &= m - 1 {
		n++
	}
	return n
}

// judge runs both views on fresh pools and, when the two nodes decide different blocks, returns key and detail.
func (w *c34qWorld) judge(c *c34qCase) (string, string) {
	dx, px := w.decide(&c.X)
	dy, py := w.decide(&c.Y)
	if dx == c34qUndecided || dy == c34qUndecided || (c.X.Side == c.Y.Side && dx == dy) {
		return "", ""
	}
	sa, sb := c34qPop(c.X.camp())+1, c34qPop(c.Y.camp())+1
	rel := "blocks-of-different-proposers"
	if c.X.Side == c.Y.Side {
		rel = "two-blocks-of-one-proposer"
	}
	if dx != c34qFull || dy != c34qFull {
		rel += ":" + c34qKindName[dx] + "-and-" + c34qKindName[dy]
	}
	key := fmt.Sprintf("decision-quorum:two-blocks-decided:%s:N=%d,C=%d:%s:camp-sizes=%d+%d", rel, w.n, w.c, c34qVariant(c.Faulty), sa, sb)
	detail := fmt.Sprintf("N=%d C=%d (seal quorum N-(N-1)/3 = %d signatures), faulty peers %v, well-formed messages only: node X received {%s} and its commitDone declares the %s of proposer %d (via %s; %d peers incl. the proposer support it); node Y received {%s} and its commitDone declares the %s of proposer %d (via %s; %d supporters); no honest peer supports both blocks",
		w.n, w.c, w.n-(w.n-1)/3, c.Faulty, c.X.describe(w.c), c34qKindName[dx], c34qProposer(c.X.Side), px, sa,
		c.Y.describe(w.c), c34qKindName[dy], c34qProposer(c.Y.Side), py, sb)
	return key, detail
}

type c34qTable struct {
	// per decision kind: camp mask -> smallest view (fewest delivered messages) reaching that decision
	best [4]map[uint32]*c34qView
}

// enumerate every view of one side; returns the number of views run (-1 when the deadline passed)
func (w *c34qWorld) enumerate(r *vh.Run, side int, tab *c34qTable) int64 {
	p := c34qProposer(side)
	var members []uint32
	for i := uint32(1); i <= w.n; i++ {
		if i != p {
			members = append(members, i)
		}
	}
	for k := range tab.best {
		tab.best[k] = map[uint32]*c34qView{}
	}
	radix := make([]int, len(members))
	for i := range radix {
		radix[i] = c34qNStates
	}
	tag := fmt.Sprintf("quorum:N=%d,C=%d", w.n, w.c)
	var views int64
	expired := false
	vh.Odometer(radix, func(d []int) bool {
		if views&0xfff == 0 && r.Expired() {
			expired = true
			return false
		}
		var v c34qView
		v.Side = side
		for i, st := range d {
			m := members[i]
			switch st {
			case c34qE:
				v.Endorse, v.Made = append(v.Endorse, m), append(v.Made, m)
			case c34qK:
				v.Commit = append(v.Commit, m)
			case c34qKmadeE:
				v.Commit, v.Made = append(v.Commit, m), append(v.Made, m)
			case c34qEK:
				v.Endorse, v.Commit, v.Made = append(v.Endorse, m), append(v.Commit, m), append(v.Made, m)
			case c34qMadeOnly:
				v.Made = append(v.Made, m)
			}
		}
		if len(v.Commit) > 0 && uint32(len(v.Made)) < w.c {
			return true // no honest-form commit exists before C endorsements were made
		}
		camp := v.camp()
		npol := len(c34qPolicies)
		if len(v.Commit) == 0 {
			npol = 1
		}
		for pol := 0; pol < npol; pol++ {
			for prop := 0; prop < 2; prop++ {
				for rev := 0; rev < 2; rev++ {
					vv := v
					vv.Policy, vv.Prop, vv.Reverse = pol, prop == 1, rev == 1
					dec, path := w.decide(&vv)
					views++
					if dec == c34qUndecided {
						r.Class(tag + ":undecided")
						continue
					}
					r.Class(tag + ":decided-via-" + path)
					r.Class("quorum:decided-via-" + path)
					if dec != c34qFull {
						r.Class(tag + ":decided:" + c34qKindName[dec])
					}
					if old := tab.best[dec][camp]; old == nil || vv.messages() < old.messages() {
						cp := vv
						tab.best[dec][camp] = &cp
					}
				}
			}
		}
		return true
	})
	if expired {
		return -1
	}
	return views
}

func c34qPeers(mask uint32) []uint32 {
	var l []uint32
	for i := uint32(0); i < 32; i++ {
		if mask&(1<<i) != 0 {
			l = append(l, i+1)
		}
	}
	return l
}

func TestVerif_C34_DecisionQuorum(t *testing.T) {
	r := vh.Start(t, "C34", "decisionquorum")
	defer r.Finish()
	r.Rule("worlds (N,C) incl. sizes not of the form 3C+1; two competing proposals A (leader, peer 1) and B (second proposer, peer 2); for each block every VIEW a node can have of its supporters' well-formed messages is fed to a real BlockPool and the real commitDone is asked: per other peer {absent | endorsement delivered | commit delivered (own endorsement not made / made but not delivered / delivered) | endorsement made but only visible inside commit messages}, x proposal delivered or not x endorser list carried by the commit messages {all endorsements made, all but the committer's own, the C lowest, none} x two delivery orders (proposal, endorsements, commits ascending; the reverse); a commit exists only when >= C endorsements were made; then EVERY pair (camp of A, camp of B) and every fault set F of 0..C peers (any identities, proposers included) in which no peer outside F supports both blocks (an honest proposer supports only its own) is judged: violation iff some view of the A camp makes node X's commitDone declare a block and some view of the B camp makes node Y's commitDone declare a different one (also: two views of one camp declaring the empty and the full block); the reported pair is re-run on two fresh pools")
	r.Assume("honest-form messages only: real signatures by the peer named, commit messages list only endorsements really made for the same block; forged indices / junk endorser lists are covered by C31 and the Server-level unit (known findings). Non-empty endorsements and commits only (empty-block variants are explored by the Server-level unit). An honest second proposer is taken to support only its own block (the Server-level unit explores the proposer that later endorses the leader's block). Views are message SETS with two canonical delivery orders; reachability of a view by the node control flow (timers, roles) is over-approximated: every peer may both endorse and commit")
	type wc struct{ n, c uint32 }
	worlds := []wc{{4, 1}, {5, 1}, {6, 1}, {7, 2}}
	if r.Thorough() {
		worlds = append(worlds, wc{7, 1}, wc{8, 1}, wc{8, 2})
	}
	var rc c34qCase
	if r.IsReplay() {
		if r.ReplayCase(&rc) && rc.Unit == "decisionquorum" && rc.N != 0 {
			w := c34qNewWorld(rc.N, rc.C)
			if k, d := w.judge(&rc); k != "" {
				r.Violation(k, d, rc)
			}
		}
		return
	}
	var bounds []string
	for wi, wd := range worlds {
		bounds = append(bounds, fmt.Sprintf("(%d,%d)", wd.n, wd.c))
		if !r.Mine(wi) {
			continue
		}
		w := c34qNewWorld(wd.n, wd.c)
		tag := fmt.Sprintf("quorum:N=%d,C=%d", w.n, w.c)
		var tabs [2]c34qTable
		complete := true
		for side := 0; side < 2; side++ {
			nv := w.enumerate(r, side, &tabs[side])
			if nv < 0 {
				complete = false
				break
			}
			r.Eval(nv)
			r.Trace(nv)
			r.Add(tag+".views", nv)
		}
		if !complete {
			break // deadline: reported as not exhaustive by vh
		}
		// a decision for a proposer none of whose messages was delivered is wrong whatever the other node does
		type dref struct {
			side, kind int
			camp       uint32
			v          *c34qView
		}
		var decs []dref
		for side := 0; side < 2; side++ {
			for kind := c34qFull; kind <= c34qForeign; kind++ {
				var camps []int
				for camp := range tabs[side].best[kind] {
					camps = append(camps, int(camp))
				}
				sort.Ints(camps)
				for _, camp := range camps {
					decs = append(decs, dref{side, kind, uint32(camp), tabs[side].best[kind][uint32(camp)]})
				}
			}
		}
		r.Add(tag+".deciding_camps", int64(len(decs)))
		allmask := uint32(1)<<w.n - 1
		found := false
		for f := 0; f <= int(w.c) && !found; f++ {
			// minimal violating pair per fault-variant name
			type hit struct {
				c    c34qCase
				size int
			}
			best := map[string]*hit{}
			var pairs, oneDecides int64
			for F := uint32(0); F <= allmask; F++ {
				if c34qPop(F) != f {
					continue
				}
				variant := c34qVariant(c34qPeers(F))
				for ai := range decs {
					a := &decs[ai]
					for bi := range decs {
						b := &decs[bi]
						if bi <= ai || (a.side == b.side && a.kind == b.kind) {
							continue
						}
						if a.side != b.side {
							// a peer outside F supports at most one block; an honest proposer supports its own
							ca := a.camp | 1<<(c34qProposer(a.side)-1)
							cb := b.camp | 1<<(c34qProposer(b.side)-1)
							if ca&cb&^F != 0 {
								continue
							}
						}
						pairs++
						size := c34qPop(a.camp) + c34qPop(b.camp)
						if h := best[variant]; h == nil || size < h.size {
							x, y := a, b
							if x.side > y.side {
								x, y = y, x
							}
							best[variant] = &hit{c34qCase{Unit: "decisionquorum", N: w.n, C: w.c, Faulty: c34qPeers(F), X: *x.v, Y: *y.v}, size}
						}
					}
				}
				// non-vacuity: compatible camp pairs of which exactly one can decide
				for ai := range decs {
					a := &decs[ai]
					if a.kind != c34qFull {
						continue
					}
					rest := allmask &^ (a.camp | 1<<(c34qProposer(a.side)-1)) | F
					rest &^= 1 << (c34qProposer(1-a.side) - 1)
					decided := false
					for bi := range decs {
						b := &decs[bi]
						if b.side != a.side && b.camp&^rest == 0 {
							decided = true
						}
					}
					if !decided {
						oneDecides++
					}
				}
			}
			if oneDecides > 0 {
				r.ClassN(fmt.Sprintf("%s:f=%d:deciding-camp-whose-complement-cannot-decide", tag, f), oneDecides)
			}
			if pairs > 0 {
				r.ClassN(fmt.Sprintf("%s:f=%d:both-camps-decide", tag, f), pairs)
			}
			var names []string
			for v := range best {
				names = append(names, v)
			}
			sort.Strings(names)
			for _, v := range names {
				c := best[v].c
				k, d := w.judge(&c) // the verdict comes from two fresh real pools
				if k == "" {
					t.Fatalf("VERIF-INFRA %s: decision pair did not reproduce on fresh pools: %+v", tag, c)
				}
				r.Violation(k, d, c)
				found = true // larger fault sets only add supersets of this case
			}
		}
		if wi == 0 {
			r.Sample(map[string]interface{}{"world": tag, "deciding_camps_A": len(tabs[0].best[c34qFull]), "deciding_camps_B": len(tabs[1].best[c34qFull])})
		}
	}
	r.Bound(fmt.Sprintf("worlds (N,C) in %s, one height, fault sets of 0..C peers, every view per the rule (16 x 6^(N-1) views per block before the >=C-endorsements filter)", strings.Join(bounds, " ")))
}

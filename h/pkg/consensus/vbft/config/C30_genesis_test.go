package vconfig

import (
	"fmt"
	"sort"
	"strings"
	"testing"

	"github.com/ontio/ontology/common"
	"github.com/ontio/ontology/common/config"
	"github.com/ontio/ontology/verifshim/vh"
)

// C30: the configuration derived from a set of peer stakes is the same for
// every ordering of the input peers, contains exactly the K highest-staked
// peers, gives each of them >=1 slot, slot counts non-increasing in stake.

type c30peer struct {
	Index uint32 `json:"index"`
	Key   string `json:"key"`
	Stake uint64 `json:"stake"`
}

type c30case struct {
	K     uint32    `json:"k"`
	L     uint32    `json:"l"`
	C     uint32    `json:"c"`
	Peers []c30peer `json:"peers"` // in the input order that failed
}

// distinct, realistic-looking compressed public keys; key order is unrelated
// to index order
var c30keys = []string{
	"0253ccfd439b29eca0fe90ca7c6eaa1f98572a054aa2d1d56e72ad96c466107a85",
	"035eb654bad6c6409894b9b42289a43614874c7984bde6b03aaf6fc1d0486d9d45",
	"0281d198c0dd3737a9c39191bc2d1af7d65a44261a8a64d6ef74d63f27cfb5ed92",
	"023967bba3060bf8ade06d9bad45d02853f6c623e4d4f52d767eb56df4d364a99f",
	"038bfc50b0e3f0e5df6d451069065cbfa7ab5d382a5839cce82e0c963edb026e94",
	"03f1095289e7fddb882f1cb3e158acc1c30d9de606af21c97ba851821e8b6ea535",
	"0215865baab70607f4a2413a7a9ba95ab2c3c0202d5b7731c6824eef48e899fc90",
	"02991768dafcdc1fbd3a29fda0ba78ea52da8df118eceecbdc7c4520979b01f85f",
}

func c30conf(K, L, C uint32) *config.VBFTConfig {
	return &config.VBFTConfig{N: K, C: C, K: K, L: L, BlockMsgDelay: 10000, HashMsgDelay: 10000, PeerHandshakeTimeout: 10, MaxBlockChangeView: 1000}
}

func c30render(ch *ChainConfig) string {
	var sb strings.Builder
	for _, p := range ch.Peers {
		fmt.Fprintf(&sb, "%d=%s;", p.Index, p.ID[:8])
	}
	fmt.Fprintf(&sb, "|N=%d,C=%d|", ch.N, ch.C)
	for _, x := range ch.PosTable {
		fmt.Fprintf(&sb, "%d,", x)
	}
	return sb.String()
}

var c30txhash = common.Uint256{0xC3, 0x30, 1, 2, 3}

// c30run calls the real GenesisChainConfig on the peers in the given order.
func c30run(conf *config.VBFTConfig, peers []c30peer, order []int) (*ChainConfig, string) {
	in := make([]*config.VBFTPeerStakeInfo, len(order))
	for i, o := range order {
		p := peers[o]
		in[i] = &config.VBFTPeerStakeInfo{Index: p.Index, PeerPubkey: p.Key, InitPos: p.Stake}
	}
	var ch *ChainConfig
	var err error
	pan := vh.Catch(func() { ch, err = GenesisChainConfig(conf, in, c30txhash, 5) })
	if pan != "" {
		return nil, "panic: " + pan
	}
	if err != nil {
		return nil, "error: " + err.Error()
	}
	return ch, ""
}

func c30stakeClass(peers []c30peer, K int) string {
	st := make([]uint64, len(peers))
	for i, p := range peers {
		st[i] = p.Stake
	}
	sort.Slice(st, func(i, j int) bool { return st[i] > st[j] })
	ties := 0
	for i := 1; i < K && i < len(st); i++ {
		if st[i] == st[i-1] {
			ties++
		}
	}
	cut := "no-cut"
	if K < len(st) {
		cut = "cut-strict"
		if st[K-1] == st[K] {
			cut = "cut-tied"
		}
	}
	zero := "nozero"
	if st[K-1] == 0 {
		zero = "zero-in-topK"
	}
	if st[0] == 0 {
		zero = "all-zero"
	}
	return fmt.Sprintf("%s,ties-in-topK=%d,%s", cut, ties, zero)
}

// c30oracle checks one configuration against the statement (not against the
// order of the input).
func c30oracle(r *vh.Run, conf *config.VBFTConfig, peers []c30peer, order []int, ch *ChainConfig) bool {
	K := int(conf.K)
	mk := func() c30case {
		cs := c30case{K: conf.K, L: conf.L, C: conf.C}
		for _, o := range order {
			cs.Peers = append(cs.Peers, peers[o])
		}
		return cs
	}
	shape := fmt.Sprintf("n=%d,K=%d,L=%d", len(peers), conf.K, conf.L)
	ok := true
	byIndex := map[uint32]c30peer{}
	for _, p := range peers {
		byIndex[p.Index] = p
	}
	chosen := map[uint32]bool{}
	for _, p := range ch.Peers {
		if q, in := byIndex[p.Index]; !in || q.Key != p.ID {
			r.Violationf("peers:not-an-input-peer", mk(), "%s: configuration peer %d/%s is not an input peer", shape, p.Index, p.ID)
			return false
		}
		chosen[p.Index] = true
	}
	if len(ch.Peers) != K || len(chosen) != K || int(ch.N) != K {
		r.Violationf("peers:count!=K", mk(), "%s: %d peers (%d distinct, N=%d), want K=%d", shape, len(ch.Peers), len(chosen), ch.N, K)
		ok = false
	}
	// exactly the K highest-staked: nobody left out has more stake than somebody chosen
	for _, out := range peers {
		if chosen[out.Index] {
			continue
		}
		for ix := range chosen {
			if byIndex[ix].Stake < out.Stake {
				r.Violationf("peers:not-the-K-highest", mk(), "%s: peer %d (stake %d) chosen, peer %d (stake %d) left out", shape, ix, byIndex[ix].Stake, out.Index, out.Stake)
				return false
			}
		}
	}
	slots := map[uint32]int{}
	for _, x := range ch.PosTable {
		slots[x]++
	}
	for ix := range chosen {
		if slots[ix] < 1 {
			r.Violationf("slots:peer-without-slot", mk(), "%s: peer %d (stake %d) has no slot in %v", shape, ix, byIndex[ix].Stake, ch.PosTable)
			ok = false
		}
	}
	for a := range chosen {
		for b := range chosen {
			if byIndex[a].Stake >= byIndex[b].Stake && slots[a] < slots[b] {
				key := "slots:increasing-in-stake"
				if byIndex[a].Stake == byIndex[b].Stake {
					key = "slots:differ-for-equal-stake"
				}
				r.Violationf(key, mk(), "%s: peer %d stake %d has %d slots, peer %d stake %d has %d", shape, a, byIndex[a].Stake, slots[a], b, byIndex[b].Stake, slots[b])
				return false
			}
		}
	}
	return ok
}

// c30orders enumerates the input orders for n peers: all n! for n<=7 (when
// full), else a structured family: identity, reversal, all rotations, all
// transpositions, and for n=8 all 7! orders of the first seven with the
// eighth first / last.
func c30orders(n int, full bool, f func(p []int) bool) {
	if full && n <= 7 {
		vh.Permutations(n, f)
		return
	}
	emit := func(p []int) bool { return f(append([]int{}, p...)) }
	id := make([]int, n)
	for i := range id {
		id[i] = i
	}
	for rot := 0; rot < n; rot++ {
		p := make([]int, n)
		q := make([]int, n)
		for i := range p {
			p[i] = (i + rot) % n
			q[i] = (n - 1 - i + rot) % n
		}
		if !emit(p) || !emit(q) {
			return
		}
	}
	for i := 0; i < n; i++ {
		for j := i + 1; j < n; j++ {
			p := append([]int{}, id...)
			p[i], p[j] = p[j], p[i]
			if !emit(p) {
				return
			}
		}
	}
	if full && n == 8 {
		stop := false
		vh.Permutations(7, func(p7 []int) bool {
			last := append(append([]int{}, p7...), 7)
			first := append([]int{7}, p7...)
			if !emit(last) || !emit(first) {
				stop = true
				return false
			}
			return true
		})
		_ = stop
	}
}

func c30multisets(alpha []uint64, k int, f func(s []uint64)) {
	s := make([]uint64, k)
	var rec func(pos, from int)
	rec = func(pos, from int) {
		if pos == k {
			f(append([]uint64{}, s...))
			return
		}
		for i := from; i < len(alpha); i++ {
			s[pos] = alpha[i]
			rec(pos+1, i)
		}
	}
	rec(0, 0)
}

type c30shape struct {
	n       int
	K, L, C uint32
	alpha   []uint64
	full    bool // all n! orders
}

// c30peerSet: stakes assigned along three key arrangements (so that ties fall
// on different key pairs): index order, reverse, interleaved.
func c30peerSet(stakes []uint64, arrangement int) []c30peer {
	n := len(stakes)
	ps := make([]c30peer, n)
	for i := 0; i < n; i++ {
		j := i
		switch arrangement {
		case 1:
			j = n - 1 - i
		case 2:
			j = (i*3 + 1) % n
			if n%3 == 0 {
				j = (i*5 + 1) % n
			}
		}
		ps[i] = c30peer{Index: uint32(i + 1), Key: c30keys[i], Stake: stakes[j]}
	}
	return ps
}

func c30one(r *vh.Run, sh c30shape, peers []c30peer) {
	conf := c30conf(sh.K, sh.L, sh.C)
	id := make([]int, sh.n)
	for i := range id {
		id[i] = i
	}
	shape := fmt.Sprintf("n=%d,K=%d,L=%d", sh.n, sh.K, sh.L)
	// the size of the position table is decided by the code under test: a death of the process while one of the
	// input orders of this peer set is inside GenesisChainConfig is attributed to the peer set
	r.Guard("GenesisChainConfig:"+shape, fmt.Sprintf("%s: GenesisChainConfig on some input order of peers %v", shape, peers), c30case{K: sh.K, L: sh.L, C: sh.C, Peers: peers})
	defer r.Unguard()
	ref, msg := c30run(conf, peers, id)
	r.Eval(1)
	if ref == nil {
		cs := c30case{K: sh.K, L: sh.L, C: sh.C, Peers: peers}
		r.Violationf("genesis:fails", cs, "%s: GenesisChainConfig on a valid input: %s", shape, msg)
		return
	}
	if !c30oracle(r, conf, peers, id, ref) {
		return
	}
	want := c30render(ref)
	var n int64
	reported := false
	c30orders(sh.n, sh.full, func(p []int) bool {
		n++
		ch, msg := c30run(conf, peers, p)
		got := msg
		if ch != nil {
			got = c30render(ch)
		}
		if got != want && !reported {
			reported = true
			cs := c30case{K: sh.K, L: sh.L, C: sh.C}
			for _, o := range p {
				cs.Peers = append(cs.Peers, peers[o])
			}
			cls := c30stakeClass(peers, int(sh.K)) // "cut,ties-in-topK=n,zero"
			key := "order-dependent:" + strings.SplitN(cls, ",", 2)[0]
			if strings.Contains(cls, "ties-in-topK=0") && !strings.HasPrefix(cls, "cut-tied") {
				key += ",no-ties"
			} else {
				key += ",ties"
			}
			r.Violationf(key, cs, "%s stakes(by index)=%v: input order %v gives %s, index order gives %s", shape, c30stakes(peers), p, got, want)
		}
		return true
	})
	r.Eval(n)
	r.ClassN(fmt.Sprintf("%s:%s", shape, c30stakeClass(peers, int(sh.K))), n+1)
}

func c30stakes(ps []c30peer) []uint64 {
	s := make([]uint64, len(ps))
	for i, p := range ps {
		s[i] = p.Stake
	}
	return s
}

func TestVerif_C30(t *testing.T) {
	r := vh.Start(t, "C30", "genesis")
	defer r.Finish()
	vh.LimitMemory(4 << 30)
	r.Rule("real GenesisChainConfig on peer sets of n in {4,5,7,8} distinct keys, stakes = every multiset over the alphabet placed on the keys in 3 arrangements (ties fall on different key pairs), valid (K,L,C) incl. K<n (a cut) and the governance shape K=7,L=112; for each peer set every input order (all n! for n<=7; for n=8 rotations, reversals, transpositions and, thorough, 2*7! orders) must give the identical (Peers, PosTable); the result must hold exactly K input peers with no left-out peer staked higher than a chosen one, >=1 slot each, slot counts monotone in stake. classes = (shape, cut strict/tied/none, ties inside the top K, zero stakes)")
	r.Assume("distinct keys and indexes; sum of stakes < 2^64 (alphabet maximum 2^60 instead of DESIGN's 2^63: two such stakes wrap the uint64 sum, which no ONT supply can produce); K<=n, C>=1, K>=2C+1, L%K==0, L>=2K")
	big := []uint64{0, 1, 2, 10000, 10001, 1 << 60}
	small := []uint64{0, 1, 10000}
	mid := []uint64{0, 1, 10000, 10001}

	var rc c30case
	if r.ReplayCase(&rc) && rc.Peers != nil {
		sh := c30shape{n: len(rc.Peers), K: rc.K, L: rc.L, C: rc.C, full: true}
		// the stored case is the failing input order; sort to index order for the reference
		ps := append([]c30peer{}, rc.Peers...)
		sort.Slice(ps, func(i, j int) bool { return ps[i].Index < ps[j].Index })
		c30one(r, sh, ps)
		return
	}

	var shapes []c30shape
	if r.Quick() {
		shapes = []c30shape{
			{4, 4, 8, 1, big, true},
			{4, 3, 6, 1, big, true},
			{5, 4, 8, 1, mid, true},
			{7, 4, 8, 1, small, true},
			{7, 7, 14, 2, []uint64{0, 10000}, true},
			{7, 7, 14, 2, mid, false},
			{7, 7, 112, 2, big, false},
			{8, 7, 112, 2, mid, false},
			{8, 4, 8, 1, mid, false},
		}
	} else {
		shapes = []c30shape{
			{4, 4, 8, 1, big, true},
			{4, 3, 6, 1, big, true},
			{4, 4, 64, 1, big, true},
			{5, 4, 8, 1, big, true},
			{5, 5, 10, 2, big, true},
			{7, 4, 8, 1, big, true},
			{7, 5, 10, 2, big, true},
			{7, 7, 14, 2, big, true},
			{7, 7, 112, 2, mid, true},
			{7, 7, 112, 2, big, false},
			{8, 7, 112, 2, small, true},
			{8, 4, 8, 1, mid, true},
			{8, 8, 16, 2, small, true},
		}
	}
	item := 0
	sets := int64(0)
outer:
	for _, sh := range shapes {
		var ms [][]uint64
		c30multisets(sh.alpha, sh.n, func(s []uint64) { ms = append(ms, s) })
		for _, st := range ms {
			seen := map[string]bool{}
			for arr := 0; arr < 3; arr++ {
				ps := c30peerSet(st, arr)
				k := fmt.Sprint(c30stakes(ps))
				if seen[k] {
					continue
				}
				seen[k] = true
				item++
				if !r.Mine(item) {
					continue
				}
				if r.Expired() {
					break outer
				}
				c30one(r, sh, ps)
				sets++
			}
		}
	}
	r.Set("peer_sets", sets)
	r.Sample(c30case{K: 4, L: 8, C: 1, Peers: c30peerSet([]uint64{0, 1, 1, 10000, 10000}, 1)})
	r.Sample(c30case{K: 7, L: 112, C: 2, Peers: c30peerSet([]uint64{0, 0, 1, 2, 10000, 10001, 1 << 60}, 2)})
	r.Need(sets > 0, "no peer set evaluated")
}

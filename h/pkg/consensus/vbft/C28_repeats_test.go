package vbft

// C28 (unit vbftrepeats) — the thresholds of the VBFT endorse/commit path are
// thresholds on SETS OF SIGNERS.  The code, however, decides on what it has
// stored of the messages it received, and up to C peers are faulty: they may
// send their endorse / commit message any number of times, byte-identical or
// signed afresh every time (ECDSA signatures are randomised: every copy is a
// different, valid signature of the same content).  This unit measures, on the
// real getCommitConsensus / BlockPool.commitDone / BlockPool.endorseDone, the
// least number of DISTINCT peers with which consensus is declared when the
// message multiset is widened that way: for every N, every C, every number
// F <= C of repeating peers among the supporters, every number R = 2..N of
// copies each of them sends, both placements of the repeating peers (the
// proposer's side / the far side of the supporter list), identical and
// re-signed copies, two delivery orders and all message shapes.  The measured
// number must still make two qualifying sets intersect in an honest peer
// (final thresholds: 2t-N > C, C+1-type thresholds: t > C).

import (
	"fmt"
	"testing"

	"github.com/ontio/ontology/verifshim/vh"
)

// c28Multiset describes one message multiset handed to the code.
type c28Multiset struct {
	Unit   string `json:"unit"`
	Form   string `json:"threshold"`
	N      int    `json:"N"`
	C      int    `json:"C"`
	Probe  int    `json:"probe"`
	PName  string `json:"probe_name"`
	K      int    `json:"distinct_supporters"`
	Incl   bool   `json:"proposer_among_supporters"`
	Shape  int    `json:"shape"`
	Empty  bool   `json:"empty"`
	Bg     bool   `json:"background_peer"`
	F      int    `json:"repeating_peers"`
	R      int    `json:"copies_each"`
	Place  int    `json:"placement"`
	Sig    int    `json:"copies_resigned"`
	Order  int    `json:"order"`
	TBase  int    `json:"least_distinct_peers_without_repeats"`
	TRep   int    `json:"least_distinct_peers_with_repeats"`
	Stored string `json:"stored,omitempty"`
}

var c28RepProbeNames = []string{"getCommitConsensus", "commitDone(commit-msgs)", "commitDone(endorse-sigs)", "endorseDone"}

// shapes of a probe under repeats
//   commit probes: 0 one commit message per supporter, a repeating peer sends R of them;
//                  1 one commit message by the first supporter carrying the others as endorsers (sent R times when
//                    the carrier repeats); the other repeating peers broadcast their endorse message R times
//                    (pool probe only: getCommitConsensus takes commit messages only);
//                  2 one commit message per supporter, each carrying the endorse signatures of the repeating peers
//                    (every carrier holds its own copy), a repeating peer sends R commits
//   endorse probes: 0 one endorse message per supporter, a repeating peer sends R of them
func c28RepShapes(probe int) int {
	if probe <= 1 {
		return 3
	}
	return 1
}

func c28RepSig(peer uint32, copyNo int, resigned int) []byte {
	if resigned == 0 {
		return []byte{byte(peer)}
	}
	return []byte{byte(peer), byte(copyNo), byte(copyNo >> 8)}
}

type c28Send struct {
	peer uint32
	copy int
}

// c28Sends: the order in which the supporters' copies arrive; order 0: peer by
// peer, order 1: round-robin (all first copies, then all second copies, ...).
func c28Sends(sup []uint32, rep map[uint32]bool, R, order int) []c28Send {
	cnt := func(s uint32) int {
		if rep[s] {
			return R
		}
		return 1
	}
	var out []c28Send
	if order == 0 {
		for _, s := range sup {
			for j := 0; j < cnt(s); j++ {
				out = append(out, c28Send{s, j})
			}
		}
		return out
	}
	for j := 0; j < R || j < 1; j++ {
		for _, s := range sup {
			if j < cnt(s) {
				out = append(out, c28Send{s, j})
			}
		}
	}
	return out
}

// c28RepMessages builds the ordered deliveries (each *blockCommitMsg or
// *blockEndorseMsg) of one multiset.
func c28RepMessages(m *c28Multiset) []interface{} {
	sup := c28Supporters(m.K, m.Incl)
	rep := map[uint32]bool{}
	var reps []uint32
	for i := 0; i < m.F && i < len(sup); i++ {
		p := sup[i]
		if m.Place == 1 {
			p = sup[len(sup)-1-i]
		}
		rep[p] = true
		reps = append(reps, p)
	}
	var ms []interface{}
	if b := c28Background(m.N, m.K, m.Incl, m.Bg); b != 0 {
		if m.Probe <= 1 {
			bm := c28Commit(b, false, nil)
			bm.BlockProposer = 2
			ms = append(ms, bm)
		} else {
			ms = append(ms, &blockEndorseMsg{Endorser: b, EndorsedProposer: 2, BlockNum: c28Blk, EndorserSig: []byte{byte(b)}})
		}
	}
	if len(sup) == 0 {
		return ms
	}
	endorse := func(s c28Send) *blockEndorseMsg {
		return &blockEndorseMsg{Endorser: s.peer, EndorsedProposer: 1, BlockNum: c28Blk, EndorseForEmpty: m.Empty, EndorserSig: c28RepSig(s.peer, s.copy, m.Sig)}
	}
	if m.Probe >= 2 {
		for _, s := range c28Sends(sup, rep, m.R, m.Order) {
			ms = append(ms, endorse(s))
		}
		return ms
	}
	switch m.Shape {
	case 0:
		for _, s := range c28Sends(sup, rep, m.R, m.Order) {
			cm := c28Commit(s.peer, m.Empty, nil)
			cm.CommitterSig = c28RepSig(s.peer, s.copy, m.Sig)
			ms = append(ms, cm)
		}
	case 1:
		var commits, endorses []interface{}
		for _, s := range c28Sends(sup[:1], rep, m.R, 0) {
			cm := c28Commit(s.peer, m.Empty, sup[1:])
			cm.CommitterSig = c28RepSig(s.peer, s.copy, m.Sig)
			for e := range cm.EndorsersSig {
				cm.EndorsersSig[e] = c28RepSig(e, 1000+s.copy, m.Sig)
			}
			commits = append(commits, cm)
		}
		if m.Probe == 1 {
			for _, s := range c28Sends(sup[1:], rep, m.R, 0) {
				if rep[s.peer] {
					endorses = append(endorses, endorse(s))
				}
			}
		}
		if m.Order == 0 {
			ms = append(append(ms, endorses...), commits...)
		} else {
			ms = append(append(ms, commits...), endorses...)
		}
	case 2:
		for i, s := range c28Sends(sup, rep, m.R, m.Order) {
			cm := c28Commit(s.peer, m.Empty, nil)
			cm.CommitterSig = c28RepSig(s.peer, s.copy, m.Sig)
			for _, e := range reps {
				if e != s.peer {
					cm.EndorsersSig[e] = c28RepSig(e, 2000+i, m.Sig)
				}
			}
			ms = append(ms, cm)
		}
	}
	return ms
}

type c28RepWorld struct {
	n, c int
	srv  *Server
}

// c28RepRun hands the multiset to the code; declared: consensus for proposer 1;
// maxStored: the largest number of entries for proposer 1 the pool keeps for one peer (0 for the pure function).
func (w *c28RepWorld) run(m *c28Multiset) (declared bool, maxStored int) {
	ms := c28RepMessages(m)
	if m.Probe == 0 {
		var cs []*blockCommitMsg
		for _, x := range ms {
			cs = append(cs, x.(*blockCommitMsg))
		}
		p, _ := getCommitConsensus(cs, w.c, w.n)
		return p == 1, 0
	}
	pool := &BlockPool{server: w.srv, HistoryLen: 64, chainStore: w.srv.chainStore, candidateBlocks: make(map[uint32]*CandidateInfo)}
	w.srv.blockPool = pool
	for _, x := range ms {
		switch v := x.(type) {
		case *blockCommitMsg:
			if err := pool.newBlockCommitment(v); err != nil {
				panic(err)
			}
		case *blockEndorseMsg:
			pool.newBlockEndorsement(v)
		}
	}
	if cand := pool.candidateBlocks[c28Blk]; cand != nil {
		for _, es := range cand.EndorseSigs {
			cnt := 0
			for _, e := range es {
				if e.EndorsedProposer == 1 {
					cnt++
				}
			}
			if cnt > maxStored {
				maxStored = cnt
			}
		}
	}
	var p uint32
	var done bool
	if m.Probe == 3 {
		p, _, done = pool.endorseDone(c28Blk, uint32(w.c))
	} else {
		p, _, done = pool.commitDone(c28Blk, uint32(w.c), uint32(w.n))
	}
	return done && p == 1, maxStored
}

// c28RepForms: which (probe, incl) pairs make up a threshold of the table
// (as in unit vbft), and the +1 for the proposer when it is not a supporter.
type c28RepPart struct {
	probe int
	incl  bool
}

var c28RepForms = []struct {
	name  string
	parts []c28RepPart
}{
	{"vbft.commit-msgs(proposer-not-a-signer)", []c28RepPart{{0, false}, {1, false}}},
	{"vbft.commit-msgs(proposer-among-signers)", []c28RepPart{{0, true}, {1, true}}},
	{"vbft.commitDone(endorse-sigs)", []c28RepPart{{2, true}, {2, false}}},
	{"vbft.endorseDone", []c28RepPart{{3, true}, {3, false}}},
}

func c28FormByName(name string) c28Form {
	for _, f := range c28Forms {
		if f.name == name {
			return f
		}
	}
	panic("no form " + name)
}

type c28RepStats struct {
	calls, dedup, kept, lower, same int64
}

// c28RepRow measures one (N, C): for every threshold the least number of
// distinct peers without repeats (tb) and with up to C repeating peers (tr <= tb)
// together with the multiset that reaches tr.
func c28RepRow(r *vh.Run, n, c int, st *c28RepStats, only *c28Multiset, mine func(form int) bool) (out []c28Multiset, complete bool) {
	srv, _ := c28Server(n, c)
	w := &c28RepWorld{n: n, c: c, srv: srv}
	for fi, form := range c28RepForms {
		if only != nil && only.Form != form.name {
			continue
		}
		if only == nil && !mine(fi) {
			continue
		}
		tb, tr := -1, -1
		var wit c28Multiset
		for _, part := range form.parts {
			add := 0
			kmax := n
			if !part.incl {
				add, kmax = 1, n-1
			}
			// without repeats: the same probes as unit vbft
			kb := -1
			for shape := 0; shape < 2; shape++ {
				for v := 0; v < 4; v++ {
					empty, bg := v&1 == 1, v&2 == 2
					k, _ := c28Least(r, kmax, func(k int) bool { return c28Probes[part.probe].run(n, c, k, part.incl, shape, empty, bg) })
					if k >= 0 && (kb < 0 || k < kb) {
						kb = k
					}
				}
			}
			if kb >= 0 && (tb < 0 || kb+add < tb) {
				tb = kb + add
			}
			if kb >= 0 && (tr < 0 || kb+add < tr) {
				tr = kb + add
				wit = c28Multiset{}
			}
			// with repeats: is there a multiset with fewer distinct supporters?
			best := kb
			if best < 0 {
				best = kmax + 1
			}
			for shape := 0; shape < c28RepShapes(part.probe); shape++ {
				for v := 0; v < 4; v++ {
					for f := 1; f <= c; f++ {
						if r.Expired() {
							return out, false
						}
						for rr := 2; rr <= n; rr++ {
							for pso := 0; pso < 8; pso++ {
								m := c28Multiset{Unit: "vbftrepeats", Form: form.name, N: n, C: c, Probe: part.probe, PName: c28RepProbeNames[part.probe],
									Incl: part.incl, Shape: shape, Empty: v&1 == 1, Bg: v&2 == 2, F: f, R: rr, Place: pso & 1, Sig: pso >> 1 & 1, Order: pso >> 2 & 1}
								if only != nil && (only.Probe != m.Probe || only.Incl != m.Incl || only.Shape != m.Shape || only.Empty != m.Empty || only.Bg != m.Bg ||
									only.F != m.F || only.R != m.R || only.Place != m.Place || only.Sig != m.Sig || only.Order != m.Order) {
									continue
								}
								for k := f; k < best; k++ {
									m.K = k
									declared, stored := w.run(&m)
									st.calls++
									if m.Probe != 0 {
										if stored <= 1 {
											st.dedup++
										} else {
											st.kept++
										}
									}
									if declared {
										best = k
										if tr < 0 || k+add < tr {
											tr = k + add
											wit = m
											wit.Stored = fmt.Sprintf("the pool keeps up to %d entries for proposer 1 from one peer", stored)
										}
										break
									}
								}
							}
						}
					}
				}
			}
		}
		wit.Unit, wit.Form, wit.N, wit.C, wit.TBase, wit.TRep = "vbftrepeats", form.name, n, c, tb, tr
		out = append(out, wit)
	}
	return out, true
}

type c28RepCase struct {
	Unit string `json:"unit"`
}

func TestVerif_C28_vbftrepeats(t *testing.T) {
	r := vh.Start(t, "C28", "vbftrepeats")
	defer r.Finish()
	maxN := r.Pick(16, 20)
	r.Rule("least number of DISTINCT supporting peers with which getCommitConsensus, BlockPool.commitDone (commit messages; endorse signatures) and BlockPool.endorseDone declare consensus when up to C of the supporters send their message repeatedly: for every N, every C>=1 with N>=3C+1, every F=1..C repeating peers (taken from the proposer's end or from the far end of the supporter list), every R=2..N copies each, copies byte-identical or signed afresh (distinct signature bytes), delivered peer by peer or round-robin, proposer among the supporters or not, empty and non-empty, with and without a further peer voting for another proposal, message shapes: one endorse message per copy; one commit message per copy; one commit by the first supporter carrying the others while the repeating peers also broadcast their endorse messages; every supporter's commit carrying its own copy of the repeating peers' endorse signatures. For each threshold the least k with repeats (tr) is compared with the least k without (tb); oracle on tr: final-deciding thresholds 2*tr-N > C, C+1-type thresholds tr > C; transitions = probe calls, states = measured (N,C,threshold) entries")
	r.Bound(fmt.Sprintf("4<=N<=%d, 1<=C<=(N-1)/3, 1<=F<=C, 2<=R<=N, all k below the threshold measured without repeats", maxN))
	r.Assume("a faulty peer can produce any number of distinct valid signatures of the same message (ECDSA is randomised); the pool functions do not verify signatures (property C31), so re-signed copies are represented by distinct signature bytes")
	r.Assume("a threshold that already fails the intersection inequality without repeats is reported by unit vbft under threshold:<name>; this unit reports threshold-with-repeats:<name> only when repeats lower the number of distinct peers needed")

	var rc c28Multiset
	var only *c28Multiset
	if r.IsReplay() {
		if !r.ReplayCase(&rc) || rc.Unit != "vbftrepeats" || rc.N == 0 {
			return // a recorded case of another unit of this check
		}
		only = &rc
	}

	st := &c28RepStats{}
	var rows []string
	reported := map[string]bool{}
	idx := 0
	nrows := 0
	for n := 4; n <= maxN; n++ {
		for c := 1; 3*c+1 <= n; c++ {
			idx++
			if only != nil && (only.N != n || only.C != c) {
				continue
			}
			before := st.calls
			// work items (row, threshold); the thresholds differ much in cost, so they rotate over the shards
			row0, rot := idx*len(c28RepForms), idx
			res, complete := c28RepRow(r, n, c, st, only, func(form int) bool { return r.Mine(row0 + (form+rot)%len(c28RepForms)) })
			r.Trans(st.calls - before)
			if !complete {
				r.Capped(fmt.Sprintf("deadline reached in row N=%d C=%d", n, c))
				break
			}
			if len(res) == 0 {
				continue
			}
			nrows++
			row := fmt.Sprintf("N=%d C=%d:", n, c)
			for _, m := range res {
				r.State(1)
				r.Trace(1)
				r.Eval(1)
				f := c28FormByName(m.Form)
				row += fmt.Sprintf(" %s=%d/%d", m.Form, m.TRep, m.TBase)
				if m.TRep == m.TBase {
					st.same++
					continue
				}
				st.lower++
				bad := false
				var d string
				if f.final {
					bad = !(2*m.TRep-n > c)
					d = fmt.Sprintf("threshold %q, N=%d, C=%d: without repeated messages %d distinct peers are needed, but when %d (<= C) of the supporting peers each send their message %d times (%s) the code declares consensus with %d distinct peers (probe %s, shape %d, proposer among supporters: %v, empty: %v); two such sets may share only 2*%d-%d=%d peers, which is not more than C=%d: they need not share a non-faulty peer",
						m.Form, n, c, m.TBase, m.F, m.R, c28SigText(m.Sig), m.TRep, m.PName, m.Shape, m.Incl, m.Empty, m.TRep, n, 2*m.TRep-n, c)
				} else {
					bad = !(m.TRep > c)
					d = fmt.Sprintf("threshold %q, N=%d, C=%d: without repeated messages %d distinct peers are needed, but when %d (<= C) of the supporting peers each send their message %d times (%s) the code declares consensus with %d distinct peers (probe %s, proposer among supporters: %v, empty: %v), which is not more than C=%d: a qualifying set need not contain a non-faulty peer",
						m.Form, n, c, m.TBase, m.F, m.R, c28SigText(m.Sig), m.TRep, m.PName, m.Incl, m.Empty, c)
				}
				if !bad {
					r.Class("repeats:lower-threshold-with-slack:" + m.Form)
					continue
				}
				if !reported[m.Form] {
					reported[m.Form] = true
					r.Violation("threshold-with-repeats:"+m.Form, d, m)
				}
			}
			rows = append(rows, row)
		}
		if r.Expired() {
			break
		}
	}
	for _, cl := range []struct {
		name string
		n    int64
	}{{"repeats:copies-deduplicated", st.dedup}, {"repeats:copies-kept-per-peer>1", st.kept}, {"repeats:threshold-unchanged", st.same}, {"repeats:threshold-lowered", st.lower}} {
		if cl.n > 0 {
			r.ClassN(cl.name, cl.n)
		}
	}
	r.Set("repeats.measured_table(with/without)", rows)
	if len(rows) > 0 {
		r.Sample(rows[0])
		r.Sample(rows[len(rows)-1])
	}
	if only == nil {
		r.Need(nrows > 0 || r.R.NShards > 100, "no threshold measured")
		r.Need(st.calls > 0, "no multiset with repeats was handed to the code")
	}
}

func c28SigText(resigned int) string {
	if resigned == 1 {
		return "every copy signed afresh"
	}
	return "byte-identical copies"
}

package vbft

// C31, unit honestrun — the quorum behind a declared commit consensus, in runs of HONEST nodes.
//
// The unit commitquorum hands message SETS to one BlockPool; which messages honest nodes really put on the wire
// is decided elsewhere (Server.endorseBlock / commitBlock and their guards), and the receiver-side count
// (getCommitConsensus: distinct committers + carried endorsers + 1 for the proposer) leans on what honest senders
// never send.  Here the senders are real: three honest vbft.Server objects (the fixture of the C34 safety unit:
// N=4, C=1, one height, real BlockPool/MsgPool/PeerPool/timer, real signatures, the explorer owns delivery order,
// loss and the timeouts), the fourth peer is merely silent — there is NO Byzantine message in any history.
// Breadth-first search over the event sequences; in every reachable state, for every honest node whose
// BlockPool.commitDone declares commit consensus (or which has decided to seal), the distinct peers whose valid
// signature for that proposal is held anywhere in that node's block pool or message pool are counted with the real
// keys, each peer once; there must be N-(N-1)/3 = 3 of them.

import (
	"fmt"
	"sort"
	"strings"
	"testing"

	"github.com/ontio/ontology/common"
	"github.com/ontio/ontology/common/log"
	"github.com/ontio/ontology/core/signature"
	"github.com/ontio/ontology/verifshim/vh"
	"github.com/ontio/ontology/verifshim/xs"
)

type c31hrWorld struct {
	name       string
	silent     uint32 // the peer that never sends anything
	leaderDown bool   // the honest nodes see the leading proposer as disconnected (so the 2nd proposer is the first alive one)
	timeouts   []string
	depth      [2]int // quick, thorough
}

// the worlds: which peer is silent, how the others see it, which timeouts the explorer may fire, how deep
var c31hrWorlds = []c31hrWorld{
	// every timeout kind, at any node: short histories
	{name: "silent-leader", silent: 1, timeouts: []string{"propose", "endorse", "endorse-empty", "commit"}, depth: [2]int{8, 10}},
	{name: "silent-peer-4", silent: 4, timeouts: []string{"propose", "endorse", "endorse-empty", "commit"}, depth: [2]int{7, 9}},
	// the round of a second proposer run to completion: only the timeout that makes nodes take up a 2nd proposer's block
	{name: "silent-leader:propose-timeouts-only", silent: 1, timeouts: []string{"propose"}, depth: [2]int{10, 13}},
	// a leader that is down (seen as disconnected): nodes endorse the 2nd proposer's block on receipt; no timeout needed
	{name: "leader-down:no-timeouts", silent: 1, leaderDown: true, timeouts: nil, depth: [2]int{14, 14}},
	{name: "leader-down", silent: 1, leaderDown: true, timeouts: []string{"propose", "endorse", "endorse-empty", "commit"}, depth: [2]int{7, 9}},
}

type c31hrSys struct {
	*c34sys
	hw *c31hrWorld
}

func (hw *c31hrWorld) newSys(w *c34world) *c31hrSys {
	s := w.newSys()
	if hw.leaderDown {
		for _, n := range s.nodes {
			n.srv.peerPool.peers[1].connected = false
		}
	}
	return &c31hrSys{c34sys: s, hw: hw}
}

// events: those of the C34 system without any Byzantine send, timeouts restricted to the world's kinds
func (s *c31hrSys) events() []string {
	var ev []string
	for _, e := range s.c34sys.events(0) {
		if strings.HasPrefix(e, "X:") {
			panic("VERIF-INFRA Byzantine event in an honest run")
		}
		if strings.HasPrefix(e, "T:") {
			ok := false
			for _, t := range s.hw.timeouts {
				if strings.HasSuffix(e, ":"+t) {
					ok = true
				}
			}
			if !ok {
				continue
			}
		}
		ev = append(ev, e)
	}
	return ev
}

var c31hrVerifyCache = map[string]bool{}

func c31hrValid(w *c34world, i uint32, sg []byte, hashes ...common.Uint256) bool {
	a := w.accts[i]
	if a == nil || len(sg) == 0 {
		return false
	}
	for _, h := range hashes {
		k := fmt.Sprintf("%d|%x|%x", i, h[:], sg)
		v, ok := c31hrVerifyCache[k]
		if !ok {
			v = signature.Verify(a.PublicKey, h[:], sg) == nil
			c31hrVerifyCache[k] = v
		}
		if v {
			return true
		}
	}
	return false
}

// signers: the distinct peers with a valid signature for proposer p's proposal (block or empty block) anywhere in
// node n's pools
func c31hrSigners(w *c34world, n *c34node, p uint32) map[uint32]bool {
	signers := map[uint32]bool{}
	prop := w.props[p]
	if prop == nil {
		return signers
	}
	bh, eh := prop.Block.Block.Hash(), prop.Block.EmptyBlock.Hash()
	ok := func(i uint32, sg []byte) {
		if c31hrValid(w, i, sg, bh, eh) {
			signers[i] = true
		}
	}
	msg := func(m ConsensusMsg) {
		switch x := m.(type) {
		case *blockProposalMsg:
			if x.Block.getProposer() == p {
				ok(p, x.BlockProposerSig)
				ok(p, x.EmptyBlockProposerSig)
			}
		case *blockEndorseMsg:
			if x.EndorsedProposer == p {
				ok(x.Endorser, x.EndorserSig)
				ok(p, x.ProposerSig)
			}
		case *blockCommitMsg:
			if x.BlockProposer == p {
				ok(x.Committer, x.CommitterSig)
				ok(p, x.ProposerSig)
				for j, sg := range x.EndorsersSig {
					ok(j, sg)
				}
			}
		}
	}
	if c := n.srv.blockPool.candidateBlocks[c34H]; c != nil {
		for _, x := range c.Proposals {
			msg(x)
		}
		for e, l := range c.EndorseSigs {
			for _, x := range l {
				if x.EndorsedProposer == p {
					ok(e, x.Signature)
				}
			}
		}
		for _, x := range c.CommitMsgs {
			msg(x)
		}
	}
	if rd := n.srv.msgPool.rounds[c34H]; rd != nil {
		for _, l := range rd.msgs {
			for _, m := range l {
				msg(m)
			}
		}
	}
	return signers
}

// check: every honest node that declares commit consensus (commitDone) or has decided to seal holds valid
// signatures of >= 3 distinct peers for that proposal.  Returns the class observed too.
func (s *c31hrSys) check() (key, detail, class string) {
	const need = 3 // N-(N-1)/3 for N=4
	class = "no-commit-declared"
	for _, i := range s.w.honest {
		n := s.nodes[i]
		declared := map[uint32]string{}
		if p, forEmpty, done := n.srv.blockPool.commitDone(c34H, 1, 4); done {
			declared[p] = fmt.Sprintf("commitDone reports consensus for proposer %d (empty=%v)", p, forEmpty)
		}
		for _, d := range n.sealed { // "<hash>/p<proposer>/empty=<bool>"
			var p uint32
			if f := strings.Split(d, "/"); len(f) == 3 {
				fmt.Sscanf(f[1], "p%d", &p)
				declared[p] = "decided to seal " + d
			}
		}
		var ps []int
		for p := range declared {
			ps = append(ps, int(p))
		}
		sort.Ints(ps)
		for _, pi := range ps {
			p := uint32(pi)
			role := "second-proposer"
			if p == 1 {
				role = "leader"
			} else if p != 2 {
				role = fmt.Sprintf("peer-%d-that-is-no-proposer", p)
			}
			signers := c31hrSigners(s.w, n, p)
			class = fmt.Sprintf("commit-declared-with-%d-distinct-signers:%s", len(signers), role)
			if len(signers) >= need {
				continue
			}
			var who []string
			for j := range signers {
				who = append(who, fmt.Sprint(j))
			}
			sort.Strings(who)
			return fmt.Sprintf("honest-run:commit-declared-with-%d-distinct-signers:%s", len(signers), role),
				fmt.Sprintf("world %s (N=4, C=1, only honest senders, peer %d silent): honest node %d %s, but valid signatures for that proposal of only %d distinct peers {%s} are present in its block pool and message pool; %d are required",
					s.hw.name, s.hw.silent, i, declared[p], len(signers), strings.Join(who, ","), need), class
		}
	}
	return "", "", class
}

type c31hrCase struct {
	World   string   `json:"world"`
	History []string `json:"history"`
}

func TestVerif_C31_HonestRun(t *testing.T) {
	log.InitLog(log.MaxLevelLog, log.Stdout)
	r := vh.Start(t, "C31", "honestrun")
	defer r.Finish()
	r.Rule("N=4, C=1, one height; three honest nodes = real vbft.Server objects without ledger/network (fixture of the C34 safety unit), the fourth peer is silent (leader or peer 4; as a connected or as a disconnected peer) and NO Byzantine message exists; events: an honest proposer publishes its proposal, any in-flight message is delivered to any honest node (any order; loss = never delivered), a timeout of the world's kinds fires at any honest node (once each; a timeout that changes nothing is not spent); BFS with replay on fresh servers, deduplicated on the canonical projection of the nodes' block pools, marks, decisions, message pools, in-flight messages and used timeouts; in every state, for every honest node whose BlockPool.commitDone declares consensus or that decided to seal: the distinct peers with a signature for that proposal (proposal, endorse, commit, carried endorser signatures; block or empty-block hash) that verifies under their own key, anywhere in that node's block pool or message pool, must number >= 3")
	r.Assume("proposal validation against the ledger and the ledger write are outside the harness (as in C34 safety); the participant layout is the one calcParticipantPeers yields for 4 peers (proposers [1 2], endorsers [3 2 4], committers [4 2 3])")
	var rc c31hrCase
	replay := r.ReplayCase(&rc) && rc.World != ""
	if r.IsReplay() && !replay {
		return // a recorded case of the unit commitquorum
	}
	tier := 0
	if r.Thorough() {
		tier = 1
	}
	var bounds []string
	for wi := range c31hrWorlds {
		hw := &c31hrWorlds[wi]
		if replay && rc.World != hw.name {
			continue
		}
		w := c34newWorld(hw.silent)
		if replay {
			s := hw.newSys(w)
			for _, ev := range rc.History {
				if strings.HasPrefix(ev, "X:") {
					t.Fatalf("VERIF-INFRA Byzantine event in a recorded honest run")
				}
				s.apply(ev)
				if k, d, _ := s.check(); k != "" {
					r.Violation(k, d, rc)
					return
				}
			}
			return
		}
		if !r.Mine(wi) {
			continue
		}
		depth := hw.depth[tier]
		seenKey := map[string]bool{}
		cfg := xs.Config{
			Init:   func() interface{} { return hw.newSys(w) },
			Events: func(s interface{}) []string { return s.(*c31hrSys).events() },
			Apply: func(s interface{}, ev string) (string, string) {
				s.(*c31hrSys).apply(ev)
				return "", ""
			},
			Key: func(s interface{}) string { return s.(*c31hrSys).key() },
			Check: func(si interface{}, hist []string) (string, string) {
				s := si.(*c31hrSys)
				k, d, class := s.check()
				r.Class("honest-run:" + hw.name + ":" + class)
				if s.diverged > 0 {
					r.Add("replays_in_which_a_node_behaved_differently(map iteration)", 1)
				}
				if k != "" && !seenKey[k] { // BFS: the first history per class is a shortest one
					seenKey[k] = true
					r.Violation(k, "after "+strings.Join(hist, " ; ")+": "+d, c31hrCase{World: hw.name, History: append([]string{}, hist...)})
				}
				return "", ""
			},
			MaxDepth: depth, MaxStates: r.Pick(300000, 3000000), Tag: hw.name + ".",
		}
		st := xs.Run(r, cfg)
		r.Eval(st.Transitions)
		r.Set(hw.name+".states", st.States)
		r.Set(hw.name+".max_depth", st.MaxDepth)
		bounds = append(bounds, fmt.Sprintf("%s: depth<=%d", hw.name, depth))
	}
	r.Bound(strings.Join(bounds, "; ") + "; no Byzantine message")
}

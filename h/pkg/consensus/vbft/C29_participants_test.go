package vbft

import (
	"encoding/hex"
	"fmt"
	"math"
	"sort"
	"strings"
	"testing"

	"github.com/ontio/ontology/common"
	"github.com/ontio/ontology/common/config"
	vconfig "github.com/ontio/ontology/consensus/vbft/config"
	"github.com/ontio/ontology/core/types"
	"github.com/ontio/ontology/verifshim/vh"
)

// C29: for every selection seed and every valid chain configuration a round
// has C+1 proposers, >=2C+1 distinct endorsers, >=2C+1 distinct committers,
// all members of the configuration, and the selection is a deterministic
// function of (seed, configuration).

type c29case struct {
	N      uint32   `json:"n"`
	C      uint32   `json:"c"`
	Peers  []uint32 `json:"peers"` // chain.Peers order (indexes)
	Table  []uint32 `json:"pos_table"`
	Seed   string   `json:"seed"` // hex, 64 bytes
	Source string   `json:"source"`
	// unit "round" (C29_round_test.go): a case of the node-level entry points
	Round *c29round `json:"round,omitempty"`
}

func c29chain(n, c uint32, peerOrder, table []uint32) *vconfig.ChainConfig {
	ch := &vconfig.ChainConfig{Version: 1, View: 1, N: n, C: c}
	for _, ix := range peerOrder {
		ch.Peers = append(ch.Peers, &vconfig.PeerConfig{Index: ix, ID: fmt.Sprintf("peer%02d", ix)})
	}
	ch.PosTable = append([]uint32{}, table...)
	return ch
}

func c29distinct(a []uint32) int {
	// fast path: small indexes (always the case here) -> bitmask
	var mask uint64
	small := true
	for _, x := range a {
		if x >= 64 {
			small = false
			break
		}
		mask |= 1 << x
	}
	if small {
		n := 0
		for ; mask != 0; mask &= mask - 1 {
			n++
		}
		return n
	}
	m := map[uint32]bool{}
	for _, x := range a {
		m[x] = true
	}
	return len(m)
}

func c29eq(a, b []uint32) bool {
	if len(a) != len(b) {
		return false
	}
	for i := range a {
		if a[i] != b[i] {
			return false
		}
	}
	return true
}

// c29appeared: how many distinct peers the seed draws from the table (real
// calcParticipant; used for keys/classes only).
// c29draw: the real calcParticipant; a panic of the draw itself is noted (c29drawPanic) and ends the
// sequence like an exhausted seed, so that the caller can report it as a violation.
var c29drawPanic string

func c29draw(seed vconfig.VRFValue, table []uint32, k uint32) (v uint32) {
	v = math.MaxUint32
	if p := vh.Catch(func() { v = calcParticipant(seed, table, k) }); p != "" {
		if c29drawPanic == "" {
			c29drawPanic = fmt.Sprintf("calcParticipant(seed %x, table of %d slots, draw %d) panics: %s", seed[:], len(table), k, p)
		}
		return math.MaxUint32
	}
	return v
}

func c29appeared(seed vconfig.VRFValue, table []uint32) int {
	m := map[uint32]bool{}
	for i := 0; i < len(table); i++ {
		p := c29draw(seed, table, uint32(i))
		if p == math.MaxUint32 {
			break
		}
		m[p] = true
	}
	return len(m)
}

func c29same(a, b []uint32) bool {
	if len(a) != len(b) {
		return false
	}
	for i := range a {
		if a[i] != b[i] {
			return false
		}
	}
	return true
}

func c29rel(appeared int, c uint32) string {
	switch {
	case appeared < int(3*c):
		return "<3C"
	case appeared == int(3*c):
		return "=3C"
	case appeared == int(3*c)+1:
		return "=3C+1"
	}
	return ">3C+1"
}

// c29check runs the real selection and evaluates the oracle.  deep: also
// compare with a run on deep copies of the inputs.
func c29check(r *vh.Run, chain *vconfig.ChainConfig, seed vconfig.VRFValue, source string, deep bool) (ne, nc int, ok bool) {
	var p1, e1, c1, p2, e2, c2 []uint32
	mk := func() c29case {
		var po []uint32
		for _, p := range chain.Peers {
			po = append(po, p.Index)
		}
		return c29case{chain.N, chain.C, po, append([]uint32{}, chain.PosTable...), hex.EncodeToString(seed[:]), source, nil}
	}
	bad := func(what string, f string, a ...interface{}) {
		ap := c29appeared(seed, chain.PosTable)
		key := fmt.Sprintf("%s:C=%d:appeared%s", what, chain.C, c29rel(ap, chain.C))
		if chain.C > 2 {
			key = fmt.Sprintf("%s:C>2:appeared%s", what, c29rel(ap, chain.C))
		}
		r.Violationf(key, mk(), "N=%d C=%d appeared=%d proposers=%v endorsers=%v committers=%v: %s", chain.N, chain.C, ap, p1, e1, c1, fmt.Sprintf(f, a...))
	}
	heldChanged, heldNow := false, ""
	pan := vh.Catch(func() {
		cfg := &BlockParticipantConfig{BlockNum: 1, Vrf: seed, ChainConfig: chain}
		a, b, c := calcParticipantPeers(cfg, chain)
		// copy out: the returned slices alias one backing array
		p1, e1, c1 = append([]uint32{}, a...), append([]uint32{}, b...), append([]uint32{}, c...)
		cfg2 := &BlockParticipantConfig{BlockNum: 1, Vrf: seed, ChainConfig: chain}
		a2, b2, c2r := calcParticipantPeers(cfg2, chain)
		p2, e2, c2 = append([]uint32{}, a2...), append([]uint32{}, b2...), append([]uint32{}, c2r...)
		// the node keeps the participant sets of round k installed while it computes those of round k+1 (other
		// seed): the sets handed out for round k must still be what they were
		seed3 := seed
		for i := range seed3 {
			seed3[i] ^= 0xA5
		}
		calcParticipantPeers(&BlockParticipantConfig{BlockNum: 2, Vrf: seed3, ChainConfig: chain}, chain)
		heldChanged = !c29same(a, p1) || !c29same(b, e1) || !c29same(c, c1)
		heldNow = fmt.Sprintf("proposers=%v endorsers=%v committers=%v", a, b, c)
	})
	if pan != "" {
		bad("panic", "panic: %s", pan)
		return 0, 0, false
	}
	if heldChanged {
		bad("held-result-changed-by-next-selection", "the sets returned for one round read %s after the selection of the next round (another seed) was computed", heldNow)
	}
	ok = true
	C := int(chain.C)
	if len(p1) != C+1 || c29distinct(p1) != C+1 {
		bad("proposers!=C+1", "%d proposers (%d distinct), want %d", len(p1), c29distinct(p1), C+1)
		ok = false
	}
	ne, nc = c29distinct(e1), c29distinct(c1)
	if ne < 2*C+1 {
		bad("endorsers<2C+1", "%d distinct endorsers, want >= %d", ne, 2*C+1)
		ok = false
	}
	if nc < 2*C+1 {
		bad("committers<2C+1", "%d distinct committers, want >= %d", nc, 2*C+1)
		ok = false
	}
	isMember := func(x uint32) bool {
		for _, p := range chain.Peers {
			if p.Index == x {
				return true
			}
		}
		return false
	}
	for _, l := range [3][]uint32{p1, e1, c1} {
		for _, x := range l {
			if !isMember(x) {
				bad("non-member", "peer %d is not in the configuration", x)
				ok = false
			}
		}
	}
	if !c29eq(p1, p2) || !c29eq(e1, e2) || !c29eq(c1, c2) {
		bad("nondeterministic", "second call gives %v %v %v", p2, e2, c2)
		ok = false
	}
	if deep {
		var po []uint32
		for _, p := range chain.Peers {
			po = append(po, p.Index)
		}
		ch3 := c29chain(chain.N, chain.C, po, chain.PosTable)
		var p3, e3, c3 []uint32
		pan = vh.Catch(func() {
			p3, e3, c3 = calcParticipantPeers(&BlockParticipantConfig{BlockNum: 7, Vrf: seed, ChainConfig: ch3}, ch3)
		})
		if pan != "" || !c29eq(p1, p3) || !c29eq(e1, e3) || !c29eq(c1, c3) {
			bad("nondeterministic", "equal (seed, configuration) in fresh objects gives %v %v %v %s", p3, e3, c3, pan)
			ok = false
		}
	}
	return ne, nc, ok
}

// ---- seeds ----

func c29seedBytes(f func(i int) byte) vconfig.VRFValue {
	var s vconfig.VRFValue
	for i := range s {
		s[i] = f(i)
	}
	return s
}

func c29block(num, proposer uint32, vrf []byte) *Block {
	return &Block{
		Block: &types.Block{Header: &types.Header{Height: num}},
		Info:  &vconfig.VbftBlockInfo{Proposer: proposer, VrfValue: vrf},
	}
}

func c29fixedSeeds() []vconfig.VRFValue {
	return []vconfig.VRFValue{
		getParticipantSelectionSeed(c29block(1, 1, []byte("c29-seed-a"))),
		getParticipantSelectionSeed(c29block(77, 3, []byte("c29-seed-b"))),
		c29seedBytes(func(i int) byte { return byte(i*37 + 11) }),
	}
}

// ---- part A: every first-appearance order, realised by crafted tables ----

// c29visits: slots of a table of length L in the order the seed visits them
// (distinct, first visits only), using the real calcParticipant.
func c29visits(seed vconfig.VRFValue, L int) (first []int, visited map[int]bool) {
	ident := make([]uint32, L)
	for i := range ident {
		ident[i] = uint32(i)
	}
	visited = map[int]bool{}
	for k := 0; k < L; k++ {
		v := c29draw(seed, ident, uint32(k))
		if v == math.MaxUint32 {
			break
		}
		if !visited[int(v)] {
			visited[int(v)] = true
			first = append(first, int(v))
		}
	}
	return
}

// c29craft builds a table of length L in which the seed meets exactly the
// peers of order (in that order of first appearance); slots the seed never
// reads hold the remaining peers so that the table still mentions everybody.
func c29craft(L int, first []int, visited map[int]bool, order []uint32, n int) []uint32 {
	t := make([]uint32, L)
	for i, slot := range first {
		if i < len(order) {
			t[slot] = order[i]
		} else {
			t[slot] = order[(i*7+3)%len(order)]
		}
	}
	in := map[uint32]bool{}
	for _, p := range order {
		in[p] = true
	}
	var rest []uint32
	for p := uint32(1); p <= uint32(n); p++ {
		if !in[p] {
			rest = append(rest, p)
		}
	}
	rest = append(rest, order...)
	j := 0
	for slot := 0; slot < L; slot++ {
		if !visited[slot] {
			t[slot] = rest[j%len(rest)]
			j++
		}
	}
	return t
}

func c29orders(n int, maxLen int, f func(order []uint32) bool) {
	used := make([]bool, n+1)
	order := make([]uint32, 0, n)
	var rec func() bool
	rec = func() bool {
		if len(order) > 0 {
			if !f(order) {
				return false
			}
		}
		if len(order) == maxLen {
			return true
		}
		for p := 1; p <= n; p++ {
			if used[p] {
				continue
			}
			used[p] = true
			order = append(order, uint32(p))
			if !rec() {
				return false
			}
			order = order[:len(order)-1]
			used[p] = false
		}
		return true
	}
	rec()
}

type c29shape struct {
	n, c   int
	L      int
	maxLen int // orders longer than this behave like their prefix (loop cap)
	seeds  int
	// structured: only the prefixes of all rotations of 1..n and of n..1
	// (instead of every order of every subset)
	structured bool
}

func c29structOrders(n, maxLen int, f func(order []uint32) bool) {
	for rev := 0; rev < 2; rev++ {
		for rot := 0; rot < n; rot++ {
			for l := 1; l <= maxLen; l++ {
				order := make([]uint32, l)
				for i := 0; i < l; i++ {
					v := (rot + i) % n
					if rev == 1 {
						v = (rot + n - i) % n
					}
					order[i] = uint32(v + 1)
				}
				if !f(order) {
					return
				}
			}
		}
	}
}

func c29partA(r *vh.Run, item *int) {
	seeds := c29fixedSeeds()
	var shapes []c29shape
	for n := 4; n <= 8; n++ {
		for c := 1; 3*c+1 <= n; c++ {
			shapes = append(shapes, c29shape{n, c, 32, n, 3, false})
		}
	}
	// tables longer than the 512 draws a seed provides
	shapes = append(shapes, c29shape{4, 1, 600, 4, 3, false}, c29shape{7, 2, 600, 7, 1, false},
		// N > 5C+4: the draw loop stops at 5C+4 = 9 peers
		c29shape{10, 1, 48, 10, 3, true}, c29shape{11, 1, 64, 11, 3, true}, c29shape{16, 2, 64, 16, 3, true})
	if r.Thorough() {
		shapes = append(shapes, c29shape{9, 1, 48, 9, 1, false}, c29shape{9, 2, 48, 9, 1, false},
			c29shape{10, 1, 48, 9, 1, false}, c29shape{10, 3, 48, 10, 1, false})
	}
	for _, sh := range shapes {
		for si := 0; si < sh.seeds; si++ {
			seed := seeds[si]
			first, visited := c29visits(seed, sh.L)
			if c29drawPanic != "" {
				r.Violationf("panic:single-draw", c29case{N: uint32(sh.n), C: uint32(sh.c), Seed: hex.EncodeToString(seed[:]), Source: "partA draw sequence over an identity table"}, "%s", c29drawPanic)
				c29drawPanic = ""
			}
			r.Need(len(first) >= sh.n+2, "seed %d visits only %d distinct slots of %d", si, len(first), sh.L)
			asc := make([]uint32, sh.n)
			desc := make([]uint32, sh.n)
			for i := 0; i < sh.n; i++ {
				asc[i], desc[i] = uint32(i+1), uint32(sh.n-i)
			}
			cls := map[string]int64{}
			var evals int64
			stop := false
			enum := c29orders
			if sh.structured {
				enum = c29structOrders
			}
			enum(sh.n, sh.maxLen, func(order []uint32) bool {
				// shard on the first two elements
				if len(order) <= 2 || sh.structured {
					*item++
				}
				mine := r.Mine(*item)
				if len(order) <= 2 && mine && r.Expired() {
					stop = true
					return false
				}
				if !mine {
					return true
				}
				table := c29craft(sh.L, first, visited, order, sh.n)
				for pi, po := range [][]uint32{asc, desc} {
					if pi == 1 && len(order) > 3*sh.c {
						continue // chain.Peers order only matters when the fill loop runs
					}
					chain := c29chain(uint32(sh.n), uint32(sh.c), po, table)
					ne, nc, ok := c29check(r, chain, seed, "crafted", true)
					evals++
					if ok {
						cls[fmt.Sprintf("A:N=%d,C=%d:appeared=%d:E=%d,K=%d", sh.n, sh.c, len(order), ne, nc)]++
					}
				}
				return true
			})
			r.Eval(evals)
			for k, v := range cls {
				r.ClassN(k, v)
			}
			if stop {
				return
			}
		}
	}
}

// ---- part B/C: tables derived from stakes by the real GenesisChainConfig ----

func c29genesis(r *vh.Run, K, L, C uint32, stakes []uint64) *vconfig.ChainConfig {
	conf := &config.VBFTConfig{N: K, C: C, K: K, L: L, BlockMsgDelay: 10000, HashMsgDelay: 10000, PeerHandshakeTimeout: 10, MaxBlockChangeView: 1000}
	var peers []*config.VBFTPeerStakeInfo
	for i, s := range stakes {
		peers = append(peers, &config.VBFTPeerStakeInfo{Index: uint32(i + 1), PeerPubkey: fmt.Sprintf("02%062x", 0xabc000+i*7919), InitPos: s})
	}
	ch, err := vconfig.GenesisChainConfig(conf, peers, common.Uint256{1, 2, 3}, 0)
	r.Need(err == nil && ch != nil, "GenesisChainConfig(K=%d,L=%d,stakes=%v): %v", K, L, stakes, err)
	return ch
}

func c29multisets(alpha []uint64, k int, f func(s []uint64)) {
	s := make([]uint64, k)
	var rec func(pos, from int)
	rec = func(pos, from int) {
		if pos == k {
			f(append([]uint64{}, s...))
			return
		}
		for i := from; i < len(alpha); i++ {
			s[pos] = alpha[i]
			rec(pos+1, i)
		}
	}
	rec(0, 0)
}

func c29tableKey(ch *vconfig.ChainConfig) string {
	var sb strings.Builder
	fmt.Fprintf(&sb, "%d/%d|", ch.N, ch.C)
	for _, p := range ch.Peers {
		fmt.Fprintf(&sb, "%d,", p.Index)
	}
	sb.WriteString("|")
	for _, p := range ch.PosTable {
		fmt.Fprintf(&sb, "%d,", p)
	}
	return sb.String()
}

func c29partB(r *vh.Run, item *int) {
	alpha := []uint64{0, 1, 2, 10000, 10001, 1 << 60}
	type shape struct{ K, L, C uint32 }
	shapes := []shape{{4, 8, 1}, {4, 16, 1}, {5, 10, 1}, {7, 14, 2}, {7, 14, 1}, {8, 16, 2}}
	seen := map[string]bool{}
	var chains []*vconfig.ChainConfig
	for _, sh := range shapes {
		al := alpha
		if sh.K > 5 {
			al = []uint64{0, 1, 10000, 1 << 60}
		}
		c29multisets(al, int(sh.K), func(st []uint64) {
			ch := c29genesis(r, sh.K, sh.L, sh.C, st)
			k := c29tableKey(ch)
			if !seen[k] {
				seen[k] = true
				chains = append(chains, ch)
			}
		})
	}
	sort.SliceStable(chains, func(i, j int) bool { return c29tableKey(chains[i]) < c29tableKey(chains[j]) })
	r.Set("B.tables", int64(len(chains)))
	// seeds: only bytes 0..2 of the seed are read for tables of <=16 slots
	// (<=8 slots: bytes 0..1).  Every table gets all 2^16 two-byte prefixes x
	// a third byte from an alphabet (quick 2, thorough 16 symbols); thorough
	// additionally runs ALL 2^24 prefixes on 8 of the tables with >8 slots
	// (evenly spaced in the sorted list of tables).
	byte2 := []int{0x00, 0xa5}
	var all256 []int
	for i := 0; i < 256; i++ {
		all256 = append(all256, i)
	}
	if r.Thorough() {
		byte2 = []int{0x00, 0x01, 0x08, 0x0f, 0x10, 0x33, 0x55, 0x7f, 0x80, 0xa5, 0xaa, 0xc3, 0xcc, 0xf0, 0xfe, 0xff}
	}
	nbig := 0
	for _, ch := range chains {
		if len(ch.PosTable) > 8 {
			nbig++
		}
	}
	stride := (nbig + 7) / 8
	if stride < 1 {
		stride = 1
	}
	big, full := 0, int64(0)
	for _, ch := range chains {
		r.Need(len(ch.PosTable) <= 16 && len(ch.PosTable) >= int(ch.N), "table of %d slots", len(ch.PosTable))
		b2 := byte2
		if len(ch.PosTable) <= 8 {
			b2 = []int{0} // byte 2 is never read
			full++
		} else {
			if r.Thorough() && big%stride == 0 {
				b2 = all256
				full++
			}
			big++
		}
		for _, hi := range b2 {
			*item++
			if !r.Mine(*item) {
				continue
			}
			if r.Expired() {
				return
			}
			var seed vconfig.VRFValue
			seed[2] = byte(hi)
			cls := map[[2]int]int64{}
			for lo := 0; lo < 1<<16; lo++ {
				seed[0], seed[1] = byte(lo), byte(lo>>8)
				ne, nc, ok := c29check(r, ch, seed, "genesis-table", false)
				if ok {
					cls[[2]int{ne, nc}]++
				}
			}
			r.Eval(1 << 16)
			for k, v := range cls {
				r.ClassN(fmt.Sprintf("B:N=%d,C=%d,slots=%d:E=%d,K=%d", ch.N, ch.C, len(ch.PosTable), k[0], k[1]), v)
			}
		}
	}
	r.Set("B.tables_with_all_readable_seed_bits", full)
}

func c29partC(r *vh.Run, item *int) {
	// governance-valid shape K=7, L=112, C=2 (and a 560-slot table whose
	// length exceeds the 512 draws), seeds produced by the real seed function.
	stakeSets := [][]uint64{
		{10000, 10000, 10000, 10000, 10000, 10000, 10000},
		{1 << 40, 1, 1, 1, 1, 1, 1},
		{7000000, 600000, 50000, 4000, 300, 20, 1},
		{0, 0, 0, 0, 0, 0, 0},
		{500000, 500000, 500000, 10000, 10000, 10000, 10000},
	}
	type shape struct{ K, L, C uint32 }
	for _, sh := range []shape{{7, 112, 2}, {7, 560, 2}, {7, 112, 1}} {
		for _, st := range stakeSets {
			ch := c29genesis(r, sh.K, sh.L, sh.C, st)
			nblocks := r.Pick(1<<11, 1<<14)
			for prop := uint32(1); prop <= 4; prop++ {
				*item++
				if !r.Mine(*item) {
					continue
				}
				if r.Expired() {
					return
				}
				cls := map[string]int64{}
				prevVrf := []byte{byte(prop), 0xC2, 0x9}
				for bn := 0; bn < nblocks; bn++ {
					blk := c29block(uint32(bn), prop, prevVrf)
					seed := getParticipantSelectionSeed(blk)
					seed2 := getParticipantSelectionSeed(c29block(uint32(bn), prop, append([]byte{}, prevVrf...)))
					if seed != seed2 || seed.IsNil() {
						r.Violationf("seed:nondeterministic", map[string]interface{}{"block": bn, "proposer": prop},
							"getParticipantSelectionSeed gives %x then %x for equal blocks", seed[:8], seed2[:8])
					}
					ne, nc, ok := c29check(r, ch, seed, "genesis-table+real-seed", bn%64 == 0)
					if ok {
						cls[fmt.Sprintf("C:N=%d,C=%d,slots=%d:appeared%s:E=%d,K=%d", ch.N, ch.C, len(ch.PosTable), c29rel(c29appeared(seed, ch.PosTable), ch.C), ne, nc)]++
					}
					prevVrf = seed[:16] // chain the seeds like consecutive blocks do
				}
				r.Eval(int64(nblocks))
				for k, v := range cls {
					r.ClassN(k, v)
				}
			}
			// structured seeds: constant bytes, single set bytes, walking bit
			*item++
			if r.Mine(*item) {
				var structured []vconfig.VRFValue
				for _, b := range []byte{0x00, 0xff, 0x55, 0xaa, 0x01, 0x80} {
					bb := b
					structured = append(structured, c29seedBytes(func(int) byte { return bb }))
				}
				for pos := 0; pos < 64; pos++ {
					for _, b := range []byte{0x01, 0x80, 0xff} {
						pp, bb := pos, b
						structured = append(structured, c29seedBytes(func(i int) byte {
							if i == pp {
								return bb
							}
							return 0
						}))
					}
				}
				for _, seed := range structured {
					if _, _, ok := c29check(r, ch, seed, "genesis-table+structured-seed", true); ok {
						r.Class(fmt.Sprintf("C:structured:N=%d,C=%d,slots=%d:appeared%s", ch.N, ch.C, len(ch.PosTable), c29rel(c29appeared(seed, ch.PosTable), ch.C)))
					}
				}
				r.Eval(int64(len(structured)))
			}
		}
	}
}

func TestVerif_C29(t *testing.T) {
	r := vh.Start(t, "C29", "participants")
	defer r.Finish()
	r.Rule("real calcParticipantPeers/calcParticipant/getParticipantSelectionSeed. (A) for N in 4..8 (thorough: ..10, incl. N>5C+4) and every C with N>=3C+1: every order of first appearance of every non-empty subset of peers, realised by crafted position tables (32 slots; 600 slots to pass the 512-draw limit) under 3 fixed seeds, with chain.Peers ascending and descending when the fill loop runs; (B) every de-duplicated position table that the real GenesisChainConfig derives from stake multisets over {0,1,2,10^4,10^4+1,2^60} for (K,L,C) in {(4,8,1),(4,16,1),(5,10,1),(7,14,2),(7,14,1),(8,16,2)} x every seed prefix that such a table can read (all 2^16 two-byte prefixes; third byte from a 2-symbol (quick) / 16-symbol (thorough) alphabet; tables of <=8 slots read two bytes only, so they get all readable seed bits; thorough also runs all 2^24 three-byte prefixes on 8 evenly spaced tables with >8 slots); (C) K=7,L=112|560 tables from 5 stake profiles x seeds from the real seed function over chained blocks x 4 proposers, plus 198 structured seeds. Oracle per call: C+1 distinct proposers, >=2C+1 distinct endorsers, >=2C+1 distinct committers, all members, two calls (and a call on fresh copies) equal, and the sets returned for one round unchanged after the next round (another seed) was computed. classes = (part, N, C, peers appeared, distinct endorsers, distinct committers)")
	r.Bound(fmt.Sprintf("N<=%d; tables<=16 slots; L=112/560 with %d chained seeds per (table, proposer)", r.Pick(8, 10), r.Pick(1<<11, 1<<14)))
	r.Assume("valid configuration: C>=1, N=len(Peers)>=3C+1, distinct peer indexes, every PosTable entry is a member")

	var rc c29case
	if r.ReplayCase(&rc) && rc.Round != nil {
		return // a case of unit "round"; replayed there
	}
	if r.ReplayCase(&rc) && rc.Table != nil {
		raw, _ := hex.DecodeString(rc.Seed)
		var seed vconfig.VRFValue
		copy(seed[:], raw)
		c29check(r, c29chain(rc.N, rc.C, rc.Peers, rc.Table), seed, rc.Source, true)
		r.Eval(1)
		return
	}
	item := 0
	c29partA(r, &item)
	c29partB(r, &item)
	c29partC(r, &item)
	r.Sample(c29case{4, 1, []uint32{1, 2, 3, 4}, []uint32{2, 2, 2, 2, 1, 3, 4, 2}, strings.Repeat("00", 64), "example", nil})
	if r.R.NShards == 1 {
		r.NeedClass("A:N=4,C=1:appeared=1:E=3,K=3")
		r.NeedClass("A:N=7,C=2:appeared=7:E=5,K=5")
	}
}

package vbft

// C31 — commit consensus needs a verifiable quorum (engine xs, DESIGN §4 C31).
// Real BlockPool (newBlockProposal / newBlockEndorsement / newBlockCommitment /
// commitDone → getCommitConsensus) with the minimal Server it needs.  Every
// message of the alphabet passes the REAL msg.Verify under the key of the peer
// that sends it (checked when the universe is built), i.e. it is something
// that peer can get past the node's door.  Breadth-first search over message
// sequences; in every state commitDone is asked and, when it declares
// consensus for proposer p, the harness counts the distinct peers for which a
// signature verifying under THAT peer's key over p's block (or empty block)
// hash is present in the pool.

import (
	"encoding/json"
	"fmt"
	"sort"
	"strings"
	"testing"

	"github.com/ontio/ontology-crypto/keypair"
	sig "github.com/ontio/ontology-crypto/signature"
	"github.com/ontio/ontology/account"
	"github.com/ontio/ontology/common"
	vconfig "github.com/ontio/ontology/consensus/vbft/config"
	"github.com/ontio/ontology/core/signature"
	"github.com/ontio/ontology/core/types"
	"github.com/ontio/ontology/verifshim/vh"
	"github.com/ontio/ontology/verifshim/vkeys"
	"github.com/ontio/ontology/verifshim/xs"
)

type c31msg struct {
	label  string
	sender uint32 // the peer that puts it on the wire
	kind   string // faulty ingredient class ("" for an honest message)
	prop   *blockProposalMsg
	end    *blockEndorseMsg
	com    *blockCommitMsg
}

type c31world struct {
	n, c     uint32
	accts    []*account.Account
	faulty   uint32
	msgs     []*c31msg
	byLabel  map[string]*c31msg
	blocks   map[uint32]*Block // proposer -> proposal block
	sigLabel map[string]string // signature bytes -> "i:hashlabel" or "junk"
}

func c31acct(i int) *account.Account {
	pri, pub := vkeys.P256(100 + i)
	return &account.Account{PrivateKey: pri, PublicKey: pub, Address: types.AddressFromPubKey(pub), SigScheme: sig.SHA256withECDSA}
}

func c31header(proposer uint32, nonce uint64, empty bool) *types.Block {
	info := &vconfig.VbftBlockInfo{Proposer: proposer}
	pl, _ := json.Marshal(info)
	h := &types.Header{Height: 1, Timestamp: 1000 + uint32(proposer), ConsensusData: nonce, ConsensusPayload: pl}
	if empty {
		h.ConsensusData = nonce + 7777
	}
	return &types.Block{Header: h}
}

func (w *c31world) sign(i uint32, data []byte, label string) []byte {
	s, err := signature.Sign(w.accts[i], data)
	if err != nil {
		panic(err)
	}
	w.sigLabel[string(s)] = fmt.Sprintf("%d:%s", i, label)
	return s
}

func (w *c31world) junk(tag byte) []byte {
	s := []byte{1, tag, 2, 3, 4, 5, 6, 7, 8, 9, 10, 11, 12, 13, 14, 15, 16, 17}
	w.sigLabel[string(s)] = "junk"
	return s
}

func (w *c31world) proposal(p uint32) *Block {
	blk := c31header(p, uint64(p)+1, false)
	eblk := c31header(p, uint64(p)+1, true)
	bh, eh := blk.Hash(), eblk.Hash()
	blk.Header.SigData = [][]byte{w.sign(p, bh[:], fmt.Sprintf("B%d", p))}
	blk.Header.Bookkeepers = []keypair.PublicKey{w.accts[p].PublicKey}
	eblk.Header.SigData = [][]byte{w.sign(p, eh[:], fmt.Sprintf("E%d", p))}
	eblk.Header.Bookkeepers = []keypair.PublicKey{w.accts[p].PublicKey}
	return &Block{Block: blk, EmptyBlock: eblk, Info: &vconfig.VbftBlockInfo{Proposer: p}}
}

func (w *c31world) add(m *c31msg) {
	// the door: the real Verify under the sender's key (proposals: under the proposer's key, as the node does)
	var err error
	switch {
	case m.prop != nil:
		err = m.prop.Verify(w.accts[m.prop.Block.getProposer()].PublicKey)
	case m.end != nil:
		err = m.end.Verify(w.accts[m.sender].PublicKey)
	case m.com != nil:
		err = m.com.Verify(w.accts[m.sender].PublicKey)
	}
	if err != nil {
		panic(fmt.Sprintf("VERIF-INFRA message %s does not pass the real Verify: %v", m.label, err))
	}
	w.msgs = append(w.msgs, m)
	w.byLabel[m.label] = m
}

func c31subsetLabel(s []uint32) string {
	var p []string
	for _, x := range s {
		p = append(p, fmt.Sprint(x))
	}
	return strings.Join(p, "")
}

func c31newWorld(n uint32, thorough bool) *c31world {
	w := &c31world{n: n, c: (n - 1) / 3, faulty: n - 1, byLabel: map[string]*c31msg{}, blocks: map[uint32]*Block{}, sigLabel: map[string]string{}}
	for i := 0; i < int(n); i++ {
		w.accts = append(w.accts, c31acct(i))
	}
	hp := uint32(1) // honest proposer
	f := w.faulty
	w.blocks[hp] = w.proposal(hp)
	w.blocks[f] = w.proposal(f)
	w.add(&c31msg{label: fmt.Sprintf("prop(%d)", hp), sender: hp, prop: &blockProposalMsg{Block: w.blocks[hp], BlockProposerSig: w.blocks[hp].Block.Header.SigData[0], EmptyBlockProposerSig: w.blocks[hp].EmptyBlock.Header.SigData[0]}})
	w.add(&c31msg{label: fmt.Sprintf("prop(%d)", f), sender: f, kind: "faulty-proposal", prop: &blockProposalMsg{Block: w.blocks[f], BlockProposerSig: w.blocks[f].Block.Header.SigData[0], EmptyBlockProposerSig: w.blocks[f].EmptyBlock.Header.SigData[0]}})
	bh := w.blocks[hp].Block.Hash()
	eh := w.blocks[hp].EmptyBlock.Hash()
	fh := w.blocks[f].Block.Hash()
	honest := []uint32{}
	for i := uint32(0); i < n; i++ {
		if i != f {
			honest = append(honest, i)
		}
	}
	// honest endorsements (for the block and for the empty block)
	for _, i := range honest {
		w.add(&c31msg{label: fmt.Sprintf("endorse(%d,p%d)", i, hp), sender: i, end: &blockEndorseMsg{Endorser: i, EndorsedProposer: hp, BlockNum: 1, EndorsedBlockHash: bh, EndorserSig: w.sign(i, bh[:], fmt.Sprintf("B%d", hp))}})
		if thorough || i < 2 {
			w.add(&c31msg{label: fmt.Sprintf("endorseEmpty(%d,p%d)", i, hp), sender: i, end: &blockEndorseMsg{Endorser: i, EndorsedProposer: hp, BlockNum: 1, EndorsedBlockHash: eh, EndorseForEmpty: true, EndorserSig: w.sign(i, eh[:], fmt.Sprintf("E%d", hp))}})
		}
	}
	// honest commits carrying the endorsements the committer really saw (C+1 or all honest)
	var sets [][]uint32
	sets = append(sets, honest[:w.c+1], honest[1:w.c+2], honest)
	for _, i := range honest {
		for si, set := range sets {
			if !thorough && si == 1 && i != honest[0] {
				continue
			}
			es := map[uint32][]byte{}
			for _, j := range set {
				es[j] = w.sign(j, bh[:], fmt.Sprintf("B%d", hp))
			}
			w.add(&c31msg{label: fmt.Sprintf("commit(%d,p%d,E=%s)", i, hp, c31subsetLabel(set)), sender: i,
				com: &blockCommitMsg{Committer: i, BlockProposer: hp, BlockNum: 1, CommitBlockHash: bh, EndorsersSig: es, CommitterSig: w.sign(i, bh[:], fmt.Sprintf("B%d", hp))}})
		}
	}
	{
		i := honest[0]
		es := map[uint32][]byte{}
		for _, j := range honest[:w.c+1] {
			es[j] = w.sign(j, eh[:], fmt.Sprintf("E%d", hp))
		}
		w.add(&c31msg{label: fmt.Sprintf("commitEmpty(%d,p%d,E=%s)", i, hp, c31subsetLabel(honest[:w.c+1])), sender: i,
			com: &blockCommitMsg{Committer: i, BlockProposer: hp, BlockNum: 1, CommitBlockHash: eh, CommitForEmpty: true, EndorsersSig: es, CommitterSig: w.sign(i, eh[:], fmt.Sprintf("E%d", hp))}})
	}
	// ---- what ONE faulty peer f can send (everything below is signed with f's key only) ----
	// own endorsement / commit, honest in form
	w.add(&c31msg{label: fmt.Sprintf("F:endorse(%d,p%d)", f, hp), sender: f, kind: "", end: &blockEndorseMsg{Endorser: f, EndorsedProposer: hp, BlockNum: 1, EndorsedBlockHash: bh, EndorserSig: w.sign(f, bh[:], fmt.Sprintf("B%d", hp))}})
	w.add(&c31msg{label: fmt.Sprintf("F:commit(%d,p%d,E=none)", f, hp), sender: f, kind: "",
		com: &blockCommitMsg{Committer: f, BlockProposer: hp, BlockNum: 1, CommitBlockHash: bh, EndorsersSig: map[uint32][]byte{}, CommitterSig: w.sign(f, bh[:], fmt.Sprintf("B%d", hp))}})
	// endorsement naming another peer as endorser
	for _, j := range honest {
		if !thorough && j > 2 {
			continue
		}
		w.add(&c31msg{label: fmt.Sprintf("F:endorse-as(%d,p%d)", j, hp), sender: f, kind: "forged-endorser-index",
			end: &blockEndorseMsg{Endorser: j, EndorsedProposer: hp, BlockNum: 1, EndorsedBlockHash: bh, EndorserSig: w.sign(f, bh[:], fmt.Sprintf("B%d", hp))}})
	}
	// commit naming another peer as committer
	for _, j := range honest {
		if !thorough && j > 2 {
			continue
		}
		w.add(&c31msg{label: fmt.Sprintf("F:commit-as(%d,p%d,E=none)", j, hp), sender: f, kind: "forged-committer-index",
			com: &blockCommitMsg{Committer: j, BlockProposer: hp, BlockNum: 1, CommitBlockHash: bh, EndorsersSig: map[uint32][]byte{}, CommitterSig: w.sign(f, bh[:], fmt.Sprintf("B%d", hp))}})
	}
	// commit claiming endorsements it does not have: junk bytes for every subset size 1..n-1 of other peers
	for k := 1; k <= int(n)-1; k++ {
		es := map[uint32][]byte{}
		for j := 0; j < k; j++ {
			es[honest[j%len(honest)]] = w.junk(byte(j))
		}
		w.add(&c31msg{label: fmt.Sprintf("F:commit(%d,p%d,E=junk x%d)", f, hp, len(es)), sender: f, kind: "junk-endorser-sigs",
			com: &blockCommitMsg{Committer: f, BlockProposer: hp, BlockNum: 1, CommitBlockHash: bh, EndorsersSig: es, CommitterSig: w.sign(f, bh[:], fmt.Sprintf("B%d", hp))}})
	}
	// replayed signature: the proposer's own proposal signature presented as its endorsement (a valid signature, but no new signer)
	w.add(&c31msg{label: fmt.Sprintf("F:commit(%d,p%d,E=replayed proposer sig)", f, hp), sender: f, kind: "",
		com: &blockCommitMsg{Committer: f, BlockProposer: hp, BlockNum: 1, CommitBlockHash: bh, EndorsersSig: map[uint32][]byte{hp: w.blocks[hp].Block.Header.SigData[0]}, CommitterSig: w.sign(f, bh[:], fmt.Sprintf("B%d", hp))}})
	// commit for its own conflicting proposal with claimed endorsements
	{
		es := map[uint32][]byte{}
		for _, j := range honest {
			es[j] = w.junk(byte(40 + j))
		}
		w.add(&c31msg{label: fmt.Sprintf("F:commit(%d,p%d,E=junk all)", f, f), sender: f, kind: "junk-endorser-sigs",
			com: &blockCommitMsg{Committer: f, BlockProposer: f, BlockNum: 1, CommitBlockHash: fh, EndorsersSig: es, CommitterSig: w.sign(f, fh[:], fmt.Sprintf("B%d", f))}})
	}
	return w
}

type c31state struct {
	w    *c31world
	pool *BlockPool
	hist []string
}

func (w *c31world) newState() *c31state {
	pp := NewPeerPool(int(w.n), nil)
	var ids []uint32
	for i, a := range w.accts {
		if err := pp.addPeer(&vconfig.PeerConfig{Index: uint32(i), ID: vconfig.PubkeyID(a.PublicKey)}); err != nil {
			panic(err)
		}
		ids = append(ids, uint32(i))
	}
	srv := &Server{Index: 0, config: &vconfig.ChainConfig{N: w.n, C: w.c}, peerPool: pp,
		stateMgr:                 &StateMgr{currentState: Synced},
		chainStore:               &ChainStore{chainedBlockNum: 0},
		currentParticipantConfig: &BlockParticipantConfig{BlockNum: 1, Proposers: []uint32{1, w.faulty}, Endorsers: ids, Committers: ids}}
	pool := &BlockPool{server: srv, HistoryLen: 64, candidateBlocks: make(map[uint32]*CandidateInfo)}
	srv.blockPool = pool
	return &c31state{w: w, pool: pool}
}

func (s *c31state) apply(label string) {
	m := s.w.byLabel[label]
	s.hist = append(s.hist, label)
	switch {
	case m.prop != nil:
		s.pool.newBlockProposal(m.prop)
	case m.end != nil:
		s.pool.newBlockEndorsement(m.end)
	case m.com != nil:
		s.pool.newBlockCommitment(m.com)
	}
}

func (s *c31state) key() string {
	c := s.pool.candidateBlocks[1]
	if c == nil {
		return "empty"
	}
	var parts []string
	for _, p := range c.Proposals {
		parts = append(parts, fmt.Sprintf("P%d", p.Block.getProposer()))
	}
	var es []string
	for e, l := range c.EndorseSigs {
		for _, x := range l {
			es = append(es, fmt.Sprintf("e%d>%d/%v/%s", e, x.EndorsedProposer, x.ForEmpty, s.w.sigLabel[string(x.Signature)]))
		}
	}
	sort.Strings(es) // the per-endorser list order never matters to commitDone's counting
	parts = append(parts, es...)
	for _, m := range c.CommitMsgs { // order matters (first quorum wins): keep it
		var en []string
		for j, sg := range m.EndorsersSig {
			en = append(en, fmt.Sprintf("%d=%s", j, s.w.sigLabel[string(sg)]))
		}
		sort.Strings(en)
		parts = append(parts, fmt.Sprintf("c%d>%d/%v/%s[%s]", m.Committer, m.BlockProposer, m.CommitForEmpty, s.w.sigLabel[string(m.CommitterSig)], strings.Join(en, ",")))
	}
	return strings.Join(parts, ";")
}

func (w *c31world) verifies(i uint32, sg []byte, hashes ...common.Uint256) bool {
	if int(i) >= len(w.accts) {
		return false
	}
	for _, h := range hashes {
		if signature.Verify(w.accts[i].PublicKey, h[:], sg) == nil {
			return true
		}
	}
	return false
}

// check: if commit consensus is declared, count the verifiable distinct signers.
func (s *c31state) check() (string, string) {
	w := s.w
	proposer, forEmpty, done := s.pool.commitDone(1, w.c, w.n)
	if !done {
		return "", ""
	}
	need := int(w.n - (w.n-1)/3)
	blk := w.blocks[proposer]
	signers := map[uint32]bool{}
	if blk != nil {
		bh, eh := blk.Block.Hash(), blk.EmptyBlock.Hash()
		c := s.pool.candidateBlocks[1]
		for _, p := range c.Proposals {
			if p.Block.getProposer() == proposer && w.verifies(proposer, p.BlockProposerSig, bh) {
				signers[proposer] = true
			}
		}
		for e, l := range c.EndorseSigs {
			for _, x := range l {
				if x.EndorsedProposer == proposer && w.verifies(e, x.Signature, bh, eh) {
					signers[e] = true
				}
			}
		}
		for _, m := range c.CommitMsgs {
			if m.BlockProposer != proposer {
				continue
			}
			if w.verifies(m.Committer, m.CommitterSig, bh, eh) {
				signers[m.Committer] = true
			}
			for j, sg := range m.EndorsersSig {
				if w.verifies(j, sg, bh, eh) {
					signers[j] = true
				}
			}
		}
	}
	if len(signers) >= need {
		return "", ""
	}
	kinds := map[string]bool{}
	for _, l := range s.hist {
		if k := w.byLabel[l].kind; k != "" {
			kinds[k] = true
		}
	}
	var ks []string
	for k := range kinds {
		ks = append(ks, k)
	}
	sort.Strings(ks)
	cls := "messages-all-honest-in-form"
	if len(ks) > 0 {
		cls = strings.Join(ks, "+")
	}
	var who []string
	for i := range signers {
		who = append(who, fmt.Sprint(i))
	}
	sort.Strings(who)
	key := "commit-declared:" + cls
	if len(ks) == 0 {
		// with well-formed messages only, the deciding code path and the size of the shortfall are part of the class
		path := "via-endorse-sigs"
		if c := s.pool.candidateBlocks[1]; c != nil {
			if p, _ := getCommitConsensus(c.CommitMsgs, int(w.c), int(w.n)); p == proposer {
				path = "via-commit-msgs"
			}
		}
		key += fmt.Sprintf(":%s:short-by-%d", path, need-len(signers))
	}
	return key,
		fmt.Sprintf("N=%d C=%d: commit consensus declared for proposer %d (empty=%v) but only %d distinct peers {%s} have a verifiable signature for that proposal in the pool; %d are required", w.n, w.c, proposer, forEmpty, len(signers), strings.Join(who, ","), need)
}

type c31case struct {
	N       uint32   `json:"n"`
	History []string `json:"history"`
}

func TestVerif_C31(t *testing.T) {
	r := vh.Start(t, "C31", "commitquorum")
	defer r.Finish()
	r.Rule("breadth-first search over sequences of consensus messages (honest proposals, endorsements, commits carrying the endorsements really seen; plus everything ONE faulty peer can sign with its own key: endorse/commit naming other peers, commits claiming junk or replayed endorser signatures, a conflicting proposal) delivered to the real BlockPool; every message passes the real msg.Verify under its sender's key; state = canonical projection of the pool's candidate info; in every state commitDone is asked and a declared consensus must be backed by N-(N-1)/3 distinct peers with a signature verifying under their own key")
	depth := r.Pick(3, 4)
	var rc c31case
	replay := r.ReplayCase(&rc) && rc.N != 0
	if r.IsReplay() && !replay {
		return // a recorded case of the unit honestrun
	}
	for wi, n := range []uint32{4, 7, 5, 8} { // 5 and 8 are sizes that are not of the form 3C+1
		if replay && rc.N != n {
			continue
		}
		w := c31newWorld(n, r.Thorough())
		if replay {
			s := w.newState()
			for _, l := range rc.History {
				if w.byLabel[l] == nil {
					t.Fatalf("VERIF-INFRA unknown message label %q", l)
				}
				s.apply(l)
				if k, d := s.check(); k != "" {
					r.Violation(k, d, rc)
					return
				}
			}
			return
		}
		var labels []string
		for _, m := range w.msgs {
			labels = append(labels, m.label)
		}
		d := depth
		if n >= 7 && r.Quick() {
			d = 2
		}
		if n >= 7 && r.Thorough() {
			d = 3
		}
		seenKey := map[string]bool{}
		cfg := xs.Config{
			Init:   func() interface{} { return w.newState() },
			Events: func(s interface{}) []string { return labels },
			Apply: func(s interface{}, ev string) (string, string) {
				s.(*c31state).apply(ev)
				return "", ""
			},
			Key: func(s interface{}) string { return fmt.Sprintf("N%d|", n) + s.(*c31state).key() },
			Check: func(s interface{}, hist []string) (string, string) {
				st := s.(*c31state)
				k, dd := st.check()
				_, _, done := st.pool.commitDone(1, w.c, w.n)
				r.Class(fmt.Sprintf("N=%d:commitDone=%v:violation=%v", n, done, k != ""))
				if k != "" && seenKey[k] {
					return "", "" // BFS: the first (shortest) history per class is the one reported
				}
				if k != "" {
					// report minimal histories only: every message must be necessary, so that the
					// class names exactly the ingredients the violation needs
					for drop := range hist {
						sub := w.newState()
						for i, l := range hist {
							if i != drop {
								sub.apply(l)
							}
						}
						if k2, _ := sub.check(); k2 != "" {
							return "", ""
						}
					}
				}
				if k != "" {
					seenKey[k] = true
				}
				return k, dd
			},
			MaxDepth: d, ShardFirst: true, Tag: "",
		}
		st := xs.Run(r, cfg)
		r.Eval(st.Transitions)
		r.Set(fmt.Sprintf("N=%d.alphabet", n), len(labels))
		r.Set(fmt.Sprintf("N=%d.depth", n), d)
		r.Set(fmt.Sprintf("N=%d.states", n), st.States)
		if wi == 0 {
			r.Sample(map[string]interface{}{"N": n, "alphabet": labels})
		}
	}
	r.Bound(fmt.Sprintf("N=4 depth<=%d, N=7 depth<=%d; one faulty peer", depth, map[bool]int{true: 2, false: 3}[r.Quick()]))
}

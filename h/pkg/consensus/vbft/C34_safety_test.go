package vbft

// C34 — no two honest nodes seal different blocks (engine xs over the real
// handlers, DESIGN §4 C34).  N=4, C=1, one height.  Three honest nodes are real
// vbft.Server objects (real BlockPool, MsgPool, PeerPool, EventTimer; no ledger,
// no network); every transition calls the real processMsgEvent /
// processTimerEvent / endorseBlock / commitBlock with real signatures.  The
// harness owns the transport (which message reaches which node when, loss =
// never delivered), the timers (fired by the explorer) and the fourth,
// Byzantine peer, whose messages all pass the real msg.Verify under its own
// key.  A node's decision to seal is the SealBlock action it queues (what
// actionLoop hands to sealProposal).  Breadth-first search over event
// sequences with replay on fresh servers.

import (
	"fmt"
	"sort"
	"strings"
	"testing"
	"time"

	"github.com/ontio/ontology-crypto/keypair"
	"github.com/ontio/ontology/account"
	"github.com/ontio/ontology/common"
	"github.com/ontio/ontology/common/log"
	vconfig "github.com/ontio/ontology/consensus/vbft/config"
	"github.com/ontio/ontology/core/ledger"
	"github.com/ontio/ontology/core/signature"
	"github.com/ontio/ontology/core/store"
	"github.com/ontio/ontology/core/types"
	"github.com/ontio/ontology/verifshim/vh"
	"github.com/ontio/ontology/verifshim/xs"
)

const c34H = uint32(10)

type c34world struct {
	accts  map[uint32]*account.Account
	byz    uint32
	honest []uint32
	props  map[uint32]*blockProposalMsg // proposer -> its (single) honest-form proposal
	propX  *blockProposalMsg            // a second, conflicting proposal by the Byzantine peer (if it is a proposer)
	bmsgs  map[string]ConsensusMsg      // Byzantine menu: label -> message
	bkind  map[string]string
	border []string
}

func c34prev() *Block {
	return &Block{Block: &types.Block{Header: &types.Header{Height: c34H - 1, Timestamp: 1000}}, Info: &vconfig.VbftBlockInfo{Proposer: 1}}
}

func (w *c34world) mkProposal(p uint32, nonce uint64) *blockProposalMsg {
	prev := c34prev().Block.Hash()
	mk := func(n uint64) *types.Block {
		b := &types.Block{Header: &types.Header{Height: c34H, PrevBlockHash: prev, Timestamp: 2000, ConsensusData: n}}
		h := b.Hash()
		s, err := signature.Sign(w.accts[p], h[:])
		if err != nil {
			panic(err)
		}
		b.Header.Bookkeepers = []keypair.PublicKey{w.accts[p].PublicKey}
		b.Header.SigData = [][]byte{s}
		return b
	}
	blk, eblk := mk(nonce), mk(nonce+5000)
	m := &blockProposalMsg{Block: &Block{Block: blk, EmptyBlock: eblk, Info: &vconfig.VbftBlockInfo{Proposer: p}},
		BlockProposerSig: blk.Header.SigData[0], EmptyBlockProposerSig: eblk.Header.SigData[0]}
	if err := m.Verify(w.accts[p].PublicKey); err != nil {
		panic("VERIF-INFRA proposal does not verify: " + err.Error())
	}
	return m
}

func c34newWorld(byz uint32) *c34world {
	w := &c34world{accts: map[uint32]*account.Account{}, byz: byz, props: map[uint32]*blockProposalMsg{}, bmsgs: map[string]ConsensusMsg{}, bkind: map[string]string{}}
	for i := uint32(1); i <= 4; i++ {
		w.accts[i] = c31acct(int(i) + 40)
		if i != byz {
			w.honest = append(w.honest, i)
		}
	}
	w.props[1] = w.mkProposal(1, 0xA)
	w.props[2] = w.mkProposal(2, 0xB)
	// ---- Byzantine menu (all signed with byz's key only; each passes the real Verify under that key) ----
	f := byz
	sign := func(h common.Uint256) []byte {
		s, err := signature.Sign(w.accts[f], h[:])
		if err != nil {
			panic(err)
		}
		return s
	}
	add := func(label, kind string, m ConsensusMsg) {
		pk := w.accts[f].PublicKey
		if p, ok := m.(*blockProposalMsg); ok {
			pk = w.accts[p.Block.getProposer()].PublicKey
		}
		if err := m.Verify(pk); err != nil {
			panic("VERIF-INFRA byzantine message " + label + " does not pass Verify: " + err.Error())
		}
		w.bmsgs[label] = m
		w.bkind[label] = kind
		w.border = append(w.border, label)
	}
	junk := func(tag byte) []byte { return []byte{1, tag, 2, 3, 4, 5, 6, 7, 8, 9, 10, 11, 12, 13, 14, 15, 16, 17} }
	if f == 1 || f == 2 {
		// an equivocating proposer: a second proposal
		w.propX = w.mkProposal(f, 0xC)
		add("X:proposal'", "second-proposal", w.propX)
	}
	targets := []*blockProposalMsg{w.props[1], w.props[2]}
	if w.propX != nil {
		targets = append(targets, w.propX)
	}
	for ti, p := range targets {
		pr := p.Block.getProposer()
		tag := fmt.Sprintf("p%d", pr)
		if ti == 2 {
			tag += "'"
		}
		bh := p.Block.Block.Hash()
		// own, honest-form endorsement and commit
		add("X:endorse("+tag+")", "endorse", &blockEndorseMsg{Endorser: f, EndorsedProposer: pr, BlockNum: c34H, EndorsedBlockHash: bh, EndorserSig: sign(bh)})
		// commit claiming endorsements it does not hold (junk bytes for every other peer)
		es := map[uint32][]byte{}
		for i := uint32(1); i <= 4; i++ {
			if i != f {
				es[i] = junk(byte(i))
			}
		}
		add("X:commit("+tag+",E=junk all)", "commit-with-junk-endorser-sigs", &blockCommitMsg{Committer: f, BlockProposer: pr, BlockNum: c34H, CommitBlockHash: bh, EndorsersSig: es, CommitterSig: sign(bh)})
		add("X:commit("+tag+",E=none)", "commit", &blockCommitMsg{Committer: f, BlockProposer: pr, BlockNum: c34H, CommitBlockHash: bh, EndorsersSig: map[uint32][]byte{}, CommitterSig: sign(bh)})
		// well-formed endorsement / commit for the EMPTY variant of the proposal
		eh := p.Block.EmptyBlock.Hash()
		add("X:endorseEmpty("+tag+")", "endorse-empty", &blockEndorseMsg{Endorser: f, EndorsedProposer: pr, BlockNum: c34H, EndorsedBlockHash: eh, EndorseForEmpty: true, EndorserSig: sign(eh)})
		add("X:commitEmpty("+tag+",E=none)", "commit-empty", &blockCommitMsg{Committer: f, BlockProposer: pr, BlockNum: c34H, CommitBlockHash: eh, CommitForEmpty: true, EndorsersSig: map[uint32][]byte{}, CommitterSig: sign(eh)})
	}
	return w
}

// c34ledger: the ledger has nothing beyond the previous height (the current height is not sealed anywhere yet)
type c34ledger struct{ store.LedgerStore }

func (c34ledger) GetBlockByHeight(h uint32) (*types.Block, error) {
	return nil, fmt.Errorf("block %d not in ledger", h)
}
func (c34ledger) GetCurrentBlockHeight() uint32 { return c34H - 1 }

// ---- one honest node ----

type c34node struct {
	srv    *Server
	outbox []ConsensusMsg
	sealed []string // decisions: "<blockhash>/<empty>"
}

func (w *c34world) newNode(index uint32) *c34node {
	peers := make(map[uint32]*Peer)
	cfgs := make(map[uint32]*vconfig.PeerConfig)
	ids := make(map[string]uint32)
	for i, acc := range w.accts {
		peers[i] = &Peer{Index: i, PubKey: acc.PublicKey, LastUpdateTime: time.Unix(0, 0), connected: true}
		id := vconfig.PubkeyID(acc.PublicKey)
		cfgs[i] = &vconfig.PeerConfig{Index: i, ID: id}
		ids[id] = i
	}
	srv := &Server{
		Index:           index,
		account:         w.accts[index],
		stateMgr:        &StateMgr{currentState: Synced, StateEventC: make(chan *StateEvent, 1024)},
		config:          &vconfig.ChainConfig{Version: 1, View: 1, N: 4, C: 1, BlockMsgDelay: 10000, HashMsgDelay: 10000, PeerHandshakeTimeout: 10000},
		currentBlockNum: c34H,
		// the layout calcParticipantPeers produces for 4 peers
		currentParticipantConfig: &BlockParticipantConfig{BlockNum: c34H, Proposers: []uint32{1, 2}, Endorsers: []uint32{3, 2, 4}, Committers: []uint32{4, 2, 3}},
		chainStore:               &ChainStore{chainedBlockNum: c34H - 1, pendingBlocks: map[uint32]*PendingBlock{}, db: &ledger.Ledger{LedgerStore: c34ledger{}}},
		peerPool:                 &PeerPool{maxSize: 4, configs: cfgs, IDMap: ids, peers: peers},
		msgC:                     make(chan ConsensusMsg, 1024),
		bftActionC:               make(chan *BftAction, 1024),
		msgSendC:                 make(chan *SendMsgEvent, 1024),
		quitC:                    make(chan struct{}),
		LastConfigBlockNum:       0,
	}
	srv.timer = NewEventTimer(srv)
	srv.msgPool = newMsgPool(srv, 64)
	srv.blockPool = &BlockPool{server: srv, HistoryLen: 64, chainStore: srv.chainStore,
		candidateBlocks: map[uint32]*CandidateInfo{c34H - 1: {SealedBlock: c34prev()}}}
	return &c34node{srv: srv}
}

func c34label(m ConsensusMsg) string {
	switch x := m.(type) {
	case *blockProposalMsg:
		return fmt.Sprintf("proposal(p%d,%x)", x.Block.getProposer(), x.Block.Block.Header.ConsensusData)
	case *blockEndorseMsg:
		return fmt.Sprintf("endorse(%d,p%d,empty=%v)", x.Endorser, x.EndorsedProposer, x.EndorseForEmpty)
	case *blockCommitMsg:
		var e []string
		for j := range x.EndorsersSig {
			e = append(e, fmt.Sprint(j))
		}
		sort.Strings(e)
		return fmt.Sprintf("commit(%d,p%d,empty=%v,E=%s)", x.Committer, x.BlockProposer, x.CommitForEmpty, strings.Join(e, ""))
	}
	return ""
}

// run drives the node's own loops until nothing is pending (deterministic macro step)
func (n *c34node) run() {
	for guard := 0; guard < 10000; guard++ {
		select {
		case <-n.srv.timer.C: // timeouts belong to the explorer
			continue
		case <-n.srv.stateMgr.StateEventC: // resync requests: out of scope of one height
			continue
		case evt := <-n.srv.msgSendC:
			if evt.Msg.Type() <= BlockCommitMessage {
				n.outbox = append(n.outbox, evt.Msg)
			}
			continue
		case a := <-n.srv.bftActionC:
			switch a.Type { // same dispatch as Server.actionLoop for the actions of one height
			case EndorseBlock:
				n.srv.endorseBlock(a.Proposal, a.forEmpty)
			case CommitBlock:
				n.srv.commitBlock(a.Proposal, a.forEmpty)
			case SealBlock:
				h := a.Proposal.Block.Block.Hash()
				if a.forEmpty && a.Proposal.Block.EmptyBlock != nil {
					h = a.Proposal.Block.EmptyBlock.Hash()
				}
				n.sealed = append(n.sealed, fmt.Sprintf("%x/p%d/empty=%v", h[:6], a.Proposal.Block.getProposer(), a.forEmpty))
			}
			continue
		default:
		}
		if len(n.srv.msgC) > 0 {
			n.srv.processMsgEvent()
			continue
		}
		return
	}
	panic("VERIF-INFRA node does not become quiescent")
}

func (n *c34node) receive(m ConsensusMsg) {
	var h common.Uint256
	if p, ok := m.(*blockProposalMsg); ok {
		h = p.Block.Block.Hash()
	} else {
		var err error
		if h, err = HashMsg(m); err != nil {
			panic(err)
		}
	}
	if n.srv.msgPool.HasMsg(m, h) && m.Type() != BlockCommitMessage {
		return
	}
	if err := n.srv.msgPool.AddMsg(m, h); err != nil {
		return
	}
	n.srv.processConsensusMsg(m)
	n.run()
}

// ---- the whole system as an xs state ----

type c34sys struct {
	w        *c34world
	nodes    map[uint32]*c34node
	pending  map[string]ConsensusMsg // "label→node" -> message (undelivered)
	done     map[string]bool         // deliveries / timeouts / byzantine sends already used
	byzUsed  int
	diverged int
	noops    int
	hist     []string
	kinds    map[string]bool
}

func (w *c34world) newSys() *c34sys {
	s := &c34sys{w: w, nodes: map[uint32]*c34node{}, pending: map[string]ConsensusMsg{}, done: map[string]bool{}, kinds: map[string]bool{}}
	for _, i := range w.honest {
		s.nodes[i] = w.newNode(i)
	}
	return s
}

func (s *c34sys) collect(from uint32) {
	n := s.nodes[from]
	for _, m := range n.outbox {
		l := c34label(m)
		for _, to := range s.w.honest {
			if to == from {
				continue
			}
			k := fmt.Sprintf("D:%s→%d", l, to)
			if !s.done[k] {
				if _, ok := s.pending[k]; !ok {
					s.pending[k] = m
				}
			}
		}
	}
	n.outbox = nil
}

var c34timeouts = map[string]TimerEventType{"propose": EventProposeBlockTimeout, "endorse": EventEndorseBlockTimeout, "endorse-empty": EventEndorseEmptyBlockTimeout, "commit": EventCommitBlockTimeout}

func (s *c34sys) events(byzBudget int) []string {
	var ev []string
	// an honest proposer publishes its proposal (leader at once, 2nd proposer after its backoff)
	for _, p := range []uint32{1, 2} {
		if s.nodes[p] != nil && !s.done[fmt.Sprintf("P:%d", p)] {
			ev = append(ev, fmt.Sprintf("P:%d", p))
		}
	}
	var ds []string
	for k := range s.pending {
		ds = append(ds, k)
	}
	sort.Strings(ds)
	ev = append(ev, ds...)
	for _, i := range s.w.honest {
		for _, t := range []string{"propose", "endorse", "endorse-empty", "commit"} {
			k := fmt.Sprintf("T:%d:%s", i, t)
			if !s.done[k] {
				ev = append(ev, k)
			}
		}
	}
	if s.byzUsed < byzBudget {
		for _, l := range s.w.border {
			for _, to := range s.w.honest {
				k := fmt.Sprintf("%s→%d", l, to)
				if !s.done[k] {
					ev = append(ev, k)
				}
			}
		}
	}
	return ev
}

// apply executes one event.  A timeout or a Byzantine message that leaves every honest node and the set of
// in-flight messages exactly as they were is not counted against the "once each" / budget bookkeeping of the
// harness: the system is in the same state, and not spending the allowance only permits more behaviours later
// (the successor then coincides with its parent and is deduplicated).
func (s *c34sys) apply(ev string) {
	s.hist = append(s.hist, ev)
	s.done[ev] = true
	if strings.HasPrefix(ev, "T:") || strings.HasPrefix(ev, "X:") {
		before, np, nk := s.nodeKey(), len(s.pending), len(s.kinds)
		defer func() {
			if len(s.pending) == np && s.nodeKey() == before {
				delete(s.done, ev)
				if strings.HasPrefix(ev, "X:") {
					s.byzUsed--
					if len(s.kinds) != nk {
						delete(s.kinds, s.w.bkind[ev[:strings.LastIndex(ev, "→")]])
					}
				}
				s.noops++
			}
		}()
	}
	switch {
	case strings.HasPrefix(ev, "P:"):
		var p uint32
		fmt.Sscanf(ev, "P:%d", &p)
		n := s.nodes[p]
		m := s.w.props[p]
		n.receive(m) // add to its own pools, as makeProposal does
		n.outbox = append(n.outbox, m)
		s.collect(p)
	case strings.HasPrefix(ev, "D:"):
		m := s.pending[ev]
		if m == nil {
			// the node's own map iteration (endorseDone/commitDone) made it send something else in this replay
			s.diverged++
			return
		}
		delete(s.pending, ev)
		var to uint32
		fmt.Sscanf(ev[strings.LastIndex(ev, "→")+len("→"):], "%d", &to)
		s.nodes[to].receive(m)
		s.collect(to)
	case strings.HasPrefix(ev, "T:"):
		f := strings.Split(ev, ":")
		var i uint32
		fmt.Sscanf(f[1], "%d", &i)
		n := s.nodes[i]
		n.srv.processTimerEvent(&TimerEvent{evtType: c34timeouts[f[2]], blockNum: c34H})
		n.run()
		s.collect(i)
	case strings.HasPrefix(ev, "X:"):
		i := strings.LastIndex(ev, "→")
		l := ev[:i]
		var to uint32
		fmt.Sscanf(ev[i+len("→"):], "%d", &to)
		s.byzUsed++
		if k := s.w.bkind[l]; k != "" {
			s.kinds[k] = true
		}
		s.nodes[to].receive(s.w.bmsgs[l])
		s.collect(to)
	}
}

func (s *c34sys) key() string {
	var ds []string
	for k := range s.pending {
		ds = append(ds, k)
	}
	sort.Strings(ds)
	var dn []string
	for k := range s.done {
		if !strings.HasPrefix(k, "D:") {
			dn = append(dn, k)
		}
	}
	sort.Strings(dn)
	return s.nodeKey() + "#" + strings.Join(ds, ";") + "#" + strings.Join(dn, ";")
}

// nodeKey: the canonical projection of the honest nodes alone (block pools, marks, decisions)
func (s *c34sys) nodeKey() string {
	var parts []string
	for _, i := range s.w.honest {
		n := s.nodes[i]
		c := n.srv.blockPool.candidateBlocks[c34H]
		p := fmt.Sprintf("n%d:", i)
		if c != nil {
			var ps []string
			for _, x := range c.Proposals {
				ps = append(ps, fmt.Sprintf("P%d.%x", x.Block.getProposer(), x.Block.Block.Header.ConsensusData))
			}
			sort.Strings(ps)
			var es []string
			for e, l := range c.EndorseSigs {
				for _, x := range l {
					es = append(es, fmt.Sprintf("e%d>%d/%v", e, x.EndorsedProposer, x.ForEmpty))
				}
			}
			sort.Strings(es)
			var cs []string
			for _, m := range c.CommitMsgs {
				cs = append(cs, c34label(m))
			}
			flag := func(x *blockProposalMsg) string {
				if x == nil {
					return "-"
				}
				return fmt.Sprintf("%d.%x", x.Block.getProposer(), x.Block.Block.Header.ConsensusData)
			}
			p += strings.Join(ps, ",") + "|" + strings.Join(es, ",") + "|" + strings.Join(cs, ",") + "|" +
				flag(c.EndorsedProposal) + flag(c.EndorsedEmptyProposal) + flag(c.CommittedProposal) + flag(c.CommittedEmptyProposal) + fmt.Sprint(c.commitDone)
		}
		p += "|sealed=" + strings.Join(n.sealed, ",")
		// messages held in the node's message pool (they are consulted again at timeouts and on late proposals)
		if rd := n.srv.msgPool.rounds[c34H]; rd != nil {
			var ms []string
			for _, l := range rd.msgs {
				for _, m := range l {
					ms = append(ms, c34label(m))
				}
			}
			sort.Strings(ms)
			p += "|pool=" + strings.Join(ms, ",")
		}
		parts = append(parts, p)
	}
	return strings.Join(parts, "#")
}

func (s *c34sys) check() (string, string) {
	first, who := "", uint32(0)
	for _, i := range s.w.honest {
		for _, d := range s.nodes[i].sealed {
			if first == "" {
				first, who = d, i
			} else if d != first {
				var ks []string
				for k := range s.kinds {
					ks = append(ks, k)
				}
				sort.Strings(ks)
				cls := "no-byzantine-message-needed"
				if s.byzUsed > 0 {
					cls = "byzantine-sends:" + strings.Join(ks, "+")
				}
				// how the two decisions relate: "<hash>/p<proposer>/empty=<bool>"
				fa, fb := strings.Split(first, "/"), strings.Split(d, "/")
				rel := "blocks-of-different-proposers"
				if fa[1] == fb[1] {
					rel = "two-proposals-of-one-proposer"
					if fa[2] != fb[2] {
						rel = "empty-and-full-block-of-one-proposer"
					}
				}
				cls = rel + ":" + cls
				return "two-blocks-sealed:" + cls, fmt.Sprintf("honest node %d decides to seal %s and honest node %d decides to seal %s at height %d (Byzantine peer %d)", who, first, i, d, c34H, s.w.byz)
			}
		}
	}
	return "", ""
}

const c34QuickCap = 400000

type c34case struct {
	Byz     uint32   `json:"byzantine_peer"`
	History []string `json:"history"`
}

func TestVerif_C34(t *testing.T) {
	log.InitLog(log.MaxLevelLog, log.Stdout)
	r := vh.Start(t, "C34", "safety")
	defer r.Finish()
	r.Rule("N=4, C=1, one height, three honest nodes = real vbft.Server objects without ledger/network, one Byzantine peer (each of the roles non-proposer endorser/committer, leader, second proposer in turn); events: an honest proposer publishes its proposal, any in-flight message is delivered to any honest node (reordering; loss = never delivered), any of the propose / endorse / empty-endorse / commit timeouts fires at any honest node (once each), the Byzantine peer sends any message of its menu (conflicting proposal, endorse, commit with junk or no endorser signatures — all passing the real Verify under its own key) to any honest node, within a budget; BFS with replay on fresh servers, deduplicated on the canonical projection of every node's block pool, its endorsed/committed/sealed marks, the in-flight messages and the used timeouts; invariant: all seal decisions of honest nodes are equal")
	r.Assume("proposal validation against the ledger (prev exec root, VRF, txs) and the final ledger write are outside the harness: proposals enter where the node's message loop takes them, a decision to seal is the SealBlock action")
	depth := r.Pick(5, 6)
	budget := 2
	var rc c34case
	replay := r.ReplayCase(&rc) && rc.Byz != 0
	if r.IsReplay() && !replay {
		return // a recorded case of another unit of this check (decisionquorum)
	}
	for bi, byz := range []uint32{4, 1, 2} {
		if replay && rc.Byz != byz {
			continue
		}
		// shards: one Byzantine role each; with 3k shards every role is split k ways on the first event
		nsub, sub := 1, 0
		if r.R.NShards%3 == 0 && r.R.NShards > 3 {
			nsub, sub = r.R.NShards/3, r.R.Shard/3
			if !replay && r.R.Shard%3 != bi {
				continue
			}
		} else if !replay && !r.Mine(bi) {
			continue
		}
		w := c34newWorld(byz)
		if replay {
			s := w.newSys()
			for _, ev := range rc.History {
				s.apply(ev)
			}
			if k, d := s.check(); k != "" {
				r.Violation(fmt.Sprintf("%s:minimal-history-of-%d-events", k, len(rc.History)), d, rc)
			}
			continue
		}
		seenKey := map[string]bool{}
		cfg := xs.Config{
			Init:   func() interface{} { return w.newSys() },
			Events: func(s interface{}) []string { return s.(*c34sys).events(budget) },
			Apply: func(s interface{}, ev string) (string, string) {
				s.(*c34sys).apply(ev)
				return "", ""
			},
			Key: func(s interface{}) string { return s.(*c34sys).key() },
			Check: func(si interface{}, hist []string) (string, string) {
				s := si.(*c34sys)
				sealedN := 0
				for _, i := range w.honest {
					if len(s.nodes[i].sealed) > 0 {
						sealedN++
					}
				}
				r.Class(fmt.Sprintf("byz=%d:honest-nodes-that-decided=%d", byz, sealedN))
				if s.diverged > 0 {
					r.Add("replays_in_which_a_node_behaved_differently(map iteration)", 1)
				}
				k, d := s.check()
				if k != "" {
					// the class of a violation: relation of the two decisions, kinds of Byzantine messages used, and the
					// length of the (minimal) history -- the same class reached by a shorter history is a different finding
					k = fmt.Sprintf("%s:minimal-history-of-%d-events", k, len(hist))
				}
				if k == "" || seenKey[k] {
					return "", ""
				}
				// minimal histories only (every event necessary)
				for drop := range hist {
					sub := w.newSys()
					ok := true
					for i, e := range hist {
						if i == drop {
							continue
						}
						if strings.HasPrefix(e, "D:") {
							if _, present := sub.pending[e]; !present {
								ok = false
								break
							}
						}
						sub.apply(e)
					}
					if ok {
						if k2, _ := sub.check(); k2 != "" {
							return "", ""
						}
					}
				}
				seenKey[k] = true
				return k, d
			},
			MaxDepth: depth, MaxStates: r.Pick(c34QuickCap, 2000000),
			MineFirst: func(ei int) bool { return ei%nsub == sub },
		}
		st := xs.Run(r, cfg)
		r.Eval(st.Transitions)
		r.Set(fmt.Sprintf("byz=%d.states", byz), st.States)
		r.Set(fmt.Sprintf("byz=%d.max_depth", byz), st.MaxDepth)
		if bi == 0 {
			r.Sample(map[string]interface{}{"byzantine_peer": byz, "byzantine_menu": w.border})
		}
	}
	r.Bound(fmt.Sprintf("depth<=%d events, Byzantine budget %d messages, state cap %d per shard (Byzantine role x first-event slice)", depth, budget, r.Pick(c34QuickCap, 2000000)))
}

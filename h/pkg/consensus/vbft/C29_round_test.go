package vbft

import (
	"crypto/sha512"
	"encoding/hex"
	"fmt"
	"testing"

	"github.com/ontio/ontology/common"
	"github.com/ontio/ontology/common/config"
	"github.com/ontio/ontology/common/log"
	vconfig "github.com/ontio/ontology/consensus/vbft/config"
	"github.com/ontio/ontology/core/types"
	"github.com/ontio/ontology/verifshim/vh"
)

// C29, unit "round": the participant sets a NODE installs for a round.
//
// The other unit calls the selection functions directly.  A round's sets are, however, produced by
// Server.updateParticipantConfig -> Server.buildParticipantConfig from (the sealed block of the previous height,
// the configuration of the round), where the configuration of the round is the one announced by that block
// (Info.NewChainConfig) if it is a configuration-change block and the node's installed configuration otherwise.
// The node's installed configuration (Server.config) is switched later, when the ledger has persisted the block
// (handleBlockPersistCompleted -> updateChainConfig), so in the round right after a configuration-change block the
// two differ on a node that has not seen that event yet and agree on a node that has.  This unit runs the real entry
// points on a minimal real Server for EVERY pair (installed configuration, configuration of the round) of a small
// set of configurations differing in N, C, member set, chain.Peers order and position table, and evaluates the C29
// oracle with respect to the configuration of the round: C+1 distinct proposers, >=2C+1 distinct endorsers and
// committers, all members of it, and the selection equal to the selection function applied to (seed of the block,
// configuration of the round) - i.e. a function of seed and configuration, not of what else the node holds.

type c29round struct {
	Installed int    `json:"installed"` // index into c29rConfigs
	Round     int    `json:"round"`     // index into c29rConfigs; -1: ordinary block, the round runs under the installed configuration
	Entry     string `json:"entry"`     // updateParticipantConfig | buildParticipantConfig
	Height    uint32 `json:"height"`    // block number of the round
	Proposer  uint32 `json:"prev_block_proposer"`
	Vrf       string `json:"prev_block_vrf"` // hex
	InstDesc  string `json:"installed_desc"`
	RoundDesc string `json:"round_desc"`
}

type c29rCfg struct {
	desc  string
	chain *vconfig.ChainConfig
}

func c29rGenesis(r *vh.Run, view, firstIdx, c uint32, stakes []uint64) *vconfig.ChainConfig {
	k := uint32(len(stakes))
	conf := &config.VBFTConfig{N: k, C: c, K: k, L: 16 * k, BlockMsgDelay: 10000, HashMsgDelay: 10000, PeerHandshakeTimeout: 10, MaxBlockChangeView: 1000}
	var peers []*config.VBFTPeerStakeInfo
	for i, s := range stakes {
		ix := firstIdx + uint32(i)
		peers = append(peers, &config.VBFTPeerStakeInfo{Index: ix, PeerPubkey: fmt.Sprintf("02%062x", 0xabc000+int(ix)*7919), InitPos: s})
	}
	ch, err := vconfig.GenesisChainConfig(conf, peers, common.Uint256{byte(view), 0xC2, 0x9}, 0)
	r.Need(err == nil && ch != nil, "GenesisChainConfig(view %d, stakes %v): %v", view, stakes, err)
	ch.View = view
	return ch
}

// c29rConfigs: the configuration alphabet.  Every one is valid (C>=1, N=len(Peers)>=3C+1, table entries are members).
func c29rConfigs(r *vh.Run) []c29rCfg {
	skew := make([]uint32, 32)
	for i := range skew {
		skew[i] = 2 // one peer owns every slot: the fill loop runs and chain.Peers order decides
	}
	crafted := func(view uint32, peers, table []uint32) *vconfig.ChainConfig {
		ch := c29chain(uint32(len(peers)), 1, peers, table)
		ch.View = view
		return ch
	}
	return []c29rCfg{
		{"N=4,C=1 peers 1-4 stake table", c29rGenesis(r, 1, 1, 1, []uint64{1000, 2000, 3000, 4000})},
		{"N=7,C=2 peers 2-8 stake table", c29rGenesis(r, 2, 2, 2, []uint64{5000, 1000, 2500, 4000, 3000, 1500, 2000})},
		{"N=7,C=1 peers 1-7 stake table", c29rGenesis(r, 3, 1, 1, []uint64{10000, 10000, 10000, 10000, 10000, 10000, 10000})},
		{"N=4,C=1 peers 1-4 one-peer table", crafted(4, []uint32{1, 2, 3, 4}, skew)},
		{"N=4,C=1 peers 4-1 (permuted) one-peer table", crafted(5, []uint32{4, 3, 2, 1}, skew)},
		{"N=4,C=1 peers 5-8 stake table", c29rGenesis(r, 6, 5, 1, []uint64{4000, 3000, 2000, 1000})},
		{"N=7,C=2 peers 2-8 skewed stake table", c29rGenesis(r, 7, 2, 2, []uint64{1 << 40, 1, 1, 1, 1, 1, 1})},
		{"N=10,C=3 peers 1-10 stake table", c29rGenesis(r, 8, 1, 3, []uint64{900, 800, 700, 600, 500, 400, 300, 200, 100, 50})},
		{"N=10,C=1 peers 3-12 stake table", c29rGenesis(r, 9, 3, 1, []uint64{100, 100, 100, 100, 100, 100, 100, 100, 100, 100})},
	}
}

func c29rShape(ch *vconfig.ChainConfig) string { return fmt.Sprintf("N=%d,C=%d", ch.N, ch.C) }

// c29rCopy: an equal configuration in fresh objects (the reference selection must not share anything with the
// objects handed to the server).
func c29rCopy(ch *vconfig.ChainConfig) *vconfig.ChainConfig {
	cp := *ch
	cp.Peers = nil
	for _, p := range ch.Peers {
		q := *p
		cp.Peers = append(cp.Peers, &q)
	}
	cp.PosTable = append([]uint32{}, ch.PosTable...)
	return &cp
}

func c29rBlock(height, proposer uint32, vrf []byte, announce *vconfig.ChainConfig) *Block {
	return &Block{
		Block: &types.Block{Header: &types.Header{Height: height, Timestamp: 1000 + height}},
		Info:  &vconfig.VbftBlockInfo{Proposer: proposer, VrfValue: append([]byte{}, vrf...), NewChainConfig: announce},
	}
}

// c29rServer: a real Server holding what the two entry points read: the installed configuration, the state, the
// current block number and a block pool with the sealed block of the previous height.
func c29rServer(installed *vconfig.ChainConfig, height uint32, prev *Block) *Server {
	srv := &Server{
		Index:           installed.Peers[0].Index,
		stateMgr:        &StateMgr{currentState: Synced},
		config:          installed,
		currentBlockNum: height,
	}
	srv.blockPool = &BlockPool{server: srv, HistoryLen: 64,
		candidateBlocks: map[uint32]*CandidateInfo{height - 1: {SealedBlock: prev}}}
	return srv
}

func c29rRel(c c29round) string {
	switch {
	case c.Round < 0:
		return "ordinary-block"
	case c.Round == c.Installed:
		return "config-change-block:announced-config-installed"
	}
	return "config-change-block:other-config-installed"
}

// c29rRun executes one case on the real code and evaluates the oracle; returns whether it held.
func c29rRun(r *vh.Run, cfgs []c29rCfg, c c29round) bool {
	inst := c29rCopy(cfgs[c.Installed].chain)
	var announce *vconfig.ChainConfig
	ref := c29rCopy(inst) // configuration of the round
	if c.Round >= 0 {
		announce = c29rCopy(cfgs[c.Round].chain)
		ref = c29rCopy(announce)
	}
	vrf, _ := hex.DecodeString(c.Vrf)
	prev := c29rBlock(c.Height-1, c.Proposer, vrf, announce)
	srv := c29rServer(inst, c.Height, prev)

	var got *BlockParticipantConfig
	var err error
	pan := vh.Catch(func() {
		switch c.Entry {
		case "updateParticipantConfig":
			// what startNewRound does
			if err = srv.updateParticipantConfig(); err == nil {
				got = srv.currentParticipantConfig
			}
		default:
			// what updateParticipantConfig (announced or copied installed configuration) and the start-up path
			// (the installed configuration itself) do
			passed := announce
			if passed == nil {
				passed = srv.config
			}
			got, err = srv.buildParticipantConfig(c.Height, prev, passed)
		}
	})
	ok := true
	bad := func(what, f string, a ...interface{}) {
		ok = false
		var p, e, k []uint32
		if got != nil {
			p, e, k = got.Proposers, got.Endorsers, got.Committers
		}
		r.Violationf(fmt.Sprintf("round:%s:%s:%s", what, c.Entry, c29rRel(c)), c29case{Round: &c, Source: "round"},
			"node with installed configuration [%s], round %d after a block announcing [%s]: configuration of the round is %s with peers %v; installed sets: proposers=%v endorsers=%v committers=%v: %s",
			c.InstDesc, c.Height, c.RoundDesc, c29rShape(ref), c29rPeerIdx(ref), p, e, k, fmt.Sprintf(f, a...))
	}
	if pan != "" {
		bad("panic", "panic: %s", pan)
		return false
	}
	if err != nil || got == nil {
		bad("no-selection", "no participant sets for the round: %v", err)
		return false
	}
	C := int(ref.C)
	if len(got.Proposers) != C+1 || c29distinct(got.Proposers) != C+1 {
		bad("proposers!=C+1", "%d proposers (%d distinct), want %d", len(got.Proposers), c29distinct(got.Proposers), C+1)
	}
	if n := c29distinct(got.Endorsers); n < 2*C+1 {
		bad("endorsers<2C+1", "%d distinct endorsers, want >= %d", n, 2*C+1)
	}
	if n := c29distinct(got.Committers); n < 2*C+1 {
		bad("committers<2C+1", "%d distinct committers, want >= %d", n, 2*C+1)
	}
	member := map[uint32]bool{}
	for _, p := range ref.Peers {
		member[p.Index] = true
	}
	nonMember := false
	for _, l := range [3][]uint32{got.Proposers, got.Endorsers, got.Committers} {
		for _, x := range l {
			if !member[x] && !nonMember {
				nonMember = true
				bad("non-member", "peer %d is not in the configuration of the round", x)
			}
		}
	}
	// a function of (seed, configuration): the selection function on the seed of the block and the configuration of
	// the round, in fresh objects
	seed := getParticipantSelectionSeed(c29rBlock(c.Height-1, c.Proposer, vrf, nil))
	var p0, e0, k0 []uint32
	if p := vh.Catch(func() {
		p0, e0, k0 = calcParticipantPeers(&BlockParticipantConfig{BlockNum: c.Height, Vrf: seed, ChainConfig: ref}, ref)
	}); p != "" {
		bad("panic", "selection on (seed, configuration of the round) panics: %s", p)
		return false
	}
	if !c29eq(got.Proposers, p0) || !c29eq(got.Endorsers, e0) || !c29eq(got.Committers, k0) {
		bad("not-function-of-seed-and-round-config", "the selection function gives proposers=%v endorsers=%v committers=%v for this seed and the configuration of the round (what every node that has installed it computes)", p0, e0, k0)
	}
	return ok
}

func c29rPeerIdx(ch *vconfig.ChainConfig) []uint32 {
	var o []uint32
	for _, p := range ch.Peers {
		o = append(o, p.Index)
	}
	return o
}

func TestVerif_C29_round(t *testing.T) {
	log.InitLog(log.MaxLevelLog, log.Stdout)
	r := vh.Start(t, "C29", "round")
	defer r.Finish()
	nseeds := r.Pick(48, 512)
	r.Rule("real Server.updateParticipantConfig (what startNewRound runs) and Server.buildParticipantConfig on a minimal real Server (installed configuration, state, current block number, block pool holding the sealed previous block). Cases = every pair (configuration installed on the node, configuration of the round) from 9 valid configurations (N=4/7/10, C=1/2/3, member sets 1-4, 5-8, 2-8, 1-7, 1-10, 3-12, stake-derived tables from the real GenesisChainConfig, a one-peer table under two chain.Peers orders) - the previous block either ordinary (round under the installed configuration) or a configuration-change block announcing any of the 9 (the node may or may not have installed it yet: installation follows persistence asynchronously) - x 2 round heights x 2 previous-block proposers x previous-block VRF values sha512(i). Oracle w.r.t. the configuration of the round: C+1 distinct proposers, >=2C+1 distinct endorsers and committers, all members, sets equal to calcParticipantPeers(seed of the block, configuration of the round in fresh objects). classes = (entry point, kind of previous block, shape installed -> shape of round)")
	r.Bound(fmt.Sprintf("9 configurations (all 81 installed/announced pairs + 9 ordinary), heights {1,100}, proposers {1,3}, %d VRF values; one round, no message exchange", nseeds))
	r.Assume("the configuration announced by a sealed configuration-change block is valid; installation of it (updateChainConfig) is modelled by which configuration the Server holds, not executed")

	cfgs := c29rConfigs(r)
	var rc c29case
	if r.ReplayCase(&rc) {
		if rc.Round != nil && rc.Round.Installed >= 0 && rc.Round.Installed < len(cfgs) && rc.Round.Round < len(cfgs) {
			c29rRun(r, cfgs, *rc.Round)
			r.Eval(1)
		}
		return
	}

	// non-vacuity: every two configurations of the alphabet lead to different selections for some seed used below
	var vrfs [][]byte
	for i := 0; i < nseeds; i++ {
		h := sha512.Sum512([]byte(fmt.Sprintf("c29-round-%d", i)))
		vrfs = append(vrfs, h[:32])
	}
	sel := func(ch *vconfig.ChainConfig, vrf []byte) string {
		seed := getParticipantSelectionSeed(c29rBlock(99, 1, vrf, nil))
		p, e, k := calcParticipantPeers(&BlockParticipantConfig{BlockNum: 100, Vrf: seed, ChainConfig: ch}, ch)
		return fmt.Sprint(p, e, k)
	}
	for i := range cfgs {
		for j := i + 1; j < len(cfgs); j++ {
			d := 0
			for _, v := range vrfs {
				if sel(cfgs[i].chain, v) != sel(cfgs[j].chain, v) {
					d++
				}
			}
			r.Need(d > 0, "configurations [%s] and [%s] select the same sets for every seed: the pair cannot tell which one the node used", cfgs[i].desc, cfgs[j].desc)
		}
	}

	item := 0
	var evals int64
	cls := map[string]int64{}
	for _, entry := range []string{"updateParticipantConfig", "buildParticipantConfig"} {
		for i := range cfgs {
			for j := -1; j < len(cfgs); j++ {
				item++
				if !r.Mine(item) {
					continue
				}
				if r.Expired() {
					return
				}
				rdesc, rshape := "nothing (ordinary block)", c29rShape(cfgs[i].chain)
				if j >= 0 {
					rdesc, rshape = cfgs[j].desc, c29rShape(cfgs[j].chain)
				}
				for _, height := range []uint32{1, 100} {
					for _, prop := range []uint32{1, 3} {
						for _, v := range vrfs {
							c := c29round{Installed: i, Round: j, Entry: entry, Height: height, Proposer: prop,
								Vrf: hex.EncodeToString(v), InstDesc: cfgs[i].desc, RoundDesc: rdesc}
							evals++
							if c29rRun(r, cfgs, c) {
								cls[fmt.Sprintf("D:%s:%s:%s->%s", entry, c29rRel(c), c29rShape(cfgs[i].chain), rshape)]++
							}
						}
					}
				}
			}
		}
	}
	r.Eval(evals)
	for k, v := range cls {
		r.ClassN(k, v)
	}
	if r.R.NShards == 1 && r.R.NViolations == 0 { // classes count cases on which the oracle held; a violation is the more useful report
		r.NeedClass("D:updateParticipantConfig:config-change-block:other-config-installed:N=4,C=1->N=7,C=2")
		r.NeedClass("D:updateParticipantConfig:ordinary-block:N=7,C=2->N=7,C=2")
		r.NeedClass("D:buildParticipantConfig:config-change-block:announced-config-installed:N=10,C=3->N=10,C=3")
	}
}

package vbft

// C28 (unit vbft) — quorum thresholds of the VBFT commit/seal path, measured
// on the code: for every N <= 34 and every C with N >= 3C+1 the real
// getCommitConsensus, BlockPool.commitDone and BlockPool.endorseDone are
// probed with k = 0..N distinct supporting peers to find the least k that
// declares consensus.  The measured table is compared with closed forms read
// off the code, which are then evaluated for N <= 10^6.  Oracle: a threshold
// that decides that a block is final must satisfy t1+t2-N > C for every pair
// (two qualifying sets share a peer outside any C faulty ones); a C+1-type
// threshold must satisfy t > C.

import (
	"fmt"
	"sort"
	"testing"

	vconfig "github.com/ontio/ontology/consensus/vbft/config"
	"github.com/ontio/ontology/verifshim/vh"
	"github.com/ontio/ontology/verifshim/vkeys"
)

const c28Blk = 5

// ---- shared arithmetic (identical copy in the three C28 harness files) ----

// c28Form: closed form of a threshold as read off the code; validated against
// the measured table by the unit that owns it.
type c28Form struct {
	name  string
	final bool // decides that a block is final (pairwise intersection required); otherwise a C+1-type threshold (t > C)
	unit  string
	f     func(n, c int) int
}

func c28max(x, y int) int {
	if x < y {
		return y
	}
	return x
}

var c28Forms = []c28Form{
	{"vbft.commit-msgs(proposer-not-a-signer)", true, "vbft", func(n, c int) int { return c28max(n-(n-1)/3-1, 1) + 1 }},
	{"vbft.commit-msgs(proposer-among-signers)", true, "vbft", func(n, c int) int { return c28max(n-(n-1)/3-1, 1) }},
	{"vbft.commitDone(endorse-sigs)", true, "vbft", func(n, c int) int { return n - (n-1)/3 }},
	{"validation.VerifyBlock", true, "validator", func(n, c int) int { return n - (n-1)/3 }},
	{"types.AddressFromBookkeepers(m-of-n)", true, "validator", func(n, c int) int { return n - (n-1)/3 }},
	{"ledgerstore.verifyHeader(solo/dbft)", true, "ledgerstore", func(n, c int) int { return n - (n-1)/3 }},
	{"vbft.endorseDone", false, "vbft", func(n, c int) int { return c + 1 }},
	{"ledgerstore.verifyHeader(vbft).listed-distinct", false, "ledgerstore", func(n, c int) int { return c28max(c+1, n-6*n/7) }},
	{"ledgerstore.verifyHeader(vbft).valid-signatures", false, "ledgerstore", func(n, c int) int { return n - 6*n/7 }},
}

// c28Applies: VBFT thresholds and C+1-type thresholds exist for C >= 1 only
// (the VBFT configuration refuses C = 0).
func c28Applies(f c28Form, c int) bool { return c >= 1 || (f.final && f.unit != "vbft") }

type c28Verdict struct {
	selfFail map[int][3]int // form index -> smallest (N, C, t) failing
	pairMin  [][][3]int     // [i][j] -> (margin, N, C) with the least margin t1+t2-N-C
	pairSet  [][]bool
	cross    map[int]map[string]bool
}

func c28NewVerdict() *c28Verdict {
	v := &c28Verdict{selfFail: map[int][3]int{}, cross: map[int]map[string]bool{}}
	for range c28Forms {
		v.pairMin = append(v.pairMin, make([][3]int, len(c28Forms)))
		v.pairSet = append(v.pairSet, make([]bool, len(c28Forms)))
	}
	return v
}

// add applies the oracle to one configuration; t[i] < 0 = threshold absent.
func (v *c28Verdict) add(n, c int, t []int) int64 {
	var checks int64
	for i, fi := range c28Forms {
		if t[i] < 0 {
			continue
		}
		if !fi.final {
			checks++
			if !(t[i] > c) {
				if _, ok := v.selfFail[i]; !ok {
					v.selfFail[i] = [3]int{n, c, t[i]}
				}
			}
			continue
		}
		for j := i; j < len(c28Forms); j++ {
			if !c28Forms[j].final || t[j] < 0 {
				continue
			}
			checks++
			margin := t[i] + t[j] - n - c // must be > 0
			if !v.pairSet[i][j] || margin < v.pairMin[i][j][0] {
				v.pairSet[i][j] = true
				v.pairMin[i][j] = [3]int{margin, n, c}
			}
			if margin > 0 {
				continue
			}
			if i == j {
				if _, ok := v.selfFail[i]; !ok {
					v.selfFail[i] = [3]int{n, c, t[i]}
				}
				continue
			}
			pk := fi.name + " + " + c28Forms[j].name
			for _, x := range []int{i, j} {
				if v.cross[x] == nil {
					v.cross[x] = map[string]bool{}
				}
				v.cross[x][pk] = true
			}
		}
	}
	return checks
}

// report turns failures into violations (one key per deficient threshold: a
// failing pair always contains a threshold failing against itself) and puts
// the table of all pairs into the evidence.  own != "" restricts violations
// to the thresholds measured by that unit.
func (v *c28Verdict) report(r *vh.Run, what, own string) {
	for i, f := range c28Forms {
		s, bad := v.selfFail[i]
		if !bad || (own != "" && f.unit != own) {
			continue
		}
		var cross []string
		for k := range v.cross[i] {
			cross = append(cross, k)
		}
		sort.Strings(cross)
		var d string
		if f.final {
			d = fmt.Sprintf("%s threshold %q: smallest failing configuration N=%d, C=%d: a set of t=%d distinct peers qualifies, so two qualifying sets may share only t+t-N=%d peers, which is not more than C=%d: they need not share a non-faulty peer. Pairs with other thresholds that fail as well: %v",
				what, f.name, s[0], s[1], s[2], 2*s[2]-s[0], s[1], cross)
		} else {
			d = fmt.Sprintf("%s threshold %q: smallest failing configuration N=%d, C=%d: a set of t=%d distinct peers qualifies, which is not more than C=%d: a qualifying set need not contain a non-faulty peer",
				what, f.name, s[0], s[1], s[2], s[1])
		}
		r.Violation("threshold:"+f.name, d, map[string]interface{}{"threshold": f.name, "N": s[0], "C": s[1], "t": s[2], "table": what})
	}
	tab := map[string]string{}
	for i := range c28Forms {
		for j := range c28Forms {
			if v.pairSet[i][j] {
				m := v.pairMin[i][j]
				tab[c28Forms[i].name+" + "+c28Forms[j].name] = fmt.Sprintf("min(t1+t2-N-C)=%d at N=%d,C=%d", m[0], m[1], m[2])
			}
		}
	}
	r.Set("pairs."+what, tab)
}

// c28Least scans k = 0..kmax and returns the least k accepted (-1: none) and
// whether acceptance is monotone in k.
func c28Least(r *vh.Run, kmax int, f func(k int) bool) (int, bool) {
	least := -1
	mono := true
	for k := 0; k <= kmax; k++ {
		ok := f(k)
		r.Trans(1)
		if ok && least < 0 {
			least = k
		}
		if !ok && least >= 0 {
			mono = false
		}
	}
	return least, mono
}

// c28Row records the measured thresholds of the owning unit for one (N, C),
// fills the others from the closed forms, checks conformance and applies the
// oracle.  own[name] = measured value (-1: the code accepts no set).
func c28Row(r *vh.Run, v *c28Verdict, unit string, n, c int, own map[string]int, rows *[]string, conform *bool) {
	t := make([]int, len(c28Forms))
	row := fmt.Sprintf("N=%d C=%d:", n, c)
	for i, f := range c28Forms {
		t[i] = -1
		if !c28Applies(f, c) {
			continue
		}
		if m, ok := own[f.name]; ok {
			t[i] = m
			r.State(1)
			r.Trace(1)
			row += fmt.Sprintf(" %s=%d", f.name, m)
			if m != f.f(n, c) {
				*conform = false
				r.Class("closed-form-mismatch:" + f.name)
				row += fmt.Sprintf("(closed form %d)", f.f(n, c))
			}
		} else if f.unit != unit {
			t[i] = f.f(n, c)
		}
	}
	*rows = append(*rows, row)
	r.Eval(v.add(n, c, t))
}

// ---- end of the shared part ----

// ---- a minimal real Server / BlockPool ----

func c28Server(n, c int) (*Server, *BlockPool) {
	var all []uint32
	for i := 1; i <= n; i++ {
		all = append(all, uint32(i))
	}
	srv := &Server{Index: 1, config: &vconfig.ChainConfig{N: uint32(n), C: uint32(c)}, chainStore: &ChainStore{},
		currentParticipantConfig: &BlockParticipantConfig{BlockNum: c28Blk, Proposers: all[:c+1], Endorsers: all, Committers: all}}
	srv.peerPool = NewPeerPool(n, srv)
	for i := 1; i <= n; i++ {
		_, pub := vkeys.P256(i)
		srv.peerPool.configs[uint32(i)] = &vconfig.PeerConfig{Index: uint32(i), ID: vconfig.PubkeyID(pub)}
		srv.peerPool.peers[uint32(i)] = &Peer{Index: uint32(i), PubKey: pub, connected: true}
	}
	pool := &BlockPool{server: srv, HistoryLen: 64, chainStore: srv.chainStore, candidateBlocks: make(map[uint32]*CandidateInfo)}
	srv.blockPool = pool
	return srv, pool
}

// supporters returns k distinct peer indices; with the proposer (index 1) among
// them when incl is set, otherwise 2..k+1.
func c28Supporters(k int, incl bool) []uint32 {
	var s []uint32
	first := 2
	if incl {
		first = 1
	}
	for i := 0; i < k; i++ {
		s = append(s, uint32(first+i))
	}
	return s
}

// c28Background: one peer that is neither the proposer nor a supporter and
// sends its (non-empty) message for a different proposal (0: none available /
// not wanted).  It never votes "empty": empty endorsements are counted jointly
// over all proposals by design, so an empty background vote would be a
// supporter of the empty block, not background.
func c28Background(n, k int, incl, bg bool) uint32 {
	last := k + 1
	if incl {
		last = k
	}
	if !bg || n <= last || n <= 2 {
		return 0
	}
	return uint32(n)
}

func c28Commit(committer uint32, empty bool, endorsers []uint32) *blockCommitMsg {
	m := &blockCommitMsg{Committer: committer, BlockProposer: 1, BlockNum: c28Blk, CommitForEmpty: empty,
		EndorsersSig: map[uint32][]byte{}, CommitterSig: []byte{byte(committer)}}
	m.CommitBlockHash[0] = 7
	for _, e := range endorsers {
		m.EndorsersSig[e] = []byte{byte(e)}
	}
	return m
}

// c28CommitMsgs: the k supporters expressed as commit messages; shape 0: one
// commit message per supporter; shape 1: one commit message by the first
// supporter carrying the others as endorsers.
func c28CommitMsgs(sup []uint32, shape int, empty bool) []*blockCommitMsg {
	var ms []*blockCommitMsg
	if len(sup) == 0 {
		return ms
	}
	if shape == 0 {
		for _, s := range sup {
			ms = append(ms, c28Commit(s, empty, nil))
		}
		return ms
	}
	return append(ms, c28Commit(sup[0], empty, sup[1:]))
}

type c28Probe struct {
	name string
	// run reports whether the code declares consensus for proposer 1 with the
	// given k supporters (n, c the configuration); extra = 1 when the proposer's
	// own proposal signature is an additional supporter.
	run func(n, c, k int, incl bool, shape int, empty, bg bool) bool
}

var c28Probes = []c28Probe{
	{"getCommitConsensus", func(n, c, k int, incl bool, shape int, empty, bg bool) bool {
		ms := c28CommitMsgs(c28Supporters(k, incl), shape, empty)
		if b := c28Background(n, k, incl, bg); b != 0 {
			bm := c28Commit(b, false, nil)
			bm.BlockProposer = 2
			ms = append([]*blockCommitMsg{bm}, ms...)
		}
		p, _ := getCommitConsensus(ms, c, n)
		return p == 1
	}},
	{"commitDone(commit-msgs)", func(n, c, k int, incl bool, shape int, empty, bg bool) bool {
		_, pool := c28Server(n, c)
		if b := c28Background(n, k, incl, bg); b != 0 {
			bm := c28Commit(b, false, nil)
			bm.BlockProposer = 2
			if err := pool.newBlockCommitment(bm); err != nil {
				panic(err)
			}
		}
		for _, m := range c28CommitMsgs(c28Supporters(k, incl), shape, empty) {
			if err := pool.newBlockCommitment(m); err != nil {
				panic(err)
			}
		}
		p, _, done := pool.commitDone(c28Blk, uint32(c), uint32(n))
		return done && p == 1
	}},
	{"commitDone(endorse-sigs)", func(n, c, k int, incl bool, shape int, empty, bg bool) bool {
		if shape != 0 {
			return false
		}
		_, pool := c28Server(n, c)
		if b := c28Background(n, k, incl, bg); b != 0 {
			pool.newBlockEndorsement(&blockEndorseMsg{Endorser: b, EndorsedProposer: 2, BlockNum: c28Blk, EndorseForEmpty: false, EndorserSig: []byte{byte(b)}})
		}
		for _, s := range c28Supporters(k, incl) {
			pool.newBlockEndorsement(&blockEndorseMsg{Endorser: s, EndorsedProposer: 1, BlockNum: c28Blk, EndorseForEmpty: empty, EndorserSig: []byte{byte(s)}})
		}
		p, _, done := pool.commitDone(c28Blk, uint32(c), uint32(n))
		return done && p == 1
	}},
	{"endorseDone", func(n, c, k int, incl bool, shape int, empty, bg bool) bool {
		if shape != 0 {
			return false
		}
		_, pool := c28Server(n, c)
		if b := c28Background(n, k, incl, bg); b != 0 {
			pool.newBlockEndorsement(&blockEndorseMsg{Endorser: b, EndorsedProposer: 2, BlockNum: c28Blk, EndorseForEmpty: false, EndorserSig: []byte{byte(b)}})
		}
		for _, s := range c28Supporters(k, incl) {
			pool.newBlockEndorsement(&blockEndorseMsg{Endorser: s, EndorsedProposer: 1, BlockNum: c28Blk, EndorseForEmpty: empty, EndorserSig: []byte{byte(s)}})
		}
		p, _, done := pool.endorseDone(c28Blk, uint32(c))
		return done && p == 1
	}},
}

func TestVerif_C28_vbft(t *testing.T) {
	r := vh.Start(t, "C28", "vbft")
	defer r.Finish()
	maxN := 34
	r.Rule("thresholds measured on the code: for every N<=34 and every C>=1 with N>=3C+1, getCommitConsensus, BlockPool.commitDone (commit messages; endorsement signatures) and BlockPool.endorseDone are probed with k=0..N distinct supporting peers (proposer among them or not; one commit message per peer or one commit carrying the others as endorsers; empty and non-empty; with and without one further peer voting for a different proposal) for the least k declaring consensus; core/validation.VerifyBlock, types.AddressFromBookkeepers and ledgerstore.verifyHeader are probed with k=0..N real signatures on real ledgers; measured table == closed forms, closed forms evaluated for larger N; oracle: final-deciding thresholds pairwise t1+t2-N > C, C+1-type thresholds t > C; states = measured table entries, transitions = probe calls")
	extN := r.Pick(100000, 1000000)
	r.Bound(fmt.Sprintf("measured: 4<=N<=%d, 1<=C<=(N-1)/3; closed forms: N<=%d with C in {1,(N-1)/3} (for C-independent thresholds equivalent to all C), every (N,C) for N<=3000", maxN, extN))
	r.Assume("the pool thresholds count message entries; signatures inside the messages are not verified by these functions (that is property C31), so probes use unsigned messages from distinct peer indices")
	r.Assume("the proposer's signature on its proposal counts as one supporting peer when the proposer is not among the committers/endorsers")

	meas := c28NewVerdict()
	var rows []string
	conform := true
	for n := 4; n <= maxN; n++ {
		for c := 1; 3*c+1 <= n; c++ {
			// supporters = k (+1 when the proposer is not among the k)
			least := func(p c28Probe, incl bool) int {
				best := -1
				for shape := 0; shape < 2; shape++ {
					for v := 0; v < 4; v++ {
						empty, bg := v&1 == 1, v&2 == 2
						kmax := n
						if !incl {
							kmax = n - 1
						}
						k, mono := c28Least(r, kmax, func(k int) bool { return p.run(n, c, k, incl, shape, empty, bg) })
						if !mono {
							r.Class("non-monotone:" + p.name)
						}
						if k >= 0 {
							if !incl {
								k++
							}
							if best < 0 || k < best {
								best = k
							}
						}
					}
				}
				return best
			}
			minp := func(x, y int) int {
				if x < 0 {
					return y
				}
				if y >= 0 && y < x {
					return y
				}
				return x
			}
			a0, a1 := least(c28Probes[0], false), least(c28Probes[1], false)
			b0, b1 := least(c28Probes[0], true), least(c28Probes[1], true)
			if a0 != a1 || b0 != b1 {
				r.Class("entry-points-disagree")
			}
			own := map[string]int{
				"vbft.commit-msgs(proposer-not-a-signer)":  minp(a0, a1),
				"vbft.commit-msgs(proposer-among-signers)": minp(b0, b1),
				"vbft.commitDone(endorse-sigs)":            minp(least(c28Probes[2], true), least(c28Probes[2], false)),
				"vbft.endorseDone":                         minp(least(c28Probes[3], true), least(c28Probes[3], false)),
			}
			c28Row(r, meas, "vbft", n, c, own, &rows, &conform)
			r.Class(fmt.Sprintf("C=%d", c))
		}
	}
	r.Set("measured_table", rows)
	r.Sample(rows[0])
	r.Sample(rows[len(rows)-1])
	meas.report(r, "measured", "vbft")
	r.Need(len(rows) >= 170, "measured table has %d rows", len(rows))

	// closed forms for larger N (only when they describe the code)
	if !conform {
		r.Capped("measured thresholds differ from the closed forms: extension to larger N skipped, verdict rests on the measured table")
		r.Class("conformance:failed")
		return
	}
	r.Class("conformance:ok")
	ext := c28NewVerdict()
	tv := make([]int, len(c28Forms))
	for n := 1; n <= extN; n++ {
		cmax := (n - 1) / 3
		for _, c := range c28Cs(n, cmax) {
			for i, f := range c28Forms {
				tv[i] = -1
				if c28Applies(f, c) {
					tv[i] = f.f(n, c)
				}
			}
			r.Eval(ext.add(n, c, tv))
		}
		if n%4096 == 0 && r.Expired() {
			break
		}
	}
	ext.report(r, "closed-form", "")
}

// c28Cs: the fault bounds examined for size n in the arithmetic extension.
func c28Cs(n, cmax int) []int {
	if n <= 3000 {
		cs := make([]int, 0, cmax+1)
		for c := 0; c <= cmax; c++ {
			cs = append(cs, c)
		}
		return cs
	}
	if cmax <= 1 {
		return []int{cmax}
	}
	return []int{1, cmax}
}

package vbft

// C28 (unit vbft) — quorum thresholds of the VBFT commit/seal path, measured
// on the code: for every N <= 34 and every C with N >= 3C+1 the real
// getCommitConsensus, BlockPool.commitDone and BlockPool.endorseDone are
// probed with k = 0..N distinct supporting peers to find the least k that
// declares consensus.  The measured table is compared with closed forms read
// off the code, which are then evaluated for N <= 10^6.  Oracle: a threshold
// that decides that a block is final must satisfy t1+t2-N > C for every pair
// (two qualifying sets share a peer outside any C faulty ones); a C+1-type
// threshold must satisfy t > C.

import (
	"fmt"
	"math"
	"sort"
	"testing"

	vconfig "github.com/ontio/ontology/consensus/vbft/config"
	"github.com/ontio/ontology/verifshim/vh"
	"github.com/ontio/ontology/verifshim/vkeys"
)

const c28Blk = 5

// ---- closed forms (descriptions of the code as read; validated against the measured table) ----

type c28Form struct {
	name  string
	final bool // decides that a block is final (pairwise intersection required); otherwise a C+1-type threshold (t > C)
	unit  string
	f     func(n, c int) int
}

func c28max1(x int) int {
	if x < 1 {
		return 1
	}
	return x
}

var c28Forms = []c28Form{
	{"vbft.commit-msgs(proposer-not-a-signer)", true, "vbft", func(n, c int) int { return c28max1(n-(n-1)/3-1) + 1 }},
	{"vbft.commit-msgs(proposer-among-signers)", true, "vbft", func(n, c int) int { return c28max1(n - (n-1)/3 - 1) }},
	{"vbft.commitDone(endorse-sigs)", true, "vbft", func(n, c int) int { return n - (n-1)/3 }},
	{"validation.VerifyBlock", true, "validator", func(n, c int) int { return n - (n-1)/3 }},
	{"ledgerstore.verifyHeader(solo/dbft)", true, "ledgerstore", func(n, c int) int { return n - (n-1)/3 }},
	{"types.AddressFromBookkeepers(m-of-n)", true, "validator", func(n, c int) int { return n - (n-1)/3 }},
	{"vbft.endorseDone", false, "vbft", func(n, c int) int { return c + 1 }},
	{"ledgerstore.verifyHeader(vbft).listed-distinct", false, "ledgerstore", func(n, c int) int { return c + 1 }},
	{"ledgerstore.verifyHeader(vbft).valid-signatures", false, "ledgerstore", func(n, c int) int { return c28max1(n - 6*n/7) }},
}

// ---- a minimal real Server / BlockPool ----

func c28Server(n, c int) (*Server, *BlockPool) {
	var all []uint32
	for i := 1; i <= n; i++ {
		all = append(all, uint32(i))
	}
	srv := &Server{Index: 1, config: &vconfig.ChainConfig{N: uint32(n), C: uint32(c)}, chainStore: &ChainStore{},
		currentParticipantConfig: &BlockParticipantConfig{BlockNum: c28Blk, Proposers: all[:c+1], Endorsers: all, Committers: all}}
	srv.peerPool = NewPeerPool(n, srv)
	for i := 1; i <= n; i++ {
		_, pub := vkeys.P256(i)
		srv.peerPool.configs[uint32(i)] = &vconfig.PeerConfig{Index: uint32(i), ID: vconfig.PubkeyID(pub)}
		srv.peerPool.peers[uint32(i)] = &Peer{Index: uint32(i), PubKey: pub, connected: true}
	}
	pool := &BlockPool{server: srv, HistoryLen: 64, chainStore: srv.chainStore, candidateBlocks: make(map[uint32]*CandidateInfo)}
	srv.blockPool = pool
	return srv, pool
}

// supporters returns k distinct peer indices; with the proposer (index 1) among
// them when incl is set, otherwise 2..k+1.
func c28Supporters(k int, incl bool) []uint32 {
	var s []uint32
	first := 2
	if incl {
		first = 1
	}
	for i := 0; i < k; i++ {
		s = append(s, uint32(first+i))
	}
	return s
}

func c28Commit(committer uint32, empty bool, endorsers []uint32) *blockCommitMsg {
	m := &blockCommitMsg{Committer: committer, BlockProposer: 1, BlockNum: c28Blk, CommitForEmpty: empty,
		EndorsersSig: map[uint32][]byte{}, CommitterSig: []byte{byte(committer)}}
	m.CommitBlockHash[0] = 7
	for _, e := range endorsers {
		m.EndorsersSig[e] = []byte{byte(e)}
	}
	return m
}

// c28CommitMsgs: the k supporters expressed as commit messages; shape 0: one
// commit message per supporter; shape 1: one commit message by the first
// supporter carrying the others as endorsers.
func c28CommitMsgs(sup []uint32, shape int, empty bool) []*blockCommitMsg {
	var ms []*blockCommitMsg
	if len(sup) == 0 {
		return ms
	}
	if shape == 0 {
		for _, s := range sup {
			ms = append(ms, c28Commit(s, empty, nil))
		}
		return ms
	}
	return append(ms, c28Commit(sup[0], empty, sup[1:]))
}

type c28Probe struct {
	name string
	// run reports whether the code declares consensus for proposer 1 with the
	// given k supporters (n, c the configuration); extra = 1 when the proposer's
	// own proposal signature is an additional supporter.
	run func(n, c, k int, incl bool, shape int, empty bool) bool
}

var c28Probes = []c28Probe{
	{"getCommitConsensus", func(n, c, k int, incl bool, shape int, empty bool) bool {
		p, _ := getCommitConsensus(c28CommitMsgs(c28Supporters(k, incl), shape, empty), c, n)
		return p == 1
	}},
	{"commitDone(commit-msgs)", func(n, c, k int, incl bool, shape int, empty bool) bool {
		_, pool := c28Server(n, c)
		for _, m := range c28CommitMsgs(c28Supporters(k, incl), shape, empty) {
			if err := pool.newBlockCommitment(m); err != nil {
				panic(err)
			}
		}
		p, _, done := pool.commitDone(c28Blk, uint32(c), uint32(n))
		return done && p == 1
	}},
	{"commitDone(endorse-sigs)", func(n, c, k int, incl bool, shape int, empty bool) bool {
		if shape != 0 {
			return false
		}
		_, pool := c28Server(n, c)
		for _, s := range c28Supporters(k, incl) {
			pool.newBlockEndorsement(&blockEndorseMsg{Endorser: s, EndorsedProposer: 1, BlockNum: c28Blk, EndorseForEmpty: empty, EndorserSig: []byte{byte(s)}})
		}
		p, _, done := pool.commitDone(c28Blk, uint32(c), uint32(n))
		return done && p == 1
	}},
	{"endorseDone", func(n, c, k int, incl bool, shape int, empty bool) bool {
		if shape != 0 {
			return false
		}
		_, pool := c28Server(n, c)
		for _, s := range c28Supporters(k, incl) {
			pool.newBlockEndorsement(&blockEndorseMsg{Endorser: s, EndorsedProposer: 1, BlockNum: c28Blk, EndorseForEmpty: empty, EndorserSig: []byte{byte(s)}})
		}
		_, _, done := pool.endorseDone(c28Blk, uint32(c))
		return done
	}},
}

// c28Least scans k = 0..kmax and returns the least k accepted (-1: none) and
// whether acceptance is monotone in k.
func c28Least(r *vh.Run, kmax int, f func(k int) bool) (int, bool) {
	least := -1
	mono := true
	for k := 0; k <= kmax; k++ {
		ok := f(k)
		r.Trans(1)
		if ok && least < 0 {
			least = k
		}
		if !ok && least >= 0 {
			mono = false
		}
	}
	return least, mono
}

type c28Row struct {
	N, C int
	T    map[string]int // measured least number of distinct supporting peers per threshold
}

// c28Check applies the oracle to a table of thresholds (measured or closed
// form) and reports the worst margin per pair.
type c28Verdict struct {
	selfFail map[string][3]int    // threshold -> smallest (N, C, t) failing t+t-N > C (final) or t > C
	pairMin  map[string][4]int    // "X + Y" -> (margin, N, C, 0) minimal margin t1+t2-N-C
	crossBad map[string][]string  // threshold -> failing cross pairs
}

func c28NewVerdict() *c28Verdict {
	return &c28Verdict{selfFail: map[string][3]int{}, pairMin: map[string][4]int{}, crossBad: map[string][]string{}}
}

func (v *c28Verdict) add(n, c int, names []string, final []bool, t []int) int64 {
	var pairs int64
	for i := range names {
		if t[i] < 0 {
			continue
		}
		if !final[i] {
			pairs++
			if !(t[i] > c) {
				if _, ok := v.selfFail[names[i]]; !ok {
					v.selfFail[names[i]] = [3]int{n, c, t[i]}
				}
			}
			continue
		}
		for j := i; j < len(names); j++ {
			if !final[j] || t[j] < 0 {
				continue
			}
			pairs++
			margin := t[i] + t[j] - n - c // must be > 0
			pk := names[i] + " + " + names[j]
			if cur, ok := v.pairMin[pk]; !ok || margin < cur[0] {
				v.pairMin[pk] = [4]int{margin, n, c, 0}
			}
			if margin <= 0 {
				if i == j {
					if _, ok := v.selfFail[names[i]]; !ok {
						v.selfFail[names[i]] = [3]int{n, c, t[i]}
					}
				} else {
					for _, x := range []int{i, j} {
						found := false
						for _, s := range v.crossBad[names[x]] {
							if s == pk {
								found = true
							}
						}
						if !found {
							v.crossBad[names[x]] = append(v.crossBad[names[x]], pk)
						}
					}
				}
			}
		}
	}
	return pairs
}

func (v *c28Verdict) report(r *vh.Run, what string) {
	var ks []string
	for k := range v.selfFail {
		ks = append(ks, k)
	}
	sort.Strings(ks)
	for _, k := range ks {
		f := v.selfFail[k]
		sort.Strings(v.crossBad[k])
		r.Violation("threshold:"+k, fmt.Sprintf("%s threshold %q: smallest failing configuration N=%d, C=%d: t=%d distinct peers qualify; two qualifying sets overlap in t+t-N=%d peers, not more than C=%d (for C+1-type thresholds: t > C is required). Pairs with other thresholds that also fail: %v",
			what, k, f[0], f[1], f[2], 2*f[2]-f[0], f[1], v.crossBad[k]), map[string]interface{}{"threshold": k, "N": f[0], "C": f[1], "t": f[2]})
	}
	tab := map[string]string{}
	for k, m := range v.pairMin {
		tab[k] = fmt.Sprintf("min(t1+t2-N-C)=%d at N=%d,C=%d", m[0], m[1], m[2])
	}
	r.Set("pairs."+what, tab)
}

func TestVerif_C28_vbft(t *testing.T) {
	r := vh.Start(t, "C28", "vbft")
	defer r.Finish()
	maxN := 34
	r.Rule("thresholds measured on the code: for every N<=34 and every C>=1 with N>=3C+1, getCommitConsensus, BlockPool.commitDone (commit messages; endorsement signatures) and BlockPool.endorseDone are probed with k=0..N distinct supporting peers (proposer among them or not; one commit message per peer or one commit carrying the others as endorsers; empty and non-empty) for the least k declaring consensus; measured table == closed forms, closed forms evaluated for larger N; oracle: final-deciding thresholds pairwise t1+t2-N > C, C+1-type thresholds t > C; states = measured table entries, transitions = probe calls")
	extN := r.Pick(100000, 1000000)
	r.Bound(fmt.Sprintf("measured: 4<=N<=%d, 1<=C<=(N-1)/3; closed forms: N<=%d with C=(N-1)/3 and C=1 (C-independent thresholds: equivalent to all C), all (N,C) for N<=3000", maxN, extN))
	r.Assume("the pool thresholds count message entries; signatures inside the messages are not verified by these functions (that is property C31), so probes use unsigned messages from distinct peer indices")
	r.Assume("the proposer's signature on its proposal counts as one supporting peer when the proposer is not among the committers/endorsers")

	names := []string{}
	final := []bool{}
	for _, f := range c28Forms {
		names = append(names, f.name)
		final = append(final, f.final)
	}
	meas := c28NewVerdict()
	var rows []string
	conform := true
	for n := 4; n <= maxN; n++ {
		for c := 1; 3*c+1 <= n; c++ {
			T := map[string]int{}
			// supporters = k (+1 when the proposer is not among the k)
			least := func(p c28Probe, incl bool) int {
				best := -1
				for shape := 0; shape < 2; shape++ {
					for _, empty := range []bool{false, true} {
						kmax := n
						if !incl {
							kmax = n - 1
						}
						k, mono := c28Least(r, kmax, func(k int) bool { return p.run(n, c, k, incl, shape, empty) })
						if !mono {
							r.Class("non-monotone:" + p.name)
						}
						if k >= 0 {
							if !incl {
								k++
							}
							if best < 0 || k < best {
								best = k
							}
						}
					}
				}
				return best
			}
			a0, a1 := least(c28Probes[0], false), least(c28Probes[1], false)
			b0, b1 := least(c28Probes[0], true), least(c28Probes[1], true)
			if a0 != a1 || b0 != b1 {
				r.Class("entry-points-disagree")
			}
			minp := func(x, y int) int {
				if x < 0 {
					return y
				}
				if y >= 0 && y < x {
					return y
				}
				return x
			}
			T[names[0]] = minp(a0, a1)
			T[names[1]] = minp(b0, b1)
			T[names[2]] = minp(least(c28Probes[2], true), least(c28Probes[2], false))
			T[names[6]] = minp(least(c28Probes[3], true), least(c28Probes[3], false))
			tv := make([]int, len(names))
			row := fmt.Sprintf("N=%d C=%d:", n, c)
			for i, f := range c28Forms {
				if f.unit == "vbft" {
					tv[i] = T[f.name]
					r.State(1)
					r.Trace(1)
					row += fmt.Sprintf(" %s=%d", f.name, tv[i])
					if tv[i] != f.f(n, c) {
						conform = false
						r.Class("closed-form-mismatch:" + f.name)
						row += fmt.Sprintf("(closed form %d)", f.f(n, c))
					}
				} else {
					tv[i] = f.f(n, c) // validated by the unit that owns it
				}
			}
			rows = append(rows, row)
			r.Eval(meas.add(n, c, names, final, tv))
			r.Class(fmt.Sprintf("C=%d", c))
		}
	}
	r.Set("measured_table", rows)
	r.Sample(rows[0])
	r.Sample(rows[len(rows)-1])
	meas.report(r, "measured")
	r.Need(len(rows) >= 170, "measured table has %d rows", len(rows))

	// closed forms for larger N (only when they describe the code)
	if !conform {
		r.Capped("measured thresholds differ from the closed forms: extension to larger N skipped, verdict rests on the measured table")
		r.Class("conformance:failed")
		return
	}
	r.Class("conformance:ok")
	ext := c28NewVerdict()
	tv := make([]int, len(names))
	for n := 1; n <= extN; n++ {
		cmax := (n - 1) / 3
		for _, c := range c28Cs(n, cmax) {
			for i, f := range c28Forms {
				tv[i] = f.f(n, c)
				if c == 0 && (f.unit == "vbft" || !f.final) {
					tv[i] = -1 // the VBFT configuration refuses C=0
				}
			}
			r.Eval(ext.add(n, c, names, final, tv))
		}
		if n%4096 == 0 && r.Expired() {
			break
		}
	}
	ext.report(r, "closed-form")
	_ = math.MaxInt32
}

// c28Cs: the fault bounds examined for size n in the arithmetic extension.
func c28Cs(n, cmax int) []int {
	if n <= 3000 {
		cs := make([]int, 0, cmax+1)
		for c := 0; c <= cmax; c++ {
			cs = append(cs, c)
		}
		return cs
	}
	return []int{1, cmax}
}

package common

// C22 (unit race): the address codec used from several goroutines at once.
// The body runs free under the Go race detector in a child process; a data
// race in the codec (e.g. a scratch buffer shared between calls) or a wrong
// answer under concurrency is a violation.  This pass samples schedules; the
// exhaustive part of C22 is the sequential unit.

import (
	"os"
	"sync"
	"testing"
	"time"

	"github.com/ontio/ontology/verifshim/vh"
	"github.com/ontio/ontology/verifshim/vwork"
)

func c22raceAddrs() ([]Address, []string) {
	var as []Address
	var ss []string
	for i := 0; i < 64; i++ {
		var a Address
		for j := range a {
			a[j] = byte(i*37 + j*11)
		}
		if i%5 == 0 {
			a[0], a[1] = 0, 0
		}
		as = append(as, a)
		ss = append(ss, a.ToBase58())
	}
	return as, ss
}

func TestVerif_C22_raceBody(t *testing.T) {
	if os.Getenv("VERIF_RACE_BODY") == "" {
		t.Skip("child only")
	}
	as, ss := c22raceAddrs() // reference strings computed sequentially
	var wg sync.WaitGroup
	bad := make(chan string, 64)
	for g := 0; g < 8; g++ {
		wg.Add(1)
		go func(g int) {
			defer wg.Done()
			for r := 0; r < 4000; r++ {
				i := (r*7 + g*13) % len(as)
				if s := as[i].ToBase58(); s != ss[i] {
					select {
					case bad <- "ToBase58 under concurrency returned " + s + " want " + ss[i]:
					default:
					}
				}
				if a, err := AddressFromBase58(ss[i]); err != nil || a != as[i] {
					select {
					case bad <- "AddressFromBase58 under concurrency failed for " + ss[i]:
					default:
					}
				}
				if h, err := AddressFromHexString(as[i].ToHexString()); err != nil || h != as[i] {
					select {
					case bad <- "hex round trip under concurrency failed":
					default:
					}
				}
			}
		}(g)
	}
	wg.Wait()
	select {
	case m := <-bad:
		t.Fatalf("WRONG-ANSWER %s", m)
	default:
	}
}

func TestVerif_C22_race(t *testing.T) {
	if os.Getenv("VERIF_RACE_BODY") != "" {
		t.Skip("parent only")
	}
	r := vh.Start(t, "C22", "race")
	defer r.Finish()
	r.Rule("8 goroutines x 4000 rounds of ToBase58 / AddressFromBase58 / hex round trips over 64 addresses, free-running under the Go race detector in a child process, compared with sequentially computed references; supplementary sampling pass (the exhaustive part is the sequential unit)")
	raced, rep, err := vwork.RunRace("TestVerif_C22_raceBody", 10*time.Minute)
	r.Eval(8 * 4000)
	r.Class("race-detector-pass")
	switch {
	case raced:
		r.Class("data-race")
		r.Violation("concurrent-use:data-race-in-address-codec", "the race detector reports a data race inside the address codec when several goroutines encode/decode at once: "+rep, nil)
	case err != nil && len(rep) > 0 && containsWrong(rep):
		r.Violation("concurrent-use:wrong-answer", rep, nil)
	case err != nil:
		t.Fatalf("VERIF-INFRA race body: %v\n%s", err, rep)
	default:
		r.Class("no-race")
	}
	r.Sample(map[string]interface{}{"goroutines": 8, "rounds": 4000, "addresses": 64})
}

func containsWrong(s string) bool {
	for i := 0; i+12 <= len(s); i++ {
		if s[i:i+12] == "WRONG-ANSWER" {
			return true
		}
	}
	return false
}

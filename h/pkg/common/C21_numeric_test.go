package common

import (
	"bytes"
	"fmt"
	"math"
	"math/big"
	"testing"

	"github.com/ontio/ontology/verifshim/vh"
)

// C21 (unit neobytes / i128) — big integer <-> NeoVM little-endian two's
// complement bytes, and big integer <-> 128-bit integers, are lossless and
// minimal.
//
// BigIntFromNeoBytes is applied by the VM to arbitrary byte strings, so it is
// total: every byte string denotes a number.  What the statement demands of
// the pair is therefore:  decode(encode(v)) = v;  encode(v) is THE shortest
// byte string denoting v (every other string denoting v is strictly longer);
// and both functions agree with an independent two's complement codec.
// I128 is a fixed-width bijection on [-2^127, 2^127-1]; anything outside is
// refused, never wrapped.

func c21pow(k uint) *big.Int { return new(big.Int).Lsh(big.NewInt(1), k) }

// c21dec: reference little-endian two's complement decoder.
func c21dec(b []byte) *big.Int {
	if len(b) <= 7 {
		// plain machine arithmetic for short strings
		var x int64
		for i := len(b) - 1; i >= 0; i-- {
			x = x<<8 | int64(b[i])
		}
		if len(b) > 0 && b[len(b)-1]&0x80 != 0 {
			x -= int64(1) << uint(8*len(b))
		}
		return big.NewInt(x)
	}
	u := new(big.Int)
	for i := len(b) - 1; i >= 0; i-- {
		u.Lsh(u, 8)
		u.Or(u, big.NewInt(int64(b[i])))
	}
	if len(b) > 0 && b[len(b)-1]&0x80 != 0 {
		u.Sub(u, c21pow(uint(8*len(b))))
	}
	return u
}

// c21encW: v in exactly w bytes two's complement (caller guarantees fit).
func c21encW(v *big.Int, w int) []byte {
	u := new(big.Int).Set(v)
	if u.Sign() < 0 {
		u.Add(u, c21pow(uint(8*w)))
	}
	out := make([]byte, w)
	m := big.NewInt(0xff)
	t := new(big.Int)
	for i := 0; i < w; i++ {
		out[i] = byte(t.And(u, m).Uint64())
		u.Rsh(u, 8)
	}
	return out
}

// c21enc: reference minimal encoder: the smallest n with
// -2^(8n-1) <= v < 2^(8n-1); zero is the empty string.
func c21enc(v *big.Int) []byte {
	if v.Sign() == 0 {
		return []byte{}
	}
	if v.IsInt64() && v.Int64() > -(1<<55) && v.Int64() < 1<<55 {
		x := v.Int64()
		for n := 1; ; n++ {
			half := int64(1) << uint(8*n-1)
			if x < half && x >= -half {
				out := make([]byte, n)
				for i := range out {
					out[i] = byte(x >> uint(8*i))
				}
				return out
			}
		}
	}
	for n := 1; ; n++ {
		half := c21pow(uint(8*n - 1))
		if v.Cmp(half) < 0 && v.Cmp(new(big.Int).Neg(half)) >= 0 {
			return c21encW(v, n)
		}
	}
}

type c21case struct {
	Kind  string `json:"kind"`
	Bytes string `json:"bytes,omitempty"`
	Int   string `json:"int,omitempty"`
}

func c21lenClass(n int) string {
	switch {
	case n <= 3:
		return fmt.Sprint(n)
	case n <= 8:
		return "4-8"
	case n <= 16:
		return "9-16"
	case n <= 32:
		return "17-32"
	}
	return ">32"
}

// c21checkBytes: one byte string through decode -> encode -> decode.
func c21checkBytes(r *vh.Run, b []byte, classes map[string]int64) {
	in := append([]byte{}, b...)
	var key, detail string
	p := vh.Catch(func() {
		v := BigIntFromNeoBytes(b)
		if !bytes.Equal(in, b) {
			key, detail = "from:input-modified", "BigIntFromNeoBytes modified its argument"
			return
		}
		want := c21dec(in)
		if v == nil || v.Cmp(want) != 0 {
			key, detail = "from:value:len"+c21lenClass(len(b)), fmt.Sprintf("BigIntFromNeoBytes(%x) = %v, two's complement value is %v", in, v, want)
			return
		}
		e := BigIntToNeoBytes(v)
		if v.Cmp(want) != 0 {
			key, detail = "to:argument-modified", fmt.Sprintf("BigIntToNeoBytes changed its argument %v to %v", want, v)
			return
		}
		min := c21enc(want)
		if !bytes.Equal(e, min) {
			key, detail = "to:not-minimal", fmt.Sprintf("BigIntToNeoBytes(%v) = %x, minimal encoding is %x", want, e, min)
			return
		}
		if len(e) > len(in) {
			key, detail = "to:longer-than-accepted-form", fmt.Sprintf("%x decodes to %v whose encoding %x is longer", in, want, e)
			return
		}
		if len(e) == len(in) && !bytes.Equal(e, in) {
			key, detail = "two-shortest-encodings", fmt.Sprintf("%x and %x both denote %v at the minimal length", in, e, want)
			return
		}
		back := BigIntFromNeoBytes(e)
		if back.Cmp(want) != 0 {
			key, detail = "roundtrip", fmt.Sprintf("decode(encode(%v)) = %v", want, back)
			return
		}
		sign := "zero"
		if want.Sign() > 0 {
			sign = "pos"
		} else if want.Sign() < 0 {
			sign = "neg"
		}
		if len(e) == len(in) {
			classes["neobytes:minimal:"+sign+":len"+c21lenClass(len(in))]++
		} else {
			classes["neobytes:padded:"+sign+":len"+c21lenClass(len(in))]++
		}
	})
	if p != "" {
		key, detail = "panic:bytes", fmt.Sprintf("panic on %x: %s", in, p)
	}
	if key != "" {
		r.Violation("neobytes:"+key, detail, c21case{Kind: "bytes", Bytes: fmt.Sprintf("%x", in)})
	}
}

// c21checkInt: one integer through encode -> decode, and its padded forms.
func c21checkInt(r *vh.Run, v *big.Int, classes map[string]int64) {
	var key, detail string
	p := vh.Catch(func() {
		orig := new(big.Int).Set(v)
		e := BigIntToNeoBytes(v)
		if v.Cmp(orig) != 0 {
			key, detail = "to:argument-modified", fmt.Sprintf("BigIntToNeoBytes changed its argument %v to %v", orig, v)
			return
		}
		min := c21enc(orig)
		if !bytes.Equal(e, min) {
			key, detail = "to:not-minimal", fmt.Sprintf("BigIntToNeoBytes(%v) = %x, minimal encoding is %x", orig, e, min)
			return
		}
		if back := BigIntFromNeoBytes(e); back.Cmp(orig) != 0 {
			key, detail = "roundtrip", fmt.Sprintf("decode(encode(%v)) = %v", orig, back)
			return
		}
		fill := byte(0)
		if orig.Sign() < 0 {
			fill = 0xff
		}
		padded := append([]byte{}, min...)
		for k := 1; k <= 3; k++ {
			padded = append(padded, fill)
			if back := BigIntFromNeoBytes(padded); back.Cmp(orig) != 0 {
				key, detail = "from:value:sign-extended", fmt.Sprintf("BigIntFromNeoBytes(%x) = %v, want %v", padded, back, orig)
				return
			}
		}
		sign := "zero"
		if orig.Sign() > 0 {
			sign = "pos"
		} else if orig.Sign() < 0 {
			sign = "neg"
		}
		classes["int:"+sign+":len"+c21lenClass(len(min))]++
	})
	if p != "" {
		key, detail = "panic:int", fmt.Sprintf("panic on %v: %s", v, p)
	}
	if key != "" {
		r.Violation("neobytes:"+key, detail, c21case{Kind: "int", Int: v.String()})
	}
}

func c21flush(r *vh.Run, classes map[string]int64) {
	for k, n := range classes {
		r.ClassN(k, n)
	}
}

func TestVerif_C21_neobytes(t *testing.T) {
	r := vh.Start(t, "C21", "common")
	defer r.Finish()
	r.Rule("NeoBytes: every byte string of the stated lengths b: BigIntFromNeoBytes(b) equals an independent two's complement decoder; BigIntToNeoBytes of that value equals an independent minimal encoder, is never longer than b and equals b when it has b's length (one shortest encoding per value); every integer of the stated set: encode is minimal, decode(encode(v)) = v, sign-extended forms decode to v. I128: integers +-2^k+{-1,0,1} (k<=130), [-70000,70000], int64/uint64 ends: I128FromBigInt equals the 16-byte two's complement form exactly when -2^127 <= v < 2^127 and errors otherwise, ToBigInt inverts it, FromInt64/FromUint64 agree; 16-byte patterns: ToBigInt equals the reference decoder and FromBigInt(ToBigInt(x)) = x; distinct = (minimal|padded, sign, length class) and i128 accepted/rejected x sign")
	if r.Quick() {
		r.Bound("all byte strings <=2 bytes, all 3-byte strings whose middle byte is in a 16-symbol alphabet, structured strings of 4..34 bytes; integers [-70000,70000] and +-2^k, +-2^k+-1 for k<=264")
	} else {
		r.Bound("ALL byte strings <=3 bytes (16.8M), 4-byte strings over a 16-symbol alphabet, structured strings of 4..34 bytes; integers [-300000,300000] and +-2^k, +-2^k+-1 for k<=264")
	}
	classes := map[string]int64{}
	defer c21flush(r, classes)

	var c c21case
	if r.ReplayCase(&c) && c.Kind != "" {
		switch c.Kind {
		case "bytes":
			var b []byte
			fmt.Sscanf(c.Bytes, "%x", &b)
			c21checkBytes(r, b, classes)
		case "int":
			v, _ := new(big.Int).SetString(c.Int, 10)
			c21checkInt(r, v, classes)
		case "i128int":
			v, _ := new(big.Int).SetString(c.Int, 10)
			c21checkI128Int(r, v)
		case "i128bytes":
			var b []byte
			fmt.Sscanf(c.Bytes, "%x", &b)
			var x I128
			copy(x[:], b)
			c21checkI128Bytes(r, x)
		}
		r.Eval(1)
		return
	}

	sharp := []byte{0x00, 0x01, 0x02, 0x7e, 0x7f, 0x80, 0x81, 0xfe, 0xff, 0x10, 0x3f, 0x40, 0xc0, 0xbf, 0x55, 0xaa}
	var n int64
	// lengths 0..2 in full, length 3 in full (thorough) or with a sharp middle byte
	if r.Mine(0) {
		c21checkBytes(r, []byte{}, classes)
		n++
		for a := 0; a < 256; a++ {
			c21checkBytes(r, []byte{byte(a)}, classes)
			n++
		}
	}
	buf3 := make([]byte, 3)
	for a := 0; a < 256; a++ {
		if !r.Mine(a + 1) {
			continue
		}
		if r.Expired() {
			break
		}
		for b := 0; b < 256; b++ {
			c21checkBytes(r, []byte{byte(a), byte(b)}, classes)
			n++
			if r.Thorough() {
				for c := 0; c < 256; c++ {
					buf3[0], buf3[1], buf3[2] = byte(c), byte(a), byte(b)
					c21checkBytes(r, buf3, classes)
					n++
				}
			} else {
				for _, c := range sharp {
					buf3[0], buf3[1], buf3[2] = byte(a), c, byte(b)
					c21checkBytes(r, buf3, classes)
					n++
				}
			}
		}
	}
	// 4 bytes over the sharp alphabet (thorough)
	if r.Thorough() {
		for i, a := range sharp {
			if !r.Mine(300 + i) {
				continue
			}
			for _, b := range sharp {
				for _, c := range sharp {
					for _, d := range sharp {
						c21checkBytes(r, []byte{a, b, c, d}, classes)
						n++
					}
				}
			}
		}
	}
	// structured longer strings: every combination of (low byte, body fill, next-to-top, top)
	if r.Mine(400) {
		for _, ln := range []int{4, 7, 8, 9, 15, 16, 17, 31, 32, 33, 34} {
			for _, low := range []byte{0x00, 0x01, 0xff} {
				for _, fill := range []byte{0x00, 0xff, 0x80, 0x5a} {
					for _, ntop := range []byte{0x00, 0x01, 0x7f, 0x80, 0xff} {
						for _, top := range []byte{0x00, 0x01, 0x7f, 0x80, 0xfe, 0xff} {
							b := make([]byte, ln)
							for i := range b {
								b[i] = fill
							}
							b[0], b[ln-2], b[ln-1] = low, ntop, top
							c21checkBytes(r, b, classes)
							n++
						}
					}
				}
			}
		}
	}
	// integers
	R := int64(r.Pick(70000, 300000))
	for x := -R; x <= R; x++ {
		if !r.Mine(int(x&0xff) + 500) {
			continue
		}
		c21checkInt(r, big.NewInt(x), classes)
		n++
	}
	if r.Mine(401) {
		for k := uint(0); k <= 264; k++ {
			p := c21pow(k)
			for _, d := range []int64{-1, 0, 1} {
				v := new(big.Int).Add(p, big.NewInt(d))
				c21checkInt(r, v, classes)
				c21checkInt(r, new(big.Int).Neg(v), classes)
				n += 2
			}
		}
	}
	r.Eval(n)
	r.Sample(c21case{Kind: "bytes", Bytes: "80ff"})
	r.Sample(c21case{Kind: "bytes", Bytes: "ff00"})
	r.Sample(c21case{Kind: "int", Int: "-128"})
	r.Sample(c21case{Kind: "i128int", Int: new(big.Int).Neg(c21pow(127)).String()})
	r.Sample(c21case{Kind: "i128int", Int: c21pow(127).String()})
	c21flush(r, classes)
	for k := range classes {
		delete(classes, k)
	}
	r.NeedClass("neobytes:minimal:neg:len1")
	r.NeedClass("neobytes:padded:neg:len2")
	r.NeedClass("neobytes:padded:pos:len2")
	r.NeedClass("neobytes:padded:zero:len1")
	// the 128-bit conversions ride on shard 0 of the same unit (one build of the package)
	if r.R.Shard == 0 {
		c21i128(r)
	}
}

// ---------------------------------------------------------------- I128

func c21i128Ref(v *big.Int) (out I128, ok bool) {
	lo := new(big.Int).Neg(c21pow(127))
	hi := new(big.Int).Sub(c21pow(127), big.NewInt(1))
	if v.Cmp(lo) < 0 || v.Cmp(hi) > 0 {
		return out, false
	}
	copy(out[:], c21encW(v, 16))
	return out, true
}

func c21checkI128Int(r *vh.Run, v *big.Int) {
	var key, detail string
	p := vh.Catch(func() {
		orig := new(big.Int).Set(v)
		got, err := I128FromBigInt(v)
		if v.Cmp(orig) != 0 {
			key, detail = "from-big:argument-modified", fmt.Sprintf("I128FromBigInt changed its argument %v", orig)
			return
		}
		want, ok := c21i128Ref(orig)
		if !ok {
			if err == nil {
				key, detail = "from-big:out-of-range-accepted", fmt.Sprintf("I128FromBigInt(%v) accepted an out-of-range value as %x", orig, got[:])
				return
			}
			r.Class("i128:rejected:out-of-range")
			return
		}
		if err != nil {
			key, detail = "from-big:in-range-rejected", fmt.Sprintf("I128FromBigInt(%v): %v", orig, err)
			return
		}
		if got != want {
			key, detail = "from-big:bytes", fmt.Sprintf("I128FromBigInt(%v) = %x, want %x", orig, got[:], want[:])
			return
		}
		if back := got.ToBigInt(); back.Cmp(orig) != 0 {
			key, detail = "roundtrip", fmt.Sprintf("I128FromBigInt(%v).ToBigInt() = %v", orig, back)
			return
		}
		if orig.IsInt64() {
			if x := I128FromInt64(orig.Int64()); x != want {
				key, detail = "from-int64", fmt.Sprintf("I128FromInt64(%v) = %x, want %x", orig, x[:], want[:])
				return
			}
		}
		if orig.IsUint64() {
			if x := I128FromUint64(orig.Uint64()); x != want {
				key, detail = "from-uint64", fmt.Sprintf("I128FromUint64(%v) = %x, want %x", orig, x[:], want[:])
				return
			}
		}
		if orig.Sign() < 0 {
			r.Class("i128:accepted:negative")
		} else {
			r.Class("i128:accepted:non-negative")
		}
	})
	if p != "" {
		key, detail = "panic:int", fmt.Sprintf("panic on %v: %s", v, p)
	}
	if key != "" {
		r.Violation("i128:"+key, detail, c21case{Kind: "i128int", Int: v.String()})
	}
}

func c21checkI128Bytes(r *vh.Run, x I128) {
	var key, detail string
	p := vh.Catch(func() {
		in := x
		v := x.ToBigInt()
		want := c21dec(in[:])
		if v.Cmp(want) != 0 {
			key, detail = "to-big:value", fmt.Sprintf("I128(%x).ToBigInt() = %v, want %v", in[:], v, want)
			return
		}
		u := U128(in).ToBigInt()
		wantU := c21dec(append(append([]byte{}, in[:]...), 0))
		if u.Cmp(wantU) != 0 {
			key, detail = "u128-to-big:value", fmt.Sprintf("U128(%x).ToBigInt() = %v, want %v", in[:], u, wantU)
			return
		}
		back, err := I128FromBigInt(v)
		if err != nil || back != in {
			key, detail = "bytes-roundtrip", fmt.Sprintf("I128FromBigInt(I128(%x).ToBigInt()) = %x, %v", in[:], back[:], err)
			return
		}
		if in[15]&0x80 != 0 {
			r.Class("i128:bytes:negative")
		} else {
			r.Class("i128:bytes:non-negative")
		}
	})
	if p != "" {
		key, detail = "panic:bytes", fmt.Sprintf("panic on %x: %s", x[:], p)
	}
	if key != "" {
		r.Violation("i128:"+key, detail, c21case{Kind: "i128bytes", Bytes: fmt.Sprintf("%x", x[:])})
	}
}

// c21i128: integers +-2^k+{-1,0,1} (k<=130), [-70000,70000], int64/uint64
// ends: I128FromBigInt equals the 16-byte two's complement form exactly when
// -2^127 <= v < 2^127 and is an error otherwise; ToBigInt inverts it;
// FromInt64/FromUint64 agree; 16-byte patterns (single bits and complements,
// 16^3 patterns over bytes 0,14,15 x 3 fills): ToBigInt equals the reference
// decoder and FromBigInt(ToBigInt(x)) = x.
func c21i128(r *vh.Run) {
	var n int64
	for k := uint(0); k <= 130; k++ {
		for _, d := range []int64{-1, 0, 1} {
			v := new(big.Int).Add(c21pow(k), big.NewInt(d))
			c21checkI128Int(r, v)
			c21checkI128Int(r, new(big.Int).Neg(v))
			n += 2
		}
	}
	for x := int64(-70000); x <= 70000; x++ {
		c21checkI128Int(r, big.NewInt(x))
		n++
	}
	for _, x := range []int64{math.MinInt64, math.MinInt64 + 1, math.MaxInt64, math.MaxInt64 - 1, math.MinInt32, math.MaxInt32} {
		c21checkI128Int(r, big.NewInt(x))
		n++
	}
	c21checkI128Int(r, new(big.Int).SetUint64(math.MaxUint64))
	n++
	for bit := 0; bit < 128; bit++ {
		var x, y I128
		x[bit/8] = 1 << uint(bit%8)
		for i := range y {
			y[i] = ^x[i]
		}
		c21checkI128Bytes(r, x)
		c21checkI128Bytes(r, y)
		n += 2
	}
	sharp := []byte{0x00, 0x01, 0x02, 0x7e, 0x7f, 0x80, 0x81, 0xfe, 0xff, 0x10, 0x3f, 0x40, 0xc0, 0xbf, 0x55, 0xaa}
	for _, fill := range []byte{0x00, 0xff, 0x5a} {
		for _, a := range sharp {
			for _, b := range sharp {
				for _, c := range sharp {
					var x I128
					for i := range x {
						x[i] = fill
					}
					x[0], x[14], x[15] = a, b, c
					c21checkI128Bytes(r, x)
					n++
				}
			}
		}
	}
	r.Eval(n)
	// the package-level constants must still hold their values
	if pow128.Cmp(c21pow(128)) != 0 || maxI128.Cmp(new(big.Int).Sub(c21pow(127), big.NewInt(1))) != 0 || minI128.Cmp(new(big.Int).Neg(c21pow(127))) != 0 {
		r.Violation("i128:shared-constant-modified", "pow128/maxI128/minI128 changed during conversions", nil)
	}
	r.NeedClass("i128:rejected:out-of-range")
	r.NeedClass("i128:accepted:negative")
	r.NeedClass("i128:bytes:negative")
}

package common

import (
	"bytes"
	"encoding/binary"
	"fmt"
	"math"
	"testing"

	"github.com/ontio/ontology/common/serialization"
	"github.com/ontio/ontology/verifshim/vh"
)

// ---- reference reader: boring, independent of the implementation ----

type c18ref struct {
	val       string // canonical rendering of the decoded value
	n         uint64 // bytes consumed when !eof
	eof, irre bool
}

func c18minimal(v uint64) uint64 {
	switch {
	case v < 0xfd:
		return 1
	case v <= 0xffff:
		return 3
	case v <= 0xffffffff:
		return 5
	}
	return 9
}

func c18le(b []byte) uint64 {
	var v uint64
	for i := len(b) - 1; i >= 0; i-- {
		v = v<<8 | uint64(b[i])
	}
	return v
}

func c18varuint(b []byte) (v, n uint64, eof, irr bool) {
	if len(b) < 1 {
		return 0, 0, true, false
	}
	w := uint64(0)
	switch b[0] {
	case 0xfd:
		w = 2
	case 0xfe:
		w = 4
	case 0xff:
		w = 8
	}
	if w == 0 {
		return uint64(b[0]), 1, false, false
	}
	if uint64(len(b)) < 1+w {
		return 0, 0, true, false
	}
	v = c18le(b[1 : 1+w])
	return v, 1 + w, false, c18minimal(v) != 1+w
}

func c18fixed(b []byte, w int) c18ref {
	if len(b) < w {
		return c18ref{eof: true}
	}
	return c18ref{val: fmt.Sprintf("%x", b[:w]), n: uint64(w)}
}

var c18ops = []string{"Byte", "Uint8", "Bool", "Uint16", "Uint32", "Uint64", "Int16", "Int32", "Int64",
	"VarUint", "VarBytes", "String", "Address", "Hash", "I128", "Bytes0", "Bytes1", "Bytes3", "BytesMax", "SkipMax", "Skip2",
	"ReadVarUint", "ReadVarBytes", "ReadUint32", "ReadUint64", "ReadString"}

func c18lebytes(v uint64, w int) string {
	var b [8]byte
	binary.LittleEndian.PutUint64(b[:], v)
	return fmt.Sprintf("%x", b[:w])
}

// c18apply runs op on the real source and returns the observation in the
// reference's vocabulary.
func c18apply(s *ZeroCopySource, op string) (r c18ref, errStyle bool) {
	switch op {
	case "Byte":
		v, e := s.NextByte()
		return c18ref{val: c18lebytes(uint64(v), 1), eof: e}, false
	case "Uint8":
		v, e := s.NextUint8()
		return c18ref{val: c18lebytes(uint64(v), 1), eof: e}, false
	case "Bool":
		v, irr, e := s.NextBool()
		return c18ref{val: fmt.Sprint(v), eof: e, irre: irr}, false
	case "Uint16":
		v, e := s.NextUint16()
		return c18ref{val: c18lebytes(uint64(v), 2), eof: e}, false
	case "Uint32":
		v, e := s.NextUint32()
		return c18ref{val: c18lebytes(uint64(v), 4), eof: e}, false
	case "Uint64":
		v, e := s.NextUint64()
		return c18ref{val: c18lebytes(v, 8), eof: e}, false
	case "Int16":
		v, e := s.NextInt16()
		return c18ref{val: c18lebytes(uint64(uint16(v)), 2), eof: e}, false
	case "Int32":
		v, e := s.NextInt32()
		return c18ref{val: c18lebytes(uint64(uint32(v)), 4), eof: e}, false
	case "Int64":
		v, e := s.NextInt64()
		return c18ref{val: c18lebytes(uint64(v), 8), eof: e}, false
	case "VarUint":
		v, sz, irr, e := s.NextVarUint()
		return c18ref{val: fmt.Sprint(v), n: sz, eof: e, irre: irr}, false
	case "VarBytes":
		v, sz, irr, e := s.NextVarBytes()
		return c18ref{val: fmt.Sprintf("%x", v), n: sz, eof: e, irre: irr}, false
	case "String":
		v, sz, irr, e := s.NextString()
		return c18ref{val: fmt.Sprintf("%x", v), n: sz, eof: e, irre: irr}, false
	case "Address":
		v, e := s.NextAddress()
		return c18ref{val: fmt.Sprintf("%x", v[:]), eof: e}, false
	case "Hash":
		v, e := s.NextHash()
		return c18ref{val: fmt.Sprintf("%x", v[:]), eof: e}, false
	case "I128":
		v, e := s.NextI128()
		return c18ref{val: fmt.Sprintf("%x", v[:]), eof: e}, false
	case "Bytes0", "Bytes1", "Bytes3", "BytesMax":
		n := map[string]uint64{"Bytes0": 0, "Bytes1": 1, "Bytes3": 3, "BytesMax": math.MaxUint64}[op]
		v, e := s.NextBytes(n)
		return c18ref{val: fmt.Sprintf("%x", v), eof: e}, false
	case "SkipMax":
		return c18ref{eof: s.Skip(math.MaxUint64 - 1)}, false
	case "Skip2":
		return c18ref{eof: s.Skip(2)}, false
	case "ReadVarUint":
		v, err := s.ReadVarUint()
		return c18ref{val: fmt.Sprint(v), eof: err != nil}, true
	case "ReadVarBytes":
		v, err := s.ReadVarBytes()
		return c18ref{val: fmt.Sprintf("%x", v), eof: err != nil}, true
	case "ReadString":
		v, err := s.ReadString()
		return c18ref{val: fmt.Sprintf("%x", v), eof: err != nil}, true
	case "ReadUint32":
		v, err := s.ReadUint32()
		return c18ref{val: c18lebytes(uint64(v), 4), eof: err != nil}, true
	case "ReadUint64":
		v, err := s.ReadUint64()
		return c18ref{val: c18lebytes(v, 8), eof: err != nil}, true
	}
	panic("op " + op)
}

// c18expect is the reference answer for op on the unread bytes b.
func c18expect(b []byte, op string) c18ref {
	switch op {
	case "Byte", "Uint8":
		return c18fixed(b, 1)
	case "Bool":
		if len(b) < 1 {
			return c18ref{eof: true}
		}
		return c18ref{val: fmt.Sprint(b[0] != 0), n: 1, irre: b[0] > 1}
	case "Uint16", "Int16":
		return c18fixed(b, 2)
	case "Uint32", "Int32", "ReadUint32":
		return c18fixed(b, 4)
	case "Uint64", "Int64", "ReadUint64":
		return c18fixed(b, 8)
	case "Address":
		return c18fixed(b, 20)
	case "Hash":
		return c18fixed(b, 32)
	case "I128":
		return c18fixed(b, 16)
	case "VarUint", "ReadVarUint":
		v, n, eof, irr := c18varuint(b)
		return c18ref{val: fmt.Sprint(v), n: n, eof: eof, irre: irr}
	case "VarBytes", "String", "ReadVarBytes", "ReadString":
		v, n, eof, irr := c18varuint(b)
		if eof {
			return c18ref{eof: true}
		}
		if v > uint64(len(b))-n {
			return c18ref{eof: true, irre: irr}
		}
		return c18ref{val: fmt.Sprintf("%x", b[n:n+v]), n: n + v, irre: irr}
	case "Bytes0":
		return c18ref{val: "", n: 0}
	case "Bytes1":
		return c18fixed(b, 1)
	case "Bytes3":
		return c18fixed(b, 3)
	case "BytesMax":
		return c18ref{eof: true}
	case "SkipMax":
		return c18ref{eof: true}
	case "Skip2":
		if len(b) < 2 {
			return c18ref{eof: true}
		}
		return c18ref{n: 2}
	}
	panic("op " + op)
}

type c18case struct {
	Bytes string   `json:"bytes"`
	Ops   []string `json:"ops"`
}

func c18runSeq(r *vh.Run, data []byte, ops []string) {
	r.Eval(1)
	var key, detail string
	p := vh.Catch(func() {
		s := NewZeroCopySource(data)
		for i, op := range ops {
			pos := s.Pos()
			if pos > s.Size() {
				key, detail = "pos-beyond-size", fmt.Sprintf("Pos %d > Size %d before op %d", pos, s.Size(), i)
				return
			}
			want := c18expect(data[pos:], op)
			got, errStyle := c18apply(s, op)
			if s.Pos() > s.Size() {
				key, detail = "pos-beyond-size:"+op, fmt.Sprintf("Pos %d > Size %d after %s", s.Pos(), s.Size(), op)
				return
			}
			if errStyle {
				// Read* report irregular and eof both as an error
				wantErr := want.eof || want.irre
				if got.eof != wantErr {
					key, detail = "err:"+op, fmt.Sprintf("%s error=%v want %v", op, got.eof, wantErr)
					return
				}
				if !wantErr && (got.val != want.val || s.Pos()-pos != want.n) {
					key, detail = "value:"+op, fmt.Sprintf("%s got %s/%d want %s/%d", op, got.val, s.Pos()-pos, want.val, want.n)
					return
				}
				r.Class(fmt.Sprintf("%s:err=%v", op, wantErr))
				continue
			}
			if got.eof != want.eof {
				key, detail = "eof:"+op, fmt.Sprintf("%s eof=%v want %v", op, got.eof, want.eof)
				return
			}
			if !want.eof {
				if got.irre != want.irre {
					key, detail = "irregular:"+op, fmt.Sprintf("%s irregular=%v want %v", op, got.irre, want.irre)
					return
				}
				if got.val != want.val || s.Pos()-pos != want.n {
					key, detail = "value:"+op, fmt.Sprintf("%s got %s (advanced %d) want %s (advance %d)", op, got.val, s.Pos()-pos, want.val, want.n)
					return
				}
				if (op == "VarUint" || op == "VarBytes" || op == "String") && got.n != want.n {
					key, detail = "size:"+op, fmt.Sprintf("%s size %d want %d", op, got.n, want.n)
					return
				}
			}
			r.Class(fmt.Sprintf("%s:eof=%v,irr=%v", op, want.eof, want.irre && !want.eof))
		}
	})
	if p != "" {
		key, detail = "panic", "panic: "+p
	}
	if key != "" {
		r.Violationf("source:"+key, c18case{vh.Hex(data), ops}, "bytes=%x ops=%v: %s", data, ops, detail)
	}
}

func c18structured() [][]byte {
	var out [][]byte
	vals := []uint64{0, 1, 0xfb, 0xfc, 0xfd, 0xfe, 0xff, 0x100, 0xfffe, 0xffff, 0x10000, 0x10001, 0xfffffffe, 0xffffffff,
		0x100000000, 0x100000001, math.MaxUint64 - 1, math.MaxUint64, 2, 3, 5, 20, 32}
	for _, v := range vals {
		for _, w := range []int{1, 2, 4, 8} {
			if w < 8 && v>>(8*uint(w)) != 0 {
				continue
			}
			var enc []byte
			if w == 1 {
				if v >= 0xfd {
					continue
				}
				enc = []byte{byte(v)}
			} else {
				enc = make([]byte, 1+w)
				enc[0] = map[int]byte{2: 0xfd, 4: 0xfe, 8: 0xff}[w]
				var b [8]byte
				binary.LittleEndian.PutUint64(b[:], v)
				copy(enc[1:], b[:w])
			}
			for cut := 0; cut <= len(enc); cut++ {
				out = append(out, append([]byte{}, enc[:cut]...))
			}
			// as a length prefix, with bodies of length v-1, v, v+1 when small
			if v <= 40 {
				for _, d := range []int{-1, 0, 1, 33} {
					n := int(v) + d
					if n < 0 {
						continue
					}
					body := make([]byte, n)
					for i := range body {
						body[i] = byte(i + 1)
					}
					out = append(out, append(append([]byte{}, enc...), body...))
				}
			} else {
				out = append(out, append(append([]byte{}, enc...), 1, 2, 3))
			}
		}
	}
	for _, n := range []int{15, 16, 17, 19, 20, 21, 31, 32, 33, 40} {
		b := make([]byte, n)
		for i := range b {
			b[i] = byte(0xA0 + i)
		}
		out = append(out, b)
	}
	return out
}

func TestVerif_C18(t *testing.T) {
	r := vh.Start(t, "C18", "codec")
	defer r.Finish()
	r.Rule("(a) every byte string of length<=L over a sharp alphabet (all 256 bytes for length<=2) plus structured var-int/length-prefix strings with every truncation, x every sequence of <=D read operations over 26 ops, compared step by step with an independent reference reader; (b) write->read round trip for all uint8/uint16 and boundary alphabets of wider types through ZeroCopySink/Source and common/serialization; distinct = (operation, eof, irregular) outcome classes")
	depth := r.Pick(2, 3)
	r.Bound(fmt.Sprintf("read sequences<=%d ops; strings<=3 bytes over 9-symbol alphabet, all strings<=2 bytes", depth))

	var c c18case
	if r.ReplayCase(&c) && c.Bytes != "" {
		var data []byte
		fmt.Sscanf(c.Bytes, "%x", &data)
		c18runSeq(r, data, c.Ops)
		return
	}

	// (a) inputs
	var inputs [][]byte
	inputs = append(inputs, []byte{})
	for a := 0; a < 256; a++ {
		inputs = append(inputs, []byte{byte(a)})
	}
	alpha2 := 256
	if r.Quick() {
		alpha2 = 0
	}
	for a := 0; a < alpha2; a++ {
		for b := 0; b < 256; b++ {
			inputs = append(inputs, []byte{byte(a), byte(b)})
		}
	}
	sharp := []byte{0, 1, 2, 3, 0x80, 0xfc, 0xfd, 0xfe, 0xff}
	for _, a := range sharp {
		for _, b := range sharp {
			if alpha2 == 0 {
				inputs = append(inputs, []byte{a, b})
			}
			for _, c := range sharp {
				inputs = append(inputs, []byte{a, b, c})
				if r.Thorough() {
					for _, d := range sharp {
						inputs = append(inputs, []byte{a, b, c, d})
					}
				}
			}
		}
	}
	inputs = append(inputs, c18structured()...)
	r.Set("inputs", int64(len(inputs)))

	nops := len(c18ops)
	idx := 0
	for _, data := range inputs {
		idx++
		if !r.Mine(idx) {
			continue
		}
		if r.Expired() {
			break
		}
		long := len(data) > 4
		for d := 1; d <= depth; d++ {
			if long && d > 2 {
				break
			}
			radix := make([]int, d)
			for i := range radix {
				radix[i] = nops
			}
			ops := make([]string, d)
			vh.Odometer(radix, func(dg []int) bool {
				for i, x := range dg {
					ops[i] = c18ops[x]
				}
				c18runSeq(r, data, ops)
				return true
			})
		}
	}
	r.Sample(c18case{"fdfc00", []string{"VarUint", "Byte"}})
	r.Sample(c18case{"02aabb", []string{"VarBytes"}})

	if r.R.Shard == 0 {
		c18roundtrip(r)
	}
}

func c18roundtrip(r *vh.Run) {
	u64s := []uint64{0, 1, 0x7f, 0x80, 0xfc, 0xfd, 0xfe, 0xff, 0x100, 0x7fff, 0x8000, 0xfffe, 0xffff, 0x10000, 0x7fffffff, 0x80000000,
		0xfffffffe, 0xffffffff, 0x100000000, 1<<63 - 1, 1 << 63, math.MaxUint64 - 1, math.MaxUint64}
	for k := uint(0); k < 64; k++ {
		u64s = append(u64s, 1<<k, 1<<k-1, 1<<k+1)
	}
	for v := uint64(0); v < 70000; v++ {
		u64s = append(u64s, v)
	}
	bad := func(key string, f string, a ...interface{}) { r.Violationf("roundtrip:"+key, nil, f, a...) }
	for _, v := range u64s {
		r.Eval(1)
		p := vh.Catch(func() {
			sk := NewZeroCopySink(nil)
			sz := sk.WriteVarUint(v)
			sk.WriteUint64(v)
			sk.WriteInt64(int64(v))
			sk.WriteUint32(uint32(v))
			sk.WriteInt32(int32(v))
			sk.WriteUint16(uint16(v))
			sk.WriteInt16(int16(v))
			sk.WriteUint8(uint8(v))
			sk.WriteBool(v&1 == 1)
			if sz != c18minimal(v) || sz > 9 {
				bad("varuint-size", "WriteVarUint(%d) size %d want %d", v, sz, c18minimal(v))
			}
			s := NewZeroCopySource(sk.Bytes())
			a, asz, irr, eof := s.NextVarUint()
			if a != v || asz != sz || irr || eof {
				bad("varuint", "varuint %d read back %d size %d irr %v eof %v", v, a, asz, irr, eof)
			}
			b, _ := s.NextUint64()
			c, _ := s.NextInt64()
			d, _ := s.NextUint32()
			e, _ := s.NextInt32()
			f, _ := s.NextUint16()
			g, _ := s.NextInt16()
			h, _ := s.NextUint8()
			bo, irr2, eof2 := s.NextBool()
			if b != v || c != int64(v) || d != uint32(v) || e != int32(v) || f != uint16(v) || g != int16(v) || h != uint8(v) || bo != (v&1 == 1) || irr2 || eof2 || s.Len() != 0 {
				bad("fixed", "fixed-width round trip of %d failed", v)
			}
			// legacy io.Reader codec
			var buf bytes.Buffer
			serialization.WriteVarUint(&buf, v)
			if !bytes.Equal(buf.Bytes(), sk.Bytes()[:sz]) {
				bad("legacy-encoding", "serialization.WriteVarUint(%d) differs from sink encoding", v)
			}
			serialization.WriteUint64(&buf, v)
			serialization.WriteUint32(&buf, uint32(v))
			serialization.WriteUint16(&buf, uint16(v))
			serialization.WriteUint8(&buf, uint8(v))
			rd := bytes.NewReader(buf.Bytes())
			x, err := serialization.ReadVarUint(rd, 0)
			y, err2 := serialization.ReadUint64(rd)
			z, err3 := serialization.ReadUint32(rd)
			w, err4 := serialization.ReadUint16(rd)
			q, err5 := serialization.ReadUint8(rd)
			if x != v || y != v || z != uint32(v) || w != uint16(v) || q != uint8(v) || err != nil || err2 != nil || err3 != nil || err4 != nil || err5 != nil {
				bad("legacy", "serialization round trip of %d failed", v)
			}
			if serialization.GetVarUintSize(v) != int(c18minimal(v)) {
				bad("legacy-size", "GetVarUintSize(%d)", v)
			}
		})
		if p != "" {
			bad("panic", "panic on %d: %s", v, p)
		}
		r.Class(fmt.Sprintf("roundtrip:varuint-size-%d", c18minimal(v)))
	}
	// var bytes / strings / address / hash
	for _, n := range []int{0, 1, 2, 0xfc, 0xfd, 0xfe, 0xff, 0x100, 0xffff, 0x10000, 0x10001} {
		r.Eval(1)
		body := make([]byte, n)
		for i := range body {
			body[i] = byte(i*7 + 1)
		}
		p := vh.Catch(func() {
			sk := NewZeroCopySink(nil)
			sz := sk.WriteVarBytes(body)
			sk.WriteString(string(body))
			var ad Address
			var hs Uint256
			copy(ad[:], body)
			copy(hs[:], body)
			sk.WriteAddress(ad)
			sk.WriteHash(hs)
			s := NewZeroCopySource(sk.Bytes())
			a, asz, irr, eof := s.NextVarBytes()
			st, _, irr2, eof2 := s.NextString()
			ad2, e3 := s.NextAddress()
			hs2, e4 := s.NextHash()
			if !bytes.Equal(a, body) || asz != sz || irr || eof || st != string(body) || irr2 || eof2 || ad2 != ad || hs2 != hs || e3 || e4 || s.Len() != 0 {
				bad("varbytes", "var bytes round trip len %d failed", n)
			}
			var buf bytes.Buffer
			serialization.WriteVarBytes(&buf, body)
			serialization.WriteString(&buf, string(body))
			rd := bytes.NewReader(buf.Bytes())
			x, err := serialization.ReadVarBytes(rd)
			y, err2 := serialization.ReadString(rd)
			if !bytes.Equal(x, body) || y != string(body) || err != nil || err2 != nil {
				bad("legacy-varbytes", "serialization var bytes round trip len %d failed", n)
			}
		})
		if p != "" {
			bad("panic", "panic on varbytes len %d: %s", n, p)
		}
		r.Class("roundtrip:varbytes")
	}
	// legacy reader on every short string: value or error, never a panic
	sharp := []byte{0, 1, 2, 0x80, 0xfc, 0xfd, 0xfe, 0xff}
	var rec func(b []byte, d int)
	rec = func(b []byte, d int) {
		r.Eval(1)
		p := vh.Catch(func() {
			_, e1 := serialization.ReadVarUint(bytes.NewReader(b), 0)
			_, e2 := serialization.ReadVarBytes(bytes.NewReader(b))
			_, e3 := serialization.ReadString(bytes.NewReader(b))
			_, e4 := serialization.ReadBool(bytes.NewReader(b))
			_, e5 := serialization.ReadBytes(bytes.NewReader(b), math.MaxUint64)
			_, e6 := serialization.ReadByte(bytes.NewReader(b))
			r.Class(fmt.Sprintf("legacy-read:%v%v%v%v%v%v", e1 == nil, e2 == nil, e3 == nil, e4 == nil, e5 == nil, e6 == nil))
			want, _, eof, _ := c18varuint(b)
			got, e := serialization.ReadVarUint(bytes.NewReader(b), 0)
			if (e != nil) != eof || (!eof && got != want) {
				bad("legacy-varuint", "serialization.ReadVarUint(%x) = %d,%v want %d,eof=%v", b, got, e, want, eof)
			}
		})
		if p != "" {
			bad("legacy-panic", "serialization reader panicked on %x: %s", b, p)
		}
		if d == 0 {
			return
		}
		for _, c := range sharp {
			rec(append(append([]byte{}, b...), c), d-1)
		}
	}
	rec(nil, 4)
}

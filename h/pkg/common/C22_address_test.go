package common

import (
	"crypto/sha256"
	"fmt"
	"math/big"
	"strings"
	"testing"

	"github.com/ontio/ontology/verifshim/vh"
)

// C22 — every address encodes to a base58 string that decodes to the same
// address; any other string is rejected; hex encodings round-trip.
//
// "Any other string" needs a judge that is not the code under test: a
// reference Base58Check reader written here (alphabet, big-endian radix-58
// number, 25 bytes = version 0x17 | 20-byte address | first 4 bytes of
// sha256(sha256(version|address)), no redundant leading '1').  A string is a
// valid encoding iff the reference reader accepts it; AddressFromBase58 must
// accept exactly those, with the same address, and never panic.

const c22alphabet = "123456789ABCDEFGHJKLMNPQRSTUVWXYZabcdefghijkmnopqrstuvwxyz"

var c22index = func() [256]int {
	var t [256]int
	for i := range t {
		t[i] = -1
	}
	for i := 0; i < len(c22alphabet); i++ {
		t[c22alphabet[i]] = i
	}
	return t
}()

func c22checksum(payload []byte) []byte {
	h1 := sha256.Sum256(payload)
	h2 := sha256.Sum256(h1[:])
	return h2[:4]
}

// c22encodePayload: radix-58 rendering of version|body|checksum (leading zero
// bytes become leading '1' as in Base58Check).
func c22encodePayload(version byte, body []byte) string {
	payload := append([]byte{version}, body...)
	payload = append(payload, c22checksum(payload)...)
	return c22encodeRaw(payload)
}

func c22encodeRaw(payload []byte) string {
	n := new(big.Int).SetBytes(payload)
	var out []byte
	radix := big.NewInt(58)
	m := new(big.Int)
	for n.Sign() > 0 {
		n.DivMod(n, radix, m)
		out = append(out, c22alphabet[m.Int64()])
	}
	for _, b := range payload {
		if b != 0 {
			break
		}
		out = append(out, c22alphabet[0])
	}
	for i, j := 0, len(out)-1; i < j; i, j = i+1, j-1 {
		out[i], out[j] = out[j], out[i]
	}
	return string(out)
}

// c22refDecode: is s the encoding of an address, and of which one.
func c22refDecode(s string) (a Address, ok bool, why string) {
	if s == "" {
		return a, false, "empty"
	}
	n := new(big.Int)
	radix := big.NewInt(58)
	for i := 0; i < len(s); i++ {
		d := c22index[s[i]]
		if d < 0 {
			return a, false, "non-alphabet-character"
		}
		n.Mul(n, radix)
		n.Add(n, big.NewInt(int64(d)))
	}
	if s[0] == c22alphabet[0] {
		// the version byte 0x17 is not zero, so a leading '1' is always redundant
		return a, false, "redundant-leading-1"
	}
	buf := n.Bytes()
	if len(buf) != 25 {
		return a, false, "payload-length"
	}
	if buf[0] != 23 {
		return a, false, "version"
	}
	sum := c22checksum(buf[:21])
	for i := 0; i < 4; i++ {
		if buf[21+i] != sum[i] {
			return a, false, "checksum"
		}
	}
	copy(a[:], buf[1:21])
	return a, true, "valid"
}

type c22case struct {
	Kind string `json:"kind"`
	Str  string `json:"str,omitempty"`
	Addr string `json:"addr,omitempty"`
}

// c22checkString: AddressFromBase58 must agree with the reference on s.
// origin names the edit that produced s (for the violation key).
func c22checkString(r *vh.Run, s string, origin string, classes map[string]int64) {
	var key, detail string
	p := vh.Catch(func() {
		got, err := AddressFromBase58(s)
		want, ok, why := c22refDecode(s)
		switch {
		case ok && err != nil:
			key, detail = "valid-rejected:"+origin, fmt.Sprintf("AddressFromBase58(%q): %v; it is the encoding of %x", s, err, want[:])
		case ok && got != want:
			key, detail = "wrong-address:"+origin, fmt.Sprintf("AddressFromBase58(%q) = %x, it encodes %x", s, got[:], want[:])
		case !ok && err == nil:
			key, detail = "accepted:"+origin+":"+why, fmt.Sprintf("AddressFromBase58(%q) = %x, but the string is not an address encoding (%s)", s, got[:], why)
		case !ok && got != ADDRESS_EMPTY:
			key, detail = "error-with-address:"+origin, fmt.Sprintf("AddressFromBase58(%q) returned an error together with address %x", s, got[:])
		case ok:
			classes["base58:accepted:"+origin]++
		default:
			classes["base58:rejected:"+why]++
		}
	})
	if p != "" {
		key, detail = "panic:"+origin, fmt.Sprintf("AddressFromBase58(%q) panicked: %s", s, p)
	}
	if key != "" {
		r.Violation("base58:"+key, detail, c22case{Kind: "string", Str: s})
	}
}

func c22checkAddress(r *vh.Run, a Address, full bool, classes map[string]int64) (n int64) {
	tag := c22case{Kind: "addr", Addr: fmt.Sprintf("%x", a[:])}
	var s string
	p := vh.Catch(func() {
		in := a
		s = a.ToBase58()
		if a != in {
			r.Violation("base58:encode:receiver-modified", "ToBase58 modified the address", tag)
		}
		if ref := c22encodePayload(23, in[:]); s != ref {
			r.Violation("base58:encode:not-base58check", fmt.Sprintf("ToBase58(%x) = %q, Base58Check(0x17|addr|sha256d[:4]) is %q", in[:], s, ref), tag)
		}
		back, err := AddressFromBase58(s)
		if err != nil || back != in {
			r.Violation("base58:roundtrip", fmt.Sprintf("AddressFromBase58(ToBase58(%x)) = %x, %v", in[:], back[:], err), tag)
		}
		// hex
		h := a.ToHexString()
		rev := make([]byte, ADDR_LEN)
		for i := range rev {
			rev[i] = in[ADDR_LEN-1-i]
		}
		if h != fmt.Sprintf("%x", rev) {
			r.Violation("hex:encode", fmt.Sprintf("ToHexString(%x) = %q", in[:], h), tag)
		}
		hb, err := AddressFromHexString(h)
		if err != nil || hb != in {
			r.Violation("hex:roundtrip", fmt.Sprintf("AddressFromHexString(ToHexString(%x)) = %x, %v", in[:], hb[:], err), tag)
		}
		ab, err := AddressParseFromBytes(in[:])
		if err != nil || ab != in {
			r.Violation("bytes:roundtrip", fmt.Sprintf("AddressParseFromBytes(%x) = %x, %v", in[:], ab[:], err), tag)
		}
		classes["address:roundtrip"]++
		n += 3
		// hex edits: whatever is accepted must render back to the same text
		hexEdits := []string{strings.ToUpper(h), h[:38], h[:39], h[1:], h + "00", h + "0", "0x" + h, h[:20] + "g" + h[21:], h[:39] + " ", " " + h[1:], "00" + h, h[2:] + "zz"}
		for _, e := range hexEdits {
			n++
			x, err := AddressFromHexString(e)
			if err != nil {
				if x != ADDRESS_EMPTY {
					r.Violation("hex:error-with-address", fmt.Sprintf("AddressFromHexString(%q) returned an error together with %x", e, x[:]), c22case{Kind: "hex", Str: e})
				}
				classes["hex:rejected"]++
				continue
			}
			if x.ToHexString() != strings.ToLower(e) {
				r.Violation("hex:accepted-non-roundtripping", fmt.Sprintf("AddressFromHexString(%q) = %x, which renders as %q", e, x[:], x.ToHexString()), c22case{Kind: "hex", Str: e})
				continue
			}
			classes["hex:accepted:case-variant"]++
		}
	})
	if p != "" {
		r.Violation("base58:panic:encode", fmt.Sprintf("panic on address %x: %s", a[:], p), tag)
		return
	}

	// single-character substitutions: every alphabet symbol and some look-alikes / separators
	subs := c22alphabet + "0OIl +-_\n"
	for i := 0; i < len(s); i++ {
		for j := 0; j < len(subs); j++ {
			if subs[j] == s[i] {
				continue
			}
			c22checkString(r, s[:i]+string(subs[j])+s[i+1:], "substitution", classes)
			n++
		}
	}
	// deletions
	for i := 0; i < len(s); i++ {
		c22checkString(r, s[:i]+s[i+1:], "deletion", classes)
		n++
	}
	// insertions
	ins := "1Az"
	if full {
		ins = c22alphabet + "0 "
	}
	for i := 0; i <= len(s); i++ {
		for j := 0; j < len(ins); j++ {
			c22checkString(r, s[:i]+string(ins[j])+s[i:], "insertion", classes)
			n++
		}
		if i < len(s) {
			c22checkString(r, s[:i]+string(s[i])+s[i:], "insertion", classes) // doubled character
			n++
		}
	}
	// adjacent transpositions
	for i := 0; i+1 < len(s); i++ {
		if s[i] != s[i+1] {
			c22checkString(r, s[:i]+string(s[i+1])+string(s[i])+s[i+2:], "transposition", classes)
			n++
		}
	}
	// redundant leading '1', surrounding junk, sign accepted by big.Int parsers
	for _, e := range []string{"1" + s, "11" + s, "111" + s, s + "1", " " + s, s + " ", s + "\n", "+" + s, "-" + s, s + s, strings.ToLower(s), strings.ToUpper(s)} {
		if e == s {
			continue
		}
		c22checkString(r, e, "affix", classes)
		n++
	}
	// well-formed Base58Check strings that are not addresses
	for _, v := range []byte{0, 1, 22, 24, 0x80, 0xff} {
		c22checkString(r, c22encodePayload(v, a[:]), "wrong-version", classes)
		n++
	}
	c22checkString(r, c22encodePayload(23, a[:19]), "short-body", classes)
	c22checkString(r, c22encodePayload(23, append(append([]byte{}, a[:]...), 0x00)), "long-body", classes)
	c22checkString(r, c22encodePayload(23, append([]byte{0x00}, a[:]...)), "long-body", classes)
	c22checkString(r, c22encodePayload(0, append([]byte{23}, a[:]...)), "zero-prefixed-payload", classes)
	n += 4
	// wrong checksum under the right version: each checksum byte +-1 and flipped bits
	payload := append([]byte{23}, a[:]...)
	sum := c22checksum(payload)
	for i := 0; i < 4; i++ {
		for _, d := range []byte{1, 0xff, 0x80, 0x01 << 4} {
			bad := append(append([]byte{}, payload...), sum...)
			if d == 1 || d == 0xff {
				bad[21+i] += d
			} else {
				bad[21+i] ^= d
			}
			c22checkString(r, c22encodeRaw(bad), "wrong-checksum", classes)
			n++
		}
	}
	// checksum taken over a single sha256, over the address only, all zero
	h1 := sha256.Sum256(payload)
	c22checkString(r, c22encodeRaw(append(append([]byte{}, payload...), h1[:4]...)), "wrong-checksum", classes)
	h3 := sha256.Sum256(a[:])
	h4 := sha256.Sum256(h3[:])
	c22checkString(r, c22encodeRaw(append(append([]byte{}, payload...), h4[:4]...)), "wrong-checksum", classes)
	c22checkString(r, c22encodeRaw(append(append([]byte{}, payload...), 0, 0, 0, 0)), "wrong-checksum", classes)
	n += 3
	return n
}

func c22addresses(full bool) []Address {
	var out []Address
	var zero, ones Address
	for i := range ones {
		ones[i] = 0xff
	}
	out = append(out, zero, ones)
	step := 4
	if full {
		step = 1
	}
	for bit := 0; bit < 160; bit += step {
		a := zero
		a[bit/8] = 1 << uint(bit%8)
		out = append(out, a)
		if full {
			b := ones
			b[bit/8] ^= 1 << uint(bit%8)
			out = append(out, b)
		}
	}
	// zero runs of every length at the front / at the back
	for k := 1; k < ADDR_LEN; k++ {
		a, b := ones, ones
		for i := 0; i < k; i++ {
			a[i] = 0
			b[ADDR_LEN-1-i] = 0
		}
		out = append(out, a, b)
	}
	// patterned
	cnt := 4
	if full {
		cnt = 40
	}
	for k := 0; k < cnt; k++ {
		var a Address
		for i := range a {
			a[i] = byte((i+1)*(2*k+3) + k*k)
		}
		out = append(out, a)
	}
	// addresses as the node derives them
	out = append(out, AddressFromVmCode([]byte{0x51}), AddressFromVmCode([]byte{}))
	return out
}

func TestVerif_C22(t *testing.T) {
	r := vh.Start(t, "C22", "address")
	defer r.Finish()
	r.Rule("for each address of a structured set (zero, all-FF, single bits, zero runs of every length at either end, patterned, script hashes): ToBase58 equals an independent Base58Check encoder and decodes back; ToHexString/AddressFromHexString round-trip; every single-character substitution (58 symbols + look-alikes/separators) at every position, every deletion, insertions at every position, transpositions, affixes (leading '1', spaces, sign, case change), re-encodings with wrong version / body length / checksum: AddressFromBase58 accepts exactly the strings an independent Base58Check reader accepts, with the same address, never panics; plus every string of <=3 characters over the alphabet and look-alikes; distinct = (edit kind -> accepted | rejected:reason)")
	full := r.Thorough()
	addrs := c22addresses(full)
	r.Bound(fmt.Sprintf("%d addresses x (~2200 substitutions + 34 deletions + %s insertions + affixes + 35 re-encodings); all strings <=3 chars over 62 symbols", len(addrs), map[bool]string{true: "35x60", false: "35x4"}[full]))
	classes := map[string]int64{}
	flush := func() {
		for k, n := range classes {
			r.ClassN(k, n)
			delete(classes, k)
		}
	}
	defer flush()
	var c c22case
	if r.ReplayCase(&c) && c.Kind != "" {
		switch c.Kind {
		case "string":
			c22checkString(r, c.Str, "replay", classes)
		case "addr":
			var b []byte
			fmt.Sscanf(c.Addr, "%x", &b)
			var a Address
			copy(a[:], b)
			c22checkAddress(r, a, true, classes)
		case "hex":
			x, err := AddressFromHexString(c.Str)
			if err == nil && x.ToHexString() != strings.ToLower(c.Str) {
				r.Violation("hex:accepted-non-roundtripping", fmt.Sprintf("AddressFromHexString(%q) = %x", c.Str, x[:]), c)
			}
		}
		r.Eval(1)
		return
	}
	var n int64
	for i, a := range addrs {
		if !r.Mine(i) {
			continue
		}
		if r.Expired() {
			break
		}
		n += c22checkAddress(r, a, full, classes)
	}
	// arbitrary short strings
	sym := c22alphabet + "0OIl"
	for i := 0; i < len(sym); i++ {
		if !r.Mine(i) {
			continue
		}
		c22checkString(r, string(sym[i]), "short-string", classes)
		n++
		for j := 0; j < len(sym); j++ {
			c22checkString(r, string([]byte{sym[i], sym[j]}), "short-string", classes)
			n++
			for k := 0; k < len(sym); k++ {
				c22checkString(r, string([]byte{sym[i], sym[j], sym[k]}), "short-string", classes)
				n++
			}
		}
	}
	if r.Mine(0) {
		c22checkString(r, "", "short-string", classes)
		c22checkString(r, strings.Repeat("1", 34), "all-ones", classes)
		c22checkString(r, strings.Repeat("z", 34), "all-z", classes)
		c22checkString(r, strings.Repeat("z", 2048), "very-long", classes)
		c22checkString(r, strings.Repeat("z", 2049), "very-long", classes)
		n += 5
	}
	r.Eval(n)
	var za Address
	r.Sample(c22case{Kind: "addr", Addr: fmt.Sprintf("%x", za[:])})
	r.Sample(c22case{Kind: "string", Str: "1" + za.ToBase58()})
	flush()
	r.NeedClass("address:roundtrip")
	r.NeedClass("base58:rejected:checksum")
	r.NeedClass("base58:rejected:version")
	r.NeedClass("base58:rejected:payload-length")
	r.NeedClass("base58:rejected:redundant-leading-1")
	r.NeedClass("base58:rejected:non-alphabet-character")
}

package connect_controller

// C36 — connection limits under concurrency (engine cs, DESIGN §4 C36).
// The package is built with "sync"/"sync/atomic" rewritten to the vsync shim
// (vinstr, from the current connect_controller.go) and with the handshake
// replaced by a scheduling-point stub.  Each scenario is 2–3 real goroutines
// calling the real AcceptConnect / Connect / Conn.Close on one controller; all
// schedules up to the preemption bound are enumerated and the limits are
// evaluated at every scheduling point and at the end.

import (
	"errors"
	"fmt"
	"net"
	"strings"
	"testing"
	"time"

	"github.com/ontio/ontology/p2pserver/common"
	"github.com/ontio/ontology/p2pserver/peer"
	"github.com/ontio/ontology/verifshim/vh"
	"github.com/ontio/ontology/verifshim/vsync"
)

type c36addr string

func (a c36addr) Network() string { return "tcp" }
func (a c36addr) String() string  { return string(a) }

type c36conn struct {
	remote string
	p      *peer.PeerInfo
	closed bool
}

func (c *c36conn) Read(b []byte) (int, error)         { return 0, errors.New("fake") }
func (c *c36conn) Write(b []byte) (int, error)        { return len(b), nil }
func (c *c36conn) Close() error                       { c.closed = true; return nil }
func (c *c36conn) LocalAddr() net.Addr                { return c36addr("10.0.0.1:20338") }
func (c *c36conn) RemoteAddr() net.Addr               { return c36addr(c.remote) }
func (c *c36conn) SetDeadline(t time.Time) error      { return nil }
func (c *c36conn) SetReadDeadline(t time.Time) error  { return nil }
func (c *c36conn) SetWriteDeadline(t time.Time) error { return nil }
func (c *c36conn) VerifPeer() *peer.PeerInfo          { return c.p }

type c36dialer struct{}

func (c36dialer) Dial(addr string) (net.Conn, error) {
	vsync.Yield("dial(network I/O)")
	return c36new(addr), nil
}

type c36log struct{}

func (c36log) Debug(a ...interface{})                    {}
func (c36log) Info(a ...interface{})                     {}
func (c36log) Warn(a ...interface{})                     {}
func (c36log) Error(a ...interface{})                    {}
func (c36log) Fatal(a ...interface{})                    {}
func (c36log) Debugf(format string, a ...interface{})    {}
func (c36log) Infof(format string, a ...interface{})     {}
func (c36log) Warnf(format string, a ...interface{})     {}
func (c36log) Errorf(format string, a ...interface{})    {}
func (c36log) Fatalf(format string, a ...interface{})    {}

// c36new makes a fake connection from remote "ip:port"; the peer id is
// derived from the address, its listen port from the port.
func c36new(remote string) *c36conn {
	var h uint64 = 1469598103934665603
	for i := 0; i < len(remote); i++ {
		h = (h ^ uint64(remote[i])) * 1099511628211
	}
	id := common.PseudoPeerIdFromUint64(h | 1)
	return &c36conn{remote: remote, p: &peer.PeerInfo{Id: id, Port: 20338, SoftVersion: common.MIN_VERSION_FOR_DHT}}
}

type c36scenario struct {
	name              string
	maxIn, perIP, out uint
	pre               []string // inbound connections established before the threads start
	threads           []string // "accept ip:port" | "dial ip:port" | "close i" (i indexes pre)
}

var c36scenarios = []c36scenario{
	{"2 accepts, same ip, inbound limit 1", 1, 8, 8, nil, []string{"accept 1.1.1.1:1001", "accept 1.1.1.1:1002"}},
	{"2 accepts, different ips, inbound limit 1", 1, 8, 8, nil, []string{"accept 1.1.1.1:1001", "accept 2.2.2.2:1001"}},
	{"2 accepts, same ip, per-ip limit 1", 8, 1, 8, nil, []string{"accept 1.1.1.1:1001", "accept 1.1.1.1:1002"}},
	{"3 accepts, inbound limit 2", 2, 8, 8, nil, []string{"accept 1.1.1.1:1001", "accept 2.2.2.2:1001", "accept 3.3.3.3:1001"}},
	{"accept vs close, inbound limit 1", 1, 8, 8, []string{"9.9.9.9:1"}, []string{"accept 1.1.1.1:1001", "close 0"}},
	{"accept+accept vs close, inbound limit 1", 1, 8, 8, []string{"9.9.9.9:1"}, []string{"accept 1.1.1.1:1001", "close 0", "accept 2.2.2.2:1001"}},
	{"2 dials, outbound limit 1", 8, 8, 1, nil, []string{"dial 1.1.1.1:20338", "dial 2.2.2.2:20338"}},
	{"dial vs accept, limits 1/1", 1, 8, 1, nil, []string{"dial 1.1.1.1:20338", "accept 2.2.2.2:1001"}},
	{"3 dials, outbound limit 2", 8, 8, 2, nil, []string{"dial 1.1.1.1:20338", "dial 2.2.2.2:20338", "dial 3.3.3.3:20338"}},
	{"2 dials of the same address, outbound limit 1", 8, 8, 1, nil, []string{"dial 1.1.1.1:20338", "dial 1.1.1.1:20338"}},
	{"2 dials of the same address + another, outbound limit 2", 8, 8, 2, nil, []string{"dial 1.1.1.1:20338", "dial 1.1.1.1:20338", "dial 2.2.2.2:20338"}},
	{"2 accepts from the same remote address, inbound limit 1", 1, 8, 8, nil, []string{"accept 1.1.1.1:1001", "accept 1.1.1.1:1001"}},
}

type c36inst struct {
	ctl     *ConnectController
	sc      c36scenario
	success []bool
	conns   []net.Conn
}

var c36key *common.PeerKeyId

func c36build(sc c36scenario) *c36inst {
	if c36key == nil {
		common.Difficulty = 1 // peer-id proof of work, irrelevant to the limits
		c36key = common.RandPeerKeyId()
	}
	key := c36key
	info := &peer.PeerInfo{Id: key.Id, Port: 20338, SoftVersion: common.MIN_VERSION_FOR_DHT}
	opt := NewConnCtrlOption().MaxInBound(sc.maxIn).MaxInBoundPerIp(sc.perIP).MaxOutBound(sc.out).WithDialer(c36dialer{})
	in := &c36inst{ctl: NewConnectController(info, key, opt, c36log{}), sc: sc, success: make([]bool, len(sc.threads))}
	for _, a := range sc.pre {
		_, c, err := in.ctl.AcceptConnect(c36new(a)) // no scheduler active yet: runs straight through
		if err != nil {
			panic("pre-connection refused: " + err.Error())
		}
		in.conns = append(in.conns, c)
	}
	return in
}

func (in *c36inst) bodies() []func() {
	var bs []func()
	for i, th := range in.sc.threads {
		i, f := i, strings.Fields(th)
		switch f[0] {
		case "accept":
			bs = append(bs, func() {
				_, c, err := in.ctl.AcceptConnect(c36new(f[1]))
				in.success[i] = err == nil && c != nil
			})
		case "dial":
			bs = append(bs, func() {
				_, c, err := in.ctl.Connect(f[1])
				in.success[i] = err == nil && c != nil
			})
		case "close":
			bs = append(bs, func() {
				var k int
				fmt.Sscan(f[1], &k)
				in.conns[k].Close()
				in.success[i] = true
			})
		}
	}
	return bs
}

// check evaluates the limits on the controller's records (no thread is
// running while the scheduler calls it, so unlocked reads are safe).
func (in *c36inst) check(final bool) string {
	c := in.ctl
	nin := uint(c.inoutbounds[INBOUND_INDEX].Size())
	nout := uint(c.inoutbounds[OUTBOUND_INDEX].Size())
	if nin > in.sc.maxIn {
		return fmt.Sprintf("inbound-limit: %d established inbound connections, limit %d", nin, in.sc.maxIn)
	}
	if nout > in.sc.out {
		return fmt.Sprintf("outbound-limit: %d established outbound connections, limit %d", nout, in.sc.out)
	}
	perip := map[string]uint{}
	c.inoutbounds[INBOUND_INDEX].Each(func(a string) bool {
		ip, _ := common.ParseIPAddr(a)
		perip[ip]++
		return true
	})
	for ip, n := range perip {
		if n > in.sc.perIP {
			return fmt.Sprintf("per-ip-limit: %d inbound connections from %s, limit %d", n, ip, in.sc.perIP)
		}
	}
	if final {
		// connections handed to callers (and not closed) are established connections, whatever the records say
		estIn, estOut := uint(len(in.sc.pre)), uint(0)
		for i, th := range in.sc.threads {
			if !in.success[i] {
				continue
			}
			switch strings.Fields(th)[0] {
			case "accept":
				estIn++
			case "dial":
				estOut++
			case "close":
				estIn--
			}
		}
		if estIn > in.sc.maxIn {
			return fmt.Sprintf("inbound-limit: %d inbound connections were handed to callers and are open, limit %d (records show %d)", estIn, in.sc.maxIn, nin)
		}
		if estOut > in.sc.out {
			return fmt.Sprintf("outbound-limit: %d outbound connections were handed to callers and are open, limit %d (records show %d)", estOut, in.sc.out, nout)
		}
	}
	return ""
}

func (in *c36inst) outcome() string {
	s := ""
	for _, ok := range in.success {
		if ok {
			s += "1"
		} else {
			s += "0"
		}
	}
	return fmt.Sprintf("ok=%s in=%d out=%d", s, in.ctl.inoutbounds[INBOUND_INDEX].Size(), in.ctl.inoutbounds[OUTBOUND_INDEX].Size())
}

type c36case struct {
	Scenario string   `json:"scenario"`
	Threads  []string `json:"threads"`
	Bound    int      `json:"preemption_bound"`
	Schedule []int    `json:"schedule"`
	Steps    []string `json:"steps"`
}

func TestVerif_C36(t *testing.T) {
	r := vh.Start(t, "C36", "limits")
	defer r.Finish()
	maxBound := r.Pick(2, 4)
	r.Rule("scenarios of 2–3 real goroutines calling AcceptConnect / Connect / Conn.Close on one real ConnectController (limits 1–2); every schedule with at most B preemptions, B iterated 0..max, scheduling points before every mutex/atomic operation and at the handshake/dial (network I/O); limits evaluated at every scheduling point and at the end; states = scheduling points visited, transitions = scheduling decisions, traces = complete executions of the real code")
	r.Assume("sequentially consistent memory; the real handshake is modelled as one scheduling point (it shares no state between connections)")
	var rc c36case
	replay := r.ReplayCase(&rc) && rc.Scenario != ""
	totalExec := int64(0)
	for si, sc := range c36scenarios {
		if !r.Mine(si) || (replay && rc.Scenario != sc.name) {
			continue
		}
		completed := -1
		for bound := 0; bound <= maxBound; bound++ {
			if r.Expired() {
				break
			}
			var last *c36inst
			e := &vsync.Explorer{
				Scenario: func() ([]func(), func(bool) string) {
					last = c36build(sc)
					return last.bodies(), last.check
				},
				Bound: bound, Horizon: 2000, Stop: r.Expired,
				Outcome: func() string { return last.outcome() },
			}
			if replay {
				v, same := e.Replay(rc.Schedule)
				if !same {
					t.Fatalf("VERIF-INFRA replay not deterministic")
				}
				if v != "" {
					r.Violation(strings.SplitN(v, ":", 2)[0]+"@"+sc.name, v, rc)
				}
				break
			}
			e.Run()
			totalExec += e.Executions
			r.Trace(e.Executions)
			r.Trans(e.Points)
			r.State(e.Points)
			r.Eval(e.Executions)
			for o, n := range e.Outcomes {
				r.ClassN(o, n)
			}
			if e.Violation != "" {
				v, same := e.Replay(e.Schedule)
				if !same || v != e.Violation {
					t.Fatalf("VERIF-INFRA schedule does not replay deterministically: %q vs %q", v, e.Violation)
				}
				var steps []string
				for _, d := range e.VTrace {
					steps = append(steps, d.Label)
				}
				cs := c36case{sc.name, sc.threads, bound, e.Schedule, steps}
				r.Violation(strings.SplitN(e.Violation, ":", 2)[0]+"@"+sc.name, fmt.Sprintf("scenario %q, %d preemption(s), schedule %v: %s", sc.name, bound, steps, e.Violation), cs)
				break
			}
			if e.Capped {
				r.Capped(fmt.Sprintf("scenario %q capped at preemption bound %d", sc.name, bound))
				break
			}
			completed = bound
		}
		r.Set("bound_completed/"+sc.name, completed)
		if si == 0 {
			r.Sample(map[string]interface{}{"scenario": sc.name, "threads": sc.threads})
		}
	}
	r.Bound(fmt.Sprintf("preemption bound 0..%d per scenario; %d scenarios", maxBound, len(c36scenarios)))
}


// TestVerif_C36_race: the same scenario bodies free-running (no scheduler: the
// vsync types fall back to the real sync primitives) under the Go race
// detector.  The cooperative scheduler's hand-offs are happens-before edges
// that would blind the detector, so unsynchronised accesses are looked for in
// this separate pass.  A reported race makes the test binary exit non-zero
// ("WARNING: DATA RACE"), which the harness turns into a violation.
func TestVerif_C36_race(t *testing.T) {
	r := vh.Start(t, "C36", "race")
	defer r.Finish()
	r.Rule("free-running repetitions of the C36 scenario bodies under -race; supplementary to the exhaustive schedule exploration (it samples schedules; it only looks for unsynchronised accesses the scheduling points would not cover)")
	reps := r.Pick(200, 2000)
	for _, sc := range c36scenarios {
		for i := 0; i < reps; i++ {
			in := c36build(sc)
			done := make(chan struct{}, 8)
			bs := in.bodies()
			for _, b := range bs {
				b := b
				go func() { b(); done <- struct{}{} }()
			}
			for range bs {
				<-done
			}
			r.Eval(1)
			if v := in.check(true); v != "" {
				r.Violation("free-running:"+strings.SplitN(v, ":", 2)[0]+"@"+sc.name, v, nil)
			}
		}
		r.Class("scenario:" + sc.name)
	}
}

package connect_controller

// C36 — connection limits under concurrency (engine cs, DESIGN §4 C36).
// The package is built with "sync"/"sync/atomic" rewritten to the vsync shim
// (vinstr, from the current connect_controller.go) and with the handshake
// replaced by a scheduling-point stub.  Each scenario is 2–3 real goroutines
// calling the real AcceptConnect / Connect / Conn.Close on one controller; all
// schedules up to the preemption bound are enumerated and the limits are
// evaluated at every scheduling point and at the end.

import (
	"errors"
	"fmt"
	"net"
	"strconv"
	"strings"
	"testing"
	"time"

	"github.com/ontio/ontology/p2pserver/common"
	"github.com/ontio/ontology/p2pserver/peer"
	"github.com/ontio/ontology/verifshim/vh"
	"github.com/ontio/ontology/verifshim/vsync"
)

type c36addr string

func (a c36addr) Network() string { return "tcp" }
func (a c36addr) String() string  { return string(a) }

type c36conn struct {
	remote string
	p      *peer.PeerInfo
	closed bool
}

func (c *c36conn) Read(b []byte) (int, error)         { return 0, errors.New("fake") }
func (c *c36conn) Write(b []byte) (int, error)        { return len(b), nil }
func (c *c36conn) Close() error                       { c.closed = true; return nil }
func (c *c36conn) LocalAddr() net.Addr                { return c36addr("10.0.0.1:20338") }
func (c *c36conn) RemoteAddr() net.Addr               { return c36addr(c.remote) }
func (c *c36conn) SetDeadline(t time.Time) error      { return nil }
func (c *c36conn) SetReadDeadline(t time.Time) error  { return nil }
func (c *c36conn) SetWriteDeadline(t time.Time) error { return nil }
func (c *c36conn) VerifPeer() *peer.PeerInfo          { return c.p }

type c36dialer struct{}

func (c36dialer) Dial(addr string) (net.Conn, error) {
	vsync.Yield("dial(network I/O)")
	return c36new(addr), nil
}

type c36log struct{}

func (c36log) Debug(a ...interface{})                    {}
func (c36log) Info(a ...interface{})                     {}
func (c36log) Warn(a ...interface{})                     {}
func (c36log) Error(a ...interface{})                    {}
func (c36log) Fatal(a ...interface{})                    {}
func (c36log) Debugf(format string, a ...interface{})    {}
func (c36log) Infof(format string, a ...interface{})     {}
func (c36log) Warnf(format string, a ...interface{})     {}
func (c36log) Errorf(format string, a ...interface{})    {}
func (c36log) Fatalf(format string, a ...interface{})    {}

// c36new makes a fake connection from remote "ip:port"; the peer id is
// derived from the address.  The peer description is what the real handshake
// would produce: Addr is the remote address of the connection and the peer's
// listen port is its own (a dialled "ip:port" is the peer's listen address; a
// peer connecting from the ephemeral port p listens on 20000+p), so that
// several nodes behind one ip have distinct listen addresses.
func c36new(remote string) *c36conn {
	var h uint64 = 1469598103934665603
	for i := 0; i < len(remote); i++ {
		h = (h ^ uint64(remote[i])) * 1099511628211
	}
	id := common.PseudoPeerIdFromUint64(h | 1)
	port := 20338
	if _, ps, err := net.SplitHostPort(remote); err == nil {
		if n, err := strconv.Atoi(ps); err == nil && n > 0 {
			port = n
			if port < 20000 {
				port += 20000
			}
		}
	}
	return &c36conn{remote: remote, p: &peer.PeerInfo{Id: id, Port: uint16(port), Addr: remote, SoftVersion: common.MIN_VERSION_FOR_DHT}}
}

// A scenario: limits, connections established before the threads start, and
// one operation list per thread.
//   pre:     "ip:port" or "in ip:port" (inbound, through AcceptConnect) | "out ip:port" (outbound, through Connect)
//   thread:  operations separated by ";", run sequentially by that thread:
//            "accept ip:port" | "dial ip:port" | "close i" (i indexes pre) |
//            "close own" (the connection this thread established most recently; skipped if that attempt was refused)
type c36scenario struct {
	name              string
	maxIn, perIP, out uint
	pre               []string
	threads           []string
}

const (
	c36X = "1.1.1.1"
	c36Y = "2.2.2.2"
)

var c36scenarios = []c36scenario{
	{"2 accepts, same ip, inbound limit 1", 1, 8, 8, nil, []string{"accept 1.1.1.1:1001", "accept 1.1.1.1:1002"}},
	{"2 accepts, different ips, inbound limit 1", 1, 8, 8, nil, []string{"accept 1.1.1.1:1001", "accept 2.2.2.2:1001"}},
	{"2 accepts, same ip, per-ip limit 1", 8, 1, 8, nil, []string{"accept 1.1.1.1:1001", "accept 1.1.1.1:1002"}},
	{"3 accepts, inbound limit 2", 2, 8, 8, nil, []string{"accept 1.1.1.1:1001", "accept 2.2.2.2:1001", "accept 3.3.3.3:1001"}},
	{"accept vs close, inbound limit 1", 1, 8, 8, []string{"9.9.9.9:1"}, []string{"accept 1.1.1.1:1001", "close 0"}},
	{"accept+accept vs close, inbound limit 1", 1, 8, 8, []string{"9.9.9.9:1"}, []string{"accept 1.1.1.1:1001", "close 0", "accept 2.2.2.2:1001"}},
	{"2 dials, outbound limit 1", 8, 8, 1, nil, []string{"dial 1.1.1.1:20338", "dial 2.2.2.2:20338"}},
	{"dial vs accept, limits 1/1", 1, 8, 1, nil, []string{"dial 1.1.1.1:20338", "accept 2.2.2.2:1001"}},
	{"3 dials, outbound limit 2", 8, 8, 2, nil, []string{"dial 1.1.1.1:20338", "dial 2.2.2.2:20338", "dial 3.3.3.3:20338"}},
	{"2 dials of the same address, outbound limit 1", 8, 8, 1, nil, []string{"dial 1.1.1.1:20338", "dial 1.1.1.1:20338"}},
	{"2 dials of the same address + another, outbound limit 2", 8, 8, 2, nil, []string{"dial 1.1.1.1:20338", "dial 1.1.1.1:20338", "dial 2.2.2.2:20338"}},
	{"2 accepts from the same remote address, inbound limit 1", 1, 8, 8, nil, []string{"accept 1.1.1.1:1001", "accept 1.1.1.1:1001"}},

	// both directions on one remote ip (several nodes behind one address): a connection of one direction
	// is established and closed while the other direction is at its limit
	{"1 thread: dial+close then accept, same ip at per-ip limit 2", 8, 2, 8, []string{"in 1.1.1.1:1001", "in 1.1.1.1:1002"},
		[]string{"dial 1.1.1.1:30001; close own; accept 1.1.1.1:1003"}},
	{"dial+close vs accept, same ip at per-ip limit 1", 8, 1, 8, []string{"in 1.1.1.1:1001"},
		[]string{"dial 1.1.1.1:30001; close own", "accept 1.1.1.1:1002"}},
	{"dial+close vs 2 accepts, same ip, per-ip limit 2", 8, 2, 8, []string{"in 1.1.1.1:1001"},
		[]string{"dial 1.1.1.1:30001; close own", "accept 1.1.1.1:1002", "accept 1.1.1.1:1003"}},
	{"close of an outbound connection vs accept, same ip at per-ip limit 1", 8, 1, 8, []string{"in 1.1.1.1:1001", "out 1.1.1.1:30001"},
		[]string{"close 1", "accept 1.1.1.1:1002"}},
	{"dial+close vs accept from another ip, inbound limit 1", 1, 8, 8, []string{"in 1.1.1.1:1001"},
		[]string{"dial 1.1.1.1:30001; close own", "accept 2.2.2.2:1001"}},
	{"1 thread: inbound close then dial, same ip at outbound limit 1", 8, 8, 1, []string{"in 1.1.1.1:1001", "out 1.1.1.1:30001"},
		[]string{"close 0; dial 1.1.1.1:30002"}},
	{"close of an inbound connection vs dial, outbound limit 1", 8, 8, 1, []string{"in 1.1.1.1:1001", "out 2.2.2.2:30001"},
		[]string{"close 0", "dial 1.1.1.1:30002"}},
	{"accept+close vs dial, same ip at outbound limit 1", 8, 8, 1, []string{"out 1.1.1.1:30001"},
		[]string{"accept 1.1.1.1:1001; close own", "dial 1.1.1.1:30002"}},
	{"accept+close vs accept vs dial+close, one ip, limits 1/1/1", 1, 1, 1, nil,
		[]string{"accept 1.1.1.1:1001; close own", "accept 1.1.1.1:1002", "dial 1.1.1.1:30001; close own"}},
}

type c36op struct{ kind, arg string }

func c36parse(th string) []c36op {
	var ops []c36op
	for _, part := range strings.Split(th, ";") {
		f := strings.Fields(part)
		if len(f) != 2 || (f[0] != "accept" && f[0] != "dial" && f[0] != "close") {
			panic("bad scenario operation: " + part)
		}
		ops = append(ops, c36op{f[0], f[1]})
	}
	return ops
}

// c36handle is a connection the controller handed to a caller: it is an
// established connection from the moment AcceptConnect/Connect returned it
// until the caller starts closing it (closing is set just before Close).
type c36handle struct {
	inbound bool
	addr    string
	ip      string
	conn    net.Conn
	closing bool
}

func c36handleOf(inbound bool, addr string, c net.Conn) *c36handle {
	ip, _ := common.ParseIPAddr(addr)
	return &c36handle{inbound: inbound, addr: addr, ip: ip, conn: c}
}

type c36inst struct {
	ctl *ConnectController
	sc  c36scenario
	ops [][]c36op
	res [][]byte       // per thread, per operation: '1' done/established, '0' refused, '-' skipped
	pre []*c36handle   // connections established before the threads start (and, in the sequential part, all connections)
	th  [][]*c36handle // connections established by each thread (only thread i appends to th[i])
}

var c36key *common.PeerKeyId

func c36build(sc c36scenario) *c36inst {
	if c36key == nil {
		common.Difficulty = 1 // peer-id proof of work, irrelevant to the limits
		c36key = common.RandPeerKeyId()
	}
	key := c36key
	info := &peer.PeerInfo{Id: key.Id, Port: 20338, SoftVersion: common.MIN_VERSION_FOR_DHT}
	opt := NewConnCtrlOption().MaxInBound(sc.maxIn).MaxInBoundPerIp(sc.perIP).MaxOutBound(sc.out).WithDialer(c36dialer{})
	in := &c36inst{ctl: NewConnectController(info, key, opt, c36log{}), sc: sc}
	for _, th := range sc.threads {
		ops := c36parse(th)
		in.ops = append(in.ops, ops)
		in.res = append(in.res, []byte(strings.Repeat("0", len(ops))))
		in.th = append(in.th, nil)
	}
	for _, a := range sc.pre {
		// no scheduler active yet: these run straight through
		f := strings.Fields(a)
		inbound, addr := true, f[len(f)-1]
		if len(f) == 2 && f[0] == "out" {
			inbound = false
		}
		var c net.Conn
		var err error
		if inbound {
			_, c, err = in.ctl.AcceptConnect(c36new(addr))
		} else {
			_, c, err = in.ctl.Connect(addr)
		}
		if err != nil {
			panic("pre-connection refused: " + err.Error())
		}
		in.pre = append(in.pre, c36handleOf(inbound, addr, c))
	}
	return in
}

// accept / dial / closeHandle drive the real controller and keep the ledger
// of handed-out connections.
func (in *c36inst) accept(addr string) *c36handle {
	_, c, err := in.ctl.AcceptConnect(c36new(addr))
	if err != nil || c == nil {
		return nil
	}
	return c36handleOf(true, addr, c)
}

func (in *c36inst) dial(addr string) *c36handle {
	_, c, err := in.ctl.Connect(addr)
	if err != nil || c == nil {
		return nil
	}
	return c36handleOf(false, addr, c)
}

func (in *c36inst) closeHandle(h *c36handle) {
	h.closing = true
	h.conn.Close()
}

func (in *c36inst) bodies() []func() {
	var bs []func()
	for i := range in.ops {
		i := i
		bs = append(bs, func() {
			var own *c36handle
			for k, op := range in.ops[i] {
				switch op.kind {
				case "accept", "dial":
					var h *c36handle
					if op.kind == "accept" {
						h = in.accept(op.arg)
					} else {
						h = in.dial(op.arg)
					}
					own = h
					if h != nil {
						in.th[i] = append(in.th[i], h)
						in.res[i][k] = '1'
					}
				case "close":
					var h *c36handle
					if op.arg == "own" {
						h, own = own, nil
					} else {
						var j int
						fmt.Sscan(op.arg, &j)
						h = in.pre[j]
					}
					if h == nil {
						in.res[i][k] = '-'
						continue
					}
					in.closeHandle(h)
					in.res[i][k] = '1'
				}
			}
		})
	}
	return bs
}

// established counts the connections handed to callers and not (being) closed.
func (in *c36inst) established() (nin, nout uint, perip map[string]uint) {
	perip = map[string]uint{}
	count := func(h *c36handle) {
		if h.closing {
			return
		}
		if h.inbound {
			nin++
			perip[h.ip]++
		} else {
			nout++
		}
	}
	for _, h := range in.pre {
		count(h)
	}
	for _, hs := range in.th {
		for _, h := range hs {
			count(h)
		}
	}
	return
}

func c36maxIP(perip map[string]uint) (string, uint) {
	bip, bn := "", uint(0)
	for ip, n := range perip {
		if n > bn || (n == bn && ip < bip) {
			bip, bn = ip, n
		}
	}
	return bip, bn
}

// check evaluates the limits (a) on the controller's records and (b) on the
// connections actually handed to callers and not closed, whatever the records
// say.  No thread is running while the scheduler calls it, so unlocked reads
// are safe.  On a correct controller (b) is implied by (a): a handed-out
// connection is recorded before it is returned and the record is removed only
// by its Close.
func (in *c36inst) check(final bool) string {
	c := in.ctl
	nin := uint(c.inoutbounds[INBOUND_INDEX].Size())
	nout := uint(c.inoutbounds[OUTBOUND_INDEX].Size())
	if nin > in.sc.maxIn {
		return fmt.Sprintf("inbound-limit: %d established inbound connections, limit %d", nin, in.sc.maxIn)
	}
	if nout > in.sc.out {
		return fmt.Sprintf("outbound-limit: %d established outbound connections, limit %d", nout, in.sc.out)
	}
	perip := map[string]uint{}
	c.inoutbounds[INBOUND_INDEX].Each(func(a string) bool {
		ip, _ := common.ParseIPAddr(a)
		perip[ip]++
		return true
	})
	if ip, n := c36maxIP(perip); n > in.sc.perIP {
		return fmt.Sprintf("per-ip-limit: %d inbound connections from %s, limit %d", n, ip, in.sc.perIP)
	}
	estIn, estOut, estIP := in.established()
	if estIn > in.sc.maxIn {
		return fmt.Sprintf("inbound-limit: %d inbound connections were handed to callers and are open, limit %d (records show %d)", estIn, in.sc.maxIn, nin)
	}
	if estOut > in.sc.out {
		return fmt.Sprintf("outbound-limit: %d outbound connections were handed to callers and are open, limit %d (records show %d)", estOut, in.sc.out, nout)
	}
	if ip, n := c36maxIP(estIP); n > in.sc.perIP {
		return fmt.Sprintf("per-ip-limit: %d inbound connections from %s were handed to callers and are open, limit %d (records show %d)", n, ip, in.sc.perIP, perip[ip])
	}
	return ""
}

func (in *c36inst) outcome() string {
	multi := false
	for _, r := range in.res {
		if len(r) > 1 {
			multi = true
		}
	}
	sep := ""
	if multi {
		sep = "|"
	}
	parts := make([]string, len(in.res))
	for i, r := range in.res {
		parts[i] = string(r)
	}
	return fmt.Sprintf("ok=%s in=%d out=%d", strings.Join(parts, sep), in.ctl.inoutbounds[INBOUND_INDEX].Size(), in.ctl.inoutbounds[OUTBOUND_INDEX].Size())
}

type c36case struct {
	Scenario string   `json:"scenario"`
	Threads  []string `json:"threads"`
	Bound    int      `json:"preemption_bound"`
	Schedule []int    `json:"schedule"` // scheduler choices (concurrent scenarios) or operation codes (sequential part)
	Steps    []string `json:"steps"`
}

// ---------------------------------------------------------------------------
// Sequential part: the trivial schedules of the property's quantifier (one
// operation completes before the next starts), but over ALL call histories:
// every sequence of at most D operations from
//   accept from X | accept from Y | dial X | dial Y | close the j-th open connection
// is run on a fresh real controller and the same oracle (check) is evaluated
// after every operation.  Operation codes: 0 accept X, 1 accept Y, 2 dial X,
// 3 dial Y, 4+j close the j-th open connection (in order of establishment).
// A new connection uses the lowest port of its ip that no open connection of
// the same direction uses (1001.. for inbound, 30001.. for dialled addresses),
// so addresses are re-used after a close.  Histories are NOT merged on a state
// key: equal records do not imply equal futures if the controller keeps other
// bookkeeping, and finding that out is the point.

type c36seqcfg struct{ maxIn, perIP, out uint }

var c36seqcfgs = []c36seqcfg{{1, 1, 1}, {2, 1, 1}, {2, 2, 1}, {3, 2, 1}, {3, 2, 2}, {3, 1, 2}}

func (c c36seqcfg) name() string {
	return fmt.Sprintf("sequential, limits inbound %d / per-ip %d / outbound %d", c.maxIn, c.perIP, c.out)
}

var c36seqIPs = []string{c36X, c36Y}

type c36seq struct {
	in    *c36inst
	label []string // per operation, e.g. "accept X:ok", "close out X"
	shape []string // per operation without the result, for violation keys
	class string   // outcome class of the last operation
	open  []*c36handle
}

func c36ipName(ip string) string {
	if ip == c36X {
		return "X"
	}
	return "Y"
}

func (q *c36seq) freeAddr(inbound bool, ip string) string {
	base := 30001
	if inbound {
		base = 1001
	}
	for p := base; ; p++ {
		a := ip + ":" + strconv.Itoa(p)
		used := false
		for _, h := range q.open {
			if h.inbound == inbound && h.addr == a {
				used = true
			}
		}
		if !used {
			return a
		}
	}
}

// apply runs one operation; it reports false if the code is not enabled.
func (q *c36seq) apply(code int) bool {
	in := q.in
	if code >= 4 {
		j := code - 4
		if j >= len(q.open) {
			return false
		}
		h := q.open[j]
		q.open = append(append([]*c36handle{}, q.open[:j]...), q.open[j+1:]...)
		in.closeHandle(h)
		dir := "out"
		if h.inbound {
			dir = "in"
		}
		q.shape = append(q.shape, "close-"+dir+"-"+c36ipName(h.ip))
		q.label = append(q.label, "close "+dir+" "+h.addr)
		q.class = "seq:close:" + dir
		return true
	}
	ip := c36seqIPs[code%2]
	inbound := code < 2
	estIn, estOut, estIP := in.established()
	// did an earlier operation close a connection of the OTHER direction (to the same ip for the per-ip limit)?
	otherClosed, otherClosedIP := false, false
	for _, h := range in.pre {
		if h.closing && h.inbound != inbound {
			otherClosed = true
			if h.ip == ip {
				otherClosedIP = true
			}
		}
	}
	addr := q.freeAddr(inbound, ip)
	var h *c36handle
	kind := "dial"
	if inbound {
		kind = "accept"
		h = in.accept(addr)
	} else {
		h = in.dial(addr)
	}
	q.shape = append(q.shape, kind+"-"+c36ipName(ip))
	if h != nil {
		in.pre = append(in.pre, h)
		q.open = append(q.open, h)
		q.label = append(q.label, kind+" "+addr+": established")
		q.class = "seq:" + kind + ":established"
		return true
	}
	q.label = append(q.label, kind+" "+addr+": refused")
	switch {
	case inbound && estIn >= in.sc.maxIn:
		q.class = "seq:accept:refused(inbound limit reached)"
		if otherClosed {
			q.class += ", an outbound connection was closed before"
		}
	case inbound && estIP[ip] >= in.sc.perIP:
		q.class = "seq:accept:refused(per-ip limit reached)"
		if otherClosedIP {
			q.class += ", an outbound connection to that ip was closed before"
		}
	case !inbound && estOut >= in.sc.out:
		q.class = "seq:dial:refused(outbound limit reached)"
		if otherClosed {
			q.class += ", an inbound connection was closed before"
		}
	default:
		q.class = "seq:" + kind + ":refused below the limits"
	}
	return true
}

// c36seqExec runs an operation sequence on a fresh controller.  The oracle is
// evaluated after every operation; the first violation is returned together
// with the number of operations executed up to it.
func c36seqExec(cfg c36seqcfg, codes []int) (q *c36seq, enabled bool, viol string, at int) {
	sc := c36scenario{name: cfg.name(), maxIn: cfg.maxIn, perIP: cfg.perIP, out: cfg.out}
	q = &c36seq{in: c36build(sc)}
	for i, c := range codes {
		if !q.apply(c) {
			return q, false, "", i
		}
		if v := q.in.check(false); v != "" {
			return q, true, v, i + 1
		}
	}
	return q, true, "", len(codes)
}

// c36seqKey: violated limit + the shape of the history (operation kinds and
// ips, immediate repetitions collapsed).
func c36seqKey(viol string, shape []string) string {
	var sh []string
	for _, s := range shape {
		if len(sh) == 0 || sh[len(sh)-1] != s {
			sh = append(sh, s)
		}
	}
	return "seq:" + strings.SplitN(viol, ":", 2)[0] + "@" + strings.Join(sh, ",")
}

func c36seqReport(r *vh.Run, cfg c36seqcfg, codes []int, q *c36seq, viol string, at int) {
	cs := c36case{Scenario: cfg.name(), Schedule: append([]int{}, codes[:at]...), Steps: q.label}
	r.Violation(c36seqKey(viol, q.shape), fmt.Sprintf("%s, operations %v: %s", cfg.name(), q.label, viol), cs)
}

// c36seqRun enumerates the histories of one configuration by increasing
// length (so the first violation is a shortest one, and the same one on every
// tier) and stops that configuration at its first violation.
func c36seqRun(r *vh.Run, cfg c36seqcfg, depth int) {
	var nseq, nops int64
	classes := map[string]int64{}
	states := map[string]bool{}
	capped, found := false, false
	for L := 1; L <= depth && !capped && !found; L++ {
		var rec func(prefix []int)
		rec = func(prefix []int) {
			if capped || found {
				return
			}
			if nseq&1023 == 0 && r.Expired() {
				capped = true
				return
			}
			q, _, viol, at := c36seqExec(cfg, prefix)
			nops += int64(len(prefix))
			if len(prefix) == L {
				nseq++
				classes[q.class]++
				ein, eout, eip := q.in.established()
				states[fmt.Sprintf("%d/%d/%d/%d", ein, eout, eip[c36X], eip[c36Y])] = true
				if viol != "" {
					found = true
					c36seqReport(r, cfg, prefix, q, viol, at)
				}
				return
			}
			for c := 0; c < 4+len(q.open); c++ {
				rec(append(append(make([]int, 0, len(prefix)+1), prefix...), c))
			}
		}
		rec(nil)
	}
	r.Eval(nseq)
	r.Trace(nseq)
	r.State(nseq)
	r.Trans(nops)
	for c, n := range classes {
		r.ClassN(c, n)
	}
	r.Add("seq_histories", nseq)
	r.Set("seq_distinct_established_counts/"+cfg.name(), len(states))
	if capped {
		r.Capped(cfg.name() + ": deadline")
	}
}

func TestVerif_C36(t *testing.T) {
	r := vh.Start(t, "C36", "limits")
	defer r.Finish()
	maxBound := r.Pick(2, 4)
	seqDepth := r.Pick(6, 7)
	r.Rule("(1) scenarios of 1–3 real goroutines, each a short list of AcceptConnect / Connect / Conn.Close calls on one real ConnectController (limits 1–2, optionally with pre-established inbound and outbound connections, both directions on one remote ip included); every schedule with at most B preemptions, B iterated 0..max, scheduling points before every mutex/atomic operation and at the handshake/dial (network I/O); (2) sequential histories: every sequence of at most D operations from {accept from ip X|Y, dial ip X|Y, close the j-th open connection} on a fresh controller, for 6 limit configurations, no state merging; in both parts the inbound, per-ip and outbound limits are evaluated on the connection records and on the connections handed to callers and not closed, at every scheduling point / after every operation; states = scheduling points resp. histories visited, transitions = scheduling decisions resp. operations executed, traces = complete executions of the real code")
	r.Assume("sequentially consistent memory; the real handshake is modelled as one scheduling point (it shares no state between connections)")
	var rc c36case
	replay := r.ReplayCase(&rc) && rc.Scenario != ""
	totalExec := int64(0)
	for ci, cfg := range c36seqcfgs {
		if replay {
			if rc.Scenario != cfg.name() {
				continue
			}
			q, enabled, viol, at := c36seqExec(cfg, rc.Schedule)
			if !enabled {
				t.Fatalf("VERIF-INFRA replay: operation %d of %v is not enabled", at, rc.Schedule)
			}
			if viol != "" {
				c36seqReport(r, cfg, rc.Schedule, q, viol, at)
			}
			continue
		}
		if !r.Mine(len(c36scenarios) + ci) {
			continue
		}
		c36seqRun(r, cfg, seqDepth)
	}
	for si, sc := range c36scenarios {
		if !r.Mine(si) || (replay && rc.Scenario != sc.name) {
			continue
		}
		completed := -1
		for bound := 0; bound <= maxBound; bound++ {
			if r.Expired() {
				break
			}
			var last *c36inst
			e := &vsync.Explorer{
				Scenario: func() ([]func(), func(bool) string) {
					last = c36build(sc)
					return last.bodies(), last.check
				},
				Bound: bound, Horizon: 2000, Stop: r.Expired,
				Outcome: func() string { return last.outcome() },
			}
			if replay {
				v, same := e.Replay(rc.Schedule)
				if !same {
					t.Fatalf("VERIF-INFRA replay not deterministic")
				}
				if v != "" {
					r.Violation(strings.SplitN(v, ":", 2)[0]+"@"+sc.name, v, rc)
				}
				break
			}
			e.Run()
			totalExec += e.Executions
			r.Trace(e.Executions)
			r.Trans(e.Points)
			r.State(e.Points)
			r.Eval(e.Executions)
			for o, n := range e.Outcomes {
				r.ClassN(o, n)
			}
			if e.Violation != "" {
				v, same := e.Replay(e.Schedule)
				if !same || v != e.Violation {
					t.Fatalf("VERIF-INFRA schedule does not replay deterministically: %q vs %q", v, e.Violation)
				}
				var steps []string
				for _, d := range e.VTrace {
					steps = append(steps, d.Label)
				}
				cs := c36case{sc.name, sc.threads, bound, e.Schedule, steps}
				r.Violation(strings.SplitN(e.Violation, ":", 2)[0]+"@"+sc.name, fmt.Sprintf("scenario %q, %d preemption(s), schedule %v: %s", sc.name, bound, steps, e.Violation), cs)
				break
			}
			if e.Capped {
				r.Capped(fmt.Sprintf("scenario %q capped at preemption bound %d", sc.name, bound))
				break
			}
			completed = bound
		}
		r.Set("bound_completed/"+sc.name, completed)
		if si == 0 {
			r.Sample(map[string]interface{}{"scenario": sc.name, "threads": sc.threads})
		}
	}
	r.Bound(fmt.Sprintf("preemption bound 0..%d per scenario, %d scenarios of at most 3 threads; sequential histories of length <= %d over 4 connect operations + close of any open connection, %d limit configurations", maxBound, len(c36scenarios), seqDepth, len(c36seqcfgs)))
}

// TestVerif_C36_race: the same scenario bodies free-running (no scheduler: the
// vsync types fall back to the real sync primitives) under the Go race
// detector.  The cooperative scheduler's hand-offs are happens-before edges
// that would blind the detector, so unsynchronised accesses are looked for in
// this separate pass.  A reported race makes the test binary exit non-zero
// ("WARNING: DATA RACE"), which the harness turns into a violation.
func TestVerif_C36_race(t *testing.T) {
	r := vh.Start(t, "C36", "race")
	defer r.Finish()
	r.Rule("free-running repetitions of the C36 scenario bodies under -race; supplementary to the exhaustive schedule exploration (it samples schedules; it only looks for unsynchronised accesses the scheduling points would not cover)")
	reps := r.Pick(200, 2000)
	for _, sc := range c36scenarios {
		for i := 0; i < reps; i++ {
			in := c36build(sc)
			done := make(chan struct{}, 8)
			bs := in.bodies()
			for _, b := range bs {
				b := b
				go func() { b(); done <- struct{}{} }()
			}
			for range bs {
				<-done
			}
			r.Eval(1)
			if v := in.check(true); v != "" {
				r.Violation("free-running:"+strings.SplitN(v, ":", 2)[0]+"@"+sc.name, v, nil)
			}
		}
		r.Class("scenario:" + sc.name)
	}
}

package types

// C24 — P2P message decoding never panics, never over-allocates, rejects bad
// headers and round-trips every accepted message.
//
// Seam: ReadMessage / WriteMessage (what link.Rx / link.Send call).
//
// The parent test (TestVerif_C24) hand-builds one or more non-trivial values
// per message type registered in makeEmptyMessage (the factory is read from
// the source at run time so that a newly registered type without a fixture is
// an infrastructure failure, not a silent gap), frames them with
// WriteMessage, and hands the frames to a worker subprocess
// (TestVerif_C24_Worker, the same test binary re-executed under
// RLIMIT_AS).  The worker enumerates, for every fixture, the full mutation
// space described in c24gen and evaluates every case with c24eval.  A worker
// death (out of memory, stack overflow, any fatal error) is attributed to the
// case in progress; the enumeration then resumes after it.

import (
	"bytes"
	"crypto/sha256"
	"encoding/binary"
	"encoding/hex"
	"encoding/json"
	"fmt"
	"go/ast"
	"go/parser"
	"go/token"
	"math/big"
	"os"
	"os/exec"
	"path/filepath"
	"regexp"
	"runtime"
	"runtime/metrics"
	"sort"
	"strconv"
	"strings"
	"syscall"
	"testing"
	"time"

	ethcomm "github.com/ethereum/go-ethereum/common"
	ethtypes "github.com/ethereum/go-ethereum/core/types"
	"github.com/ontio/ontology-crypto/ec"
	"github.com/ontio/ontology-crypto/keypair"
	sigscheme "github.com/ontio/ontology-crypto/signature"
	"github.com/ontio/ontology/account"
	ocomm "github.com/ontio/ontology/common"
	"github.com/ontio/ontology/common/config"
	vconfig "github.com/ontio/ontology/consensus/vbft/config"
	"github.com/ontio/ontology/core/payload"
	"github.com/ontio/ontology/core/signature"
	ct "github.com/ontio/ontology/core/types"
	p2pc "github.com/ontio/ontology/p2pserver/common"
	"github.com/ontio/ontology/verifshim/vh"
	"github.com/ontio/ontology/verifshim/vkeys"
)

const (
	c24Max        = p2pc.MAX_PAYLOAD_LEN
	c24AllocSlack = 1 << 20 // the "constant" of the allocation bound
	c24PowScalar  = 885476  // d such that d*G (P-256) passes p2pserver/common.validatePublicKey at Difficulty 18
)

// ---------------------------------------------------------------- reference header model

func c24sum(b []byte) [4]byte {
	t := sha256.Sum256(b)
	u := sha256.Sum256(t[:])
	var c [4]byte
	copy(c[:], u[:4])
	return c
}

// c24frame is the boring reference encoder of a frame: magic, 12-byte
// NUL-padded command, little-endian length, first four bytes of sha256d.
func c24frame(cmd string, pl []byte) []byte {
	out := make([]byte, 24+len(pl))
	binary.LittleEndian.PutUint32(out[0:], config.DefConfig.P2PNode.NetworkMagic)
	copy(out[4:16], cmd)
	binary.LittleEndian.PutUint32(out[16:], uint32(len(pl)))
	c := c24sum(pl)
	copy(out[20:24], c[:])
	copy(out[24:], pl)
	return out
}

// ---------------------------------------------------------------- fixtures and cases

type c24part struct {
	Name string `json:"n"`
	Len  int    `json:"l"`
}

type c24fix struct {
	Name  string    `json:"name"` // e.g. "block/2tx+ccmsg"
	Cmd   string    `json:"cmd"`
	Mode  string    `json:"mode"`  // full | lite | header | replay
	Kind0 string    `json:"kind0"` // kind of the base case: roundtrip (a value through WriteMessage) | altenc (hand-encoded)
	Frame string    `json:"frame"` // hex
	Parts []c24part `json:"parts"`
	// replay only
	Replay *c24case `json:"replay,omitempty"`

	frame []byte
}

type c24case struct {
	Fix    string    `json:"fix"`
	Cmd    string    `json:"cmd"`
	Kind   string    `json:"kind"`
	Desc   string    `json:"desc"`
	Off    int       `json:"off"`   // payload offset the mutation was applied at (-1: none)
	Shift  int       `json:"shift"` // bytes inserted at Off by a splice (for mapping offsets back to the fixture layout)
	Stream string    `json:"stream,omitempty"`
	Gen    string    `json:"gen,omitempty"` // "fill:<n>": unknown-type message with an n-byte pattern payload
	Parts  []c24part `json:"parts,omitempty"`
}

func (f *c24fix) bytes() []byte {
	if f.frame == nil {
		f.frame, _ = hex.DecodeString(f.Frame)
	}
	return f.frame
}

func c24partAt(parts []c24part, off int) string {
	if len(parts) == 0 {
		return "payload"
	}
	if off < 0 {
		return "none"
	}
	p := 0
	for _, x := range parts {
		if off < p+x.Len {
			return x.Name
		}
		p += x.Len
	}
	return "end"
}

func c24fill(n int) []byte {
	b := make([]byte, n)
	for i := 0; i < n && i < 65536; i++ {
		b[i] = byte(i*131 + i>>8 + 7)
	}
	for k := 65536; k < n; k *= 2 {
		copy(b[k:], b[:k])
	}
	return b
}

func c24stream(c *c24case) []byte {
	if strings.HasPrefix(c.Gen, "fill:") {
		n, _ := strconv.Atoi(c.Gen[5:])
		return c24frame("verifbig", c24fill(n))
	}
	if strings.HasPrefix(c.Gen, "lenb:") {
		return c24lenbStream(c.Gen) // C24_lenboundary_test.go
	}
	b, _ := hex.DecodeString(c.Stream)
	return b
}

// ---------------------------------------------------------------- case generator

type c24emit func(kind, desc string, off, shift int, gen string, build func() []byte) bool

func c24le(v uint64, w int) []byte {
	var b [8]byte
	binary.LittleEndian.PutUint64(b[:], v)
	return append([]byte{}, b[:w]...)
}

func c24cat(parts ...[]byte) []byte {
	var out []byte
	for _, p := range parts {
		out = append(out, p...)
	}
	return out
}

// c24gen enumerates the cases of one fixture in a fixed order.
func c24gen(f *c24fix, thorough bool, emit c24emit) {
	if f.Mode == "replay" {
		c := f.Replay
		emit(c.Kind, c.Desc, c.Off, c.Shift, c.Gen, func() []byte { return c24stream(c) })
		return
	}
	if f.Mode == "lenb" {
		c24genLenb(f, thorough, emit) // C24_lenboundary_test.go
		return
	}
	base := f.bytes()
	P := base[24:]
	cmd := f.Cmd
	fr := func(pl []byte) func() []byte { return func() []byte { return c24frame(cmd, pl) } }
	raw := func(b []byte) func() []byte { return func() []byte { return b } }

	if !emit(f.Kind0, "as written", -1, 0, "", raw(base)) {
		return
	}
	if f.Mode == "header" {
		c24genHeader(f, thorough, emit)
		return
	}
	if f.Mode == "tiny" {
		c24genTiny(f, thorough, emit)
		return
	}
	// the stream cut at every length: the header promises more than arrives
	if f.Mode == "full" {
		for L := 0; L < len(base); L++ {
			if !emit("trunc-stream", fmt.Sprintf("stream[:%d] of %d", L, len(base)), -1, 0, "", raw(base[:L])) {
				return
			}
		}
	}
	// trailing bytes inside a correctly framed payload
	trails := [][]byte{{0}, {1}, {0xff}, {0, 0}, make([]byte, 40)}
	if f.Mode == "lite" {
		trails = trails[:1]
	}
	for _, tr := range trails {
		pl := c24cat(P, tr)
		if !emit("trail", fmt.Sprintf("payload+%x", tr), len(P), 0, "", fr(pl)) {
			return
		}
	}
	if f.Mode != "full" {
		return
	}
	// the payload cut at every length, correctly framed
	for L := 0; L < len(P); L++ {
		if !emit("trunc-payload", fmt.Sprintf("payload[:%d] of %d", L, len(P)), L, 0, "", fr(P[:L])) {
			return
		}
	}
	// every single-byte mutation, checksum recomputed
	for o := 0; o < len(P); o++ {
		b := P[o]
		var vals []byte
		if thorough {
			for v := 0; v < 256; v++ {
				if byte(v) != b {
					vals = append(vals, byte(v))
				}
			}
		} else {
			seen := map[byte]bool{b: true}
			for _, v := range []byte{b ^ 1, b ^ 0x80, b + 1, b - 1, 0x00, 0x01, 0xfc, 0xfd, 0xfe, 0xff} {
				if !seen[v] {
					seen[v] = true
					vals = append(vals, v)
				}
			}
		}
		for _, v := range vals {
			o, v := o, v
			if !emit("bytemut", fmt.Sprintf("payload[%d] %02x->%02x", o, b, v), o, 0, "", func() []byte {
				pl := append([]byte{}, P...)
				pl[o] = v
				return c24frame(cmd, pl)
			}) {
				return
			}
		}
	}
	// every offset as a count/length field of every width and encoding,
	// followed by the rest of the body ("keep") or by nothing ("cut")
	type enc struct {
		kind string
		w    int // bytes of the original replaced
		b    []byte
		txt  string
	}
	var encs []enc
	for _, v := range []uint64{0, 1, c24Max, 1<<32 - 1} {
		encs = append(encs, enc{"count-u32", 4, c24le(v, 4), fmt.Sprintf("u32=%d", v)})
	}
	for _, v := range []uint64{0, 1, c24Max, 1<<32 - 1, 1 << 63, 1<<64 - 1} {
		encs = append(encs, enc{"count-u64", 8, c24le(v, 8), fmt.Sprintf("u64=%d", v)})
	}
	encs = append(encs,
		enc{"count-var", 1, c24cat([]byte{0xfd}, c24le(0xffff, 2)), "varuint=65535"},
		enc{"count-var", 1, c24cat([]byte{0xfe}, c24le(c24Max, 4)), fmt.Sprintf("varuint=%d", c24Max)},
		enc{"count-var", 1, c24cat([]byte{0xfe}, c24le(1<<32-1, 4)), "varuint=2^32-1"},
		enc{"count-var", 1, c24cat([]byte{0xff}, c24le(1<<32, 8)), "varuint=2^32"},
		enc{"count-var", 1, c24cat([]byte{0xff}, c24le(1<<63, 8)), "varuint=2^63"},
		enc{"count-var", 1, c24cat([]byte{0xff}, c24le(1<<64-1, 8)), "varuint=2^64-1"},
	)
	if thorough {
		for _, v := range []uint64{0, 1, 0xffff} {
			encs = append(encs, enc{"count-u16", 2, c24le(v, 2), fmt.Sprintf("u16=%d", v)})
		}
	}
	// the same small value in its three non-minimal var-uint encodings: a decoder
	// that ignores the "irregular" flag accepts it and re-encodes it minimally
	for o := 0; o < len(P); o++ {
		if P[o] >= 0xfd {
			continue
		}
		for _, w := range []int{2, 4, 8} {
			o, w := o, w
			e := c24cat([]byte{map[int]byte{2: 0xfd, 4: 0xfe, 8: 0xff}[w]}, c24le(uint64(P[o]), w))
			if !emit("varuint-nonminimal", fmt.Sprintf("payload[%d] %02x re-encoded as %x", o, P[o], e), o, w, "", func() []byte {
				return c24frame(cmd, c24cat(P[:o], e, P[o+1:]))
			}) {
				return
			}
		}
	}
	for o := 0; o < len(P); o++ {
		for _, e := range encs {
			if o+e.w > len(P) {
				continue
			}
			o, e := o, e
			same := bytes.Equal(P[o:o+e.w], e.b)
			if !same {
				if !emit(e.kind, fmt.Sprintf("payload[%d:%d]<-%s rest kept", o, o+e.w, e.txt), o, len(e.b)-e.w, "", func() []byte {
					return c24frame(cmd, c24cat(P[:o], e.b, P[o+e.w:]))
				}) {
					return
				}
			}
			if o+e.w < len(P) || (same && false) {
				if !emit(e.kind+"-cut", fmt.Sprintf("payload[:%d]+%s, nothing after", o, e.txt), o, len(e.b)-e.w, "", func() []byte {
					return c24frame(cmd, c24cat(P[:o], e.b))
				}) {
					return
				}
			}
		}
	}
}

// c24genTiny: every short payload for one command ("all byte streams" in the
// small): all payloads of <=1 byte (quick) / <=2 bytes (thorough) over all 256
// values, and all payloads up to 3 (quick) / 4 (thorough) bytes over a
// boundary alphabet.  The base case of a tiny fixture is the empty payload.
func c24genTiny(f *c24fix, thorough bool, emit c24emit) {
	cmd := f.Cmd
	one := func(pl []byte) bool {
		pl = append([]byte{}, pl...)
		return emit("tiny", fmt.Sprintf("payload=%x", pl), 0, 0, "", func() []byte { return c24frame(cmd, pl) })
	}
	full := 1
	sharpMax := 3
	if thorough {
		full, sharpMax = 2, 4
	}
	for a := 0; a < 256; a++ {
		if !one([]byte{byte(a)}) {
			return
		}
		if full >= 2 {
			for b := 0; b < 256; b++ {
				if !one([]byte{byte(a), byte(b)}) {
					return
				}
			}
		}
	}
	sharp := []byte{0, 1, 2, 0x7f, 0x80, 0xfc, 0xfd, 0xfe, 0xff}
	for n := full + 1; n <= sharpMax; n++ {
		radix := make([]int, n)
		for i := range radix {
			radix[i] = len(sharp)
		}
		ok := true
		pl := make([]byte, n)
		vh.Odometer(radix, func(d []int) bool {
			for i, x := range d {
				pl[i] = sharp[x]
			}
			ok = one(pl)
			return ok
		})
		if !ok {
			return
		}
	}
}

// c24genHeader: mutations of the 24-byte header of a valid frame.
func c24genHeader(f *c24fix, thorough bool, emit c24emit) {
	base := f.bytes()
	P := base[24:]
	L := uint32(len(P))
	magic := binary.LittleEndian.Uint32(base[0:4])
	mut := func(fn func(b []byte)) func() []byte {
		return func() []byte {
			b := append([]byte{}, base...)
			fn(b)
			return b
		}
	}
	// magic
	var magics []uint32
	for bit := uint(0); bit < 32; bit++ {
		magics = append(magics, magic^(1<<bit))
	}
	magics = append(magics, 0, ^magic, magic+1, magic-1, magic<<8|magic>>24, magic>>8|magic<<24,
		config.GetNetworkMagic(config.NETWORK_ID_MAIN_NET), config.GetNetworkMagic(config.NETWORK_ID_POLARIS_NET), config.GetNetworkMagic(config.NETWORK_ID_SOLO_NET), 12345)
	for _, m := range magics {
		if m == magic {
			continue
		}
		m := m
		if !emit("hdr-magic", fmt.Sprintf("magic %#x->%#x", magic, m), -1, 0, "", mut(func(b []byte) { binary.LittleEndian.PutUint32(b[0:], m) })) {
			return
		}
	}
	// command bytes
	for i := 0; i < 12; i++ {
		for _, v := range []byte{0, 'x', 0xff, ' '} {
			if base[4+i] == v {
				continue
			}
			i, v := i, v
			if !emit("hdr-cmd", fmt.Sprintf("cmd[%d]<-%02x", i, v), -1, 0, "", mut(func(b []byte) { b[4+i] = v })) {
				return
			}
		}
	}
	for _, c := range []string{"", "zzzzzzzzzzzz", "\x00ping", f.Cmd + "\x00x", strings.ToUpper(f.Cmd)} {
		c := c
		if !emit("hdr-cmd", fmt.Sprintf("cmd<-%q", c), -1, 0, "", mut(func(b []byte) {
			for i := 4; i < 16; i++ {
				b[i] = 0
			}
			copy(b[4:16], c)
		})) {
			return
		}
	}
	// length
	lens := []uint32{L - 1, L + 1, 0, 1, L + 256, L | 0x80000000, c24Max - 1, c24Max, c24Max + 1, c24Max + 2, 1<<31 - 1, 1 << 31, 1<<32 - 2, 1<<32 - 1}
	for _, n := range lens {
		if n == L {
			continue
		}
		n := n
		if !emit("hdr-length", fmt.Sprintf("length %d->%d checksum untouched", L, n), -1, 0, "", mut(func(b []byte) { binary.LittleEndian.PutUint32(b[16:], n) })) {
			return
		}
		if !emit("hdr-length", fmt.Sprintf("length %d->%d checksum of the bytes present", L, n), -1, 0, "", mut(func(b []byte) {
			binary.LittleEndian.PutUint32(b[16:], n)
			k := uint64(n)
			if k > uint64(len(P)) {
				k = uint64(len(P))
			}
			c := c24sum(P[:k])
			copy(b[20:24], c[:])
		})) {
			return
		}
	}
	if !emit("hdr-length", "length+1 with one more byte on the wire, checksum untouched", -1, 0, "", func() []byte {
		b := append(append([]byte{}, base...), 0)
		binary.LittleEndian.PutUint32(b[16:], L+1)
		return b
	}) {
		return
	}
	// checksum
	for bit := uint(0); bit < 32; bit++ {
		bit := bit
		if !emit("hdr-checksum", fmt.Sprintf("checksum bit %d flipped", bit), -1, 0, "", mut(func(b []byte) { b[20+bit/8] ^= 1 << (bit % 8) })) {
			return
		}
	}
	if !emit("hdr-checksum", "checksum zero", -1, 0, "", mut(func(b []byte) { copy(b[20:24], []byte{0, 0, 0, 0}) })) {
		return
	}
	if !emit("hdr-checksum", "single sha256 instead of double", -1, 0, "", mut(func(b []byte) { h := sha256.Sum256(P); copy(b[20:24], h[:4]) })) {
		return
	}
	if !emit("hdr-checksum", "checksum of header+payload", -1, 0, "", mut(func(b []byte) { c := c24sum(base); copy(b[20:24], c[:]) })) {
		return
	}
	// the length cap exactly: a full-size body must be readable, one more byte must not
	if f.Name == "header/ping" {
		for _, n := range []int{c24Max, c24Max + 1} {
			n := n
			if !emit("hdr-bigfill", fmt.Sprintf("unknown-type message with a %d-byte body (MAX_PAYLOAD_LEN=%d)", n, c24Max), -1, 0, fmt.Sprintf("fill:%d", n), func() []byte {
				return c24frame("verifbig", c24fill(n))
			}) {
				return
			}
		}
	}
}

// ---------------------------------------------------------------- evaluation of one case

var c24ms runtime.MemStats

// c24alloc: exact cumulative allocation (stops the world; slow).
func c24alloc() uint64 {
	runtime.ReadMemStats(&c24ms)
	return c24ms.TotalAlloc
}

var c24sample = []metrics.Sample{{Name: "/gc/heap/allocs:bytes"}}

// c24allocFast: the same counter through runtime/metrics (no stop-the-world).
// Small-object allocation is credited per span, so it may lag by a few
// hundred KiB; it is used only to decide whether the exact measurement is
// needed at all (see c24eval).
func c24allocFast() uint64 {
	metrics.Read(c24sample)
	if c24sample[0].Value.Kind() != metrics.KindUint64 {
		return c24alloc()
	}
	return c24sample[0].Value.Uint64()
}

var c24reNum = regexp.MustCompile(`0x[0-9a-fA-F]+|[0-9]+`)

func c24norm(p string) string {
	p = c24reNum.ReplaceAllString(p, "N")
	if i := strings.IndexByte(p, '\n'); i >= 0 {
		p = p[:i]
	}
	if len(p) > 90 {
		p = p[:90]
	}
	return p
}

func c24cmdKey(raw []byte) string {
	cmd := string(bytes.TrimRight(raw, "\x00"))
	if _, unk := makeEmptyMessage(cmd).(*UnknownMessage); unk {
		return "unknown"
	}
	return cmd
}

type c24viol struct{ Key, Detail string }

// c24eval runs one byte stream through ReadMessage and applies the oracle of
// the property statement.  It returns the outcome class and the violations.
func c24eval(stream []byte, c *c24case) (outcome string, viols []c24viol, alloc uint64) {
	// reference verdict on the header
	reject := ""
	var length uint32
	var payload []byte
	cmdKey := "none"
	if len(stream) < 24 {
		reject = "short-header"
	} else {
		magic := binary.LittleEndian.Uint32(stream[0:4])
		length = binary.LittleEndian.Uint32(stream[16:20])
		cmdKey = c24cmdKey(stream[4:16])
		switch {
		case magic != config.DefConfig.P2PNode.NetworkMagic:
			reject = "wrong-magic"
		case length > c24Max:
			reject = "oversize-length"
		case uint64(len(stream)-24) < uint64(length):
			reject = "short-body"
		default:
			payload = stream[24 : 24+int(length)]
			var cks [4]byte
			copy(cks[:], stream[20:24])
			if c24sum(payload) != cks {
				reject = "bad-checksum"
			}
		}
	}
	add := func(key, format string, a ...interface{}) {
		viols = append(viols, c24viol{key, fmt.Sprintf(format, a...)})
	}

	var msg Message
	var err error
	a0 := c24allocFast()
	p := vh.Catch(func() { msg, _, err = ReadMessage(bytes.NewReader(stream)) })
	alloc = c24allocFast() - a0
	if alloc > c24Max/4 {
		// anything that is not clearly small is measured again, exactly
		// (ReadMessage is a function of the stream, so the re-run allocates the same)
		e0 := c24alloc()
		vh.Catch(func() { ReadMessage(bytes.NewReader(stream)) })
		alloc = c24alloc() - e0
	}
	if alloc > c24Max+c24AllocSlack {
		add("alloc:"+cmdKey+":"+c24partAt(c.Parts, c.Off), "ReadMessage allocated %d bytes (> MAX_PAYLOAD_LEN %d + %d) on a %d-byte stream", alloc, c24Max, c24AllocSlack, len(stream))
	}
	if p != "" {
		add("panic:"+cmdKey+":"+c24norm(p), "ReadMessage panicked: %s", p)
		return "panic", viols, alloc
	}
	if err != nil {
		if c.Kind == "roundtrip" {
			// the property's title: every message round-trips.  A value the node itself
			// writes with WriteMessage must be readable by ReadMessage.
			add("roundtrip:"+cmdKey+":written-message-rejected", "a hand-built %s value framed by WriteMessage is rejected by ReadMessage: %v", cmdKey, err)
		}
		return "err", viols, alloc
	}
	if reject != "" {
		add("header:"+reject+"-accepted", "ReadMessage returned a message for a stream the header rules reject (%s)", reject)
		return "accepted-bad-header", viols, alloc
	}
	if msg == nil {
		add("nil-message:"+cmdKey, "ReadMessage returned neither message nor error")
		return "nil", viols, alloc
	}
	var R []byte
	p = vh.Catch(func() {
		sink := ocomm.NewZeroCopySink(nil)
		msg.Serialization(sink)
		R = sink.Bytes()
	})
	if p != "" {
		add("reserialize-panic:"+cmdKey+":"+c24norm(p), "Serialization of the returned message panicked: %s", p)
		return "reserialize-panic", viols, alloc
	}
	if bytes.Equal(R, payload) {
		var W []byte
		p = vh.Catch(func() {
			sink := ocomm.NewZeroCopySink(nil)
			WriteMessage(sink, msg)
			W = sink.Bytes()
		})
		if p != "" {
			add("reframe-panic:"+cmdKey+":"+c24norm(p), "WriteMessage of the returned message panicked: %s", p)
		} else if !bytes.Equal(W, stream[:24+len(payload)]) {
			add("reframe:"+cmdKey, "WriteMessage of the returned message differs from the frame read (header %x vs %x)", W[:c24min(24, len(W))], stream[:24])
		}
		return "ok-identical", viols, alloc
	}
	// accepted, but the re-serialization does not reproduce the payload
	d := 0
	for d < len(R) && d < len(payload) && R[d] == payload[d] {
		d++
	}
	class := ""
	switch {
	case d == len(R):
		class = "trailing-bytes"
	case d == len(payload):
		class = "short-input-completed"
	default:
		class = "normalized@" + c24partAt(c24layout(msg), d)
	}
	add("reencode:"+cmdKey+":"+class, "accepted %d-byte payload re-serializes to %d bytes, first difference at offset %d (payload %s / re-serialized %s)",
		len(payload), len(R), d, vh.Hex(payload[d:c24min(len(payload), d+12)]), vh.Hex(R[d:c24min(len(R), d+12)]))
	return "ok-differs:" + strings.SplitN(class, "@", 2)[0], viols, alloc
}

func c24vlen(n int) int { return len(c24varbytes(make([]byte, n))) }

func c24hdrLayout(parts []c24part, prefix string, hd *ct.Header) []c24part {
	total := len(c24ser(hd.Serialization))
	bk := len(c24ser(func(s *ocomm.ZeroCopySink) { s.WriteVarUint(uint64(len(hd.Bookkeepers))) }))
	for _, k := range hd.Bookkeepers {
		bk += c24vlen(len(keypair.SerializePublicKey(k)))
	}
	sg := len(c24ser(func(s *ocomm.ZeroCopySink) { s.WriteVarUint(uint64(len(hd.SigData))) }))
	for _, x := range hd.SigData {
		sg += c24vlen(len(x))
	}
	return append(parts, c24part{prefix + ".unsigned", total - bk - sg}, c24part{prefix + ".bookkeepers", bk}, c24part{prefix + ".sigs", sg})
}

// c24layout names the regions of the re-serialization of a decoded message,
// so that a difference is keyed by the field it falls in (the mechanism) and
// not by where the mutation happened to be applied.
func c24layout(msg Message) (parts []c24part) {
	defer func() {
		if recover() != nil {
			parts = nil
		}
	}()
	switch m := msg.(type) {
	case *Block:
		parts = c24hdrLayout(parts, "header", m.Blk.Header)
		parts = append(parts, c24part{"txcount", 4})
		n := 0
		for _, tx := range m.Blk.Transactions {
			n += len(tx.Raw)
		}
		parts = append(parts, c24part{"txs", n}, c24part{"merkleroot", 32}, c24part{"ccflag", 1}, c24part{"ccmsg", 1 << 30})
	case *BlkHeader:
		parts = append(parts, c24part{"count", 4})
		for _, h := range m.BlkHdr {
			parts = c24hdrLayout(parts, "header", h)
		}
	case *Addr:
		parts = []c24part{{"count", 8}, {"entries", 1 << 30}}
	case *Inv:
		parts = []c24part{{"type", 1}, {"count", 4}, {"hashes", 1 << 30}}
	case *Version:
		parts = []c24part{{"fixed", 76}, {"softversion", 1 << 30}}
	case *Consensus:
		parts = []c24part{{"unsigned", len(c24ser(m.Cons.SerializationUnsigned))}, {"owner", c24vlen(len(keypair.SerializePublicKey(m.Cons.Owner)))}, {"signature", 1 << 30}}
	case *FindNodeResp:
		parts = []c24part{{"target", 20}, {"success", 1}, {"address", c24vlen(len(m.Address))}, {"count", 4}, {"peers", 1 << 30}}
	case *SubnetMembersRequest:
		parts = []c24part{{"from", 20}, {"to", 20}, {"timestamp", 4}}
		if m.Timestamp != 0 {
			parts = append(parts, c24part{"pubkey", c24vlen(len(keypair.SerializePublicKey(m.PubKey)))}, c24part{"sig", 1 << 30})
		}
	case *SubnetMembers:
		parts = []c24part{{"count", 4}, {"members", 1 << 30}}
	case *UpdatePeerKeyId:
		parts = []c24part{{"key", 1 << 30}}
	}
	return parts
}

func c24min(a, b int) int {
	if a < b {
		return a
	}
	return b
}

// ---------------------------------------------------------------- worker

type c24spec struct {
	Fixtures     string           `json:"fixtures"`
	Thorough     bool             `json:"thorough"`
	Shard        int              `json:"shard"`
	NShards      int              `json:"nshards"`
	Start        int              `json:"start"`     // first fixture
	StartIdx     int              `json:"start_idx"` // first generator index within it
	Skip         map[string][]int `json:"skip"`
	Cur          string           `json:"cur"`
	Results      string           `json:"results"`
	DeadlineUnix int64            `json:"deadline_unix"`
	RlimitMB     uint64           `json:"rlimit_mb"` // headroom above the address space in use at worker start
}

type c24group struct {
	Fix      int              `json:"fix"`
	Name     string           `json:"name"`
	From     int              `json:"from"` // generator indexes [From,To) of the fixture
	To       int              `json:"to"`
	Last     bool             `json:"last"` // the fixture is finished
	Evals    int64            `json:"evals"`
	Classes  map[string]int64 `json:"classes"`
	Viol     []vh.Violation   `json:"viol"`
	VCount   map[string]int64 `json:"vcount"`
	Samples  []c24case        `json:"samples"`
	Capped   bool             `json:"capped"`
	MaxAlloc uint64           `json:"max_alloc"`
	Ms       int64            `json:"ms"`
	Done     bool             `json:"done"` // end-of-run marker line
}

func c24mkcase(f *c24fix, kind, desc string, off, shift int, gen string, stream []byte) *c24case {
	c := &c24case{Fix: f.Name, Cmd: f.Cmd, Kind: kind, Desc: desc, Off: off, Shift: shift, Gen: gen, Parts: f.Parts}
	if f.Mode == "replay" && f.Replay != nil {
		c.Fix, c.Cmd, c.Parts = f.Replay.Fix, f.Replay.Cmd, f.Replay.Parts
	}
	if gen == "" {
		c.Stream = hex.EncodeToString(stream)
	}
	return c
}

func TestVerif_C24_Worker(t *testing.T) {
	sp := os.Getenv("VERIF_C24_SPEC")
	if sp == "" {
		t.Skip("worker half of TestVerif_C24; started by it")
	}
	var spec c24spec
	b, err := os.ReadFile(sp)
	if err != nil || json.Unmarshal(b, &spec) != nil {
		t.Fatalf("worker spec: %v", err)
	}
	var fixes []*c24fix
	b, err = os.ReadFile(spec.Fixtures)
	if err != nil || json.Unmarshal(b, &fixes) != nil {
		t.Fatalf("worker fixtures: %v", err)
	}
	if spec.RlimitMB > 0 {
		// address-space limit = what the Go runtime has reserved at start (about
		// 1.6 GiB of mostly PROT_NONE mappings) + the headroom of the spec
		var vm uint64
		if st, err := os.ReadFile("/proc/self/status"); err == nil {
			if i := strings.Index(string(st), "VmSize:"); i >= 0 {
				fmt.Sscanf(strings.TrimSpace(string(st)[i+7:]), "%d", &vm)
			}
		}
		if vm == 0 {
			vm = 2 << 20 // kB
		}
		n := vm<<10 + spec.RlimitMB<<20
		lim := syscall.Rlimit{Cur: n, Max: n}
		if err := syscall.Setrlimit(syscall.RLIMIT_AS, &lim); err != nil {
			t.Fatalf("setrlimit: %v", err)
		}
	}
	cur, err := os.OpenFile(spec.Cur, os.O_CREATE|os.O_WRONLY|os.O_TRUNC, 0644)
	if err != nil {
		t.Fatal(err)
	}
	res, err := os.OpenFile(spec.Results, os.O_CREATE|os.O_WRONLY|os.O_TRUNC, 0644)
	if err != nil {
		t.Fatal(err)
	}
	line := func(g *c24group) {
		jb, _ := json.Marshal(g)
		res.Write(append(jb, '\n'))
	}
	var dl time.Time
	if spec.DeadlineUnix > 0 {
		dl = time.Unix(spec.DeadlineUnix, 0)
	}
	mark := make([]byte, 0, 48)
	capped := false
	const chunk = 2048 // generator indexes per result line: the unit of recovery after a worker death
	for fi := spec.Start; fi < len(fixes) && !capped; fi++ {
		f := fixes[fi]
		skip := map[int]bool{}
		for _, i := range spec.Skip[strconv.Itoa(fi)] {
			skip[i] = true
		}
		lo := 0
		if fi == spec.Start {
			lo = spec.StartIdx
		}
		var g *c24group
		t0 := time.Now()
		fresh := func(from int) {
			g = &c24group{Fix: fi, Name: f.Name, From: from, Classes: map[string]int64{}, VCount: map[string]int64{}}
			t0 = time.Now()
		}
		flush := func(to int, last bool) {
			g.To, g.Last, g.Capped = to, last, capped
			g.Ms = int64(time.Since(t0) / time.Millisecond)
			line(g)
		}
		fresh(lo)
		idx := -1
		c24gen(f, spec.Thorough, func(kind, desc string, off, shift int, gen string, build func() []byte) bool {
			idx++
			if idx < lo {
				return true
			}
			if idx > lo && idx%chunk == 0 {
				flush(idx, false)
				fresh(idx)
			}
			if idx%spec.NShards != spec.Shard || skip[idx] {
				return true
			}
			if !dl.IsZero() && time.Now().After(dl) {
				capped = true
				return false
			}
			mark = append(mark[:0], fmt.Sprintf("%-10d %-12d\n", fi, idx)...)
			cur.WriteAt(mark, 0)
			stream := build()
			c := c24case{Fix: f.Name, Cmd: f.Cmd, Kind: kind, Desc: desc, Off: off, Shift: shift, Gen: gen, Parts: f.Parts}
			if f.Mode == "replay" {
				c.Parts = f.Replay.Parts
			}
			outcome, viols, alloc := c24eval(stream, &c)
			if strings.HasPrefix(kind, "lenb-") {
				viols = c24lenbRekey(kind, gen, stream, outcome, viols)
			}
			g.Evals++
			g.Classes[kind+" -> "+outcome]++
			if alloc > g.MaxAlloc {
				g.MaxAlloc = alloc
			}
			for _, v := range viols {
				g.VCount[v.Key]++
				if g.VCount[v.Key] <= 2 {
					g.Viol = append(g.Viol, vh.Violation{Key: v.Key,
						Detail: fmt.Sprintf("%s [%s: %s]: %s", f.Name, kind, desc, v.Detail),
						Case:   c24mkcase(f, kind, desc, off, shift, gen, stream)})
				}
			}
			if len(g.Samples) < 1 && (kind == "bytemut" || kind == "hdr-length") && idx%7 == 3 {
				g.Samples = append(g.Samples, *c24mkcase(f, kind, desc, off, shift, gen, stream))
			}
			return true
		})
		flush(idx+1, !capped)
	}
	line(&c24group{Fix: -1, Done: true})
	res.Close()
	cur.Close()
}

// ---------------------------------------------------------------- factory discovery

// c24registered reads the message factory (makeEmptyMessage) from the source
// tree and returns the command strings it registers.
func c24registered() (cmds []string, err error) {
	repo := os.Getenv("VERIF_REPO")
	if repo == "" {
		repo = "/repo"
	}
	fset := token.NewFileSet()
	consts := map[string]string{}
	cf, err := parser.ParseFile(fset, filepath.Join(repo, "p2pserver/common/p2p_common.go"), nil, 0)
	if err != nil {
		return nil, err
	}
	for _, d := range cf.Decls {
		gd, ok := d.(*ast.GenDecl)
		if !ok || gd.Tok != token.CONST {
			continue
		}
		for _, sp := range gd.Specs {
			vs := sp.(*ast.ValueSpec)
			for i, n := range vs.Names {
				if i < len(vs.Values) {
					if bl, ok := vs.Values[i].(*ast.BasicLit); ok && bl.Kind == token.STRING {
						s, _ := strconv.Unquote(bl.Value)
						consts[n.Name] = s
					}
				}
			}
		}
	}
	mf, err := parser.ParseFile(fset, filepath.Join(repo, "p2pserver/message/types/message.go"), nil, 0)
	if err != nil {
		return nil, err
	}
	found := false
	for _, d := range mf.Decls {
		fd, ok := d.(*ast.FuncDecl)
		if !ok || fd.Name.Name != "makeEmptyMessage" {
			continue
		}
		found = true
		ast.Inspect(fd.Body, func(n ast.Node) bool {
			cc, ok := n.(*ast.CaseClause)
			if !ok {
				return true
			}
			for _, e := range cc.List {
				switch x := e.(type) {
				case *ast.SelectorExpr:
					if v, ok := consts[x.Sel.Name]; ok {
						cmds = append(cmds, v)
					} else {
						err = fmt.Errorf("cannot resolve case %s", x.Sel.Name)
					}
				case *ast.BasicLit:
					s, _ := strconv.Unquote(x.Value)
					cmds = append(cmds, s)
				default:
					err = fmt.Errorf("unrecognised case expression in makeEmptyMessage")
				}
			}
			return true
		})
	}
	if !found {
		return nil, fmt.Errorf("makeEmptyMessage not found")
	}
	sort.Strings(cmds)
	return cmds, err
}

var c24builtin = []string{"addr", "block", "consensus", "findnode", "findnodeack", "getaddr", "getblocks", "getdata", "getheaders",
	"getmembers", "headers", "inv", "members", "notfound", "offline", "ping", "pong", "tx", "updatekadid", "verack", "version"}

// ---------------------------------------------------------------- hand-built values

func c24acct(i int) *account.Account {
	pri, pub := vkeys.P256(i)
	return &account.Account{PrivateKey: pri, PublicKey: pub, Address: ct.AddressFromPubKey(pub), SigScheme: sigscheme.SHA256withECDSA}
}

func c24hash(tag byte) (h ocomm.Uint256) {
	for i := range h {
		h[i] = tag + byte(i)*3
	}
	return
}

func c24peerID(tag byte) p2pc.PeerId {
	b := make([]byte, 20)
	for i := range b {
		b[i] = tag ^ byte(i*17+1)
	}
	var id p2pc.PeerId
	if err := id.Deserialization(ocomm.NewZeroCopySource(b)); err != nil {
		panic(err)
	}
	return id
}

func c24ser(f func(*ocomm.ZeroCopySink)) []byte {
	s := ocomm.NewZeroCopySink(nil)
	f(s)
	return s.Bytes()
}

func c24sign(a *account.Account, data []byte) []byte {
	sig, err := signature.Sign(a, data)
	if err != nil {
		panic(err)
	}
	return sig
}

func c24tx(kind string, nonce uint32) *ct.Transaction {
	a, b, c := c24acct(1), c24acct(2), c24acct(3)
	switch kind {
	case "invoke", "deploy", "multisig":
		mtx := &ct.MutableTransaction{Version: 0, TxType: ct.InvokeNeo, Nonce: nonce, GasPrice: 2500, GasLimit: 20000 + uint64(nonce), Payer: a.Address,
			Payload: &payload.InvokeCode{Code: append([]byte{0x00, 0xc6, 0x6b, 0x14}, bytes.Repeat([]byte{byte(nonce), 0x6a}, 20)...)}}
		if kind == "deploy" {
			dc, err := payload.NewDeployCode([]byte{0x51, 0x52, 0x93, 0x66}, payload.NEOVM_TYPE, "verif", "1.0", "c24", "c24@example.org", "fixture")
			if err != nil {
				panic(err)
			}
			mtx.TxType, mtx.Payload = ct.Deploy, dc
		}
		h := mtx.Hash()
		mtx.Sigs = []ct.Sig{{SigData: [][]byte{c24sign(a, h[:])}, PubKeys: []keypair.PublicKey{a.PublicKey}, M: 1}}
		if kind == "multisig" {
			mtx.Sigs = append(mtx.Sigs, ct.Sig{SigData: [][]byte{c24sign(b, h[:]), c24sign(c, h[:])},
				PubKeys: []keypair.PublicKey{a.PublicKey, b.PublicKey, c.PublicKey}, M: 2})
		}
		tx, err := mtx.IntoImmutable()
		if err != nil {
			panic(err)
		}
		return tx
	case "eip155":
		pri, _ := vkeys.Eth(1)
		ek := pri.(*ec.EthereumPrivateKey).PrivateKey
		etx := ethtypes.NewTransaction(uint64(nonce), ethcomm.HexToAddress("0x00000000000000000000000000000000000c2401"), big.NewInt(1000000000),
			21000, big.NewInt(2500*1000000000), []byte{0xca, 0xfe})
		signed, err := ethtypes.SignTx(etx, ethtypes.NewEIP155Signer(big.NewInt(5851)), ek)
		if err != nil {
			panic(err)
		}
		tx, err := ct.TransactionFromEIP155(signed)
		if err != nil {
			panic(err)
		}
		return tx
	}
	panic(kind)
}

func c24header(height uint32, nkeys int) *ct.Header {
	h := &ct.Header{Version: 1, PrevBlockHash: c24hash(byte(height)), TransactionsRoot: ocomm.UINT256_EMPTY, BlockRoot: c24hash(0x40 + byte(height)),
		Timestamp: 1600000000 + height, Height: height, ConsensusData: 0x1122334455667788 + uint64(height),
		ConsensusPayload: []byte(fmt.Sprintf(`{"leader":%d,"vrf_value":"dmVyaWY=","last_config_block_num":0}`, height%7)),
		NextBookkeeper:   c24acct(4).Address}
	for i := 0; i < nkeys; i++ {
		var pub keypair.PublicKey
		switch i % 3 {
		case 0:
			_, pub = vkeys.P256(10 + i)
		case 1:
			_, pub = vkeys.Ed25519(10 + i)
		default:
			_, pub = vkeys.SM2(10 + i)
		}
		h.Bookkeepers = append(h.Bookkeepers, pub)
	}
	for i := 0; i < nkeys; i++ {
		hh := h.Hash()
		h.SigData = append(h.SigData, c24sign(c24acct(10+i), hh[:]))
	}
	return h
}

func c24lens(names []string, pieces ...[]byte) (parts []c24part, all []byte) {
	for i, p := range pieces {
		parts = append(parts, c24part{names[i], len(p)})
		all = append(all, p...)
	}
	return
}

type c24builder struct {
	r     *vh.Run
	fixes []*c24fix
}

// add frames a value with WriteMessage (the seam) and cross-checks the frame
// against the reference encoder and the declared part layout.
func (b *c24builder) add(name, mode string, msg Message, names []string, pieces ...[]byte) *c24fix {
	sink := ocomm.NewZeroCopySink(nil)
	p := vh.Catch(func() { WriteMessage(sink, msg) })
	b.r.Need(p == "", "WriteMessage(%s) panicked: %s", name, p)
	frame := sink.Bytes()
	pl := c24ser(msg.Serialization)
	b.r.Need(bytes.Equal(frame, c24frame(msg.CmdType(), pl)), "WriteMessage(%s) does not produce magic|cmd|len|sha256d[:4]|payload", name)
	f := &c24fix{Name: name, Cmd: msg.CmdType(), Mode: mode, Kind0: "roundtrip", Frame: hex.EncodeToString(frame)}
	if len(pieces) > 0 {
		parts, all := c24lens(names, pieces...)
		b.r.Need(bytes.Equal(all, pl), "fixture %s: declared parts do not concatenate to the payload (%d vs %d bytes)", name, len(all), len(pl))
		f.Parts = parts
	}
	b.fixes = append(b.fixes, f)
	return f
}

// addRaw adds a hand-encoded payload (an alternative encoding no value serializes to).
func (b *c24builder) addRaw(name, mode, cmd string, names []string, pieces ...[]byte) {
	parts, all := c24lens(names, pieces...)
	b.fixes = append(b.fixes, &c24fix{Name: name, Cmd: cmd, Mode: mode, Kind0: "altenc", Frame: hex.EncodeToString(c24frame(cmd, all)), Parts: parts})
}

func c24varbytes(b []byte) []byte {
	return c24ser(func(s *ocomm.ZeroCopySink) { s.WriteVarBytes(b) })
}

func c24fixtures(r *vh.Run, registered []string) []*c24fix {
	b := &c24builder{r: r}
	th := r.Thorough()
	u32 := func(v uint64) []byte { return c24le(v, 4) }
	capMode := "lite" // fixtures sitting exactly at a cap are explored fully only on the thorough tier
	if th {
		capMode = "full"
	}

	// header-level families on a small and on an empty payload
	b.add("header/ping", "header", &Ping{Height: 0x0102030405060708}, nil)
	b.add("header/getaddr", "header", &AddrReq{}, nil)

	b.add("ping", "full", &Ping{Height: 0x0102030405060708}, nil)
	b.add("pong", "full", &Pong{Height: 1<<64 - 2}, nil)
	b.add("verack", "full", &VerACK{isConsensus: true}, nil)
	b.add("getaddr", "full", &AddrReq{}, nil)
	b.add("unknown", "full", &UnknownMessage{Cmd: "verifx", Payload: []byte("some opaque payload \x00\xff")}, nil)

	ver := &Version{P: VersionPayload{Version: 1, Services: 0x0102, TimeStamp: 1600000001, SyncPort: 20338, HttpInfoPort: 20335, ConsPort: 20339,
		Nonce: 0xa1a2a3a4a5a6a7a8, StartHeight: 777, Relay: 1, IsConsensus: true, SoftVersion: "v2.3.5-verif"}}
	copy(ver.P.Cap[:], bytes.Repeat([]byte{0x5a}, 32))
	vpl := c24ser(ver.Serialization)
	b.add("version", "full", ver, []string{"fixed", "softversion"}, vpl[:76], vpl[76:])

	// addr
	mkaddr := func(n int) (*Addr, []byte) {
		a := &Addr{}
		for i := 0; i < n; i++ {
			pa := p2pc.PeerAddr{Time: 1600000000 + int64(i), Services: uint64(i + 1), Port: uint16(20338 + i), ConsensusPort: uint16(20339 + i),
				ID: p2pc.PseudoPeerIdFromUint64(0xb0b1b2b3b4b5b600 + uint64(i))}
			copy(pa.IpAddr[:], []byte{0, 0, 0, 0, 0, 0, 0, 0, 0, 0, 0xff, 0xff, 10, 0, byte(i >> 8), byte(i)})
			a.NodeAddrs = append(a.NodeAddrs, pa)
		}
		return a, c24ser(a.Serialization)
	}
	ad, apl := mkaddr(3)
	b.add("addr/3", "full", ad, []string{"count", "entries"}, apl[:8], apl[8:])
	ad, apl = mkaddr(p2pc.MAX_ADDR_NODE_CNT)
	b.add("addr/at-cap", capMode, ad, []string{"count", "entries"}, apl[:8], apl[8:])
	ad, apl = mkaddr(p2pc.MAX_ADDR_NODE_CNT + 1)
	b.add("addr/over-cap", "lite", ad, []string{"count", "entries"}, apl[:8], apl[8:])

	b.add("getheaders", "full", &HeadersReq{Len: 2, HashStart: c24hash(1), HashEnd: c24hash(2)}, nil)
	b.add("getblocks", "full", &BlocksReq{HeaderHashCount: 3, HashStart: c24hash(3), HashStop: c24hash(4)}, nil)
	b.add("getdata", "full", &DataReq{DataType: ocomm.BLOCK, Hash: c24hash(5)}, nil)
	b.add("notfound", "full", &NotFound{Hash: c24hash(6)}, nil)

	// inv
	mkinv := func(n int) (*Inv, []byte) {
		v := &Inv{P: InvPayload{InvType: ocomm.BLOCK}}
		for i := 0; i < n; i++ {
			v.P.Blk = append(v.P.Blk, c24hash(byte(0x20+i)))
		}
		return v, c24ser(v.Serialization)
	}
	iv, ipl := mkinv(3)
	b.add("inv/3", "full", iv, []string{"type", "count", "hashes"}, ipl[:1], ipl[1:5], ipl[5:])
	iv, ipl = mkinv(p2pc.MAX_INV_BLK_CNT)
	b.add("inv/at-cap", capMode, iv, []string{"type", "count", "hashes"}, ipl[:1], ipl[1:5], ipl[5:])
	iv, ipl = mkinv(p2pc.MAX_INV_BLK_CNT + 1)
	b.add("inv/over-cap", "lite", iv, []string{"type", "count", "hashes"}, ipl[:1], ipl[1:5], ipl[5:])

	// headers
	nk2 := 2
	if th {
		nk2 = 3 // the third key is SM2 (slow point decompression: thorough only)
	}
	h1, h2 := c24header(101, 1), c24header(102, nk2)
	b.add("headers/2", "full", &BlkHeader{BlkHdr: []*ct.Header{h1, h2}}, []string{"count", "header0", "header1"},
		u32(2), c24ser(h1.Serialization), c24ser(h2.Serialization))
	b.add("headers/0", "full", &BlkHeader{}, []string{"count"}, u32(0))
	{ // a header whose single bookkeeper key is sent uncompressed
		h1b := c24ser(h1.Serialization)
		k := keypair.SerializePublicKey(h1.Bookkeepers[0])
		i := bytes.Index(h1b, c24varbytes(k))
		r.Need(i > 0, "bookkeeper key not found in the header fixture")
		unc := c24varbytes(ec.EncodePublicKey(h1.Bookkeepers[0].(*ec.PublicKey).PublicKey, false))
		b.addRaw("headers/key-uncompressed", "lite", p2pc.HEADERS_TYPE, []string{"count", "header0"}, u32(1), c24cat(h1b[:i], unc, h1b[i+len(k)+1:]))
	}
	if th {
		var hs []*ct.Header
		pieces := [][]byte{u32(p2pc.MAX_BLK_HDR_CNT)}
		names := []string{"count"}
		var rest []byte
		for i := 0; i < p2pc.MAX_BLK_HDR_CNT; i++ {
			hs = append(hs, h1)
			rest = append(rest, c24ser(h1.Serialization)...)
		}
		b.add("headers/500", "lite", &BlkHeader{BlkHdr: hs}, append(names, "headers"), append(pieces, rest)...)
	}

	// transactions
	for _, k := range []string{"invoke", "deploy", "multisig", "eip155"} {
		mode := "full"
		if k == "multisig" {
			mode = capMode
		}
		b.add("tx/"+k, mode, &Trn{Txn: c24tx(k, 7)}, nil)
	}

	// blocks
	mkblock := func(name string, txs []*ct.Transaction, cc *ct.CrossChainMsg, nkeys int) {
		hd := c24header(200, nkeys)
		blk := &ct.Block{Header: hd, Transactions: txs}
		blk.RebuildMerkleRoot()
		names := []string{"header", "txcount"}
		pieces := [][]byte{c24ser(hd.Serialization), u32(uint64(len(txs)))}
		for i, tx := range txs {
			names = append(names, fmt.Sprintf("tx%d", i))
			pieces = append(pieces, tx.Raw)
		}
		root := c24hash(0x77)
		names = append(names, "merkleroot", "ccflag")
		flag := []byte{0}
		if cc != nil {
			flag = []byte{1}
		}
		pieces = append(pieces, root[:], flag)
		if cc != nil {
			names = append(names, "ccmsg")
			pieces = append(pieces, c24ser(cc.Serialization))
		}
		b.add(name, "full", &Block{Blk: blk, MerkleRoot: root, CCMsg: cc}, names, pieces...)
	}
	cc := &ct.CrossChainMsg{Version: 0, Height: 199, StatesRoot: c24hash(0x55)}
	cc.SigData = [][]byte{c24sign(c24acct(10), cc.StatesRoot[:])}
	mkblock("block/tx+ccmsg", []*ct.Transaction{c24tx("invoke", 1)}, cc, 1)
	mkblock("block/empty-nocc", nil, nil, 1)
	if th {
		cc = &ct.CrossChainMsg{Version: 0, Height: 199, StatesRoot: c24hash(0x55)}
		cc.SigData = [][]byte{c24sign(c24acct(10), cc.StatesRoot[:]), c24sign(c24acct(11), cc.StatesRoot[:])}
		mkblock("block/2tx+ccmsg", []*ct.Transaction{c24tx("invoke", 1), c24tx("multisig", 2)}, cc, 2)
		mkblock("block/4tx", []*ct.Transaction{c24tx("invoke", 1), c24tx("deploy", 2), c24tx("eip155", 3), c24tx("multisig", 4)}, cc, 4)
	}

	// consensus
	owner := c24acct(20)
	cp := &Consensus{Cons: ConsensusPayload{Version: 1, PrevHash: c24hash(0x31), Height: 300, BookkeeperIndex: 2, Timestamp: 1600000300,
		Data: bytes.Repeat([]byte{0xc0, 0x24, 0x01}, r.Pick(20, 100)), Owner: owner.PublicKey, PeerId: c24peerID(1)}}
	cp.Cons.Signature = c24sign(owner, c24ser(cp.Cons.SerializationUnsigned))
	unsigned := c24ser(cp.Cons.SerializationUnsigned)
	okey := keypair.SerializePublicKey(owner.PublicKey)
	b.add("consensus", "full", cp, []string{"unsigned", "owner", "signature"}, unsigned, c24varbytes(okey), c24varbytes(cp.Cons.Signature))
	// the same payload with the owner key in its uncompressed and in its labelled encodings, and with bytes after the key
	ecpub := owner.PublicKey.(*ec.PublicKey)
	uncompressed := ec.EncodePublicKey(ecpub.PublicKey, false)
	b.addRaw("consensus/owner-uncompressed", capMode, p2pc.CONSENSUS_TYPE, []string{"unsigned", "owner", "signature"},
		unsigned, c24varbytes(uncompressed), c24varbytes(cp.Cons.Signature))
	b.addRaw("consensus/owner-labelled", "lite", p2pc.CONSENSUS_TYPE, []string{"unsigned", "owner", "signature"},
		unsigned, c24varbytes(c24cat([]byte{byte(keypair.PK_ECDSA), keypair.P256}, okey)), c24varbytes(cp.Cons.Signature))
	b.addRaw("consensus/owner-key+tail", "lite", p2pc.CONSENSUS_TYPE, []string{"unsigned", "owner", "signature"},
		unsigned, c24varbytes(c24cat(okey, []byte{0xaa, 0xbb})), c24varbytes(cp.Cons.Signature))

	// dht
	b.add("findnode", "full", &FindNodeReq{TargetID: c24peerID(2)}, nil)
	fr := &FindNodeResp{TargetID: c24peerID(3), Success: true, Address: "10.0.0.1:20338",
		CloserPeers: []p2pc.PeerIDAddressPair{{ID: c24peerID(4), Address: "10.0.0.2:20338"}, {ID: c24peerID(5), Address: "[fe80::1]:20338"}}}
	fpl := c24ser(fr.Serialization)
	b.add("findnodeack", "full", fr, []string{"target", "success", "address", "count", "peers"}, fpl[:20], fpl[20:21], fpl[21:36], fpl[36:40], fpl[40:])

	// updatekadid: the key must carry the proof of work
	d := big.NewInt(c24PowScalar)
	powPriv := ec.ConstructPrivateKey(d.Bytes(), ecpub.Curve)
	powPub := &ec.PublicKey{Algorithm: ec.ECDSA, PublicKey: &powPriv.PublicKey}
	pk := keypair.SerializePublicKey(powPub)
	b.add("updatekadid", "full", &UpdatePeerKeyId{KadKeyId: &p2pc.PeerKeyId{PublicKey: powPub}}, []string{"key"}, c24varbytes(pk))
	b.addRaw("updatekadid/key-uncompressed", "lite", p2pc.UPDATE_KADID_TYPE, []string{"key"}, c24varbytes(ec.EncodePublicKey(powPub.PublicKey, false)))

	// subnet
	b.add("getmembers/seed", "full", &SubnetMembersRequest{From: c24peerID(6), To: c24peerID(7)}, nil)
	gov := c24acct(21)
	// Timestamp far in the future: the one-hour expiry rule of the decoder
	// compares with the wall clock; this value keeps the verdict independent of it.
	req := &SubnetMembersRequest{From: c24peerID(6), To: c24peerID(7), Timestamp: 0xfffffff0, PubKey: gov.PublicKey}
	req.Sig = c24sign(gov, req.sigdata())
	b.add("getmembers/gov", "full", req, []string{"from", "to", "timestamp", "pubkey", "sig"},
		c24ser(req.From.Serialization), c24ser(req.To.Serialization), u32(0xfffffff0), c24varbytes(keypair.SerializePublicKey(gov.PublicKey)), c24varbytes(req.Sig))
	b.addRaw("getmembers/key-uncompressed", "lite", p2pc.GET_SUBNET_MEMBERS_TYPE, []string{"from", "to", "timestamp", "pubkey", "sig"},
		c24ser(req.From.Serialization), c24ser(req.To.Serialization), u32(0xfffffff0),
		c24varbytes(ec.EncodePublicKey(gov.PublicKey.(*ec.PublicKey).PublicKey, false)), c24varbytes(req.Sig))
	mem := &SubnetMembers{Members: []MemberInfo{{PubKey: vconfig.PubkeyID(c24acct(22).PublicKey), Addr: "10.0.1.1:20338"},
		{PubKey: vconfig.PubkeyID(c24acct(23).PublicKey), Addr: "10.0.1.2:20338"}}}
	mpl := c24ser(mem.Serialization)
	b.add("members/2", "full", mem, []string{"count", "members"}, mpl[:4], mpl[4:])
	b.add("members/0", "full", &SubnetMembers{}, []string{"count"}, u32(0))

	// offline witness
	prop, v1, v2 := c24acct(30), c24acct(31), c24acct(32)
	ow := &OfflineWitnessMsg{Timestamp: 1600000400, View: 9, Proposer: vconfig.PubkeyID(prop.PublicKey),
		NodePubKeys: []string{vconfig.PubkeyID(c24acct(33).PublicKey), vconfig.PubkeyID(c24acct(34).PublicKey)}}
	nvotes := 1
	r.Need(ow.AddProposeSig(prop) == nil && ow.VoteFor(v1, []uint8{0, 1}) == nil, "offline witness fixture: signing failed")
	if th {
		ow.NodePubKeys = append(ow.NodePubKeys, vconfig.PubkeyID(c24acct(35).PublicKey))
		ow.Voters = nil
		nvotes = 2
		r.Need(ow.AddProposeSig(prop) == nil && ow.VoteFor(v1, []uint8{0, 2}) == nil && ow.VoteFor(v2, []uint8{1}) == nil, "offline witness fixture: signing failed")
	}
	ounsigned := c24ser(ow.serializeUnsigned)
	opl := c24ser(ow.Serialization)
	psig := c24varbytes(ow.ProposerSig)
	b.add("offline/votes", "full", ow, []string{"unsigned", "proposersig", "votercount", "voters"},
		ounsigned, psig, u32(uint64(nvotes)), opl[len(ounsigned)+len(psig)+4:])
	// every short payload, for every registered command and for an unknown one
	for _, cmd := range append(append([]string{}, registered...), "verifx") {
		b.fixes = append(b.fixes, &c24fix{Name: "tiny/" + cmd, Cmd: cmd, Mode: "tiny", Kind0: "tiny", Frame: hex.EncodeToString(c24frame(cmd, nil))})
	}
	return b.fixes
}


// ---------------------------------------------------------------- parent

func c24nth(f *c24fix, thorough bool, n int) *c24case {
	var out *c24case
	idx := -1
	c24gen(f, thorough, func(kind, desc string, off, shift int, gen string, build func() []byte) bool {
		idx++
		if idx == n {
			out = c24mkcase(f, kind, desc, off, shift, gen, build())
			return false
		}
		return true
	})
	return out
}

func c24tail(path string, n int) string {
	b, _ := os.ReadFile(path)
	if len(b) > n {
		b = b[len(b)-n:]
	}
	return string(b)
}

func c24first(s string, n int) string {
	s = strings.TrimSpace(s)
	if i := strings.Index(s, "\n\n"); i >= 0 {
		s = s[:i]
	}
	if len(s) > n {
		s = s[:n]
	}
	return strings.Replace(s, "\n", " | ", -1)
}

var c24reFatal = regexp.MustCompile(`(?m)^(fatal error: .*|runtime: out of memory.*|signal: .*|SIG[A-Z]+: .*)$`)

func TestVerif_C24(t *testing.T) {
	r := vh.Start(t, "C24", "decode")
	defer r.Finish()
	r.Rule("for every message type registered in makeEmptyMessage (factory read from the source at run time) one or more hand-built values are framed by WriteMessage; " +
		"each frame is read back as written and under every single mutation of these families: stream cut at every length; payload cut at every length (valid header); 5 trailing-byte suffixes; " +
		"every payload byte set to 10 boundary values (quick) / all 255 other values (thorough); every payload offset overwritten as a u32/u64 count in {0,1,MAX_PAYLOAD_LEN,2^32-1,2^63,2^64-1} " +
		"or spliced as a var-uint count in {65535,MAX_PAYLOAD_LEN,2^32-1,2^32,2^63,2^64-1}, each followed by the rest of the body and by nothing; every byte <0xfd re-encoded as a non-minimal var-uint; " +
		"hand-encoded alternative key encodings; per registered command every payload of <=1 (quick) / <=2 (thorough) bytes and all payloads <=3/<=4 bytes over 9 boundary bytes; " +
		"family lenb: for every variable-length byte/string/list field of every message type whose content is not fixed by a key or signature format (templates listed in coverage.decode.lenb_templates) " +
		"the field is made exactly L bytes / elements long for every L in {0xfc,0xfd,0xfe,0xff,0x100,0xfffe,0xffff,0x10000,0x10001} (thorough: also 0,1,0x21,0xfb,0x101,0xfffd,0x10002; not above the field's own cap) and its " +
		"var-uint prefix written in every width of {1,3,5,9} bytes that can hold L: the shortest width is the frame Serialization writes for such a value and must be accepted and re-serialize identically, every longer width must be refused (or re-serialize identically); " +
		"header families (every magic bit + other networks' magics, command bytes, length -1/+1/MAX/MAX+1/2^31/2^32-1 with stale and recomputed checksum, every checksum bit, full-size and full-size+1 bodies). " +
		"Oracle per case: no panic, no process death; allocation during ReadMessage <= MAX_PAYLOAD_LEN+1MiB; a stream the reference header rules reject must return an error; " +
		"an accepted message must re-serialize to the payload and WriteMessage to the frame; a value written by WriteMessage must be accepted. " +
		"distinct = (mutation family, outcome) and (message type, outcome as written) classes")
	r.Bound("fixtures as listed in coverage.decode.fixtures; single mutation per case (one byte, one count field, one cut, one suffix, one header field)")
	r.Assume("ReadMessage on a bytes.Reader stands for link.Rx's bufio.Reader (no semantic difference for ReadFull)")
	r.Assume("allocation is measured as runtime.MemStats.TotalAlloc delta around ReadMessage in a worker process under RLIMIT_AS; cases that kill the worker are attributed by a per-case progress marker")
	r.Assume("SubnetMembersRequest expiry compares with the wall clock; the fixture timestamp 0xfffffff0 keeps every verdict clock-independent until 2106")

	tmp := os.Getenv("VERIF_TMP")
	if tmp == "" {
		var err error
		tmp, err = os.MkdirTemp("", "c24")
		r.Need(err == nil, "tmp dir: %v", err)
		defer os.RemoveAll(tmp)
	}
	bin := os.Getenv("VERIF_BIN")
	if bin == "" {
		bin, _ = os.Executable()
	}

	if r.IsReplay() {
		var hc c24hcase
		if r.ReplayCase(&hc) && len(hc.Frames) > 0 {
			return // a case of the history unit (C24_history_test.go)
		}
	}
	var fixes []*c24fix
	var rc c24case
	if r.ReplayCase(&rc) && (rc.Stream != "" || rc.Gen != "") {
		fixes = []*c24fix{{Name: rc.Fix, Cmd: rc.Cmd, Mode: "replay", Replay: &rc, Parts: rc.Parts}}
	} else {
		// the factory, read at run time
		reg, err := c24registered()
		if err != nil {
			r.Assume("message factory source not readable (" + err.Error() + "); the built-in list of 21 commands was used")
			reg = c24builtin
		}
		r.Need(len(reg) >= 21, "only %d message types found in makeEmptyMessage", len(reg))
		p := vh.Catch(func() { fixes = c24fixtures(r, reg) })
		r.Need(p == "", "building fixtures panicked: %s", p)
		have := map[string]int{}
		for _, f := range fixes {
			if f.Mode == "full" && f.Kind0 == "roundtrip" {
				have[f.Cmd]++
			}
		}
		var names []string
		for _, f := range fixes {
			names = append(names, fmt.Sprintf("%s(%s,%dB)", f.Name, f.Mode, len(f.bytes())-24))
		}
		r.Set("fixtures", names)
		r.Set("registered_types", reg)
		for _, cmd := range reg {
			_, unk := makeEmptyMessage(cmd).(*UnknownMessage)
			r.Need(!unk, "command %q parsed from the factory source is not registered in the compiled factory", cmd)
			r.Need(have[cmd] > 0, "message type %q is registered in makeEmptyMessage but the C24 harness has no hand-built fixture for it: add one to c24fixtures", cmd)
		}
		r.Need(have["verifx"] > 0, "no fixture for the unknown-command fallback")
		// family lenb (C24_lenboundary_test.go): fields whose length / element count sits on a var-uint width boundary
		var lenb []*c24fix
		p = vh.Catch(func() {
			lenb = c24lenbFixes()
			for _, t := range c24lenbTable() {
				t.payload(3, 1) // every template must build (marker found exactly once in the real serialization)
			}
		})
		r.Need(p == "" && len(lenb) >= 20, "building the lenb templates failed (%d built): %s", len(lenb), p)
		var lnames []string
		for _, f := range lenb {
			lnames = append(lnames, f.Name)
		}
		r.Set("lenb_templates", lnames)
		fixes = append(fixes, lenb...)
	}
	if only := os.Getenv("VERIF_C24_ONLY"); only != "" { // debugging aid: never a full run
		var keep []*c24fix
		for _, f := range fixes {
			if strings.Contains(f.Name, only) {
				keep = append(keep, f)
			}
		}
		fixes = keep
		r.Capped("fixture filter VERIF_C24_ONLY=" + only)
	}
	fb, _ := json.Marshal(fixes)
	fixPath := filepath.Join(tmp, "c24_fixtures.json")
	r.Need(os.WriteFile(fixPath, fb, 0644) == nil, "cannot write fixtures")

	spec := c24spec{Fixtures: fixPath, Thorough: r.Thorough(), Shard: r.R.Shard, NShards: r.R.NShards, Skip: map[string][]int{},
		Cur: filepath.Join(tmp, "c24_cur"), Results: filepath.Join(tmp, "c24_results"), RlimitMB: 512}
	if r.ReplayCase(&rc) {
		spec.Shard, spec.NShards = 0, 1
	}
	dls := 0
	if v := os.Getenv("VERIF_DEADLINE_S"); v != "" {
		dls, _ = strconv.Atoi(v)
	}
	startT := time.Now()
	if dls > 0 {
		spec.DeadlineUnix = startT.Add(time.Duration(dls) * time.Second).Unix()
	}
	accepted := map[string]bool{}
	deaths := 0
	var maxAlloc uint64
	for spec.Start < len(fixes) {
		sb, _ := json.Marshal(&spec)
		specPath := filepath.Join(tmp, "c24_spec.json")
		r.Need(os.WriteFile(specPath, sb, 0644) == nil, "cannot write spec")
		os.Remove(spec.Cur)
		os.Remove(spec.Results)
		logPath := filepath.Join(tmp, "c24_worker.log")
		lf, err := os.Create(logPath)
		r.Need(err == nil, "worker log: %v", err)
		cmd := exec.Command(bin, "-test.run", "^TestVerif_C24_Worker$", "-test.timeout", "0", "-test.count", "1")
		cmd.Env = append(os.Environ(), "VERIF_C24_SPEC="+specPath, "GOMAXPROCS=2", "VERIF_OUT=", "VERIF_REPLAY=")
		cmd.Stdout, cmd.Stderr = lf, lf
		cmd.Dir = tmp
		r.Need(cmd.Start() == nil, "cannot start worker %s", bin)
		done := make(chan error, 1)
		go func() { done <- cmd.Wait() }()
		watchdog := time.Duration(dls*2+600) * time.Second
		killed := false
		select {
		case <-done:
		case <-time.After(watchdog):
			cmd.Process.Kill()
			<-done
			killed = true
		}
		lf.Close()
		// merge the groups this worker completed
		finished := false
		rb, _ := os.ReadFile(spec.Results)
		for _, ln := range bytes.Split(rb, []byte{'\n'}) {
			if len(ln) == 0 {
				continue
			}
			var g c24group
			if json.Unmarshal(ln, &g) != nil {
				continue // a torn last line of a dead worker
			}
			if g.Done {
				finished = true
				continue
			}
			r.Eval(g.Evals)
			for k, v := range g.Classes {
				r.ClassN(k, v)
				if strings.HasSuffix(k, "-> ok-identical") && (strings.HasPrefix(k, "roundtrip ") || strings.HasPrefix(k, "altenc ")) {
					accepted[g.Name] = true
				}
				if strings.HasPrefix(k, "roundtrip -> ") {
					r.ClassN("type "+fixes[g.Fix].Cmd+" as written -> "+k[len("roundtrip -> "):], v)
				}
			}
			for _, v := range g.Viol {
				r.Violation(v.Key, v.Detail, v.Case)
			}
			for k, n := range g.VCount {
				r.Add("violating_cases", n)
				_ = k
			}
			for i := range g.Samples {
				if g.Fix%5 == 2 {
					r.Sample(g.Samples[i])
				}
			}
			if g.MaxAlloc > maxAlloc {
				maxAlloc = g.MaxAlloc
			}
			if g.Capped {
				r.Capped("internal deadline reached in fixture " + g.Name)
			}
			if !g.Capped {
				if g.Last {
					spec.Start, spec.StartIdx = g.Fix+1, 0
				} else {
					spec.Start, spec.StartIdx = g.Fix, g.To
				}
			}
		}
		if finished {
			break
		}
		if killed {
			r.Capped("worker watchdog")
			break
		}
		// the worker died: attribute the death to the case in progress
		var fi, idx int
		cb, _ := os.ReadFile(spec.Cur)
		n, _ := fmt.Sscanf(string(cb), "%d %d", &fi, &idx)
		logTail := c24tail(logPath, 1<<20)
		r.Need(n == 2 && fi >= spec.Start && fi < len(fixes) && (fi > spec.Start || idx >= spec.StartIdx), "worker died outside any case (marker %q); log tail:\n%s", string(cb), logTail)
		c := c24nth(fixes[fi], spec.Thorough, idx)
		r.Need(c != nil, "worker died in case %d/%d which the generator does not produce", fi, idx)
		why := c24reFatal.FindString(logTail)
		if why == "" {
			why = "worker exited without a fatal-error line"
		}
		cmdKey := c24cmdKey([]byte(c.Cmd))
		if st := c24stream(c); len(st) >= 24 {
			cmdKey = c24cmdKey(st[4:16])
		}
		key := "fatal:" + cmdKey + ":" + c24norm(why)
		if strings.Contains(logTail, "out of memory") || strings.Contains(logTail, "cannot allocate memory") {
			key = "alloc:" + cmdKey + ":" + c24partAt(c.Parts, c.Off)
		}
		r.Violation(key, fmt.Sprintf("%s [%s: %s]: the worker process (RLIMIT_AS = start size + %d MiB) died while ReadMessage ran this case: %s", c.Fix, c.Kind, c.Desc, spec.RlimitMB, c24first(logTail, 300)), c)
		r.Eval(1)
		r.Class(c.Kind + " -> process-death")
		deaths++
		spec.Skip[strconv.Itoa(fi)] = append(spec.Skip[strconv.Itoa(fi)], idx)
		if deaths >= 200 {
			r.Capped("more than 200 worker deaths")
			break
		}
	}
	r.Set("worker_deaths", int64(deaths))
	r.Set("max_alloc_bytes_single_case", int64(maxAlloc))
	r.Set("alloc_limit_bytes", int64(c24Max+c24AllocSlack))
	if rc.Stream == "" && rc.Gen == "" && r.R.Exhaustive {
		if r.Mine(0) {
			r.Need(len(accepted) >= 25, "only %d hand-built fixtures were read back identically as written", len(accepted))
		}
		if r.R.NShards == 1 {
			r.NeedClass("bytemut -> err")
			r.NeedClass("bytemut -> ok-identical")
			r.NeedClass("hdr-magic -> err")
			r.NeedClass("hdr-checksum -> err")
			r.NeedClass("hdr-bigfill -> ok-identical")
		}
	}
}

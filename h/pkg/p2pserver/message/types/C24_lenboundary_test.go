package types

// C24 — unit decode, family "lenb": variable-length fields whose LENGTH (or
// element count) sits exactly on a var-uint width boundary.
//
// The property quantifies over all payloads of every message type.  Every
// variable-length byte array / string / list of a p2p message is prefixed by a
// var-uint (1, 3, 5 or 9 bytes wide); which widths are "canonical" changes at
// the lengths 0xfd, 0x10000 and 2^32.  The single-mutation families of
// C24_p2pdecode_test.go never build a field that is actually that long, so the
// decoders' canonical-encoding decision is never exercised at the values where
// it switches.  This family does:
//
//   for every template (one per variable-length field of every message type
//   that has one and whose content is not fixed by a key/signature format),
//   for every length L in {0xfc,0xfd,0xfe,0xff,0x100,0xfffe,0xffff,0x10000,0x10001}
//   (thorough: also 0,1,0x21,0xfb,0x101,0xfffd,0x10002) not above the field's own
//   protocol cap, for every prefix width w in {1,3,5,9} that can hold L:
//   payload = pre | var-uint(L) in w bytes | L bytes (or L list elements) | post
//
// "pre" and "post" come from the real Serialization of a real message value in
// which the field holds a short marker; the boundary-length prefix itself is
// written by the harness' own reference encoder, never by the code under test.
//
// Oracle (the one of c24eval, re-keyed for this family):
//   w == shortest width ("lenb-canonical"): this is the frame the node itself
//     writes for such a value: it must be accepted and re-serialize to the
//     payload byte for byte;
//   w  > shortest width ("lenb-overlong"): error, or a message that re-serializes
//     to the payload (impossible for a decoder that re-encodes canonically).

import (
	"bytes"
	"encoding/hex"
	"fmt"
	"strconv"
	"strings"
	"sync"

	"github.com/ontio/ontology-crypto/keypair"
	ocomm "github.com/ontio/ontology/common"
	vconfig "github.com/ontio/ontology/consensus/vbft/config"
	"github.com/ontio/ontology/core/payload"
	ct "github.com/ontio/ontology/core/types"
	p2pc "github.com/ontio/ontology/p2pserver/common"
	"github.com/ontio/ontology/verifshim/vh"
	"github.com/ontio/ontology/verifshim/vkeys"
)

var c24lenbMarker = []byte("\xa5lenb-MARK\x5a")

const c24lenbRef = 0x21 // a length far from every width boundary (classification of over-long acceptance)

type c24lenbT struct {
	name  string // "consensus.data"
	cmd   string
	field string // the part of the violation key naming the field
	elem  []byte // list field: the encoding of one element (the var-uint is the element count); nil: bytes/string field
	zero  bool   // the content must be zero bytes
	max   int    // the field's own protocol cap (0: none below the frame cap)
	// static: pre/post do not depend on the content; signed: the message carries
	// signatures over the content, so the value is built and signed per content
	static func() (pre, post []byte)
	signed func(body []byte) (pre, post []byte)

	once      sync.Once
	pre, post []byte
}

// ---- boring reference model of the var-uint

func c24lenbWidth(v uint64) int {
	switch {
	case v < 0xfd:
		return 1
	case v <= 0xffff:
		return 3
	case v <= 0xffffffff:
		return 5
	}
	return 9
}

func c24lenbPrefix(v uint64, w int) []byte {
	switch w {
	case 1:
		return []byte{byte(v)}
	case 3:
		return c24cat([]byte{0xfd}, c24le(v, 2))
	case 5:
		return c24cat([]byte{0xfe}, c24le(v, 4))
	}
	return c24cat([]byte{0xff}, c24le(v, 8))
}

func (t *c24lenbT) body(L int) []byte {
	switch {
	case t.elem != nil:
		return bytes.Repeat(t.elem, L)
	case t.zero:
		return make([]byte, L)
	}
	return c24fill(L)
}

func (t *c24lenbT) payload(L, w int) []byte {
	body := t.body(L)
	var pre, post []byte
	if t.signed != nil {
		pre, post = t.signed(body)
	} else {
		t.once.Do(func() { t.pre, t.post = t.static() })
		pre, post = t.pre, t.post
	}
	return c24cat(pre, c24lenbPrefix(uint64(L), w), body, post)
}

// c24lenbSplit cuts a serialized payload around the single occurrence of needle.
func c24lenbSplit(what string, pl, needle []byte) (pre, post []byte) {
	i := bytes.Index(pl, needle)
	if i < 0 || bytes.Contains(pl[i+1:], needle) {
		panic(fmt.Sprintf("lenb template %s: marker field not found exactly once in the serialized value", what))
	}
	return append([]byte{}, pl[:i]...), append([]byte{}, pl[i+len(needle):]...)
}

func c24lenbMsg(what string, m Message, needle []byte) func() ([]byte, []byte) {
	return func() ([]byte, []byte) { return c24lenbSplit(what, c24ser(m.Serialization), needle) }
}

var (
	c24lenbOnce sync.Once
	c24lenbAll  []*c24lenbT
)

// c24lenbTable: one template per variable-length field.  Not covered (content
// fixed by a format, so the length cannot be chosen): public keys (consensus
// owner, getmembers pubkey, updatekadid key, offline proposer / voter keys),
// verified signatures (getmembers sig, offline signatures), the RLP body of an
// EIP155 transaction; transaction signature count (capped at 16) and offline
// node-key count (u32, capped at 255) cannot reach a boundary.
func c24lenbTable() []*c24lenbT {
	c24lenbOnce.Do(func() {
		mk := c24lenbMarker
		vmk := c24varbytes(mk) // 0b | marker
		smk := string(mk)
		var ts []*c24lenbT
		add := func(name, cmd string, t *c24lenbT) {
			t.name, t.cmd = name, cmd
			t.field = name[strings.IndexByte(name, '.')+1:]
			ts = append(ts, t)
		}
		st := func(what string, m Message, needle []byte) *c24lenbT {
			return &c24lenbT{static: c24lenbMsg(what, m, needle)}
		}
		list3 := func(elem []byte) []byte { return c24cat([]byte{3}, elem, elem, elem) }

		// version
		ver := &Version{P: VersionPayload{Version: 1, Services: 2, TimeStamp: 1600000001, SyncPort: 20338, HttpInfoPort: 20335, ConsPort: 20339,
			Nonce: 0xa1a2a3a4a5a6a7a8, StartHeight: 777, Relay: 1, IsConsensus: true, SoftVersion: smk}}
		add("version.softversion", p2pc.VERSION_TYPE, st("version.softversion", ver, vmk))

		// consensus
		owner := c24acct(20)
		cons := func(data, sig []byte) *Consensus {
			return &Consensus{Cons: ConsensusPayload{Version: 1, PrevHash: c24hash(0x31), Height: 300, BookkeeperIndex: 2, Timestamp: 1600000300,
				Data: data, Owner: owner.PublicKey, Signature: sig}}
		}
		add("consensus.data", p2pc.CONSENSUS_TYPE, st("consensus.data", cons(mk, []byte{1, 2, 3}), vmk))
		add("consensus.signature", p2pc.CONSENSUS_TYPE, st("consensus.signature", cons([]byte{0xc0, 0x24}, mk), vmk))

		// findnodeack
		fn := func(a0, a2 string) *FindNodeResp {
			return &FindNodeResp{TargetID: c24peerID(3), Success: true, Address: a0,
				CloserPeers: []p2pc.PeerIDAddressPair{{ID: c24peerID(4), Address: "10.0.0.2:20338"}, {ID: c24peerID(5), Address: a2}, {ID: c24peerID(6), Address: "10.0.0.4:20338"}}}
		}
		add("findnodeack.address", p2pc.FINDNODE_RESP_TYPE, st("findnodeack.address", fn(smk, "10.0.0.3:20338"), vmk))
		add("findnodeack.peers", p2pc.FINDNODE_RESP_TYPE, st("findnodeack.peers", fn("10.0.0.1:20338", smk), vmk))

		// subnet members
		mem := func(pk, addr string) *SubnetMembers {
			return &SubnetMembers{Members: []MemberInfo{{PubKey: vconfig.PubkeyID(c24acct(22).PublicKey), Addr: "10.0.1.1:20338"},
				{PubKey: pk, Addr: addr}, {PubKey: vconfig.PubkeyID(c24acct(23).PublicKey), Addr: "10.0.1.3:20338"}}}
		}
		add("members.pubkey", p2pc.SUBNET_MEMBERS_TYPE, st("members.pubkey", mem(smk, "10.0.1.2:20338"), vmk))
		add("members.addr", p2pc.SUBNET_MEMBERS_TYPE, st("members.addr", mem("02aa", smk), vmk))

		// offline witness: the signatures cover the node keys and the vote index
		prop, v1 := c24acct(30), c24acct(31)
		offline := func(key1 string, index []byte) *OfflineWitnessMsg {
			ow := &OfflineWitnessMsg{Timestamp: 1600000400, View: 9, Proposer: vconfig.PubkeyID(prop.PublicKey),
				NodePubKeys: []string{vconfig.PubkeyID(c24acct(33).PublicKey), key1, vconfig.PubkeyID(c24acct(34).PublicKey)}}
			if ow.AddProposeSig(prop) != nil || ow.VoteFor(v1, index) != nil {
				panic("lenb template offline: signing failed")
			}
			return ow
		}
		add("offline.nodepubkey", p2pc.SUBNET_OFFLINE_TYPE, &c24lenbT{signed: func(body []byte) ([]byte, []byte) {
			ow := offline(string(body), []byte{0, 2})
			ow.NodePubKeys[1] = smk // signatures stay those over the real content
			return c24lenbSplit("offline.nodepubkey", c24ser(ow.Serialization), vmk)
		}})
		add("offline.voteindex", p2pc.SUBNET_OFFLINE_TYPE, &c24lenbT{zero: true, signed: func(body []byte) ([]byte, []byte) {
			ow := offline(vconfig.PubkeyID(c24acct(35).PublicKey), body)
			ow.Voters[0].OfflineIndex = mk
			return c24lenbSplit("offline.voteindex", c24ser(ow.Serialization), vmk)
		}})

		// headers / block: header fields
		_, edk := vkeys.Ed25519(10)
		keyElem := c24varbytes(keypair.SerializePublicKey(edk)) // cheap to parse: a list of 65537 keys must stay fast
		sigElem := c24varbytes([]byte{0xa5})
		hdr := func(cp []byte, keys []keypair.PublicKey, sigs [][]byte) *ct.Header {
			return &ct.Header{Version: 1, PrevBlockHash: c24hash(7), TransactionsRoot: ocomm.UINT256_EMPTY, BlockRoot: c24hash(0x47),
				Timestamp: 1600000107, Height: 107, ConsensusData: 0x1122334455667788, ConsensusPayload: cp,
				NextBookkeeper: c24acct(4).Address, Bookkeepers: keys, SigData: sigs}
		}
		_, k1 := vkeys.P256(10)
		oneKey := []keypair.PublicKey{k1}
		oneSig := [][]byte{bytes.Repeat([]byte{0x5c}, 64)}
		a5 := []byte{0xa5}
		type hv struct {
			name string
			h    *ct.Header
			t    *c24lenbT
			nd   []byte
		}
		hvs := func() []hv {
			return []hv{
				{"consensuspayload", hdr(mk, oneKey, oneSig), &c24lenbT{}, vmk},
				{"bookkeepers", hdr([]byte(`{"leader":1}`), []keypair.PublicKey{edk, edk, edk}, oneSig), &c24lenbT{elem: keyElem}, list3(keyElem)},
				{"sigdata", hdr([]byte(`{"leader":1}`), oneKey, [][]byte{a5, a5, a5}), &c24lenbT{elem: sigElem}, list3(sigElem)},
				{"sig", hdr([]byte(`{"leader":1}`), oneKey, [][]byte{oneSig[0], mk}), &c24lenbT{}, vmk},
			}
		}
		h0 := c24header(101, 1)
		for _, v := range hvs() {
			v.t.static = c24lenbMsg("headers."+v.name, &BlkHeader{BlkHdr: []*ct.Header{h0, v.h}}, v.nd)
			add("headers."+v.name, p2pc.HEADERS_TYPE, v.t)
		}
		// block: the header fields again (another decoder path: types.Block), and the cross-chain message
		blk := func(h *ct.Header, cc *ct.CrossChainMsg) *Block {
			b := &ct.Block{Header: h, Transactions: []*ct.Transaction{c24tx("invoke", 1)}}
			b.RebuildMerkleRoot()
			return &Block{Blk: b, MerkleRoot: c24hash(0x77), CCMsg: cc}
		}
		ccm := func(sigs [][]byte) *ct.CrossChainMsg {
			return &ct.CrossChainMsg{Version: 0, Height: 199, StatesRoot: c24hash(0x55), SigData: sigs}
		}
		for _, v := range hvs() {
			if v.name == "bookkeepers" {
				continue // the same types.Header decoder as in headers.bookkeepers; 65537 keys once is enough
			}
			v.t.static = c24lenbMsg("block."+v.name, blk(v.h, ccm(oneSig)), v.nd)
			add("block."+v.name, p2pc.BLOCK_TYPE, v.t)
		}
		add("block.ccsigdata", p2pc.BLOCK_TYPE, &c24lenbT{elem: sigElem,
			static: c24lenbMsg("block.ccsigdata", blk(hdr([]byte(`{"leader":1}`), oneKey, oneSig), ccm([][]byte{a5, a5, a5})), list3(sigElem))})
		add("block.ccsig", p2pc.BLOCK_TYPE, st("block.ccsig", blk(hdr([]byte(`{"leader":1}`), oneKey, oneSig), ccm([][]byte{oneSig[0], mk})), vmk))

		// transactions
		mktx := func(ty ct.TransactionType, pl ct.Payload) *Trn {
			mtx := &ct.MutableTransaction{Version: 0, TxType: ty, Nonce: 9, GasPrice: 2500, GasLimit: 20000, Payer: c24acct(1).Address, Payload: pl}
			tx, err := mtx.IntoImmutable()
			if err != nil {
				panic("lenb template tx: " + err.Error())
			}
			return &Trn{Txn: tx}
		}
		add("tx.invokecode", p2pc.TX_TYPE, st("tx.invokecode", mktx(ct.InvokeNeo, &payload.InvokeCode{Code: mk}), vmk))
		dep := func(code []byte, name, desc string) *Trn {
			dc, err := payload.NewDeployCode(code, payload.NEOVM_TYPE, name, "1.0", "c24", "c24@example.org", desc)
			if err != nil {
				panic("lenb template tx deploy: " + err.Error())
			}
			return mktx(ct.Deploy, dc)
		}
		add("tx.deploycode", p2pc.TX_TYPE, st("tx.deploycode", dep(mk, "verif", "fixture"), vmk))
		tn := st("tx.deployname", dep([]byte{0x51, 0x52}, smk, "fixture"), vmk)
		tn.max = 252 // validateDeployCode
		add("tx.deployname", p2pc.TX_TYPE, tn)
		td := st("tx.deploydesc", dep([]byte{0x51, 0x52}, "verif", smk), vmk)
		td.max = 65536 // validateDeployCode
		add("tx.deploydesc", p2pc.TX_TYPE, td)
		// the two scripts of a transaction signature: the raw transaction of a signed value with one script replaced
		stx := c24tx("invoke", 7)
		if len(stx.Sigs) != 1 {
			panic("lenb template tx: signed fixture without signature")
		}
		add("tx.siginvoke", p2pc.TX_TYPE, st("tx.siginvoke", &Trn{Txn: stx}, c24varbytes(stx.Sigs[0].Invoke)))
		add("tx.sigverify", p2pc.TX_TYPE, st("tx.sigverify", &Trn{Txn: stx}, c24varbytes(stx.Sigs[0].Verify)))

		c24lenbAll = ts
	})
	return c24lenbAll
}

func c24lenbFind(name string) *c24lenbT {
	for _, t := range c24lenbTable() {
		if t.name == name {
			return t
		}
	}
	return nil
}

func c24lenbLengths(thorough bool) []int {
	ls := []int{0xfc, 0xfd, 0xfe, 0xff, 0x100, 0xfffe, 0xffff, 0x10000, 0x10001}
	if thorough {
		ls = append(ls, 0, 1, c24lenbRef, 0xfb, 0x101, 0xfffd, 0x10002)
	}
	return ls
}

// c24lenbFixes: the fixtures of the family (one per template; the frame is a bare header, the cases are generated).
func c24lenbFixes() []*c24fix {
	var out []*c24fix
	for _, t := range c24lenbTable() {
		out = append(out, &c24fix{Name: "lenb/" + t.name, Cmd: t.cmd, Mode: "lenb", Kind0: "lenb", Frame: hex.EncodeToString(c24frame(t.cmd, nil))})
	}
	return out
}

func c24genLenb(f *c24fix, thorough bool, emit c24emit) {
	t := c24lenbFind(strings.TrimPrefix(f.Name, "lenb/"))
	if t == nil {
		panic("unknown lenb template " + f.Name)
	}
	unit := "bytes"
	if t.elem != nil {
		unit = "elements"
	}
	for _, L := range c24lenbLengths(thorough) {
		if t.max > 0 && L > t.max {
			continue
		}
		cw := c24lenbWidth(uint64(L))
		for _, w := range []int{1, 3, 5, 9} {
			if w < cw {
				continue
			}
			kind := "lenb-overlong"
			if w == cw {
				kind = "lenb-canonical"
			}
			L, w := L, w
			gen := fmt.Sprintf("lenb:%s:%d:%d", t.name, L, w)
			desc := fmt.Sprintf("%s of %#x %s, length prefix %x (%d bytes wide, shortest is %d)", t.name, L, unit, c24lenbPrefix(uint64(L), w), w, cw)
			if !emit(kind, desc, -1, 0, gen, func() []byte { return c24frame(t.cmd, t.payload(L, w)) }) {
				return
			}
		}
	}
}

func c24lenbParse(gen string) (t *c24lenbT, L, w int) {
	p := strings.Split(gen, ":")
	if len(p) != 4 || p[0] != "lenb" {
		return nil, 0, 0
	}
	L, _ = strconv.Atoi(p[2])
	w, _ = strconv.Atoi(p[3])
	return c24lenbFind(p[1]), L, w
}

// c24lenbStream rebuilds the stream of a stored case (replay, attribution of a worker death).
func c24lenbStream(gen string) []byte {
	t, L, w := c24lenbParse(gen)
	if t == nil || (w != 1 && w != 3 && w != 5 && w != 9) || w < c24lenbWidth(uint64(L)) {
		return nil
	}
	return c24frame(t.cmd, t.payload(L, w))
}

// c24lenbRekey turns the generic verdicts of c24eval on a case of this family
// into the family's own violation classes:
//
//   lenboundary:<cmd>:<field>:canonical-rejected   the shortest-prefix frame is refused
//   lenboundary:<cmd>:<field>:canonical-altered    ... is accepted but re-serializes differently
//   lenboundary:<cmd>:<field>:overlong-accepted    a longer-than-shortest prefix is accepted (and re-serialized
//                                                  differently) although the same decoder refuses the same
//                                                  over-long width at the unremarkable length 0x21
//
// An over-long prefix that the decoder also accepts at length 0x21 is the
// field-wide defect "non-canonical encoding accepted" which c24eval already
// names reencode:<cmd>:normalized@<part>; that key is kept.
func c24lenbRekey(kind, gen string, stream []byte, outcome string, viols []c24viol) []c24viol {
	t, L, w := c24lenbParse(gen)
	if t == nil {
		return viols
	}
	base := "lenboundary:" + t.cmd + ":" + t.field
	what := fmt.Sprintf("length/count %#x with prefix %x", L, c24lenbPrefix(uint64(L), w))
	var out []c24viol
	for _, v := range viols {
		if strings.HasPrefix(v.Key, "reencode:") {
			if kind == "lenb-canonical" {
				v = c24viol{base + ":canonical-altered", "canonical frame (" + what + ", what Serialization writes for this value): " + v.Detail}
			} else if !c24lenbRefAccepted(t, w) {
				v = c24viol{base + ":overlong-accepted", "over-long " + what + " (shortest is " + strconv.Itoa(c24lenbWidth(uint64(L))) +
					" bytes; the same width is refused at length 0x21): " + v.Detail}
			}
		}
		out = append(out, v)
	}
	if kind == "lenb-canonical" && outcome == "err" {
		var err error
		vh.Catch(func() { _, _, err = ReadMessage(bytes.NewReader(stream)) })
		out = append(out, c24viol{base + ":canonical-rejected",
			fmt.Sprintf("canonical frame (%s, what Serialization writes for this value) is rejected by ReadMessage: %v", what, err)})
	}
	return out
}

var c24lenbRefMemo = map[string]bool{}

func c24lenbRefAccepted(t *c24lenbT, w int) bool {
	if w <= 1 {
		return true
	}
	k := t.name + ":" + strconv.Itoa(w)
	if v, ok := c24lenbRefMemo[k]; ok {
		return v
	}
	var err error
	p := vh.Catch(func() { _, _, err = ReadMessage(bytes.NewReader(c24frame(t.cmd, t.payload(c24lenbRef, w)))) })
	c24lenbRefMemo[k] = p == "" && err == nil
	return c24lenbRefMemo[k]
}

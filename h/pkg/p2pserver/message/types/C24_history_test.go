package types

// C24, unit "history" — a message returned by ReadMessage stays the message
// that was read, whatever is read afterwards.
//
// The decode unit (C24_p2pdecode_test.go) evaluates every frame in isolation.
// The property, however, speaks of "reading a message from the network": a
// node reads frame after frame from one link (link.Rx: one bufio.Reader per
// connection, one ReadMessage per frame) and from many links; the messages
// handed out are queued, stored and re-broadcast long after later frames were
// read.  "Returns a message whose re-serialization reproduces the payload" is
// therefore a statement about the returned object for as long as it lives, and
// the result of reading a frame must be a function of the frame, not of the
// frames read before it.
//
// This unit enumerates READ HISTORIES: every ordered pair of the alphabet
// below and every ordered triple of a reduced alphabet (quick) / of the whole
// alphabet (thorough), each under two reader arrangements:
//   one-link     all frames arrive on one connection, one bufio.Reader of
//                MAX_BUF_LEN over a reader that delivers one frame per Read
//                call (exactly link.Rx);
//   other-links  every frame arrives on its own connection / bufio.Reader.
// Alphabet: every hand-built fixture frame of the decode unit (all message
// types registered in the factory, several shapes each, valid and
// alternative encodings, the over-cap frames the decoder rejects),
// unknown-type messages with 256 B, 4 KiB and 64 KiB payloads, and two
// frames the reader must reject (bad checksum; undecodable payload) so that
// histories run through the error paths too.
//
// Oracle, per history e1..ek (k<=3):
//  * the verdict (message / error / panic), the reported payload length and
//    the re-serialization of the message read at position i equal those of
//    the same frame read alone (baseline, taken at process start);
//  * after every later read (successful or not) every message read earlier
//    must still re-serialize to exactly what it serialized to right after its
//    own read, and its complete object state (a reflective fingerprint of
//    every reachable field, taken right after its own read) must be unchanged.
// The comparison is always "the object now" against "the same object right
// after it was read" (self-consistency over time) or against the same frame
// read alone, never against the wire bytes: the listed re-encoding classes of
// the decode unit cannot reappear here under new keys.

import (
	"bufio"
	"bytes"
	"crypto/elliptic"
	"crypto/sha256"
	"encoding/binary"
	"encoding/hex"
	"fmt"
	"hash"
	"io"
	"reflect"
	"sort"
	"strings"
	"testing"

	ocomm "github.com/ontio/ontology/common"
	p2pc "github.com/ontio/ontology/p2pserver/common"
	"github.com/ontio/ontology/verifshim/vh"
)

// ---------------------------------------------------------------- alphabet

type c24hel struct {
	Name  string
	Cmd   string // command key of the frame (registered command or "unknown")
	Frame []byte
	Rep   bool // member of the reduced alphabet of the triples
	Bad   bool // a frame the reader must reject
}

// c24hcase is the replayable form of one history.
type c24hcase struct {
	Hist    []string `json:"hist"`    // element names, in reading order
	Frames  []string `json:"frames"`  // the frames, hex
	Readers string   `json:"readers"` // one-link | other-links
}

// c24chunks is a connection that delivers one frame per Read call (never
// more than what one peer write carried), so that a bufio.Reader on top of it
// refills — and reuses its buffer — at every frame, as on a real link.
type c24chunks struct {
	chunks [][]byte
	i, off int
}

func (c *c24chunks) Read(p []byte) (int, error) {
	for c.i < len(c.chunks) && c.off >= len(c.chunks[c.i]) {
		c.i++
		c.off = 0
	}
	if c.i >= len(c.chunks) {
		return 0, io.EOF
	}
	n := copy(p, c.chunks[c.i][c.off:])
	c.off += n
	return n, nil
}

func c24halphabet(r *vh.Run, fixes []*c24fix) []*c24hel {
	var els []*c24hel
	seenCmd := map[string]bool{}
	for _, f := range fixes {
		if f.Mode == "tiny" || f.Mode == "header" || f.Mode == "replay" {
			continue // header/* duplicate ping and getaddr; tiny/* are undecodable stubs
		}
		fr := f.bytes()
		e := &c24hel{Name: f.Name, Cmd: c24cmdKey(fr[4:16]), Frame: fr}
		if f.Kind0 == "roundtrip" && f.Mode == "full" && !seenCmd[e.Cmd] {
			seenCmd[e.Cmd] = true
			e.Rep = true
		}
		els = append(els, e)
	}
	// the richest shapes of the two subnet messages rather than the first ones
	prefer := map[string]string{"getmembers": "getmembers/gov", "members": "members/2", "headers": "headers/2", "tx": "tx/multisig"}
	for cmd, name := range prefer {
		var first, want *c24hel
		for _, e := range els {
			if e.Cmd == cmd && e.Rep {
				first = e
			}
			if e.Name == name {
				want = e
			}
		}
		if first != nil && want != nil && first != want {
			first.Rep, want.Rep = false, true
		}
	}
	for _, n := range []int{256, 4096, 65536} {
		els = append(els, &c24hel{Name: fmt.Sprintf("opaque/%dB", n), Cmd: "unknown", Frame: c24frame("verifbig", c24fill(n)), Rep: n == 65536})
	}
	// frames the reader must reject, stream stays aligned after them
	var votes, gov []byte
	for _, e := range els {
		switch e.Name {
		case "offline/votes":
			votes = e.Frame
		case "getmembers/gov":
			gov = e.Frame
		}
	}
	r.Need(votes != nil && gov != nil, "history alphabet: fixtures offline/votes and getmembers/gov not found")
	bad := append([]byte{}, votes...)
	bad[20] ^= 0x01
	els = append(els, &c24hel{Name: "bad/checksum(offline)", Cmd: "offline", Frame: bad, Rep: true, Bad: true})
	pl := gov[24:]
	els = append(els, &c24hel{Name: "bad/undecodable(getmembers)", Cmd: "getmembers", Frame: c24frame(p2pc.GET_SUBNET_MEMBERS_TYPE, pl[:len(pl)-1]), Rep: true, Bad: true})
	return els
}

// ---------------------------------------------------------------- observations

func c24hser(msg Message) (out []byte, p string) {
	p = vh.Catch(func() {
		sink := ocomm.NewZeroCopySink(nil)
		msg.Serialization(sink)
		out = append([]byte{}, sink.Bytes()...)
	})
	return
}

var c24curveT = reflect.TypeOf((*elliptic.Curve)(nil)).Elem()

type c24fper struct {
	h    hash.Hash
	seen map[uintptr]int
	tmp  [9]byte
}

func (f *c24fper) tag(t byte, v uint64) {
	f.tmp[0] = t
	binary.LittleEndian.PutUint64(f.tmp[1:], v)
	f.h.Write(f.tmp[:])
}

// walk feeds a canonical, address-free description of everything reachable
// from v (exported and unexported fields, through pointers, interfaces,
// slices, arrays and maps) into the hash.  Shared pointers are numbered in
// visiting order; elliptic curves (shared, immutable parameter objects) are
// named, not walked.
func (f *c24fper) walk(v reflect.Value, depth int) {
	if depth > 64 {
		f.tag('D', 0)
		return
	}
	switch v.Kind() {
	case reflect.Invalid:
		f.tag('0', 0)
	case reflect.Bool:
		if v.Bool() {
			f.tag('b', 1)
		} else {
			f.tag('b', 0)
		}
	case reflect.Int, reflect.Int8, reflect.Int16, reflect.Int32, reflect.Int64:
		f.tag('i', uint64(v.Int()))
	case reflect.Uint, reflect.Uint8, reflect.Uint16, reflect.Uint32, reflect.Uint64, reflect.Uintptr:
		f.tag('u', v.Uint())
	case reflect.Float32, reflect.Float64:
		f.tag('f', uint64(int64(v.Float()*1e6)))
	case reflect.String:
		s := v.String()
		f.tag('s', uint64(len(s)))
		io.WriteString(f.h, s)
	case reflect.Slice:
		if v.IsNil() {
			f.tag('n', 0)
			return
		}
		f.tag('l', uint64(v.Len()))
		if v.Type().Elem().Kind() == reflect.Uint8 {
			f.h.Write(v.Bytes())
			return
		}
		for i := 0; i < v.Len(); i++ {
			f.walk(v.Index(i), depth+1)
		}
	case reflect.Array:
		f.tag('a', uint64(v.Len()))
		if v.Type().Elem().Kind() == reflect.Uint8 {
			b := make([]byte, v.Len())
			for i := range b {
				b[i] = byte(v.Index(i).Uint())
			}
			f.h.Write(b)
			return
		}
		for i := 0; i < v.Len(); i++ {
			f.walk(v.Index(i), depth+1)
		}
	case reflect.Ptr:
		if v.IsNil() {
			f.tag('n', 1)
			return
		}
		if v.Type().Implements(c24curveT) {
			f.tag('c', 0)
			io.WriteString(f.h, v.Type().String())
			return
		}
		p := v.Pointer()
		if n, ok := f.seen[p]; ok {
			f.tag('r', uint64(n))
			return
		}
		f.seen[p] = len(f.seen)
		f.tag('p', 0)
		f.walk(v.Elem(), depth+1)
	case reflect.Interface:
		if v.IsNil() {
			f.tag('n', 2)
			return
		}
		e := v.Elem()
		f.tag('I', 0)
		io.WriteString(f.h, e.Type().String())
		if e.Type().Implements(c24curveT) {
			return
		}
		f.walk(e, depth+1)
	case reflect.Struct:
		f.tag('S', uint64(v.NumField()))
		for i := 0; i < v.NumField(); i++ {
			f.walk(v.Field(i), depth+1)
		}
	case reflect.Map:
		if v.IsNil() {
			f.tag('n', 3)
			return
		}
		type kv struct {
			k string
			v reflect.Value
		}
		var ents []kv
		it := v.MapRange()
		for it.Next() {
			sub := &c24fper{h: sha256.New(), seen: map[uintptr]int{}}
			sub.walk(it.Key(), depth+1)
			ents = append(ents, kv{string(sub.h.Sum(nil)), it.Value()})
		}
		sort.Slice(ents, func(i, j int) bool { return ents[i].k < ents[j].k })
		f.tag('m', uint64(len(ents)))
		for _, e := range ents {
			io.WriteString(f.h, e.k)
			f.walk(e.v, depth+1)
		}
	default: // chan, func, unsafe pointer: identity is not content
		f.tag('x', uint64(v.Kind()))
	}
}

// c24fp: fingerprint of the complete object state of a message.
func c24fp(msg Message) (out [32]byte, p string) {
	p = vh.Catch(func() {
		f := &c24fper{h: sha256.New(), seen: map[uintptr]int{}}
		f.walk(reflect.ValueOf(msg), 0)
		copy(out[:], f.h.Sum(nil))
	})
	return
}

type c24hbase struct {
	verdict string // ok | err | panic
	n       uint32
	ser     []byte
}

func c24hread(rd io.Reader) (msg Message, n uint32, verdict, why string) {
	var err error
	p := vh.Catch(func() { msg, n, err = ReadMessage(rd) })
	switch {
	case p != "":
		return nil, 0, "panic", p
	case err != nil:
		return nil, 0, "err", err.Error()
	case msg == nil:
		return nil, 0, "nil", "neither message nor error"
	}
	return msg, n, "ok", ""
}

type c24hlive struct {
	el     *c24hel
	pos    int
	msg    Message
	ser    []byte
	fp     [32]byte
	broken bool
}

type c24hrun struct {
	link  *bufio.Reader    // the connection of the one-link arrangement
	links [3]*bufio.Reader // one connection per position of the other-links arrangement
}

func c24hnewrun() *c24hrun {
	h := &c24hrun{link: bufio.NewReaderSize(&c24chunks{}, p2pc.MAX_BUF_LEN)}
	for i := range h.links {
		h.links[i] = bufio.NewReaderSize(&c24chunks{}, p2pc.MAX_BUF_LEN)
	}
	return h
}

func c24diff(a, b []byte) int {
	d := 0
	for d < len(a) && d < len(b) && a[d] == b[d] {
		d++
	}
	return d
}

// history runs one history and returns the violations and an outcome class.
func (h *c24hrun) history(els []*c24hel, base map[string]*c24hbase, hist []int, readers string) (viols []c24viol, outcome string) {
	add := func(key, format string, a ...interface{}) {
		viols = append(viols, c24viol{key, fmt.Sprintf(format, a...)})
	}
	var names []string
	for _, ei := range hist {
		names = append(names, els[ei].Name)
	}
	where := strings.Join(names, " ; ")
	if readers == "one-link" {
		var chunks [][]byte
		for _, ei := range hist {
			chunks = append(chunks, els[ei].Frame)
		}
		h.link.Reset(&c24chunks{chunks: chunks})
	}
	var lives []*c24hlive
	nok, nerr := 0, 0
	for pos, ei := range hist {
		el := els[ei]
		rd := h.link
		if readers != "one-link" {
			rd = h.links[pos%len(h.links)]
			rd.Reset(&c24chunks{chunks: [][]byte{el.Frame}})
		}
		msg, n, verdict, why := c24hread(rd)
		b := base[el.Name]
		if verdict != b.verdict {
			add("history:"+el.Cmd+":verdict-depends-on-earlier-reads", "[%s | %s] frame %d (%s) read alone gives %q, read at this position gives %q (%s)", where, readers, pos+1, el.Name, b.verdict, verdict, why)
		}
		// every message read earlier must be what it was right after its own read
		for _, lv := range lives {
			if lv.broken {
				continue
			}
			s, p := c24hser(lv.msg)
			if p != "" {
				lv.broken = true
				add("history:"+lv.el.Cmd+":reserialization-panics-after-later-read", "[%s | %s] the message read at position %d (%s) serialized fine right after it was read; after frame %d (%s, %s) was read its Serialization panics: %s",
					where, readers, lv.pos+1, lv.el.Name, pos+1, el.Name, verdict, p)
				continue
			}
			if !bytes.Equal(s, lv.ser) {
				lv.broken = true
				d := c24diff(s, lv.ser)
				add("history:"+lv.el.Cmd+":reserialization-changed-by-later-read", "[%s | %s] the message returned for frame %d (%s) re-serialized to %d bytes right after it was read; after frame %d (%s, %s) was read the same object re-serializes differently from offset %d (field %s): was %s, now %s",
					where, readers, lv.pos+1, lv.el.Name, len(lv.ser), pos+1, el.Name, verdict, d, c24partAt(c24layout(lv.msg), d),
					vh.Hex(lv.ser[d:c24min(len(lv.ser), d+12)]), vh.Hex(s[d:c24min(len(s), d+12)]))
				continue
			}
			if fp, p := c24fp(lv.msg); p == "" && fp != lv.fp {
				lv.broken = true
				add("history:"+lv.el.Cmd+":state-changed-by-later-read", "[%s | %s] the message returned for frame %d (%s) still re-serializes identically, but its object state (fingerprint of all reachable fields) changed after frame %d (%s, %s) was read",
					where, readers, lv.pos+1, lv.el.Name, pos+1, el.Name, verdict)
			}
		}
		if verdict != "ok" {
			nerr++
			continue
		}
		nok++
		s, p := c24hser(msg)
		if p != "" {
			// a fixture frame whose result cannot be serialized: the decode unit reports that; here only history matters
			if b.verdict == "ok" && b.ser != nil {
				add("history:"+el.Cmd+":result-depends-on-earlier-reads", "[%s | %s] frame %d (%s): Serialization of the returned message panics (%s); it does not when the frame is read alone", where, readers, pos+1, el.Name, p)
			}
			continue
		}
		if b.verdict == "ok" && (n != b.n || !bytes.Equal(s, b.ser)) {
			d := c24diff(s, b.ser)
			add("history:"+el.Cmd+":result-depends-on-earlier-reads", "[%s | %s] frame %d (%s): the returned message (length %d) re-serializes differently from the same frame read alone (length %d), first difference at offset %d: alone %s, here %s",
				where, readers, pos+1, el.Name, n, b.n, d, vh.Hex(b.ser[d:c24min(len(b.ser), d+12)]), vh.Hex(s[d:c24min(len(s), d+12)]))
		}
		fp, _ := c24fp(msg)
		lives = append(lives, &c24hlive{el: el, pos: pos, msg: msg, ser: s, fp: fp})
	}
	switch {
	case len(viols) > 0:
		outcome = "violation"
	case nerr == 0:
		outcome = "all frames read, every message stable"
	case nok == 0:
		outcome = "all frames rejected"
	default:
		outcome = "some frames rejected, every message stable"
	}
	return
}

func c24hmkcase(els []*c24hel, hist []int, readers string) *c24hcase {
	c := &c24hcase{Readers: readers}
	for _, ei := range hist {
		c.Hist = append(c.Hist, els[ei].Name)
		c.Frames = append(c.Frames, hex.EncodeToString(els[ei].Frame))
	}
	return c
}

// ---------------------------------------------------------------- the unit

func TestVerif_C24_History(t *testing.T) {
	r := vh.Start(t, "C24", "history")
	defer r.Finish()
	r.Rule("read histories: every ordered pair of the frame alphabet and every ordered triple of the reduced alphabet (quick: one frame per message type + 64 KiB opaque + 2 rejected frames; thorough: the whole alphabet), " +
		"each read with ReadMessage (a) from one bufio.Reader(MAX_BUF_LEN) over a connection that delivers one frame per Read (link.Rx) and (b) from one such reader per frame (other links). " +
		"Alphabet = every hand-built fixture frame of the decode unit (all registered message types, several shapes, alternative encodings, over-cap frames), unknown-type messages of 256 B / 4 KiB / 64 KiB, a bad-checksum frame and an undecodable frame. " +
		"Oracle: verdict, length and re-serialization of the message at every position equal those of the same frame read alone; after every later read each earlier message still re-serializes to exactly what it did right after its own read " +
		"and its reflective whole-object fingerprint is unchanged. distinct = (history length, reader arrangement, outcome), (message type read first, stable) and oracle-sensitivity probe classes")
	r.Bound("history length <= 3; alphabet as listed in coverage.history.alphabet; two reader arrangements; sequential reads (no concurrent ReadMessage calls)")
	r.Assume("within one shard process the histories run one after the other in a fixed order, so package-level state of the reader (if any) carries over from one history to the next; every verdict is still compared with the frame read alone at process start")

	h := c24hnewrun()

	// ---- replay of one stored history
	var rc c24hcase
	if r.IsReplay() {
		if !r.ReplayCase(&rc) || len(rc.Frames) == 0 {
			return // a case of the decode unit
		}
		var els []*c24hel
		var hist []int
		base := map[string]*c24hbase{}
		for i, fx := range rc.Frames {
			fr, err := hex.DecodeString(fx)
			r.Need(err == nil && len(fr) >= 24 && i < len(rc.Hist), "replay: malformed history case")
			name := fmt.Sprintf("%d:%s", i, rc.Hist[i])
			els = append(els, &c24hel{Name: name, Cmd: c24cmdKey(fr[4:16]), Frame: fr})
			hist = append(hist, i)
		}
		for _, e := range els {
			base[e.Name] = c24hbaseline(h, e)
		}
		viols, outcome := h.history(els, base, hist, rc.Readers)
		r.Eval(1)
		r.Class(fmt.Sprintf("hist%d/%s: %s", len(hist), rc.Readers, outcome))
		for _, v := range viols {
			r.Violation(v.Key, v.Detail, &rc)
		}
		return
	}

	// ---- alphabet
	reg, err := c24registered()
	if err != nil {
		r.Assume("message factory source not readable (" + err.Error() + "); the built-in list of 21 commands was used")
		reg = c24builtin
	}
	var fixes []*c24fix
	p := vh.Catch(func() { fixes = c24fixtures(r, reg) })
	r.Need(p == "", "building fixtures panicked: %s", p)
	els := c24halphabet(r, fixes)
	base := map[string]*c24hbase{}
	var names []string
	var reps []int
	okTypes := map[string]bool{}
	nOK := 0
	for i, e := range els {
		r.Need(base[e.Name] == nil, "history alphabet: duplicate element %s", e.Name)
		b := c24hbaseline(h, e)
		base[e.Name] = b
		names = append(names, fmt.Sprintf("%s(%s,%dB,%s)", e.Name, e.Cmd, len(e.Frame)-24, b.verdict))
		if e.Rep {
			reps = append(reps, i)
		}
		if b.verdict == "ok" {
			nOK++
			okTypes[e.Cmd] = true
		}
		r.Need(!e.Bad || b.verdict == "err", "history alphabet: %s is meant to be rejected but read alone gives %q", e.Name, b.verdict)
		r.Need(!e.Rep || e.Bad || b.verdict == "ok", "history alphabet: representative %s is not readable alone (%s)", e.Name, b.verdict)
	}
	r.Set("alphabet", names)
	for _, cmd := range reg {
		r.Need(okTypes[cmd], "history alphabet: no readable frame of registered message type %q", cmd)
	}
	r.Need(okTypes["unknown"], "history alphabet: no readable unknown-type frame")
	r.Need(nOK >= 35 && len(reps) >= len(reg)+3, "history alphabet too small: %d readable frames, %d representatives", nOK, len(reps))

	// ---- oracle sensitivity (non-vacuity): for message types whose decoder keeps zero-copy slices of the payload
	// buffer, overwriting a buffer the harness owns after decoding must be visible to the two observations used above
	if r.Mine(0) {
		for _, e := range els {
			if base[e.Name].verdict != "ok" {
				continue
			}
			buf := append([]byte{}, e.Frame[24:]...)
			msg := makeEmptyMessage(string(bytes.TrimRight(e.Frame[4:16], "\x00")))
			var derr error
			if p := vh.Catch(func() { derr = msg.Deserialization(ocomm.NewZeroCopySource(buf)) }); p != "" || derr != nil {
				continue
			}
			s0, p0 := c24hser(msg)
			f0, _ := c24fp(msg)
			for i := range buf {
				buf[i] = ^buf[i]
			}
			s1, p1 := c24hser(msg)
			f1, _ := c24fp(msg)
			switch {
			case p0 == "" && (p1 != "" || !bytes.Equal(s0, s1)):
				r.Class("probe: oracle sees an overwritten payload buffer (re-serialization)")
				r.Class("probe: " + e.Cmd + " keeps slices of its payload buffer")
			case f0 != f1:
				r.Class("probe: oracle sees an overwritten payload buffer (object state)")
				r.Class("probe: " + e.Cmd + " keeps slices of its payload buffer")
			default:
				r.Class("probe: " + e.Cmd + " copies out of its payload buffer")
			}
		}
	}

	// ---- histories
	all := make([]int, len(els))
	for i := range all {
		all[i] = i
	}
	tri := reps
	if r.Thorough() {
		tri = all
	}
	if r.Mine(0) { // numeric extras are summed over shards
		r.Set("pair_alphabet_size", int64(len(all)))
		r.Set("triple_alphabet_size", int64(len(tri)))
	}
	idx, mine := 0, 0
	stop := false
	run := func(hist []int, readers string) {
		i := idx
		idx++
		if stop || !r.Mine(i) {
			return
		}
		mine++
		if mine%64 == 0 && r.Expired() {
			stop = true
			return
		}
		viols, outcome := h.history(els, base, hist, readers)
		r.Eval(1)
		r.Class(fmt.Sprintf("hist%d/%s: %s", len(hist), readers, outcome))
		if len(viols) == 0 && base[els[hist[0]].Name].verdict == "ok" {
			r.Class("first read " + els[hist[0]].Cmd + ": stable after later reads")
		}
		for _, v := range viols {
			r.Violation(v.Key, v.Detail, c24hmkcase(els, hist, readers))
		}
		if i%4001 == 17 {
			c := c24hmkcase(els, hist, readers)
			c.Frames = nil // samples name the frames only
			r.Sample(c)
		}
	}
	for _, readers := range []string{"one-link", "other-links"} {
		for _, a := range all {
			for _, b := range all {
				run([]int{a, b}, readers)
			}
		}
		for _, a := range tri {
			for _, b := range tri {
				for _, c := range tri {
					run([]int{a, b, c}, readers)
				}
			}
		}
	}
	if r.Mine(0) {
		r.Set("histories_enumerated", int64(idx))
	}
}

func c24hbaseline(h *c24hrun, e *c24hel) *c24hbase {
	rd := h.links[0]
	rd.Reset(&c24chunks{chunks: [][]byte{e.Frame}})
	msg, n, verdict, _ := c24hread(rd)
	b := &c24hbase{verdict: verdict, n: n}
	if verdict == "ok" {
		s, p := c24hser(msg)
		if p == "" {
			b.ser = s
			if b.ser == nil {
				b.ser = []byte{}
			}
		}
	}
	return b
}

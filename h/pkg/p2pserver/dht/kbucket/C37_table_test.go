package kbucket

import (
	"bytes"
	"fmt"
	"strings"
	"testing"

	ocom "github.com/ontio/ontology/common"
	"github.com/ontio/ontology/p2pserver/common"
	"github.com/ontio/ontology/verifshim/vh"
	"github.com/ontio/ontology/verifshim/xs"
)

// C37: explicit-state search over Update/Remove histories on the real
// RouteTable.  The peer ids are crafted from the local id: peer (cpl, variant)
// equals the local id with bit `cpl` flipped and `variant` xor-ed into the
// last byte (so two peers with the same cpl differ only in the last bits:
// "adversarially close").  The whole table state is the ordered content of
// every bucket, which is the state key.  In every distinct state the
// structural invariants of the statement are evaluated on rt.Buckets /
// ListPeers / NearestPeers / Find.

var c37localRaw = [20]byte{0x5a, 0xc3, 0x0f, 0x99, 0x21, 0x7e, 0xd4, 0x08, 0xb6, 0x6b,
	0x35, 0xe2, 0x4c, 0x90, 0x17, 0xaf, 0x73, 0x2d, 0x81, 0x64}

type c37peer struct {
	cpl     int // common-prefix length with the local id by construction (160 = the local id itself)
	variant byte
	raw     [20]byte
	id      common.PeerId
	name    string
}

func c37mkid(raw [20]byte) common.PeerId {
	var id common.PeerId
	if err := id.Deserialization(ocom.NewZeroCopySource(raw[:])); err != nil {
		panic(err)
	}
	return id
}

func c37mk(cpl int, variant byte) c37peer {
	raw := c37localRaw
	if cpl < 160 {
		raw[cpl/8] ^= 0x80 >> uint(cpl%8)
	}
	raw[19] ^= variant
	p := c37peer{cpl: cpl, variant: variant, raw: raw, id: c37mkid(raw)}
	p.name = fmt.Sprintf("p%d.%d", cpl, variant)
	return p
}

// independent common-prefix length on the raw bytes
func c37cpl(a, b [20]byte) int {
	for i := 0; i < 160; i++ {
		m := byte(0x80 >> uint(i%8))
		if (a[i/8]^b[i/8])&m != 0 {
			return i
		}
	}
	return 160
}

func c37xor(a, b [20]byte) []byte {
	o := make([]byte, 20)
	for i := range o {
		o[i] = a[i] ^ b[i]
	}
	return o
}

type c37sys struct {
	rt      *RouteTable
	last    string // class of the last event
	added   int    // PeerAdded notifications
	removed int
}

type c37env struct {
	r       *vh.Run
	peers   []c37peer
	byID    map[common.PeerId]int
	targets []c37peer
	bsize   int
	checked map[string]bool
	maxB    int
}

func (e *c37env) init() interface{} {
	s := &c37sys{rt: NewRoutingTable(e.bsize, c37mkid(c37localRaw))}
	s.rt.PeerAdded = func(common.PeerId) { s.added++ }
	s.rt.PeerRemoved = func(common.PeerId) { s.removed++ }
	return s
}

func (e *c37env) name(id common.PeerId) string {
	if i, ok := e.byID[id]; ok {
		return e.peers[i].name
	}
	return "?" + id.ToHexString()
}

func (e *c37env) key(si interface{}) string {
	s := si.(*c37sys)
	var sb strings.Builder
	for _, b := range s.rt.Buckets {
		sb.WriteByte('[')
		for el := b.list.Front(); el != nil; el = el.Next() {
			sb.WriteString(e.name(el.Value.(common.PeerIDAddressPair).ID))
			sb.WriteByte(' ')
		}
		sb.WriteByte(']')
	}
	return sb.String()
}

func (e *c37env) members(s *c37sys) map[common.PeerId]int {
	m := map[common.PeerId]int{}
	for _, b := range s.rt.Buckets {
		for el := b.list.Front(); el != nil; el = el.Next() {
			m[el.Value.(common.PeerIDAddressPair).ID]++
		}
	}
	return m
}

func (e *c37env) events(interface{}) []string {
	var ev []string
	for i := range e.peers {
		ev = append(ev, fmt.Sprintf("U%d", i))
	}
	for i := range e.peers {
		ev = append(ev, fmt.Sprintf("R%d", i))
	}
	return ev
}

func (e *c37env) apply(si interface{}, ev string) (string, string) {
	s := si.(*c37sys)
	var idx int
	fmt.Sscanf(ev[1:], "%d", &idx)
	p := e.peers[idx]
	before := e.members(s)
	nb := len(s.rt.Buckets)
	var err error
	var pn string
	if ev[0] == 'U' {
		pn = vh.Catch(func() { err = s.rt.Update(p.id, "addr-"+p.name) })
		after := e.members(s)
		switch {
		case pn != "":
			s.last = "update:panic"
		case err != nil && len(s.rt.Buckets) > nb:
			s.last = "update:rejected-after-unfold"
		case err != nil:
			s.last = "update:rejected-full-bucket"
		case before[p.id] > 0:
			s.last = "update:moved-to-front"
		case len(s.rt.Buckets) > nb+1:
			s.last = "update:added-after-multi-unfold"
		case len(s.rt.Buckets) > nb:
			s.last = "update:added-after-unfold"
		case after[p.id] > 0:
			s.last = "update:added"
		default:
			s.last = "update:nil-but-absent"
		}
	} else {
		pn = vh.Catch(func() { s.rt.Remove(p.id) })
		switch {
		case pn != "":
			s.last = "remove:panic"
		case before[p.id] > 0:
			s.last = "remove:present"
		default:
			s.last = "remove:absent"
		}
	}
	if len(s.rt.Buckets) > e.maxB {
		e.maxB = len(s.rt.Buckets)
	}
	if pn != "" {
		return "panic:" + s.last, fmt.Sprintf("%s(%s) panicked: %s", ev, p.name, pn)
	}
	return "", ""
}

// check evaluates the statement in a state; it is a function of the state key
// only, so each distinct key is evaluated once.
func (e *c37env) check(si interface{}, hist []string) (string, string) {
	s := si.(*c37sys)
	if s.last != "" {
		e.r.Class(s.last) // once per explored transition (replays of a history do not come here)
	}
	k := e.key(s)
	if e.checked[k] {
		return "", ""
	}
	e.checked[k] = true
	e.r.Eval(1)
	rt := s.rt
	suffix := "" // the class of a violation is what is wrong with the table; the step is in the history
	if len(rt.Buckets) == 0 {
		return "no-buckets" + suffix, "table has no bucket"
	}
	// (1) every peer at most once, (2) bucket size, (3) right bucket
	seen := map[common.PeerId]int{}
	last := len(rt.Buckets) - 1
	for bi, b := range rt.Buckets {
		n := 0
		for el := b.list.Front(); el != nil; el = el.Next() {
			id := el.Value.(common.PeerIDAddressPair).ID
			n++
			if prev, dup := seen[id]; dup {
				return "duplicate-peer" + suffix, fmt.Sprintf("peer %s appears in bucket %d and again in bucket %d; table %s", e.name(id), prev, bi, k)
			}
			seen[id] = bi
			pi, known := e.byID[id]
			if !known {
				return "unknown-peer" + suffix, fmt.Sprintf("peer %s was never inserted; table %s", e.name(id), k)
			}
			want := c37cpl(e.peers[pi].raw, c37localRaw)
			if want > last {
				want = last
			}
			if want != bi {
				return "wrong-bucket" + suffix, fmt.Sprintf("peer %s (cpl %d) sits in bucket %d of %d, expected bucket %d; table %s", e.name(id), e.peers[pi].cpl, bi, len(rt.Buckets), want, k)
			}
		}
		if n > e.bsize {
			return "bucket-overflow" + suffix, fmt.Sprintf("bucket %d holds %d peers > bucketsize %d; table %s", bi, n, e.bsize, k)
		}
		if n != b.Len() {
			return "bucket-len-mismatch" + suffix, fmt.Sprintf("bucket %d Len()=%d but lists %d", bi, b.Len(), n)
		}
	}
	// the exported listing shows the same: each peer once
	lp := rt.ListPeers()
	ls := map[common.PeerId]bool{}
	for _, p := range lp {
		if ls[p.ID] {
			return "duplicate-peer:ListPeers" + suffix, fmt.Sprintf("ListPeers returns %s twice; table %s", e.name(p.ID), k)
		}
		ls[p.ID] = true
	}
	if len(lp) != len(seen) || rt.Size() != len(seen) {
		return "listing-disagrees" + suffix, fmt.Sprintf("ListPeers has %d, Size() %d, buckets hold %d; table %s", len(lp), rt.Size(), len(seen), k)
	}
	// (4) nearest-peer queries: distinct, non-decreasing XOR distance to the target
	for _, tg := range e.targets {
		for _, cnt := range []int{1, 2, 3, 20} {
			var out []common.PeerIDAddressPair
			if pn := vh.Catch(func() { out = rt.NearestPeers(tg.id, cnt) }); pn != "" {
				return "panic:nearest" + suffix, fmt.Sprintf("NearestPeers(%s,%d) panicked: %s; table %s", tg.name, cnt, pn, k)
			}
			got := map[common.PeerId]bool{}
			var prev []byte
			var names []string
			for _, p := range out {
				names = append(names, e.name(p.ID))
			}
			for _, p := range out {
				if got[p.ID] {
					return "nearest:duplicate" + suffix, fmt.Sprintf("NearestPeers(%s,%d) = %v lists %s twice; table %s", tg.name, cnt, names, e.name(p.ID), k)
				}
				got[p.ID] = true
				pi, known := e.byID[p.ID]
				if !known {
					return "nearest:unknown-peer" + suffix, fmt.Sprintf("NearestPeers(%s,%d) = %v returns a peer never inserted; table %s", tg.name, cnt, names, k)
				}
				d := c37xor(e.peers[pi].raw, tg.raw)
				if prev != nil && bytes.Compare(prev, d) > 0 {
					return "nearest:unsorted" + suffix, fmt.Sprintf("NearestPeers(%s,%d) = %v is not in non-decreasing XOR distance to the target; table %s", tg.name, cnt, names, k)
				}
				prev = d
			}
			if len(out) > 1 {
				e.r.Class("nearest:multi")
			}
		}
	}
	// (5) Find agrees with membership (Find is NearestPeers(id,1) by definition)
	for _, p := range e.peers {
		_, ok := rt.Find(p.id)
		if _, in := seen[p.id]; ok != in {
			return "find-disagrees-with-membership" + suffix, fmt.Sprintf("Find(%s)=%v but membership=%v; table %s", p.name, ok, in, k)
		}
	}
	e.r.Class(fmt.Sprintf("buckets=%d", c37bclass(len(rt.Buckets))))
	return "", ""
}

func c37bclass(n int) int {
	if n > 8 {
		return 9 // "deeply unfolded"
	}
	return n
}

func TestVerif_C37(t *testing.T) {
	r := vh.Start(t, "C37", "table")
	defer r.Finish()
	e := &c37env{r: r, byID: map[common.PeerId]int{}, checked: map[string]bool{}, bsize: 2}
	// quick: the ten ids of the design plus a third cpl-0 id (so that a full non-last bucket refuses a peer); thorough additionally: a second far-end
	// pair (cpl 158 twice: forces unfolding down to bucket 158) and the local id itself.
	spec := [][2]int{{0, 0}, {0, 1}, {0, 2}, {1, 0}, {1, 1}, {2, 0}, {2, 1}, {3, 0}, {5, 0}, {5, 1}, {159, 0}}
	if r.Thorough() {
		spec = append(spec, [2]int{158, 0}, [2]int{158, 1}, [2]int{160, 0})
	}
	for _, sp := range spec {
		p := c37mk(sp[0], byte(sp[1]))
		r.Need(c37cpl(p.raw, c37localRaw) == p.cpl && common.CommonPrefixLen(p.id, c37mkid(c37localRaw)) == p.cpl, "crafted id %s has cpl %d", p.name, common.CommonPrefixLen(p.id, c37mkid(c37localRaw)))
		_, dup := e.byID[p.id]
		r.Need(!dup, "duplicate crafted id %s", p.name)
		e.byID[p.id] = len(e.peers)
		e.peers = append(e.peers, p)
	}
	// query targets: the local id, a peer of the alphabet (member in some
	// states), a non-member one bit away from a member, far and near non-members
	e.targets = []c37peer{c37mk(160, 0), e.peers[0], c37mk(2, 2), c37mk(0, 0x80), c37mk(7, 0), c37mk(5, 3)}
	for i := range e.targets {
		e.targets[i].name = "t:" + e.targets[i].name
	}
	depth := r.Pick(64, 64)
	r.Rule("breadth-first search over Update(p)/Remove(p) histories on the real RouteTable (bucketsize 2), peers crafted with chosen common-prefix lengths incl. pairs differing only in the last bit; state = ordered content of every bucket; transitions = real Update/Remove calls; evaluations = distinct states in which the invariants (peer once, bucket<=size, bucket=min(cpl,last), NearestPeers distinct+sorted for 6 targets x k in {1,2,3,20}, Find=membership) were evaluated; classes = kinds of step outcome and bucket counts")
	r.Bound(fmt.Sprintf("peers cpl/variant %v, bucketsize 2, depth<=%d (search stops earlier when no new state appears)", spec, depth))
	cfg := xs.Config{Init: e.init, Events: e.events, Apply: e.apply, Key: e.key, Check: e.check, MaxDepth: depth}

	var rc struct {
		History []string `json:"history"`
	}
	if r.ReplayCase(&rc) {
		if k, d := xs.Replay(cfg, rc.History); k != "" {
			r.Violation(k, d, map[string]interface{}{"history": rc.History})
		}
		r.State(1)
		r.Trans(int64(len(rc.History)))
		return
	}
	st := xs.Run(r, cfg)
	r.Set("max_buckets", e.maxB)
	r.Set("depth_reached", st.MaxDepth)
	if r.R.NViolations > 0 {
		return // a broken table may never reach some outcome classes; the verdict is the violation
	}
	r.Need(st.States >= 1000, "only %d states", st.States)
	for _, c := range []string{"update:added", "update:moved-to-front", "update:rejected-full-bucket", "update:added-after-unfold", "update:rejected-after-unfold", "remove:present", "remove:absent", "nearest:multi"} {
		r.NeedClass(c)
	}
}

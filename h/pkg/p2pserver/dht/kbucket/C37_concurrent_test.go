package kbucket

// C37, units "concurrent" and "race": the routing table carries its own lock
// and is driven from several goroutines (message handlers, the refresh loop),
// so "after any sequence of updates and removals" includes sequences whose
// calls overlap.
//
// Unit "concurrent" (engine cs): table.go and bucket.go are built with "sync"
// rewritten to the vsync shim.  A scenario is a prepared table (built
// sequentially) plus a multiset of 2 or 3 operations out of a per-table
// alphabet of Update / Remove / NearestPeers calls, each run by its own real
// goroutine on the one real RouteTable.  Every schedule with at most B
// preemptions is executed (every lock operation of the table and of the
// buckets is a scheduling point).  The structural conditions of the statement
// are evaluated at every scheduling point at which no writer holds the table
// lock (these are the states other callers can observe) and in every final
// state; every NearestPeers result is checked for distinctness and order.
//
// Unit "race": the same bodies free-running under the Go race detector (the
// cooperative scheduler's hand-offs are happens-before edges that would blind
// the detector); supplementary, it samples schedules.

import (
	"bytes"
	"fmt"
	"os"
	"sort"
	"strings"
	"testing"
	"time"

	"github.com/ontio/ontology/p2pserver/common"
	"github.com/ontio/ontology/verifshim/vh"
	"github.com/ontio/ontology/verifshim/vsync"
	"github.com/ontio/ontology/verifshim/vwork"
)

const c37cBucketSize = 2

type c37cop struct {
	kind byte // 'U' Update, 'R' Remove, 'N' NearestPeers(target, 3)
	p    c37peer
}

func (o c37cop) String() string {
	switch o.kind {
	case 'U':
		return "Update " + o.p.name
	case 'R':
		return "Remove " + o.p.name
	}
	return "NearestPeers " + o.p.name
}

type c37ctable struct {
	name  string
	pre   [][2]int // (cpl, variant) of the peers inserted sequentially before the threads start
	peers [][2]int // alphabet: every peer is the subject of one Update op and one Remove op
	start string   // expected start table (fixture self-check)
}

// The alphabets mix peers that are present and absent at the start, with a
// common-prefix length below, equal to and above the index of the last bucket.
var c37ctables = []c37ctable{
	// one bucket, full: the next new peer unfolds it
	{"folded-full", [][2]int{{0, 0}, {3, 0}}, [][2]int{{0, 0}, {3, 0}, {3, 1}, {4, 0}, {0, 1}}, "[p3.0 p0.0 ]"},
	// two buckets, the last one full
	{"unfolded-last-full", [][2]int{{0, 0}, {1, 0}, {2, 0}}, [][2]int{{0, 0}, {1, 0}, {2, 0}, {2, 1}, {5, 0}}, "[p0.0 ][p2.0 p1.0 ]"},
	// one full bucket whose peers share 3 bits with the local id: the next new peer unfolds it four times
	{"deep-unfold", [][2]int{{3, 0}, {3, 1}}, [][2]int{{3, 0}, {3, 2}, {5, 0}, {1, 0}, {159, 0}}, "[p3.1 p3.0 ]"},
	// one bucket with one free slot: the first insertion fills it, the second unfolds it
	{"half-full", [][2]int{{0, 0}}, [][2]int{{0, 0}, {0, 1}, {3, 0}, {3, 1}, {4, 0}}, "[p0.0 ]"},
}

type c37ctab struct {
	name  string
	pre   []c37peer
	ops   []c37cop
	byID  map[common.PeerId]c37peer
	start string
}

func c37cresolve(t c37ctable) *c37ctab {
	tb := &c37ctab{name: t.name, byID: map[common.PeerId]c37peer{}, start: t.start}
	for _, sp := range t.pre {
		p := c37mk(sp[0], byte(sp[1]))
		tb.pre = append(tb.pre, p)
		tb.byID[p.id] = p
	}
	for _, sp := range t.peers {
		p := c37mk(sp[0], byte(sp[1]))
		tb.byID[p.id] = p
		tb.ops = append(tb.ops, c37cop{'U', p})
	}
	for _, sp := range t.peers {
		tb.ops = append(tb.ops, c37cop{'R', c37mk(sp[0], byte(sp[1]))})
	}
	// query targets: the local id (cpl 160, always clamped to the last bucket) and a far id (bucket 0)
	t160, t0 := c37mk(160, 0), c37mk(0, 0x80)
	t160.name, t0.name = "t:local", "t:far"
	tb.ops = append(tb.ops, c37cop{'N', t160}, c37cop{'N', t0})
	return tb
}

// c37cscenarios lists, per table, every multiset of 2 and of 3 operations.
type c37cscn struct {
	tb  *c37ctab
	ops []c37cop
}

func (s c37cscn) names() []string {
	var n []string
	for _, o := range s.ops {
		n = append(n, o.String())
	}
	return n
}

func c37cscenarios(withTriples bool) []c37cscn {
	var out []c37cscn
	for _, t := range c37ctables {
		tb := c37cresolve(t)
		n := len(tb.ops)
		for a := 0; a < n; a++ {
			for b := a; b < n; b++ {
				out = append(out, c37cscn{tb, []c37cop{tb.ops[a], tb.ops[b]}})
			}
		}
		if !withTriples {
			continue
		}
		for a := 0; a < n; a++ {
			for b := a; b < n; b++ {
				for c := b; c < n; c++ {
					out = append(out, c37cscn{tb, []c37cop{tb.ops[a], tb.ops[b], tb.ops[c]}})
				}
			}
		}
	}
	return out
}

type c37cinst struct {
	sc      c37cscn
	rt      *RouteTable
	nb0     int
	errs    []error
	fails   []string // per thread: panic or bad query result observed inside the thread
	nearest []int    // per thread: length of the NearestPeers result
	free    int64    // scheduling points at which the invariants were evaluated (no writer)
	held    int64    // scheduling points skipped because a writer held the table lock
	viol    string   // first violation of this execution
}

func c37cbuild(sc c37cscn) *c37cinst {
	in := &c37cinst{sc: sc, rt: NewRoutingTable(c37cBucketSize, c37mkid(c37localRaw)),
		errs: make([]error, len(sc.ops)), fails: make([]string, len(sc.ops)), nearest: make([]int, len(sc.ops))}
	for _, p := range sc.tb.pre { // no scheduler active yet: runs straight through
		_ = in.rt.Update(p.id, "addr-"+p.name) // a refusal is legal; the start table is what it is
	}
	in.nb0 = len(in.rt.Buckets)
	return in
}

func (in *c37cinst) name(id common.PeerId) string {
	if p, ok := in.sc.tb.byID[id]; ok {
		return p.name
	}
	return "?" + id.ToHexString()
}

func (in *c37cinst) table() string {
	var sb strings.Builder
	for _, b := range in.rt.Buckets {
		sb.WriteByte('[')
		for el := b.list.Front(); el != nil; el = el.Next() {
			sb.WriteString(in.name(el.Value.(common.PeerIDAddressPair).ID))
			sb.WriteByte(' ')
		}
		sb.WriteByte(']')
	}
	return sb.String()
}

func (in *c37cinst) bodies() []func() {
	var bs []func()
	for i, op := range in.sc.ops {
		i, op := i, op
		switch op.kind {
		case 'U':
			bs = append(bs, func() {
				if pn := vh.Catch(func() { in.errs[i] = in.rt.Update(op.p.id, "addr-"+op.p.name) }); pn != "" {
					in.fails[i] = fmt.Sprintf("panic: Update(%s) panicked: %s", op.p.name, pn)
				}
			})
		case 'R':
			bs = append(bs, func() {
				if pn := vh.Catch(func() { in.rt.Remove(op.p.id) }); pn != "" {
					in.fails[i] = fmt.Sprintf("panic: Remove(%s) panicked: %s", op.p.name, pn)
				}
			})
		default:
			bs = append(bs, func() {
				var out []common.PeerIDAddressPair
				if pn := vh.Catch(func() { out = in.rt.NearestPeers(op.p.id, 3) }); pn != "" {
					in.fails[i] = fmt.Sprintf("panic: NearestPeers(%s,3) panicked: %s", op.p.name, pn)
					return
				}
				in.nearest[i] = len(out)
				in.fails[i] = in.checkNearest(op.p, out)
			})
		}
	}
	return bs
}

// checkNearest: distinct known peers in non-decreasing XOR distance to the target.
func (in *c37cinst) checkNearest(tg c37peer, out []common.PeerIDAddressPair) string {
	var names []string
	for _, p := range out {
		names = append(names, in.name(p.ID))
	}
	got := map[common.PeerId]bool{}
	var prev []byte
	for _, p := range out {
		if got[p.ID] {
			return fmt.Sprintf("nearest-duplicate: NearestPeers(%s,3) = %v lists %s twice", tg.name, names, in.name(p.ID))
		}
		got[p.ID] = true
		kp, known := in.sc.tb.byID[p.ID]
		if !known {
			return fmt.Sprintf("nearest-unknown-peer: NearestPeers(%s,3) = %v returns a peer never inserted", tg.name, names)
		}
		d := c37xor(kp.raw, tg.raw)
		if prev != nil && bytes.Compare(prev, d) > 0 {
			return fmt.Sprintf("nearest-unsorted: NearestPeers(%s,3) = %v is not in non-decreasing XOR distance to the target", tg.name, names)
		}
		prev = d
	}
	return ""
}

// structure evaluates conditions (1)-(3) of the statement on the buckets (the
// caller guarantees that no thread is mutating them).
func (in *c37cinst) structure() string {
	rt := in.rt
	if len(rt.Buckets) == 0 {
		return "no-buckets: table has no bucket"
	}
	seen := map[common.PeerId]int{}
	last := len(rt.Buckets) - 1
	for bi, b := range rt.Buckets {
		n := 0
		for el := b.list.Front(); el != nil; el = el.Next() {
			id := el.Value.(common.PeerIDAddressPair).ID
			n++
			if prev, dup := seen[id]; dup {
				return fmt.Sprintf("duplicate-peer: peer %s appears in bucket %d and again in bucket %d; table %s", in.name(id), prev, bi, in.table())
			}
			seen[id] = bi
			kp, known := in.sc.tb.byID[id]
			if !known {
				return fmt.Sprintf("unknown-peer: peer %s was never inserted; table %s", in.name(id), in.table())
			}
			want := c37cpl(kp.raw, c37localRaw)
			if want > last {
				want = last
			}
			if want != bi {
				return fmt.Sprintf("wrong-bucket: peer %s (cpl %d) sits in bucket %d of %d, expected bucket %d; table %s", kp.name, kp.cpl, bi, len(rt.Buckets), want, in.table())
			}
		}
		if n > c37cBucketSize {
			return fmt.Sprintf("bucket-overflow: bucket %d holds %d peers > bucketsize %d; table %s", bi, n, c37cBucketSize, in.table())
		}
	}
	return ""
}

// c37cwriter reports whether a writer holds the table lock (as modelled by the
// scheduler shim); ok is false when the package was not built with the shim.
func c37cwriter(rt *RouteTable) (held bool, ok bool) {
	ls, ok := interface{}(&rt.tabLock).(interface {
		LockState() (bool, int)
	})
	if !ok {
		return false, false
	}
	w, _ := ls.LockState()
	return w, true
}

// check is called by the explorer between steps (no thread is running).  The
// first violation is the verdict of the execution and stays; the rest of that
// execution is not examined.  The explorer lets the threads run on to their
// end, and the code under test is entitled to assume a valid table (e.g.
// Bucket.MoveToFront does not terminate on a bucket that lists a peer twice),
// so the buckets are emptied once the verdict is in.
func (in *c37cinst) check(final bool) string {
	if in.viol != "" {
		return in.viol
	}
	for _, f := range in.fails {
		if f != "" {
			in.viol = f
		}
	}
	if in.viol == "" {
		if !final {
			if w, _ := c37cwriter(in.rt); w {
				in.held++ // an Update/Remove is inside its critical section: nobody can observe the table
				return ""
			}
			in.free++
		}
		in.viol = in.structure()
	}
	if in.viol != "" && !final {
		for _, b := range in.rt.Buckets {
			b.list.Init()
		}
	}
	return in.viol
}

type c37ccase struct {
	Unit     string   `json:"unit"`
	Table    string   `json:"table"`
	Threads  []string `json:"threads"`
	Bound    int      `json:"preemption_bound"`
	Schedule []int    `json:"schedule"`
	Steps    []string `json:"steps"`
}

func c37ckey(table, viol string) string {
	return "concurrent:" + strings.SplitN(viol, ":", 2)[0] + "@" + table
}

func TestVerif_C37_concurrent(t *testing.T) {
	r := vh.Start(t, "C37", "concurrent")
	defer r.Finish()
	_, shim := c37cwriter(NewRoutingTable(c37cBucketSize, c37mkid(c37localRaw)))
	r.Need(shim, "table.go is not built with sync rewritten to the vsync shim (unit needs \"instr\")")
	pairBound, tripleBound := 4, r.Pick(1, 3)
	r.Rule("per prepared table (bucketsize 2): every multiset of 2 and of 3 operations out of Update(p) x5 / Remove(p) x5 / NearestPeers(target,3) x2, each operation in its own real goroutine on one real RouteTable; every schedule with at most B preemptions, B iterated from 0, scheduling points before every lock operation of the table and of its buckets; the structural conditions (peer once, bucket<=size, bucket=min(cpl,last)) evaluated at every scheduling point where no writer holds the table lock and in every final state, every NearestPeers result checked for distinct peers sorted by XOR distance; states = scheduling points visited, transitions = scheduling decisions, traces = complete executions of the real code")
	r.Assume("sequentially consistent memory; code between two lock operations runs atomically (unsynchronised accesses are the business of unit race)")
	scs := c37cscenarios(true)
	// the start tables are built by sequential Update calls: a start table that is already invalid is a
	// (sequential) violation, and nothing is explored from it; one that is valid but not the intended one is
	// explored all the same (the conditions hold from any valid start) and shows up as a class
	badStart := map[string]bool{}
	for ci, ct := range c37ctables {
		in := c37cbuild(c37cscn{tb: c37cresolve(ct)})
		if v := in.structure(); v != "" {
			badStart[ct.name] = true
			if r.Mine(ci) && !r.IsReplay() {
				r.Violation("concurrent:start-table:"+strings.SplitN(v, ":", 2)[0]+"@"+ct.name, fmt.Sprintf("start table %q built by sequential Update calls is invalid: %s", ct.name, v), nil)
			}
		} else if in.table() != ct.start {
			r.Class("concurrent:start-table-differs")
		} else {
			r.Class("concurrent:start-table-as-intended")
		}
	}
	var rc c37ccase
	replay := r.ReplayCase(&rc) && rc.Unit == "concurrent"
	if r.IsReplay() && !replay {
		return // a case of another unit
	}
	classes := map[string]int64{}
	npairs, ntriples := 0, 0
	for si, sc := range scs {
		sc := sc
		if badStart[sc.tb.name] {
			continue
		}
		if replay {
			if rc.Table != sc.tb.name || strings.Join(rc.Threads, "|") != strings.Join(sc.names(), "|") {
				continue
			}
		} else if !r.Mine(si) {
			continue
		}
		maxBound := pairBound
		if len(sc.ops) == 3 {
			maxBound = tripleBound
			ntriples++
		} else {
			npairs++
		}
		prevExecs := int64(-1)
		for bound := 0; bound <= maxBound; bound++ {
			if r.Expired() {
				break
			}
			var last *c37cinst
			e := &vsync.Explorer{
				Scenario: func() ([]func(), func(bool) string) {
					last = c37cbuild(sc)
					return last.bodies(), last.check
				},
				Bound: bound, Horizon: 2000, Stop: r.Expired,
				Outcome: func() string {
					if bound == maxBound { // the largest bound covers the smaller ones: count each schedule once
						classes[fmt.Sprintf("concurrent:final-buckets=%d", c37bclass(len(last.rt.Buckets)))]++
						if len(last.rt.Buckets) > last.nb0 {
							classes["concurrent:unfolded-during-run"]++
						}
						for i, err := range last.errs {
							if err != nil {
								classes["concurrent:update-rejected"]++
							}
							if last.nearest[i] > 1 {
								classes["concurrent:nearest-multi"]++
							}
						}
						classes["concurrent:observable-points-checked"] += last.free
						classes["concurrent:points-inside-critical-section"] += last.held
					}
					return ""
				},
			}
			if replay {
				v, same := e.Replay(rc.Schedule)
				if !same {
					t.Fatalf("VERIF-INFRA replay not deterministic")
				}
				if v != "" {
					r.Violation(c37ckey(sc.tb.name, v), v, rc)
				}
				r.Trace(2)
				break
			}
			e.Run()
			r.Trace(e.Executions)
			r.Trans(e.Points)
			r.State(e.Points)
			r.Eval(e.Executions)
			r.Add(fmt.Sprintf("executions_%dthreads_bound%d", len(sc.ops), bound), e.Executions)
			if e.Violation != "" {
				v, same := e.Replay(e.Schedule)
				if !same || v != e.Violation {
					t.Fatalf("VERIF-INFRA schedule does not replay deterministically: %q vs %q", v, e.Violation)
				}
				var steps []string
				for _, d := range e.VTrace {
					steps = append(steps, d.Label)
				}
				cs := c37ccase{"concurrent", sc.tb.name, sc.names(), bound, e.Schedule, steps}
				r.Violation(c37ckey(sc.tb.name, e.Violation), fmt.Sprintf("table %q (%s), threads %v, %d preemption(s), schedule %v: %s", sc.tb.name, sc.tb.start, sc.names(), bound, steps, e.Violation), cs)
				break
			}
			if e.Capped {
				r.Capped(fmt.Sprintf("table %q threads %v capped at preemption bound %d", sc.tb.name, sc.names(), bound))
				break
			}
			if bound == maxBound && len(sc.ops) == 2 {
				if e.Executions == prevExecs {
					classes["concurrent:2-threads-bound-saturated"]++ // raising the bound adds no schedule: all interleavings were run
				} else {
					classes["concurrent:2-threads-bound-not-saturated"]++
				}
			}
			prevExecs = e.Executions
		}
		if si == 0 {
			r.Sample(map[string]interface{}{"table": sc.tb.name, "start": sc.tb.start, "threads": sc.names()})
		}
	}
	var cn []string
	for c := range classes {
		cn = append(cn, c)
	}
	sort.Strings(cn)
	for _, c := range cn {
		r.ClassN(c, classes[c])
	}
	r.Set("scenarios_pairs", npairs)
	r.Set("scenarios_triples", ntriples)
	r.Bound(fmt.Sprintf("%d prepared tables x 12 operations; all %d scenarios (multisets of 2 and 3 operations); preemption bound 0..%d for 2 threads, 0..%d for 3 threads; bucketsize %d", len(c37ctables), len(scs), pairBound, tripleBound, c37cBucketSize))
}

// TestVerif_C37_raceBody runs in a child process of the -race build: the
// scenario bodies free-running (no scheduler: the vsync types fall back to the
// real sync primitives).
func TestVerif_C37_raceBody(t *testing.T) {
	if os.Getenv("VERIF_RACE_BODY") == "" {
		t.Skip("child only")
	}
	for _, sc := range c37cscenarios(true) {
		reps := 30
		if len(sc.ops) == 3 {
			reps = 4
		}
		for i := 0; i < reps; i++ {
			in := c37cbuild(sc)
			done := make(chan struct{}, 4)
			bs := in.bodies()
			for _, b := range bs {
				b := b
				go func() { b(); done <- struct{}{} }()
			}
			for range bs {
				<-done
			}
			if v := in.check(true); v != "" {
				t.Fatalf("WRONG-ANSWER table %q threads %v: %s", sc.tb.name, sc.names(), v)
			}
		}
	}
}

func TestVerif_C37_race(t *testing.T) {
	if os.Getenv("VERIF_RACE_BODY") != "" {
		t.Skip("parent only")
	}
	r := vh.Start(t, "C37", "race")
	defer r.Finish()
	if r.IsReplay() {
		return
	}
	scs := c37cscenarios(true)
	r.Rule("the C37 concurrent scenarios (2 threads x30, 3 threads x4 repetitions each) free-running under the Go race detector in a child process, final table checked; supplementary sampling pass for unsynchronised accesses (the exhaustive part is unit concurrent)")
	raced, rep, err := vwork.RunRace("TestVerif_C37_raceBody", 10*time.Minute)
	r.Eval(int64(len(scs)))
	r.Class("race-detector-pass")
	switch {
	case raced:
		r.Class("data-race")
		r.Violation("concurrent:data-race-in-routing-table", "the race detector reports a data race inside the routing table when Update/Remove/NearestPeers calls overlap: "+rep, nil)
	case err != nil && strings.Contains(rep, "WRONG-ANSWER"):
		w := rep[strings.Index(rep, "WRONG-ANSWER"):]
		if i := strings.IndexByte(w, '\n'); i > 0 {
			w = w[:i]
		}
		kind := "invalid"
		if f := strings.SplitN(w, ": ", 3); len(f) == 3 {
			kind = f[1]
		}
		r.Violation("concurrent:free-running:"+kind, w, nil)
	case err != nil:
		t.Fatalf("VERIF-INFRA race body: %v\n%s", err, rep)
	default:
		r.Class("no-race")
	}
}

package account

import (
	"encoding/json"
	"bytes"
	"encoding/hex"
	"fmt"
	"os"
	"path/filepath"
	"sort"
	"strconv"
	"strings"
	"testing"

	"github.com/ontio/ontology-crypto/keypair"
	s "github.com/ontio/ontology-crypto/signature"
	"github.com/ontio/ontology/core/types"
	"github.com/ontio/ontology/verifshim/vh"
	"github.com/ontio/ontology/verifshim/vkeys"
	"github.com/ontio/ontology/verifshim/xs"
)

// C38: explicit-state search over wallet operation histories on the real
// ClientImpl bound to a real wallet file.  A state holds the live client and a
// boring reference list of accounts (address, public/private key as handed out
// at creation, label, default flag, scheme, current password).  An operation
// that returns success applies its documented effect to the reference; one that
// returns an error applies nothing.  In every state the wallet file is opened
// again (NewClientImpl on the same path = "save and reload") and the reloaded
// client, as well as the live one, must list exactly the reference accounts;
// every account must open with its current password to the key created /
// imported, and must not open with another password.
//
// Two units: "light" runs on a wallet whose file carries small scrypt
// parameters (the "scrypt" section of the wallet format, honoured on load) so
// that deep histories are affordable; "default" runs on a fresh wallet with the
// standard parameters (N=16384), shallower.

var c38pws = [][]byte{[]byte("passw0rd"), []byte("passw0rd1")} // adversarially close: one is a prefix of the other
var c38pwNever = []byte("Passw0rd")                            // never the password of anything

var c38schemes = []s.SignatureScheme{s.SHA256withECDSA, s.SHA3_256withECDSA, s.SM3withSM2}

type c38acc struct {
	kind   string // "K0","K1" (imported P-256), "K2" (imported SM2), "N" (NewAccount)
	addr   string
	pub    string // hex of the serialized public key handed out at creation
	priv   string // hex of the serialized private key handed out at creation
	label  string
	def    bool
	sch    string
	pw     int
	broken bool // created by NewAccount in a wallet with non-default scrypt parameters (see c38check)
}

type c38sys struct {
	cli  *ClientImpl
	path string
	accs []*c38acc
	last string // outcome class of the last event
	stepV,
	stepD string // violation observed inside the step
}

type c38env struct {
	r        *vh.Run
	light    bool
	param    *keypair.ScryptParam
	dir      string
	seq      int
	labels   []string
	maxAcc   int
	imports  [3][2]*AccountMetadata // key index x password index, encrypted under the wallet's scrypt parameters
	privs    [3]string
	nNewTerm int64
}

func c38newEnv(r *vh.Run, light bool) *c38env {
	e := &c38env{r: r, light: light, maxAcc: 3}
	e.dir = os.Getenv("VERIF_TMP")
	if e.dir == "" {
		d, err := os.MkdirTemp("", "c38")
		r.Need(err == nil, "tempdir: %v", err)
		e.dir = d
	}
	if light {
		e.param = &keypair.ScryptParam{N: 16, R: 1, P: 1, DKLen: 64}
		e.labels = []string{"", "a", "b"}
	} else {
		e.param = keypair.GetScryptParameters()
		e.labels = []string{"", "a"}
	}
	for k := 0; k < 3; k++ {
		var pri keypair.PrivateKey
		var pub keypair.PublicKey
		sch := s.SHA256withECDSA
		switch k {
		case 0, 1:
			pri, pub = vkeys.P256(40 + k)
		case 2:
			pri, pub = vkeys.SM2(40)
			sch = s.SM3withSM2
		}
		e.privs[k] = hex.EncodeToString(keypair.SerializePrivateKey(pri))
		ad := types.AddressFromPubKey(pub)
		addr := ad.ToBase58()
		for p := range c38pws {
			// what `ontology account import` does, with the parameters of the target wallet
			prot, err := keypair.EncryptWithCustomScrypt(pri, addr, c38pws[p], e.param)
			r.Need(err == nil, "encrypt: %v", err)
			e.imports[k][p] = &AccountMetadata{Address: prot.Address, KeyType: prot.Alg, EncAlg: prot.EncAlg, Hash: prot.Hash,
				Key: prot.Key, Curve: prot.Param["curve"], Salt: prot.Salt,
				PubKey: hex.EncodeToString(keypair.SerializePublicKey(pub)), SigSch: sch.Name()}
		}
	}
	return e
}

func (e *c38env) init() interface{} {
	e.seq++
	st := &c38sys{path: filepath.Join(e.dir, fmt.Sprintf("c38_wallet_%d.dat", e.seq))}
	os.Remove(st.path)
	if e.light {
		// a wallet file with its own scrypt section: written with the package's own Save
		w := NewWalletData()
		w.Scrypt = &keypair.ScryptParam{N: e.param.N, R: e.param.R, P: e.param.P, DKLen: e.param.DKLen}
		if err := w.Save(st.path); err != nil {
			panic(err)
		}
	}
	cli, err := NewClientImpl(st.path)
	if err != nil {
		panic(err)
	}
	st.cli = cli
	return st
}

func (e *c38env) release(si interface{}) {
	st := si.(*c38sys)
	os.Remove(st.path)
	os.Remove(st.path + "~")
}

func (st *c38sys) has(kind string) bool {
	for _, a := range st.accs {
		if a.kind == kind {
			return true
		}
	}
	return false
}

func (st *c38sys) anyBroken() bool {
	for _, a := range st.accs {
		if a.broken {
			return true
		}
	}
	return false
}

func (e *c38env) events(si interface{}) []string {
	st := si.(*c38sys)
	if st.anyBroken() {
		// the account just created cannot be opened (reported by the check);
		// this unit does not explore beyond that state, the default unit covers NewAccount
		return nil
	}
	var ev []string
	n := len(st.accs)
	if n < e.maxAcc {
		for li, l := range e.labels {
			if e.light && n > 0 {
				break // light unit: NewAccount (a terminal event there, one default-strength scrypt each) only into the empty wallet
			}
			for p := range c38pws {
				if e.light && li != p%len(e.labels) && !(li == 2 && p == 0) {
					continue // three label/password combinations suffice for a terminal event
				}
				ev = append(ev, fmt.Sprintf("new:%s:%d", l, p))
			}
		}
		for k := 0; k < 3; k++ {
			if st.has("K" + strconv.Itoa(k)) {
				continue // the importer skips addresses already in the wallet (cmd/account_cmd.go)
			}
			if !e.light && k == 1 {
				continue // default unit: one P-256 and one SM2 key
			}
			for _, l := range e.labels {
				if !e.light && l == "" {
					continue // default unit: imports always carry the label "a" (clashes with NewAccount's)
				}
				for p := range c38pws {
					ev = append(ev, fmt.Sprintf("imp:%d:%s:%d", k, l, p))
				}
			}
		}
	}
	for i := 0; i < n; i++ {
		for p := range c38pws {
			ev = append(ev, fmt.Sprintf("del:%d:%d", i, p))
		}
	}
	for i := 0; i < n; i++ {
		ev = append(ev, fmt.Sprintf("def:%d", i))
	}
	for i := 0; i < n; i++ {
		for _, l := range e.labels {
			ev = append(ev, fmt.Sprintf("lab:%d:%s", i, l))
		}
	}
	for i := 0; i < n; i++ {
		for p := range c38pws {
			ev = append(ev, fmt.Sprintf("pw:%d:%d:%d", i, p, 1-p))
		}
	}
	for i := 0; i < n; i++ {
		for sc := range c38schemes {
			ev = append(ev, fmt.Sprintf("sch:%d:%d", i, sc))
		}
	}
	ev = append(ev, "reload")
	if e.light && len(st.accs) > 0 {
		if _, err := os.Stat(st.path + "~"); err != nil {
			// an earlier process died between writing the temporary file and renaming it over the wallet
			ev = append(ev, "crashleft")
		}
	}
	return ev
}

func c38atoi(x string) int { n, _ := strconv.Atoi(x); return n }

func (e *c38env) apply(si interface{}, ev string) (string, string) {
	st := si.(*c38sys)
	st.stepV, st.stepD = "", ""
	f := strings.Split(ev, ":")
	viol := func(k, d string) {
		if st.stepV == "" {
			st.stepV, st.stepD = k, d
		}
	}
	pn := vh.Catch(func() {
		switch f[0] {
		case "new":
			label, p := f[1], c38atoi(f[2])
			acc, err := st.cli.NewAccount(label, keypair.PK_ECDSA, keypair.P256, s.SHA256withECDSA, c38pws[p])
			if err != nil {
				st.last = "new:refused"
				return
			}
			st.last = "new:ok"
			st.accs = append(st.accs, &c38acc{kind: "N", addr: acc.Address.ToBase58(),
				pub:   hex.EncodeToString(keypair.SerializePublicKey(acc.PublicKey)),
				priv:  hex.EncodeToString(keypair.SerializePrivateKey(acc.PrivateKey)),
				label: label, def: len(st.accs) == 0, sch: s.SHA256withECDSA.Name(), pw: p, broken: e.light})
		case "imp":
			k, label, p := c38atoi(f[1]), f[2], c38atoi(f[3])
			m := *e.imports[k][p]
			m.Key = append([]byte{}, m.Key...)
			m.Salt = append([]byte{}, m.Salt...)
			m.Label = label
			if err := st.cli.ImportAccount(&m); err != nil {
				st.last = "imp:refused"
				return
			}
			// the statement is silent on how an import resolves a label clash:
			// the label the client reports right after the import is taken as given
			got := label
			if lm := st.cli.GetAccountMetadataByAddress(m.Address); lm != nil {
				got = lm.Label
			}
			st.last = "imp:ok"
			if got != label {
				st.last = "imp:ok-relabelled"
			}
			st.accs = append(st.accs, &c38acc{kind: "K" + f[1], addr: m.Address, pub: m.PubKey, priv: e.privs[k],
				label: got, def: len(st.accs) == 0, sch: m.SigSch, pw: p})
		case "del":
			i, p := c38atoi(f[1]), c38atoi(f[2])
			a := st.accs[i]
			acc, err := st.cli.DeleteAccount(a.addr, c38pws[p])
			switch {
			case err != nil && a.def:
				st.last = "del:refused-default"
			case err != nil && p != a.pw:
				st.last = "del:refused-wrong-password"
			case err != nil:
				st.last = "del:refused"
			case acc == nil:
				st.last = "del:not-found"
			default:
				st.last = "del:ok"
				if p != a.pw {
					viol("other-password-accepted:DeleteAccount", fmt.Sprintf("DeleteAccount(#%d) succeeded with a password that is not the account's current one", i))
				}
				st.accs = append(st.accs[:i:i], st.accs[i+1:]...)
			}
		case "def":
			i := c38atoi(f[1])
			if err := st.cli.SetDefaultAccount(st.accs[i].addr); err != nil {
				st.last = "def:refused"
				return
			}
			st.last = "def:ok"
			if st.accs[i].def {
				st.last = "def:already"
			}
			for j, a := range st.accs {
				a.def = j == i
			}
		case "lab":
			i, label := c38atoi(f[1]), f[2]
			if err := st.cli.SetLabel(st.accs[i].addr, label); err != nil {
				st.last = "lab:refused"
				return
			}
			st.last = "lab:ok"
			if st.accs[i].label == label {
				st.last = "lab:same"
			}
			st.accs[i].label = label
		case "pw":
			i, po, pnw := c38atoi(f[1]), c38atoi(f[2]), c38atoi(f[3])
			a := st.accs[i]
			if err := st.cli.ChangePassword(a.addr, c38pws[po], c38pws[pnw]); err != nil {
				st.last = "pw:refused"
				if po != a.pw {
					st.last = "pw:refused-wrong-old-password"
				}
				return
			}
			st.last = "pw:ok"
			if po != a.pw {
				viol("other-password-accepted:ChangePassword", fmt.Sprintf("ChangePassword(#%d) succeeded with an old password that is not the account's current one", i))
			}
			a.pw = pnw
		case "sch":
			i, sc := c38atoi(f[1]), c38atoi(f[2])
			if err := st.cli.ChangeSigScheme(st.accs[i].addr, c38schemes[sc]); err != nil {
				st.last = "sch:refused"
				return
			}
			st.last = "sch:ok"
			if st.accs[i].sch == c38schemes[sc].Name() {
				st.last = "sch:same"
			}
			st.accs[i].sch = c38schemes[sc].Name()
		case "crashleft":
			// what Save had written to "<wallet>~" for a longer wallet state (same accounts, a long wallet name)
			// when the process died before the rename; the wallet file itself is intact
			w := &WalletData{}
			if err := w.Load(st.path); err != nil {
				panic("c38: load for crashleft: " + err.Error())
			}
			w.Name = strings.Repeat("n", 900)
			data, err := json.Marshal(w)
			if err != nil {
				panic(err)
			}
			if err := os.WriteFile(st.path+"~", data, 0644); err != nil {
				panic(err)
			}
			st.last = "crashleft"
		case "reload":
			cli, err := NewClientImpl(st.path)
			if err != nil {
				st.last = "reload:failed"
				viol("reload-fails", "NewClientImpl on the wallet file: "+err.Error())
				return
			}
			st.cli = cli
			st.last = "reload"
		}
	})
	if pn != "" {
		return "panic:" + f[0], ev + " panicked: " + pn
	}
	return st.stepV, st.stepD
}

// live label index, projected on positions (part of the state: it steers later operations)
func (st *c38sys) labelIndex() string {
	pos := map[string]int{}
	for i, a := range st.accs {
		pos[a.addr] = i
	}
	var l []string
	for lab, ad := range st.cli.accLabels {
		p, ok := pos[ad.Address]
		if !ok {
			p = -1
		}
		l = append(l, fmt.Sprintf("%q>%d", lab, p))
	}
	sort.Strings(l)
	return strings.Join(l, ",")
}

func (e *c38env) key(si interface{}) string {
	st := si.(*c38sys)
	var sb strings.Builder
	for _, a := range st.accs {
		fmt.Fprintf(&sb, "%s|%q|%v|%s|%d|%v;", a.kind, a.label, a.def, a.sch, a.pw, a.broken)
	}
	fmt.Fprintf(&sb, " idx[%s] addrs=%d list=%d", st.labelIndex(), len(st.cli.accAddrs), len(st.cli.walletData.Accounts))
	if _, err := os.Stat(st.path + "~"); err == nil {
		sb.WriteString(" leftover-temp-file")
	}
	return sb.String()
}

func (e *c38env) keyRec(si interface{}) string {
	k := e.key(si)
	e.r.StateKey(k)
	return k
}

// c38list compares what a client lists with the reference accounts.
func (e *c38env) list(who string, c *ClientImpl, st *c38sys) (string, string) {
	n := len(st.accs)
	if c.GetAccountNum() != n {
		return who + ":account-count", fmt.Sprintf("GetAccountNum()=%d, expected %d", c.GetAccountNum(), n)
	}
	if m := c.GetAccountMetadataByIndex(n + 1); m != nil {
		return who + ":extra-account", fmt.Sprintf("an account is listed at index %d beyond the %d expected: %s label %q", n+1, n, m.Address, m.Label)
	}
	var wantDef *c38acc
	for i, a := range st.accs {
		m := c.GetAccountMetadataByIndex(i + 1)
		if m == nil {
			return who + ":missing-account", fmt.Sprintf("no account at index %d (expected %s %s)", i+1, a.kind, a.addr)
		}
		if m.Address != a.addr {
			return who + ":order-or-address", fmt.Sprintf("index %d lists %s, expected %s (%s)", i+1, m.Address, a.addr, a.kind)
		}
		if m.Label != a.label {
			return who + ":label", fmt.Sprintf("account #%d has label %q, expected %q", i, m.Label, a.label)
		}
		if m.IsDefault != a.def {
			return who + ":default-flag", fmt.Sprintf("account #%d has isDefault=%v, expected %v", i, m.IsDefault, a.def)
		}
		if m.SigSch != a.sch {
			return who + ":scheme", fmt.Sprintf("account #%d has scheme %s, expected %s", i, m.SigSch, a.sch)
		}
		if m.PubKey != a.pub {
			return who + ":public-key", fmt.Sprintf("account #%d has public key %s, expected %s", i, m.PubKey, a.pub)
		}
		ma := c.GetAccountMetadataByAddress(a.addr)
		if ma == nil || ma.Address != a.addr || ma.Label != a.label || !bytes.Equal(ma.Key, m.Key) {
			return who + ":lookup-by-address", fmt.Sprintf("lookup of account #%d by address disagrees with the listing", i)
		}
		if a.def {
			wantDef = a
		}
	}
	dm := c.GetDefaultAccountMetadata()
	switch {
	case wantDef == nil && dm != nil:
		return who + ":default-account", "a default account is reported, none expected: " + dm.Address
	case wantDef != nil && (dm == nil || dm.Address != wantDef.addr):
		return who + ":default-account", fmt.Sprintf("default account lookup gives %v, expected %s", dm, wantDef.addr)
	}
	// label lookups: a non-empty label finds exactly its account, any other label of the alphabet finds nothing
	want := map[string]string{}
	for _, a := range st.accs {
		if a.label != "" {
			if o, dup := want[a.label]; dup {
				return who + ":label-shared", fmt.Sprintf("label %q is carried by %s and %s", a.label, o, a.addr)
			}
			want[a.label] = a.addr
		}
	}
	for _, l := range []string{"a", "b", "a_1", "b_1", "_1"} {
		m := c.GetAccountMetadataByLabel(l)
		switch {
		case want[l] == "" && m != nil:
			return who + ":stale-label", fmt.Sprintf("lookup by label %q finds %s (label %q) although no account carries that label", l, m.Address, m.Label)
		case want[l] != "" && (m == nil || m.Address != want[l]):
			return who + ":label-lookup", fmt.Sprintf("lookup by label %q gives %v, expected %s", l, m, want[l])
		}
	}
	return "", ""
}

func (e *c38env) check(si interface{}, hist []string) (string, string) {
	st := si.(*c38sys)
	if st.last != "" {
		e.r.Class(st.last)
	}
	e.r.Eval(1)
	var vk, vd string
	pn := vh.Catch(func() { vk, vd = e.check1(st) })
	if pn != "" {
		return "panic:check", pn + " (last step: " + st.last + ")"
	}
	return vk, vd
}

func (e *c38env) check1(st *c38sys) (string, string) {
	if k, d := e.list("live", st.cli, st); k != "" {
		return k, d + " (last step: " + st.last + ")"
	}
	re, err := NewClientImpl(st.path)
	if err != nil {
		return "reload-fails", err.Error()
	}
	suffix := "" // the class of a violation is what is wrong, not the step after which it was seen (it persists)
	if k, d := e.list("reloaded", re, st); k != "" {
		return k + suffix, d
	}
	if len(st.accs) > 0 && (re.walletData.Scrypt == nil || *re.walletData.Scrypt != *e.param) {
		return "reloaded:scrypt-parameters-changed", fmt.Sprintf("wallet file now carries scrypt %+v, was created with %+v", re.walletData.Scrypt, e.param)
	}
	for i, a := range st.accs {
		ml, mr := st.cli.GetAccountMetadataByIndex(i+1), re.GetAccountMetadataByIndex(i+1)
		if !bytes.Equal(ml.Key, mr.Key) || !bytes.Equal(ml.Salt, mr.Salt) || ml.EncAlg != mr.EncAlg || ml.KeyType != mr.KeyType || ml.Curve != mr.Curve || ml.Hash != mr.Hash {
			return "reloaded:protected-key-differs-from-memory" + suffix, fmt.Sprintf("account #%d: the encrypted key in the file differs from the one the live client holds", i)
		}
		// opens with the current password, to the key that was created / imported
		acc, err := re.GetAccountByAddress(a.addr, c38pws[a.pw])
		if err != nil || acc == nil {
			if a.broken {
				e.nNewTerm++
				return "current-password-rejected:NewAccount-in-wallet-with-non-default-scrypt", fmt.Sprintf("account #%d created by NewAccount in a wallet whose file carries scrypt %+v cannot be opened with its password: %v", i, *e.param, err)
			}
			return "current-password-rejected" + suffix, fmt.Sprintf("account #%d (%s) does not open with its current password: %v", i, a.kind, err)
		}
		if got := hex.EncodeToString(keypair.SerializePrivateKey(acc.PrivateKey)); got != a.priv {
			return "decrypts-to-different-key" + suffix, fmt.Sprintf("account #%d (%s) opens to a private key different from the one created/imported", i, a.kind)
		}
		if got := hex.EncodeToString(keypair.SerializePublicKey(acc.PublicKey)); got != a.pub || acc.Address.ToBase58() != a.addr {
			return "decrypts-to-different-key" + suffix, fmt.Sprintf("account #%d (%s) opens to public key %s / address %s, stored %s / %s", i, a.kind, got, acc.Address.ToBase58(), a.pub, a.addr)
		}
		if acc.SigScheme.Name() != a.sch {
			return "reloaded:scheme" + suffix, fmt.Sprintf("account #%d opens with scheme %s, expected %s", i, acc.SigScheme.Name(), a.sch)
		}
		others := [][]byte{c38pws[1-a.pw]}
		if e.light {
			others = append(others, c38pwNever, c38pws[a.pw][:len(c38pws[a.pw])-1])
		}
		for _, o := range others {
			if acc2, err := re.GetAccountByAddress(a.addr, o); err == nil && acc2 != nil {
				return "other-password-accepted" + suffix, fmt.Sprintf("account #%d (%s, current password #%d) opens with password %q", i, a.kind, a.pw, o)
			}
		}
		if !e.light {
			continue // the two lookups below run the same decryption once more; only where scrypt is cheap
		}
		if a.def {
			d, err := re.GetDefaultAccount(c38pws[a.pw])
			if err != nil || d == nil || d.Address.ToBase58() != a.addr {
				return "reloaded:default-account-open" + suffix, fmt.Sprintf("GetDefaultAccount with the default account's password: %v", err)
			}
		}
		if a.label != "" {
			d, err := re.GetAccountByLabel(a.label, c38pws[a.pw])
			if err != nil || d == nil || d.Address.ToBase58() != a.addr {
				return "reloaded:label-open" + suffix, fmt.Sprintf("GetAccountByLabel(%q) with the account's password: %v", a.label, err)
			}
		}
	}
	return "", ""
}

func c38run(t *testing.T, unit string, light bool) {
	r := vh.Start(t, "C38", unit)
	defer r.Finish()
	e := c38newEnv(r, light)
	var depth int
	if light {
		depth = r.Pick(3, 5)
	} else {
		depth = r.Pick(2, 3)
	}
	r.Rule("breadth-first search over wallet operation histories (NewAccount, ImportAccount of 3 fixed keys, DeleteAccount with right/other password, SetDefaultAccount, SetLabel, ChangePassword with right/other old password, ChangeSigScheme incl. a mismatching scheme, reload; light unit also: a left-over temporary file of a process that died between writing it and the rename) on a real wallet file, <=3 accounts; state = per position (origin, label, default, scheme, which password) + live label index; in every state the file is reopened and the reloaded and the live client are compared with the reference list, every account is opened with its current password (same key) and with other passwords (must fail); classes = operation outcomes")
	r.Bound(fmt.Sprintf("unit %s: scrypt %+v, labels %q, 2 passwords (one a prefix of the other), depth<=%d", unit, *e.param, e.labels, depth))
	r.Assume("ImportAccount is only called for addresses not yet in the wallet, as cmd/account_cmd.go does; the label an import ends up with after a clash is taken from the client")
	if light {
		r.Assume("light unit: states after a NewAccount are not explored further (NewAccount is covered by the default unit)")
	}
	cfg := xs.Config{Init: e.init, Events: e.events, Apply: e.apply, Key: e.keyRec, Check: e.check, Release: e.release,
		MaxDepth: depth, ShardFirst: true, Tag: ""}
	var rc struct {
		History []string `json:"history"`
	}
	if r.ReplayCase(&rc) {
		cfg.Key = e.key
		if k, d := xs.Replay(cfg, rc.History); k != "" {
			r.Violation(k, d, map[string]interface{}{"history": rc.History})
		}
		r.State(1)
		r.Trans(int64(len(rc.History)))
		return
	}
	st := xs.Run(r, cfg)
	r.State(-st.States) // states are counted through StateKey (union over shards)
	for _, v := range r.R.Violations {
		if !strings.HasPrefix(v.Key, "current-password-rejected:NewAccount-in-wallet-with-non-default-scrypt") {
			return // the verdict is the violation; a broken wallet may not reach every outcome class
		}
	}
	if r.R.NShards == 1 {
		for _, c := range []string{"new:ok", "imp:ok", "imp:ok-relabelled", "del:ok", "del:refused-default", "del:refused-wrong-password",
			"def:ok", "lab:ok", "lab:refused", "pw:ok", "pw:refused-wrong-old-password", "sch:ok", "sch:refused", "reload"} {
			if depth < 3 && (c == "del:ok" || c == "del:refused-wrong-password") {
				continue // deleting needs a second, non-default account: three steps
			}
			r.NeedClass(c)
		}
	}
	r.Need(st.Transitions >= 1 || r.R.CapHit || r.R.NShards > 1, "nothing explored")
}

func TestVerif_C38_light(t *testing.T)   { c38run(t, "light", true) }
func TestVerif_C38_default(t *testing.T) { c38run(t, "default", false) }

package header_sync_test

// C33, unit twochains — "consensus peers OF THAT CHAIN": the header-sync
// contract serves many side chains at once, each with its own peer sets, and a
// single syncBlockHeader call may carry headers of several chains.  This unit
// registers TWO side chains (A with peer set PA, B with the disjoint peer set
// PB, both through a real syncGenesisHeader at height 0) on one Native/mem
// fixture and explores
//   - every sequence of single-header syncBlockHeader calls over the union of
//     the two per-chain header alphabets (explicit-state BFS, deduplicated on
//     the contract's storage of both chains, run until no new state appears),
//   - every ordered pair of such headers (both orders, same chain or different
//     chains, also equal heights on different chains) as ONE call.
// Oracle (unchanged from unit peerhistory, evaluated per chain): a header that
// got stored carries verifying signatures of at least two thirds of the
// distinct members of the peer set governing its height ON ITS OWN CHAIN
// according to the headers of that chain accepted before it.

import (
	"bytes"
	"fmt"
	"sort"
	"strings"
	"testing"

	"encoding/json"

	"github.com/ontio/ontology-crypto/keypair"
	"github.com/ontio/ontology/account"
	"github.com/ontio/ontology/common"
	vconfig "github.com/ontio/ontology/consensus/vbft/config"
	"github.com/ontio/ontology/core/signature"
	cstates "github.com/ontio/ontology/core/states"
	"github.com/ontio/ontology/smartcontract/service/native"
	ccom "github.com/ontio/ontology/smartcontract/service/native/cross_chain/common"
	"github.com/ontio/ontology/smartcontract/service/native/cross_chain/header_sync"
	"github.com/ontio/ontology/smartcontract/service/native/utils"
	"github.com/ontio/ontology/smartcontract/storage"
	"github.com/ontio/ontology/verifshim/vh"
	"github.com/ontio/ontology/verifshim/vnative"
	"github.com/ontio/ontology/verifshim/xs"
)

// the two side chains: name -> (chain id, name of the peer set its genesis header announces)
var c33tChains = []string{"A", "B"}
var c33tChainID = map[string]uint64{"A": 33001, "B": 33002}
var c33tGenesisSet = map[string]string{"A": "PA", "B": "PB"}

// peer sets (vnative.Acct indices), disjoint
var c33tSets = map[string][]int{"PA": {10, 11, 12, 13}, "PB": {30, 31, 32, 33}}
var c33tAnnounce = []string{"-", "PA", "PB"}

// bookkeeper list = signer list, one valid signature each, in this order
var c33tSigners = []c33hSigner{
	{"PAq", []int{10, 11, 12}},     // 3 of PA's 4
	{"PAs", []int{12, 13}},         // 2 of PA's 4
	{"PBq", []int{30, 31, 32}},     // 3 of PB's 4
	{"PBs", []int{32, 33}},         // 2 of PB's 4
	{"PAB", []int{10, 11, 30, 31}}, // 2 of PA and 2 of PB: four known peers, a quorum of neither set
}

var c33tUniverse = []int{10, 11, 12, 13, 30, 31, 32, 33}

type c33tEvent struct {
	label    string
	chain    string
	height   uint32
	announce string
	signers  string
	raw      []byte
	hash     string
	valid    map[int]bool // account -> some entry of SigData verifies under its key over the header hash
}

type c33tFix struct {
	r       *vh.Run
	heights int
	evs     map[string]*c33tEvent
	menu    []string
	genesis *vnative.Env
	quiet   bool
	seen    map[string]bool
	states  []*c33tState
}

type c33tModel struct {
	stored map[uint32]string // height -> hash of the accepted header
	keys   map[uint32]string // key height -> name of the set announced by the header accepted there (0: genesis)
}

type c33tState struct {
	env   *vnative.Env
	depth int
	hist  []string
	m     map[string]*c33tModel // per chain
}

func c33tPayload(set string) []byte {
	info := &vconfig.VbftBlockInfo{Proposer: 1}
	if set != "-" {
		m := c33tSets[set]
		cfg := &vconfig.ChainConfig{N: uint32(len(m)), C: uint32((len(m) - 1) / 3)}
		for i, a := range m {
			cfg.Peers = append(cfg.Peers, &vconfig.PeerConfig{Index: uint32(i + 1), ID: vconfig.PubkeyID(vnative.Acct(a).PublicKey)})
		}
		info.NewChainConfig = cfg
	}
	p, err := json.Marshal(info)
	if err != nil {
		panic(err)
	}
	return p
}

func c33tOpen(r *vh.Run, b *vnative.Base, heights int) *c33tFix {
	f := &c33tFix{r: r, heights: heights, evs: map[string]*c33tEvent{}, seen: map[string]bool{}}
	acct := map[int]*account.Account{}
	for _, a := range c33tUniverse {
		acct[a] = vnative.Acct(a)
	}
	e := b.NewEnv()
	for _, ch := range c33tChains {
		// genesis header (height 0) of the chain announcing its peer set, through the real syncGenesisHeader
		set := c33tGenesisSet[ch]
		gen := &ccom.Header{ChainID: c33tChainID[ch], Height: 0, Timestamp: 1000, ConsensusPayload: c33tPayload(set)}
		gh := gen.Hash()
		for _, a := range c33tSets[set] {
			gen.Bookkeepers = append(gen.Bookkeepers, acct[a].PublicKey)
			gen.SigData = append(gen.SigData, c33Sign(acct[a], gh[:]))
		}
		sink := common.NewZeroCopySink(nil)
		(&header_sync.SyncGenesisHeaderParam{GenesisHeader: c33Raw(gen)}).Serialization(sink)
		res := e.Call(utils.HeaderSyncContractAddress, header_sync.SYNC_GENESIS_HEADER, sink.Bytes(), vnative.Acct(0).Address)
		r.Need(res.Err == nil, "syncGenesisHeader chain %s (%d): %v", ch, c33tChainID[ch], res.Err)
	}
	f.genesis = e

	for _, ch := range c33tChains {
		for h := 1; h <= heights; h++ {
			for _, an := range c33tAnnounce {
				tmpl := ccom.Header{ChainID: c33tChainID[ch], Height: uint32(h), Timestamp: uint32(1000 + h), ConsensusData: uint64(h), ConsensusPayload: c33tPayload(an)}
				t0 := tmpl
				hash := t0.Hash()
				sigOf := map[int][]byte{}
				for _, a := range c33tUniverse {
					sigOf[a] = c33Sign(acct[a], hash[:])
				}
				for _, sg := range c33tSigners {
					hd := tmpl
					var bks []keypair.PublicKey
					var sigs [][]byte
					for _, a := range sg.accts {
						bks = append(bks, acct[a].PublicKey)
						sigs = append(sigs, sigOf[a])
					}
					hd.Bookkeepers, hd.SigData = bks, sigs
					ev := &c33tEvent{label: fmt.Sprintf("%s.h%d:%s:%s", ch, h, an, sg.name), chain: ch, height: uint32(h), announce: an, signers: sg.name,
						raw: c33Raw(&hd), hash: hash.ToHexString(), valid: map[int]bool{}}
					for _, a := range c33tUniverse {
						for _, s := range sigs {
							if signature.Verify(acct[a].PublicKey, hash[:], s) == nil {
								ev.valid[a] = true
							}
						}
					}
					// the truth table must be what the signer list says
					want := map[int]bool{}
					for _, a := range sg.accts {
						want[a] = true
					}
					for _, a := range c33tUniverse {
						r.Need(ev.valid[a] == want[a], "signature truth table of %s unexpected for key %d", ev.label, a)
					}
					f.evs[ev.label] = ev
					f.menu = append(f.menu, ev.label)
				}
			}
		}
	}
	return f
}

func (f *c33tFix) init() *c33tState {
	s := &c33tState{env: f.genesis.Clone(), m: map[string]*c33tModel{}}
	for _, ch := range c33tChains {
		s.m[ch] = &c33tModel{stored: map[uint32]string{}, keys: map[uint32]string{0: c33tGenesisSet[ch]}}
	}
	return s
}

func (s *c33tState) clone() *c33tState {
	n := &c33tState{env: s.env.Clone(), depth: s.depth, m: map[string]*c33tModel{}}
	n.hist = append([]string{}, s.hist...)
	for ch, m := range s.m {
		c := &c33tModel{stored: map[uint32]string{}, keys: map[uint32]string{}}
		for k, v := range m.stored {
			c.stored[k] = v
		}
		for k, v := range m.keys {
			c.keys[k] = v
		}
		n.m[ch] = c
	}
	return n
}

// governing: the reference model's peer set for a header of height h of the
// chain — the set announced by the accepted header OF THAT CHAIN with the
// greatest key height below h.
func (m *c33tModel) governing(h uint32) (uint32, string) {
	best, name, ok := uint32(0), "", false
	for k, v := range m.keys {
		if k < h && (!ok || k > best) {
			best, name, ok = k, v, true
		}
	}
	return best, name
}

func (m *c33tModel) key() string {
	var hs []int
	for k := range m.keys {
		hs = append(hs, int(k))
	}
	sort.Ints(hs)
	var b strings.Builder
	for _, k := range hs {
		fmt.Fprintf(&b, "%d>%s,", k, m.keys[uint32(k)])
	}
	b.WriteString("|")
	hs = hs[:0]
	for k := range m.stored {
		hs = append(hs, int(k))
	}
	sort.Ints(hs)
	for _, k := range hs {
		fmt.Fprintf(&b, "%d,", k)
	}
	return b.String()
}

func (s *c33tState) modelKey() string {
	var b strings.Builder
	for _, ch := range c33tChains {
		b.WriteString(ch + "[" + s.m[ch].key() + "]")
	}
	return b.String()
}

// key: the contract's storage (both chains) without the header bodies and
// without currentHeight (syncBlockHeader never reads them back beyond "a
// header exists at this height"), plus the model.
func (f *c33tFix) key(s *c33tState) string {
	var b strings.Builder
	for _, kv := range s.env.Dump(utils.HeaderSyncContractAddress) {
		k := kv.K[1+common.ADDR_LEN:]
		switch {
		case bytes.HasPrefix(k, []byte(header_sync.BLOCK_HEADER)), bytes.HasPrefix(k, []byte(header_sync.CURRENT_HEIGHT)):
		case bytes.HasPrefix(k, []byte(header_sync.HEADER_INDEX)):
			fmt.Fprintf(&b, "%x;", k)
		default:
			fmt.Fprintf(&b, "%x=%x;", k, kv.V)
		}
	}
	return b.String() + "#" + s.modelKey()
}

func (f *c33tFix) indexedHash(e *vnative.Env, ch string, h uint32) string {
	cb, err := utils.GetUint64Bytes(c33tChainID[ch])
	f.r.Need(err == nil, "GetUint64Bytes: %v", err)
	hb, err := utils.GetUint32Bytes(h)
	f.r.Need(err == nil, "GetUint32Bytes: %v", err)
	k := append(append([]byte(header_sync.HEADER_INDEX), cb...), hb...)
	v := e.Get(vnative.StorageKey(utils.HeaderSyncContractAddress, k))
	if v == nil {
		return ""
	}
	raw, err := cstates.GetValueFromRawStorageItem(v)
	f.r.Need(err == nil, "header index of chain %s height %d: %v", ch, h, err)
	u, err := common.Uint256ParseFromBytes(raw)
	f.r.Need(err == nil, "header index of chain %s height %d: %v", ch, h, err)
	return u.ToHexString()
}

func (f *c33tFix) storedHash(e *vnative.Env, ch string, h uint32) string {
	ns := &native.NativeService{CacheDB: storage.NewCacheDB(e.Overlay)}
	st, err := header_sync.GetHeaderByHeight(ns, c33tChainID[ch], h)
	f.r.Need(err == nil, "GetHeaderByHeight(%s, %d): %v", ch, h, err)
	if st == nil {
		return ""
	}
	hh := st.Hash()
	return hh.ToHexString()
}

func (f *c33tFix) class(c string) {
	if !f.quiet {
		f.r.Class(c)
	}
}

func (f *c33tFix) quorum(e *c33tEvent, set string) (int, int, bool) {
	m := c33tSets[set]
	if len(m) == 0 {
		return 0, 0, false
	}
	valid := 0
	for _, a := range m {
		if e.valid[a] {
			valid++
		}
	}
	return valid, len(m), 3*valid >= 2*len(m)
}

func (f *c33tFix) signerAccts(name string) []int {
	for _, sg := range c33tSigners {
		if sg.name == name {
			return sg.accts
		}
	}
	return nil
}

func c33tOther(ch string) string {
	if ch == "A" {
		return "B"
	}
	return "A"
}

// apply runs one syncBlockHeader call carrying the header(s) named by label
// ("a" or "a+b") on the real contract and on the reference model.
func (f *c33tFix) apply(s *c33tState, label string) (string, string) {
	parts := strings.Split(label, "+")
	var evs []*c33tEvent
	var raws [][]byte
	var before []string
	for _, p := range parts {
		e := f.evs[p]
		f.r.Need(e != nil, "unknown event %q", p)
		evs = append(evs, e)
		raws = append(raws, e.raw)
		before = append(before, f.indexedHash(s.env, e.chain, e.height))
	}
	batch := len(evs) > 1
	cross := batch && evs[0].chain != evs[1].chain
	sink := common.NewZeroCopySink(nil)
	(&header_sync.SyncBlockHeaderParam{Address: vnative.Acct(1).Address, Headers: raws}).Serialization(sink)
	res := s.env.Call(utils.HeaderSyncContractAddress, header_sync.SYNC_BLOCK_HEADER, sink.Bytes(), vnative.Acct(1).Address)
	s.depth++
	s.hist = append(s.hist, label)
	if !f.quiet {
		f.r.Eval(1)
	}
	if res.Err != nil && strings.HasPrefix(res.Err.Error(), "PANIC") {
		f.class("two:panic")
		return "twochains:panic", "syncBlockHeader panicked: " + res.Err.Error()
	}
	if res.Err != nil {
		// nothing was committed (the fixture commits a call's writes only on success, as a transaction does)
		if batch {
			if cross {
				f.class("two:batch:cross-chain:rolled-back")
				// non-vacuity of the cross-chain confusion case: the first header is fine for its chain, the
				// second one is sealed by two thirds of the set governing the FIRST header (the other chain's
				// set) but not of the set governing its own height on its own chain
				_, g0 := s.m[evs[0].chain].governing(evs[0].height)
				_, g1 := s.m[evs[1].chain].governing(evs[1].height)
				_, _, ok0 := f.quorum(evs[0], g0)
				_, _, own1 := f.quorum(evs[1], g1)
				_, _, oth1 := f.quorum(evs[1], g0)
				if before[0] == "" && before[1] == "" && ok0 && !own1 && oth1 && evs[0].announce == "-" {
					f.class("two:batch:cross-chain:second-sealed-by-first-chains-set:rolled-back")
				}
			} else {
				f.class("two:batch:same-chain:rolled-back")
			}
			return "", ""
		}
		e := evs[0]
		if before[0] != "" {
			f.class("two:height-occupied:" + c33hReason(res.Err))
			return "", ""
		}
		_, g := s.m[e.chain].governing(e.height)
		f.class(fmt.Sprintf("two:%s:%s@%s:%s", e.chain, e.signers, g, c33hReason(res.Err)))
		if e.announce != "-" {
			f.class(fmt.Sprintf("two:%s:announce:%s->%s:rejected", e.chain, g, e.announce))
		}
		return "", ""
	}
	if batch {
		if cross {
			f.class("two:batch:cross-chain:committed")
		} else {
			f.class("two:batch:same-chain:committed")
		}
	}
	vkey, vdetail := "", ""
	fresh := 0
	for i, e := range evs {
		m := s.m[e.chain]
		after := f.storedHash(s.env, e.chain, e.height)
		if before[i] != "" {
			// syncBlockHeader skips heights that already have a header
			if after == before[i] {
				f.class("two:height-occupied:header-kept")
				continue
			}
			f.class("two:height-occupied:header-replaced")
		}
		if after != e.hash || after == before[i] {
			f.class("two:call-ok:header-not-stored")
			continue
		}
		// accepted: judge against the set governing e.height on e.chain in the model (state BEFORE this header)
		gk, g := m.governing(e.height)
		valid, size, ok := f.quorum(e, g)
		if ok {
			fresh++
			f.class(fmt.Sprintf("two:%s:%s@%s:accepted", e.chain, e.signers, g))
			if e.announce != "-" {
				f.class(fmt.Sprintf("two:%s:announce:%s->%s:accepted", e.chain, g, e.announce))
			}
			if cross && fresh == 2 {
				f.class("two:batch:cross-chain:both-stored")
				if evs[0].height == evs[1].height {
					f.class("two:batch:cross-chain:both-stored:same-height")
				}
			}
		} else {
			f.class("two:accepted:valid<2/3-of-governing-set")
			rel := "no-stored-set-has-two-thirds"
			if _, _, own := f.quorum(e, e.announce); e.announce != "-" && own {
				rel = "two-thirds-of-own-announced-set"
			} else {
				found := false
				var ks []int
				for k := range m.keys {
					ks = append(ks, int(k))
				}
				sort.Ints(ks)
				for _, k := range ks {
					if _, _, q := f.quorum(e, m.keys[uint32(k)]); q && uint32(k) != gk {
						found = true
						if uint32(k) < gk {
							rel = "two-thirds-of-superseded-set"
						} else {
							rel = "two-thirds-of-set-stored-at-later-height"
						}
					}
				}
				if !found {
					for _, set := range s.m[c33tOther(e.chain)].keys {
						if _, _, q := f.quorum(e, set); q {
							rel = "two-thirds-of-a-set-of-another-chain"
						}
					}
				}
			}
			if vkey == "" {
				vkey = "twochains:accepted-without-two-thirds-of-governing-set:" + rel
				vdetail = fmt.Sprintf("syncBlockHeader accepted and stored header %s of chain %s (id %d, height %d, announcing peer set %s, bookkeepers/signatures %s = keys %v); the peer set governing height %d of chain %s is %s = keys %v (announced by the accepted header of that chain at key height %d), of which only %d distinct member(s) have a verifying signature over the header hash, two thirds of %d requires %d [%s]; accepted key heights per chain: %s",
					e.label, e.chain, c33tChainID[e.chain], e.height, e.announce, e.signers, f.signerAccts(e.signers), e.height, e.chain, g, c33tSets[g], gk, valid, size, (2*size+2)/3, rel, s.modelKey())
			}
		}
		// the model follows what the contract accepted
		m.stored[e.height] = e.hash
		if e.announce != "-" {
			m.keys[e.height] = e.announce
		}
	}
	return vkey, vdetail
}

func (f *c33tFix) config(maxDepth int) xs.Config {
	return xs.Config{
		Init:   func() interface{} { return f.init() },
		Events: func(si interface{}) []string { return f.menu },
		Apply:  func(si interface{}, ev string) (string, string) { return f.apply(si.(*c33tState), ev) },
		Key: func(si interface{}) string {
			s := si.(*c33tState)
			k := f.key(s)
			if !f.seen[k] {
				f.seen[k] = true
				f.states = append(f.states, s)
			}
			return k
		},
		Clone:    func(si interface{}) interface{} { return si.(*c33tState).clone() },
		MaxDepth: maxDepth,
	}
}

// explore: BFS over single-header calls (all shards run it; only shard 0
// reports its counters and classes), then every ordered pair of headers (not
// the same chain AND height) as ONE call from every distinct state of depth <=
// batchDepth, the (state, pair) items split over the shards.
func (f *c33tFix) explore(r *vh.Run, tag string, batchDepth int) {
	f.quiet = r.R.Shard != 0
	st := xs.Run(r, f.config(2*f.heights+1))
	r.State(-st.States)
	if f.quiet {
		// a repetition of the search shard 0 reports
		r.Trans(-st.Transitions)
		r.Trace(-st.Transitions)
	} else {
		// count distinct states by key (union over shards in the evidence)
		for k := range f.seen {
			r.StateKey(tag + k)
		}
		r.Set(tag+"single_header_search", fmt.Sprintf("2 chains x heights 1..%d, %d events, states=%d transitions=%d per-depth-new=%v", f.heights, len(f.menu), st.States, st.Transitions, st.PerDepth))
	}
	if st.Capped {
		return
	}
	f.quiet = false
	var pairs []string
	for _, a := range f.menu {
		for _, b := range f.menu {
			if f.evs[a].chain != f.evs[b].chain || f.evs[a].height != f.evs[b].height {
				pairs = append(pairs, a+"+"+b)
			}
		}
	}
	idx, nstates := 0, 0
	var ran, foreign int64
	for _, s := range f.states {
		if s.depth > batchDepth {
			continue
		}
		nstates++
		for _, p := range pairs {
			idx++
			if !r.Mine(idx) {
				continue
			}
			if r.Expired() {
				r.Capped("deadline during the batch pass")
				return
			}
			n := s.clone()
			vk, vd := f.apply(n, p)
			ran++
			if vk != "" {
				r.Violation(vk, fmt.Sprintf("after %s: %s", strings.Join(n.hist, " ; "), vd), map[string]interface{}{"history": n.hist})
			}
			if !f.seen[f.key(n)] {
				foreign++
			}
		}
	}
	r.Trans(ran)
	r.Trace(ran)
	if r.R.Shard == 0 {
		r.Set(tag+"batch_pass", fmt.Sprintf("%d ordered pairs x %d of the %d states", len(pairs), nstates, len(f.states)))
	}
	if foreign > 0 {
		// a 2-header call reached a state no sequence of single-header calls reaches: its futures were not explored
		r.Add(tag+"batch_only_states", foreign)
		r.Capped(fmt.Sprintf("%d batch calls ended in states outside the single-header search", foreign))
	}
}

func TestVerif_C33_TwoChains(t *testing.T) {
	r := vh.Start(t, "C33", "twochains")
	defer r.Finish()
	r.Rule("explicit-state BFS over sequences of syncBlockHeader calls on a Native/mem fixture holding TWO side chains registered by real syncGenesisHeader calls (chain A: peer set PA, chain B: peer set PB, 4 keys each, disjoint, both at key height 0): event = one call with one header (chain A or B) x (height h in 1..H, any order) x (announces no new peer set / PA / PB) x (bookkeepers+signatures: 3 of PA, 2 of PA, 3 of PB, 2 of PB, 2 of PA plus 2 of PB); states deduplicated on the contract's storage of both chains (peer sets, key heights, occupied heights) + reference model; search runs until no new state appears. Then every ordered pair of such headers (same chain at different heights, or different chains at any heights, both orders) as ONE call from the stated states. Oracle on every header that got stored: #distinct members of the peer set governing its height ON ITS OWN CHAIN (reference model per chain: set announced by the accepted header of that chain with the greatest key height below it, genesis = PA resp. PB) with a verifying signature (core/signature.Verify) * 3 >= 2 * |set|; classes = (chain : signer list @ governing set : accept / reject reason), (chain : governing set -> announced set : accept/reject), batch outcomes")
	b := vnative.OpenSolo(nil)
	defer b.Close()

	var rc struct {
		History []string `json:"history"`
	}
	if r.ReplayCase(&rc) {
		if len(rc.History) == 0 {
			return // a case of another unit
		}
		f := c33tOpen(r, b, 2)
		for _, l := range rc.History {
			for _, p := range strings.Split(l, "+") {
				if f.evs[p] == nil {
					return // not a history of this unit
				}
			}
		}
		s := f.init()
		for i, l := range rc.History {
			if k, d := f.apply(s, l); k != "" {
				r.Violation(k, fmt.Sprintf("after %s: %s", strings.Join(rc.History[:i+1], " ; "), d), map[string]interface{}{"history": rc.History[:i+1]})
				break
			}
		}
		r.State(1)
		r.Trans(int64(len(rc.History)))
		r.Sample(map[string]interface{}{"replayed": rc.History})
		return
	}

	if r.Quick() {
		r.Bound("2 chains, H=2 heights each, 60 single-header events, all call sequences (search exhausted at depth 2H+1); 2-header batches: all 2700 ordered pairs from every state of depth <= 1")
		c33tOpen(r, b, 2).explore(r, "H2.", 1)
	} else {
		r.Bound("2 chains, H=2 heights each, 60 single-header events, all call sequences (search exhausted at depth 2H+1); 2-header batches: all 2700 ordered pairs from every state of the search")
		c33tOpen(r, b, 2).explore(r, "H2.", 1<<30)
	}
	r.Assume("two side chains with disjoint 4-key peer sets; headers reach the contract one or two per call; the fixture commits a call's writes only when the call returns no error (what a transaction does); header bodies and currentHeight are left out of the state key (syncBlockHeader never reads them back beyond 'a header exists at this height')")
}

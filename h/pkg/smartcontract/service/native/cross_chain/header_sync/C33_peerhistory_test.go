package header_sync_test

// C33, unit peerhistory — "the peer set" of the statement is the consensus
// peer set the contract holds for the chain at the header's height.  That set
// changes over time: a header whose consensus payload carries a NewChainConfig
// replaces it for all later heights.  This unit explores HISTORIES of
// syncBlockHeader calls on a real Native/mem fixture: headers at heights
// 1..H, in any order, that announce no / the same / a second / an attacker
// peer set and that are signed by quorums and sub-quorums of each of these
// sets; every call sequence (explicit-state BFS, deduplicated on the
// contract's storage) is executed, and additionally every 2-header batch in
// one call.  Oracle: a header that got stored carries verifying signatures of
// at least two thirds of the distinct members of the set that governs its
// height according to the headers ACCEPTED BEFORE it (boring reference model:
// key height -> announced set), never according to its own announcement.

import (
	"bytes"
	"fmt"
	"sort"
	"strings"
	"testing"

	"encoding/json"

	"github.com/ontio/ontology-crypto/keypair"
	"github.com/ontio/ontology/account"
	"github.com/ontio/ontology/common"
	vconfig "github.com/ontio/ontology/consensus/vbft/config"
	"github.com/ontio/ontology/core/signature"
	cstates "github.com/ontio/ontology/core/states"
	"github.com/ontio/ontology/smartcontract/service/native"
	ccom "github.com/ontio/ontology/smartcontract/service/native/cross_chain/common"
	"github.com/ontio/ontology/smartcontract/service/native/cross_chain/header_sync"
	"github.com/ontio/ontology/smartcontract/service/native/utils"
	"github.com/ontio/ontology/smartcontract/storage"
	"github.com/ontio/ontology/verifshim/vh"
	"github.com/ontio/ontology/verifshim/vnative"
	"github.com/ontio/ontology/verifshim/xs"
)

const c33hChain = uint64(133)

// peer sets (vnative.Acct indices).  P1 shares two members with P0, X is disjoint from both.
var c33hSets = map[string][]int{"P0": {10, 11, 12, 13}, "P1": {12, 13, 20, 21}, "X": {100, 101}}
var c33hAnnounce = []string{"-", "P0", "P1", "X"}

type c33hSigner struct {
	name  string
	accts []int
}

// bookkeeper list = signer list, one valid signature each, in this order
var c33hSigners = []c33hSigner{
	{"P0q", []int{10, 11, 12}},       // 3 of P0's 4
	{"P0s", []int{12, 13}},           // 2 of P0's 4 (both also in P1)
	{"P1q", []int{12, 13, 20}},       // 3 of P1's 4
	{"P1s", []int{20, 21}},           // 2 of P1's 4
	{"P1x3", []int{20, 20, 20}},      // one peer of P1 listed three times
	{"X", []int{100, 101}},           // all of X
	{"P0qX", []int{10, 11, 12, 100}}, // quorum of P0 plus an attacker key
}

var c33hUniverse = []int{10, 11, 12, 13, 20, 21, 100, 101}

type c33hEvent struct {
	label    string
	height   uint32
	announce string
	signers  string
	raw      []byte
	hash     string
	valid    map[int]bool // account -> some entry of SigData verifies under its key over the header hash
}

type c33hFix struct {
	r       *vh.Run
	heights int
	evs     map[string]*c33hEvent
	menu    []string
	genesis *vnative.Env
	quiet   bool
	// registry of distinct states, in discovery order
	seen   map[string]bool
	states []*c33hState
}

type c33hState struct {
	env   *vnative.Env
	depth int
	hist  []string
	// reference model
	stored map[uint32]string // height -> hash of the accepted header
	keys   map[uint32]string // key height -> name of the set announced by the header accepted there (0: genesis)
}

func c33hPayload(set string) []byte {
	info := &vconfig.VbftBlockInfo{Proposer: 1}
	if set != "-" {
		m := c33hSets[set]
		cfg := &vconfig.ChainConfig{N: uint32(len(m)), C: uint32((len(m) - 1) / 3)}
		for i, a := range m {
			cfg.Peers = append(cfg.Peers, &vconfig.PeerConfig{Index: uint32(i + 1), ID: vconfig.PubkeyID(vnative.Acct(a).PublicKey)})
		}
		info.NewChainConfig = cfg
	}
	p, err := json.Marshal(info)
	if err != nil {
		panic(err)
	}
	return p
}

func c33hOpen(r *vh.Run, b *vnative.Base, heights int) *c33hFix {
	f := &c33hFix{r: r, heights: heights, evs: map[string]*c33hEvent{}, seen: map[string]bool{}}
	acct := map[int]*account.Account{}
	for _, a := range c33hUniverse {
		acct[a] = vnative.Acct(a)
	}
	// genesis header (height 0) announcing P0, through the real syncGenesisHeader
	gen := &ccom.Header{ChainID: c33hChain, Height: 0, Timestamp: 1000, ConsensusPayload: c33hPayload("P0")}
	gh := gen.Hash()
	for _, a := range c33hSets["P0"] {
		gen.Bookkeepers = append(gen.Bookkeepers, acct[a].PublicKey)
		gen.SigData = append(gen.SigData, c33Sign(acct[a], gh[:]))
	}
	e := b.NewEnv()
	sink := common.NewZeroCopySink(nil)
	(&header_sync.SyncGenesisHeaderParam{GenesisHeader: c33Raw(gen)}).Serialization(sink)
	res := e.Call(utils.HeaderSyncContractAddress, header_sync.SYNC_GENESIS_HEADER, sink.Bytes(), vnative.Acct(0).Address)
	r.Need(res.Err == nil, "syncGenesisHeader chain %d: %v", c33hChain, res.Err)
	f.genesis = e

	for h := 1; h <= heights; h++ {
		for _, an := range c33hAnnounce {
			tmpl := ccom.Header{ChainID: c33hChain, Height: uint32(h), Timestamp: uint32(1000 + h), ConsensusData: uint64(h), ConsensusPayload: c33hPayload(an)}
			t0 := tmpl
			hash := t0.Hash()
			sigOf := map[int][]byte{}
			for _, a := range c33hUniverse {
				sigOf[a] = c33Sign(acct[a], hash[:])
			}
			for _, sg := range c33hSigners {
				hd := tmpl
				var bks []keypair.PublicKey
				var sigs [][]byte
				for _, a := range sg.accts {
					bks = append(bks, acct[a].PublicKey)
					sigs = append(sigs, sigOf[a])
				}
				hd.Bookkeepers, hd.SigData = bks, sigs
				ev := &c33hEvent{label: fmt.Sprintf("h%d:%s:%s", h, an, sg.name), height: uint32(h), announce: an, signers: sg.name,
					raw: c33Raw(&hd), hash: hash.ToHexString(), valid: map[int]bool{}}
				for _, a := range c33hUniverse {
					for _, s := range sigs {
						if signature.Verify(acct[a].PublicKey, hash[:], s) == nil {
							ev.valid[a] = true
						}
					}
				}
				// the truth table must be what the signer list says
				want := map[int]bool{}
				for _, a := range sg.accts {
					want[a] = true
				}
				for _, a := range c33hUniverse {
					r.Need(ev.valid[a] == want[a], "signature truth table of %s unexpected for key %d", ev.label, a)
				}
				f.evs[ev.label] = ev
				f.menu = append(f.menu, ev.label)
			}
		}
	}
	return f
}

func (f *c33hFix) init() *c33hState {
	return &c33hState{env: f.genesis.Clone(), stored: map[uint32]string{}, keys: map[uint32]string{0: "P0"}}
}

func (s *c33hState) clone() *c33hState {
	n := &c33hState{env: s.env.Clone(), depth: s.depth, stored: map[uint32]string{}, keys: map[uint32]string{}}
	n.hist = append([]string{}, s.hist...)
	for k, v := range s.stored {
		n.stored[k] = v
	}
	for k, v := range s.keys {
		n.keys[k] = v
	}
	return n
}

// governing: the reference model's peer set for a header of height h — the set
// announced by the accepted header with the greatest key height below h.
func (s *c33hState) governing(h uint32) (uint32, string) {
	best, name, ok := uint32(0), "", false
	for k, v := range s.keys {
		if k < h && (!ok || k > best) {
			best, name, ok = k, v, true
		}
	}
	return best, name
}

func (s *c33hState) modelKey() string {
	var hs []int
	for k := range s.keys {
		hs = append(hs, int(k))
	}
	sort.Ints(hs)
	var b strings.Builder
	for _, k := range hs {
		fmt.Fprintf(&b, "%d>%s,", k, s.keys[uint32(k)])
	}
	b.WriteString("|")
	hs = hs[:0]
	for k := range s.stored {
		hs = append(hs, int(k))
	}
	sort.Ints(hs)
	for _, k := range hs {
		fmt.Fprintf(&b, "%d,", k)
	}
	return b.String()
}

// key: the contract's storage for the chain without the header bodies (they
// are never read back by syncBlockHeader beyond "is there a header at this
// height") and without currentHeight (written, never read), plus the model.
func (f *c33hFix) key(s *c33hState) string {
	var b strings.Builder
	for _, kv := range s.env.Dump(utils.HeaderSyncContractAddress) {
		k := kv.K[1+common.ADDR_LEN:]
		switch {
		case bytes.HasPrefix(k, []byte(header_sync.BLOCK_HEADER)), bytes.HasPrefix(k, []byte(header_sync.CURRENT_HEIGHT)):
		case bytes.HasPrefix(k, []byte(header_sync.HEADER_INDEX)):
			fmt.Fprintf(&b, "%x;", k)
		default:
			fmt.Fprintf(&b, "%x=%x;", k, kv.V)
		}
	}
	return b.String() + "#" + s.modelKey()
}

// indexedHash: the header-index entry of a height, read straight from the
// contract's storage (what syncBlockHeader's "already synced" test looks at,
// without decoding the header body).
func (f *c33hFix) indexedHash(e *vnative.Env, h uint32) string {
	cb, err := utils.GetUint64Bytes(c33hChain)
	f.r.Need(err == nil, "GetUint64Bytes: %v", err)
	hb, err := utils.GetUint32Bytes(h)
	f.r.Need(err == nil, "GetUint32Bytes: %v", err)
	k := append(append([]byte(header_sync.HEADER_INDEX), cb...), hb...)
	v := e.Get(vnative.StorageKey(utils.HeaderSyncContractAddress, k))
	if v == nil {
		return ""
	}
	raw, err := cstates.GetValueFromRawStorageItem(v)
	f.r.Need(err == nil, "header index of height %d: %v", h, err)
	u, err := common.Uint256ParseFromBytes(raw)
	f.r.Need(err == nil, "header index of height %d: %v", h, err)
	return u.ToHexString()
}

// storedHash: hash of the header GetHeaderByHeight returns (the accessor the
// cross-chain manager uses), "" when there is none.
func (f *c33hFix) storedHash(e *vnative.Env, h uint32) string {
	ns := &native.NativeService{CacheDB: storage.NewCacheDB(e.Overlay)}
	st, err := header_sync.GetHeaderByHeight(ns, c33hChain, h)
	f.r.Need(err == nil, "GetHeaderByHeight(%d): %v", h, err)
	if st == nil {
		return ""
	}
	hh := st.Hash()
	return hh.ToHexString()
}

func c33hReason(err error) string {
	s := err.Error()
	switch {
	case strings.Contains(s, "must more than 2/3"):
		return "rejected:too-few-bookkeepers"
	case strings.Contains(s, "invalid pubkey"):
		return "rejected:non-member-listed"
	case strings.Contains(s, "duplicate bookkeeper"):
		return "rejected:duplicate-bookkeeper"
	case strings.Contains(s, "not enough signatures"):
		return "rejected:too-few-signatures"
	case strings.Contains(s, "multi-signature verification failed"):
		return "rejected:signature-does-not-verify"
	}
	return "rejected:other"
}

func (f *c33hFix) class(c string) {
	if !f.quiet {
		f.r.Class(c)
	}
}

func (f *c33hFix) quorum(e *c33hEvent, set string) (int, int, bool) {
	m := c33hSets[set]
	valid := 0
	for _, a := range m {
		if e.valid[a] {
			valid++
		}
	}
	return valid, len(m), 3*valid >= 2*len(m)
}

// apply runs one syncBlockHeader call carrying the header(s) named by label
// ("a" or "a+b") on the real contract and on the reference model.
func (f *c33hFix) apply(s *c33hState, label string) (string, string) {
	parts := strings.Split(label, "+")
	var evs []*c33hEvent
	var raws [][]byte
	var before []string
	for _, p := range parts {
		e := f.evs[p]
		f.r.Need(e != nil, "unknown event %q", p)
		evs = append(evs, e)
		raws = append(raws, e.raw)
		before = append(before, f.indexedHash(s.env, e.height))
	}
	batch := len(evs) > 1
	sink := common.NewZeroCopySink(nil)
	(&header_sync.SyncBlockHeaderParam{Address: vnative.Acct(1).Address, Headers: raws}).Serialization(sink)
	res := s.env.Call(utils.HeaderSyncContractAddress, header_sync.SYNC_BLOCK_HEADER, sink.Bytes(), vnative.Acct(1).Address)
	s.depth++
	s.hist = append(s.hist, label)
	if !f.quiet {
		f.r.Eval(1)
	}
	if res.Err != nil && strings.HasPrefix(res.Err.Error(), "PANIC") {
		f.class("hist:panic")
		return "peerhistory:panic", "syncBlockHeader panicked: " + res.Err.Error()
	}
	if res.Err != nil {
		// nothing was committed (the fixture commits a call's writes only on success, as a transaction does)
		if batch {
			f.class("hist:batch:rolled-back")
			return "", ""
		}
		e := evs[0]
		if before[0] != "" {
			f.class("hist:height-occupied:" + c33hReason(res.Err))
			return "", ""
		}
		_, g := s.governing(e.height)
		f.class(fmt.Sprintf("hist:%s@%s:%s", e.signers, g, c33hReason(res.Err)))
		if e.announce != "-" {
			f.class(fmt.Sprintf("hist:announce:%s->%s:rejected", g, e.announce))
			_, _, own := f.quorum(e, e.announce)
			if _, _, gov := f.quorum(e, g); own && !gov {
				// sealed by two thirds of the set it announces itself, not of the governing one
				f.class(fmt.Sprintf("hist:self-appointed:%s->%s:rejected", g, e.announce))
			}
		}
		return "", ""
	}
	if batch {
		f.class("hist:batch:committed")
	}
	vkey, vdetail := "", ""
	for i, e := range evs {
		after := f.storedHash(s.env, e.height)
		if before[i] != "" {
			// syncBlockHeader skips heights that already have a header
			if after == before[i] {
				f.class("hist:height-occupied:header-kept")
				continue
			}
			f.class("hist:height-occupied:header-replaced")
		}
		if after != e.hash || after == before[i] {
			f.class("hist:call-ok:header-not-stored")
			continue
		}
		// accepted: judge against the set governing e.height in the model (state BEFORE this header)
		gk, g := s.governing(e.height)
		valid, size, ok := f.quorum(e, g)
		if ok {
			f.class(fmt.Sprintf("hist:%s@%s:accepted", e.signers, g))
			if e.announce != "-" {
				f.class(fmt.Sprintf("hist:announce:%s->%s:accepted", g, e.announce))
			}
			if batch && i > 0 && gk == evs[i-1].height && s.keys[gk] == evs[i-1].announce && before[i-1] == "" {
				f.class("hist:batch:second-governed-by-first:accepted")
			}
		} else {
			f.class("hist:accepted:valid<2/3-of-governing-set")
			rel := "no-stored-set-has-two-thirds"
			if _, _, own := f.quorum(e, e.announce); e.announce != "-" && own {
				rel = "two-thirds-of-own-announced-set"
			} else {
				var ks []int
				for k := range s.keys {
					ks = append(ks, int(k))
				}
				sort.Ints(ks)
				for _, k := range ks {
					if _, _, q := f.quorum(e, s.keys[uint32(k)]); q && uint32(k) != gk {
						if uint32(k) < gk {
							rel = "two-thirds-of-superseded-set"
						} else {
							rel = "two-thirds-of-set-stored-at-later-height"
						}
					}
				}
			}
			if vkey == "" {
				vkey = "peerhistory:accepted-without-two-thirds-of-governing-set:" + rel
				vdetail = fmt.Sprintf("syncBlockHeader accepted and stored header %s of chain %d (height %d, announcing peer set %s, bookkeepers/signatures %s = keys %v); the peer set governing height %d is %s = keys %v (announced by the accepted header at key height %d; key heights accepted so far: %s), of which only %d distinct member(s) have a verifying signature over the header hash, two thirds of %d requires %d [%s]",
					e.label, c33hChain, e.height, e.announce, e.signers, f.signerAccts(e.signers), e.height, g, c33hSets[g], gk, s.modelKey(), valid, size, (2*size+2)/3, rel)
			}
		}
		// the model follows what the contract accepted
		s.stored[e.height] = e.hash
		if e.announce != "-" {
			s.keys[e.height] = e.announce
		}
	}
	return vkey, vdetail
}

func (f *c33hFix) signerAccts(name string) []int {
	for _, sg := range c33hSigners {
		if sg.name == name {
			return sg.accts
		}
	}
	return nil
}

func (f *c33hFix) config(maxDepth int) xs.Config {
	return xs.Config{
		Init:   func() interface{} { return f.init() },
		Events: func(si interface{}) []string { return f.menu },
		Apply:  func(si interface{}, ev string) (string, string) { return f.apply(si.(*c33hState), ev) },
		Key: func(si interface{}) string {
			s := si.(*c33hState)
			k := f.key(s)
			if !f.seen[k] {
				f.seen[k] = true
				f.states = append(f.states, s)
			}
			return k
		},
		Clone:    func(si interface{}) interface{} { return si.(*c33hState).clone() },
		MaxDepth: maxDepth,
	}
}

// explore: BFS over single-header calls (all shards run it, it is cheap; only
// shard 0 reports its counters and classes), then every ordered pair of
// headers of different heights as ONE call from every distinct state of depth
// <= batchDepth, the (state, pair) items split over the shards.
func (f *c33hFix) explore(r *vh.Run, tag string, batchDepth int, quietSearch bool) {
	f.quiet = quietSearch || r.R.Shard != 0
	c := f.config(f.heights + 1)
	c.Tag = ""
	st := xs.Run(r, c)
	if f.quiet {
		// a repetition of a search another shard / another pass reports
		r.State(-st.States)
		r.Trans(-st.Transitions)
		r.Trace(-st.Transitions)
	} else {
		// count distinct states by key (union over shards in the evidence)
		r.State(-st.States)
		for k := range f.seen {
			r.StateKey(tag + k)
		}
		r.Set(tag+"single_header_search", fmt.Sprintf("heights 1..%d, %d events, states=%d transitions=%d per-depth-new=%v", f.heights, len(f.menu), st.States, st.Transitions, st.PerDepth))
	}
	if st.Capped || batchDepth < 0 {
		return
	}
	f.quiet = false
	var pairs []string
	for _, a := range f.menu {
		for _, b := range f.menu {
			if f.evs[a].height != f.evs[b].height {
				pairs = append(pairs, a+"+"+b)
			}
		}
	}
	idx, nstates := 0, 0
	var ran, foreign int64
	for _, s := range f.states {
		if s.depth > batchDepth {
			continue
		}
		nstates++
		for _, p := range pairs {
			idx++
			if !r.Mine(idx) {
				continue
			}
			if r.Expired() {
				r.Capped("deadline during the batch pass")
				return
			}
			n := s.clone()
			vk, vd := f.apply(n, p)
			ran++
			if vk != "" {
				r.Violation(vk, fmt.Sprintf("after %s: %s", strings.Join(n.hist, " ; "), vd), map[string]interface{}{"history": n.hist})
			}
			if !f.seen[f.key(n)] {
				foreign++
			}
		}
	}
	r.Trans(ran)
	r.Trace(ran)
	if r.R.Shard == 0 {
		r.Set(tag+"batch_pass", fmt.Sprintf("%d ordered pairs x %d of the %d states", len(pairs), nstates, len(f.states)))
	}
	if foreign > 0 {
		// a 2-header call reached a state no sequence of single-header calls reaches: its futures were not explored
		r.Add(tag+"batch_only_states", foreign)
		r.Capped(fmt.Sprintf("%d batch calls ended in states outside the single-header search", foreign))
	}
}

func TestVerif_C33_PeerHistory(t *testing.T) {
	r := vh.Start(t, "C33", "peerhistory")
	defer r.Finish()
	r.Rule("explicit-state BFS over sequences of syncBlockHeader calls on a Native/mem fixture whose side chain was registered by a real syncGenesisHeader (peer set P0, 4 keys): event = one call with one header (height h in 1..H, any order) x (announces no new peer set / P0 again / P1 (4 keys, 2 shared with P0) / attacker set X (2 foreign keys)) x (bookkeepers+signatures: 3 of P0, 2 of P0, 3 of P1, 2 of P1, one P1 key three times, all of X, 3 of P0 plus an X key); states deduplicated on the contract's storage (peer sets, key heights, occupied heights) + reference model; search runs until no new state appears. Then every ordered pair of such headers (different heights) as ONE call from the stated states. Oracle on every header that got stored: #distinct members of the peer set governing its height (reference model: set announced by the accepted header with the greatest key height below it, genesis = P0) with a verifying signature (core/signature.Verify) * 3 >= 2 * |set|; classes = (signer list @ governing set : accept / reject reason), (governing set -> announced set : accept/reject)")
	b := vnative.OpenSolo(nil)
	defer b.Close()

	var rc struct {
		History []string `json:"history"`
	}
	if r.ReplayCase(&rc) {
		if len(rc.History) == 0 {
			return // a case of another unit
		}
		f := c33hOpen(r, b, 4)
		for _, l := range rc.History {
			for _, p := range strings.Split(l, "+") {
				if f.evs[p] == nil {
					return // not a history of this unit
				}
			}
		}
		s := f.init()
		for i, l := range rc.History {
			if k, d := f.apply(s, l); k != "" {
				r.Violation(k, fmt.Sprintf("after %s: %s", strings.Join(rc.History[:i+1], " ; "), d), map[string]interface{}{"history": rc.History[:i+1]})
				break
			}
		}
		r.State(1)
		r.Trans(int64(len(rc.History)))
		r.Sample(map[string]interface{}{"replayed": rc.History})
		return
	}

	if r.Quick() {
		r.Bound("H=3 heights, 84 single-header events, all call sequences (search exhausted at depth H+1); 2-header batches: all 4704 ordered pairs from every state of depth <= 1")
		c33hOpen(r, b, 3).explore(r, "H3.", 1, false)
	} else {
		r.Bound("H=4 heights, 112 single-header events, all call sequences (search exhausted at depth H+1); 2-header batches: all 4704 ordered pairs over heights 1..3 from every state of the H=3 search")
		c33hOpen(r, b, 4).explore(r, "H4.", -1, false)
		if !r.Expired() {
			f3 := c33hOpen(r, b, 3)
			f3.explore(r, "H3.", 1<<30, true)
		}
	}
	r.Assume("headers reach the contract one or two per call; the fixture commits a call's writes only when the call returns no error (what a transaction does); header bodies and currentHeight are left out of the state key (syncBlockHeader never reads them back beyond 'a header exists at this height')")
}

package header_sync_test

// C33 — the header-sync contract accepts a side-chain header only if valid
// signatures from distinct consensus peers of that chain number at least two
// thirds of the peer set; listing the same peer several times does not count
// extra.
//
// Seams: header_sync.VerifyHeader on the contract state left by a real
// syncGenesisHeader call (Native/mem fixture), and the contract method
// syncBlockHeader itself (accepted = the header got stored).

import (
	"encoding/json"
	"fmt"
	"sort"
	"strings"
	"testing"

	"github.com/ontio/ontology-crypto/keypair"
	"github.com/ontio/ontology/account"
	"github.com/ontio/ontology/common"
	vconfig "github.com/ontio/ontology/consensus/vbft/config"
	"github.com/ontio/ontology/core/signature"
	"github.com/ontio/ontology/smartcontract/service/native"
	ccom "github.com/ontio/ontology/smartcontract/service/native/cross_chain/common"
	"github.com/ontio/ontology/smartcontract/service/native/cross_chain/header_sync"
	"github.com/ontio/ontology/smartcontract/service/native/utils"
	"github.com/ontio/ontology/smartcontract/storage"
	"github.com/ontio/ontology/verifshim/vh"
	"github.com/ontio/ontology/verifshim/vnative"
)

const c33Outsider = 100

type c33Fix struct {
	n       int
	chain   uint64
	base    *vnative.Env // state after syncGenesisHeader
	cur     *vnative.Env // scratch clone for contract calls
	members []*account.Account
	out     *account.Account
	tmpl    ccom.Header
	hash    common.Uint256
	syms    []string
	sig     [][]byte
	truth   [][]bool
	sampled map[string]bool
}

// sample keeps the first case of every outcome class.
func (f *c33Fix) sample(r *vh.Run, class, seam string, bk, sg []int) {
	if f.sampled == nil {
		f.sampled = map[string]bool{}
	}
	if f.sampled[class] {
		return
	}
	f.sampled[class] = true
	r.Sample(map[string]interface{}{"peers": f.n, "seam": seam, "bookkeepers": append([]int{}, bk...), "signatures": f.symNames(sg), "outcome": class})
}

func c33Sign(a *account.Account, msg []byte) []byte {
	s, err := signature.Sign(a, msg)
	if err != nil {
		panic(err)
	}
	return s
}

func c33Raw(h *ccom.Header) []byte {
	sink := common.NewZeroCopySink(nil)
	h.Serialization(sink)
	return sink.Bytes()
}

// c33Open registers side chain `chain` with an n-peer consensus set through
// the real syncGenesisHeader method and prepares the height-1 header template.
func c33Open(r *vh.Run, e *vnative.Env, n int, chain uint64) *c33Fix {
	f := &c33Fix{n: n, chain: chain, out: vnative.Acct(c33Outsider)}
	var peers []*vconfig.PeerConfig
	var bks []keypair.PublicKey
	for i := 0; i < n; i++ {
		a := vnative.Acct(10 + i)
		f.members = append(f.members, a)
		peers = append(peers, &vconfig.PeerConfig{Index: uint32(i + 1), ID: vconfig.PubkeyID(a.PublicKey)})
		bks = append(bks, a.PublicKey)
	}
	payload, _ := json.Marshal(&vconfig.VbftBlockInfo{NewChainConfig: &vconfig.ChainConfig{N: uint32(n), C: uint32((n - 1) / 3), Peers: peers}})
	gen := &ccom.Header{ChainID: chain, Height: 0, Timestamp: 1000, ConsensusPayload: payload, Bookkeepers: bks}
	gh := gen.Hash()
	for _, a := range f.members {
		gen.SigData = append(gen.SigData, c33Sign(a, gh[:]))
	}
	sink := common.NewZeroCopySink(nil)
	(&header_sync.SyncGenesisHeaderParam{GenesisHeader: c33Raw(gen)}).Serialization(sink)
	res := e.Call(utils.HeaderSyncContractAddress, header_sync.SYNC_GENESIS_HEADER, sink.Bytes(), vnative.Acct(0).Address)
	r.Need(res.Err == nil, "syncGenesisHeader chain %d: %v", chain, res.Err)
	f.base = e

	p1, _ := json.Marshal(&vconfig.VbftBlockInfo{Proposer: 1, LastConfigBlockNum: 0})
	f.tmpl = ccom.Header{ChainID: chain, Height: 1, Timestamp: 1001, PrevBlockHash: gh, ConsensusData: 1, ConsensusPayload: p1}
	t0 := f.tmpl
	f.hash = t0.Hash()
	for j, a := range f.members {
		f.syms = append(f.syms, fmt.Sprintf("V%d", j))
		f.sig = append(f.sig, c33Sign(a, f.hash[:]))
	}
	w0 := c33Sign(f.members[0], f.hash[:])
	for string(w0) == string(f.sig[0]) {
		w0 = c33Sign(f.members[0], f.hash[:])
	}
	other := f.hash
	other[0] ^= 0x55
	f.syms = append(f.syms, "W0", "VX", "J", "B")
	f.sig = append(f.sig, w0, c33Sign(f.out, f.hash[:]), c33Sign(f.members[0], other[:]), []byte{1, 2, 3})
	for s := range f.syms {
		row := make([]bool, n)
		for j, a := range f.members {
			row[j] = signature.Verify(a.PublicKey, f.hash[:], f.sig[s]) == nil
		}
		f.truth = append(f.truth, row)
	}
	for j := 0; j < n; j++ {
		r.Need(f.truth[j][j], "member %d's own signature does not verify", j)
	}
	r.Need(f.truth[n][0] && !f.truth[n+1][0] && !f.truth[n+2][0] && !f.truth[n+3][0], "symbol truth table unexpected")
	return f
}

func (f *c33Fix) key(i int) keypair.PublicKey {
	if i >= f.n {
		return f.out.PublicKey
	}
	return f.members[i].PublicKey
}

func (f *c33Fix) header(bk, sg []int) *ccom.Header {
	h := f.tmpl
	for _, i := range bk {
		h.Bookkeepers = append(h.Bookkeepers, f.key(i))
	}
	for _, s := range sg {
		h.SigData = append(h.SigData, f.sig[s])
	}
	return &h
}

func (f *c33Fix) validPeers(sg []int) int {
	cnt := 0
	for j := 0; j < f.n; j++ {
		for _, s := range sg {
			if f.truth[s][j] {
				cnt++
				break
			}
		}
	}
	return cnt
}

func (f *c33Fix) symNames(sg []int) []string {
	o := make([]string, len(sg))
	for i, s := range sg {
		o[i] = f.syms[s]
	}
	return o
}

// verifyDirect: header_sync.VerifyHeader over the contract state (read-only).
func (f *c33Fix) verifyDirect(h *ccom.Header) error {
	ns := &native.NativeService{CacheDB: storage.NewCacheDB(f.base.Overlay)}
	// headers reach the contract as bytes: verify a freshly decoded copy (fresh key objects), and the
	// in-memory object as well; the two verdicts must agree
	raw := c33Raw(h)
	h2, derr := ccom.HeaderFromRawBytes(raw)
	e1 := header_sync.VerifyHeader(ns, h)
	if derr != nil {
		return e1
	}
	e2 := header_sync.VerifyHeader(ns, h2)
	if (e1 == nil) != (e2 == nil) {
		if e2 == nil {
			return nil // accepted on the real (decoded) path: judged by the oracle
		}
		return e2
	}
	return e2
}

// syncCall: the contract method; accepted iff the call succeeds and the
// header is stored afterwards.
func (f *c33Fix) syncCall(r *vh.Run, h *ccom.Header) (bool, error) {
	if f.cur == nil {
		f.cur = f.base.Clone()
	}
	sink := common.NewZeroCopySink(nil)
	(&header_sync.SyncBlockHeaderParam{Address: vnative.Acct(1).Address, Headers: [][]byte{c33Raw(h)}}).Serialization(sink)
	res := f.cur.Call(utils.HeaderSyncContractAddress, header_sync.SYNC_BLOCK_HEADER, sink.Bytes(), vnative.Acct(1).Address)
	if res.Err != nil {
		return false, res.Err
	}
	ns := &native.NativeService{CacheDB: storage.NewCacheDB(f.cur.Overlay)}
	st, err := header_sync.GetHeaderByHeight(ns, f.chain, 1)
	r.Need(err == nil, "GetHeaderByHeight: %v", err)
	f.cur = nil // state changed: next call starts from a fresh clone
	return st != nil && st.Hash() == h.Hash(), nil
}

func c33RejectClass(err error) string {
	s := err.Error()
	switch {
	case strings.Contains(s, "must more than 2/3"):
		return "rejected:too-few-bookkeepers"
	case strings.Contains(s, "invalid pubkey"):
		return "rejected:non-member-listed"
	case strings.Contains(s, "not enough signatures"):
		return "rejected:too-few-signatures"
	case strings.Contains(s, "invalid signature data"):
		return "rejected:malformed-signature"
	case strings.Contains(s, "multi-signature verification failed"):
		return "rejected:signature-does-not-verify"
	}
	return "rejected:other"
}

type c33Case struct {
	N    int
	Seam string
	BK   []int
	Sigs []int
	Syms []string
}

func (f *c33Fix) eval(r *vh.Run, seam string, bk, sg []int) (accepted bool) {
	h := f.header(bk, sg)
	var err error
	var p string
	if seam == "VerifyHeader" {
		p = vh.Catch(func() { err = f.verifyDirect(h) })
		accepted = err == nil
	} else {
		p = vh.Catch(func() { accepted, err = f.syncCall(r, h) })
	}
	r.Eval(1)
	c := c33Case{N: f.n, Seam: seam, BK: append([]int{}, bk...), Sigs: append([]int{}, sg...), Syms: f.symNames(sg)}
	if p != "" {
		r.Class("panic")
		r.Violation("panic:"+seam, "panic while verifying a header: "+p, c)
		return false
	}
	if !accepted {
		if err == nil {
			r.Class("rejected:not-stored")
		} else {
			r.Class(c33RejectClass(err))
			if len(sg) >= 2 {
				f.sample(r, c33RejectClass(err), seam, bk, sg)
			}
		}
		return false
	}
	valid := f.validPeers(sg)
	if 3*valid >= 2*f.n {
		r.Class("accepted:valid>=2/3")
		f.sample(r, "accepted:valid>=2/3", seam, bk, sg)
		return true
	}
	r.Class("accepted:valid<2/3")
	f.sample(r, "accepted:valid<2/3", seam, bk, sg)
	seen := map[int]bool{}
	lc := "distinct-bookkeepers"
	for _, i := range bk {
		if seen[i] {
			lc = "duplicate-bookkeepers"
		}
		seen[i] = true
	}
	if seen[f.n] {
		lc = "non-member-listed"
	}
	key := fmt.Sprintf("accepted:peers=%d:%s:distinct-valid=%d", f.n, lc, valid)
	r.Violation(key, fmt.Sprintf("%s accepted a height-1 side-chain header against a stored set of %d peers: bookkeepers %v (index %d = non-member), signatures %v; only %d distinct peer(s) of the set have a valid signature over the header hash, two thirds of %d requires %d",
		seam, f.n, bk, f.n, f.symNames(sg), valid, f.n, (2*f.n+2)/3), c)
	return true
}

// c33Band: sequences of length minLen..maxLen with at most maxDistinct
// distinct symbols (0 = any); sorted = only non-decreasing sequences
// (one representative per multiset).
type c33Band struct {
	minLen, maxLen, maxDistinct int
	sorted                      bool
}

func (b c33Band) String() string {
	s := fmt.Sprintf("len %d..%d", b.minLen, b.maxLen)
	if b.maxDistinct > 0 {
		s += fmt.Sprintf(" <=%d distinct", b.maxDistinct)
	}
	if b.sorted {
		s += " non-decreasing"
	}
	return s
}

func c33Seqs(alpha int, b c33Band, f func(s []int) bool) {
	var rec func(s []int, used map[int]int, L int) bool
	rec = func(s []int, used map[int]int, L int) bool {
		if len(s) == L {
			return f(s)
		}
		a0 := 0
		if b.sorted && len(s) > 0 {
			a0 = s[len(s)-1]
		}
		for a := a0; a < alpha; a++ {
			if b.maxDistinct > 0 && used[a] == 0 && len(used) >= b.maxDistinct {
				continue
			}
			used[a]++
			ok := rec(append(s, a), used, L)
			used[a]--
			if used[a] == 0 {
				delete(used, a)
			}
			if !ok {
				return false
			}
		}
		return true
	}
	for L := b.minLen; L <= b.maxLen; L++ {
		if !rec(make([]int, 0, L), map[int]int{}, L) {
			return
		}
	}
}

type c33Space struct {
	n          int
	memberSyms int
	bk, sg     []c33Band
	callSgLen  int // syncBlockHeader is also driven for signature lists of length <= callSgLen, and for every header VerifyHeader accepted
}

func (sp c33Space) String() string {
	s := fmt.Sprintf("peers=%d: keys={peer 0..%d, non-member}; bookkeeper lists", sp.n, sp.memberSyms-1)
	for _, b := range sp.bk {
		s += " [" + b.String() + "]"
	}
	s += " x signature lists"
	for _, b := range sp.sg {
		s += " [" + b.String() + "]"
	}
	s += fmt.Sprintf("; syncBlockHeader seam on accepted headers and on signature lists len<=%d", sp.callSgLen)
	return s
}

var c33Quick = []c33Space{
	{n: 4, memberSyms: 3, bk: []c33Band{{0, 4, 0, false}}, sg: []c33Band{{0, 3, 0, false}, {4, 4, 2, true}}, callSgLen: 2},
	{n: 7, memberSyms: 2, bk: []c33Band{{0, 4, 0, false}, {5, 7, 0, true}}, sg: []c33Band{{0, 2, 0, false}, {3, 7, 2, true}}, callSgLen: 1},
}

var c33Thorough = []c33Space{
	{n: 4, memberSyms: 4, bk: []c33Band{{0, 4, 0, false}, {5, 5, 2, false}}, sg: []c33Band{{0, 4, 0, false}, {5, 5, 2, true}}, callSgLen: 2},
	{n: 7, memberSyms: 3, bk: []c33Band{{0, 4, 0, false}, {5, 7, 0, true}, {5, 6, 2, false}}, sg: []c33Band{{0, 2, 0, false}, {3, 7, 3, true}, {3, 6, 2, false}}, callSgLen: 1},
	{n: 7, memberSyms: 5, bk: []c33Band{{5, 5, 0, true}}, sg: []c33Band{{5, 5, 0, true}}, callSgLen: 0},
}

func TestVerif_C33(t *testing.T) {
	r := vh.Start(t, "C33", "headersync")
	defer r.Finish()
	spaces := c33Quick
	if r.Thorough() {
		spaces = append(append([]c33Space{}, c33Quick...), c33Thorough...)
	}
	r.Rule("height-1 side-chain headers against a peer set stored by a real syncGenesisHeader call: bookkeeper lists = sequences over peers+{non-member} within the stated bands (the same peer k times, k=1..N, in every position), signature lists = sequences over {valid by peer j, a second valid signature by peer 0, valid by the non-member, well-formed but not verifying, malformed} (the same signature k times); each header goes through header_sync.VerifyHeader and, for accepted headers and short signature lists, through the syncBlockHeader contract method; accepted => 3*#distinct peers of the stored set with a verifying signature >= 2*|set|; classes = accept / reject reason")
	bound := ""
	for _, sp := range spaces {
		bound += sp.String() + " || "
	}
	r.Bound(bound + "one key height (genesis), header height 1")

	b := vnative.OpenSolo(nil)
	defer b.Close()
	e := b.NewEnv()
	fix := map[int]*c33Fix{}
	for _, n := range []int{4, 7} {
		fix[n] = c33Open(r, e, n, uint64(100+n))
	}

	var rc c33Case
	if r.ReplayCase(&rc) {
		if f := fix[rc.N]; f != nil {
			f.eval(r, rc.Seam, rc.BK, rc.Sigs)
		}
		return
	}

	// non-vacuity: an honest header (ceil(2N/3) distinct peers, their signatures) passes both seams
	for _, n := range []int{4, 7} {
		f := fix[n]
		var hb []int
		for j := 0; 3*j < 2*n; j++ {
			hb = append(hb, j)
		}
		r.Need(f.eval(r, "VerifyHeader", hb, hb), "honest header rejected by VerifyHeader (peers=%d)", n)
		r.Need(f.eval(r, "syncBlockHeader", hb, hb), "honest header rejected by syncBlockHeader (peers=%d)", n)
		// one signature short
		f.eval(r, "VerifyHeader", hb, hb[:len(hb)-1])
	}

	idx := 0
	for _, sp := range spaces {
		f := fix[sp.n]
		n := sp.n
		var alpha []int
		for j := 0; j < sp.memberSyms; j++ {
			alpha = append(alpha, j)
		}
		alpha = append(alpha, n, n+1, n+2, n+3)
		var sigLists [][]int
		for _, sb := range sp.sg {
			c33Seqs(len(alpha), sb, func(s []int) bool {
				l := make([]int, len(s))
				for i, a := range s {
					l[i] = alpha[a]
				}
				sigLists = append(sigLists, l)
				return true
			})
		}
		nbk := 0
		for _, bb := range sp.bk {
			c33Seqs(sp.memberSyms+1, bb, func(s []int) bool {
				idx++
				nbk++
				if !r.Mine(idx) {
					return true
				}
				if r.Expired() {
					return false
				}
				bk := make([]int, len(s))
				for i, a := range s {
					bk[i] = a
					if a >= sp.memberSyms {
						bk[i] = n
					}
				}
				for _, sg := range sigLists {
					acc := f.eval(r, "VerifyHeader", bk, sg)
					if acc || len(sg) <= sp.callSgLen {
						f.eval(r, "syncBlockHeader", bk, sg)
					}
				}
				return true
			})
		}
		var names []string
		for _, a := range alpha {
			names = append(names, f.syms[a])
		}
		sort.Strings(names)
		r.Set(fmt.Sprintf("peers%d.m%d.signature_lists", n, sp.memberSyms), []int{len(sigLists)})
		r.Set(fmt.Sprintf("peers%d.m%d.bookkeeper_lists", n, sp.memberSyms), []int{nbk})
		r.Set(fmt.Sprintf("peers%d.m%d.signature_symbols", n, sp.memberSyms), names)
	}
	r.NeedClass("accepted:valid>=2/3")
	r.NeedClass("rejected:too-few-bookkeepers")
	r.NeedClass("rejected:non-member-listed")
	r.NeedClass("rejected:signature-does-not-verify")
}

package auth_test

// C41 — role-based contract authorization grants exactly the assigned
// functions (DESIGN.md §4 C41, §9 "C41 (auth)").
//
// Explicit-state search (xs) over histories of the REAL auth contract, driven
// through the real NativeService on the Native/mem fixture: identities are ONT
// IDs registered through the real ontid contract, every call carries a chosen
// witness set.  In every reachable state the registered native method
// `verifyToken` is evaluated for every (identity, function, key proof) and
// compared with a boring reference model.
//
// Unit "auth" (TestVerif_C41) searches the mixed menu of c41alphabet; unit
// "lists" (TestVerif_C41_lists, C41_lists_test.go) searches a menu in which the
// list-valued parameters of assignOntIDsToRole / assignFuncsToRole range over
// every ordered list (with repeats) of 1..3 elements.

import (
	"bytes"
	"crypto/sha256"
	"encoding/hex"
	"fmt"
	"sort"
	"strings"
	"testing"
	"time"

	"github.com/ontio/ontology-crypto/keypair"
	"github.com/ontio/ontology/account"
	"github.com/ontio/ontology/common"
	"github.com/ontio/ontology/smartcontract/service/native/auth"
	"github.com/ontio/ontology/smartcontract/service/native/utils"
	"github.com/ontio/ontology/verifshim/vh"
	"github.com/ontio/ontology/verifshim/vnative"
	"github.com/ontio/ontology/verifshim/xs"
)

// ---------------------------------------------------------------- alphabet

const (
	c41NID   = 3
	c41NRole = 2
	c41NFn   = 2
)

// prefix-sharing names on purpose (comparisons by prefix would confuse them)
var c41roleName = [c41NRole]string{"r", "rw"}
var c41fnName = [c41NFn]string{"f", "fg"}

const (
	c41kInit = iota
	c41kInitNoCtx
	c41kTransfer
	c41kFuncs
	c41kIDs
	c41kDeleg
	c41kWd
	c41kTime
)

var c41kindName = []string{"initContractAdmin", "initContractAdmin(no calling contract)", "transfer", "assignFuncsToRole",
	"assignOntIDsToRole", "delegate", "withdraw", "time"}

type c41ev struct {
	label   string
	kind    int
	a       int   // acting identity named in the parameters (admin / from / initiator / new admin for init+transfer)
	b       int   // delegate / to
	role    int   // role index
	fns     []int // assignFuncsToRole
	persons []int // assignOntIDsToRole
	period  uint64
	level   uint64
	wit     int // identity whose (first) key address is the only witness
	dt      uint32
}

func c41ints(v []int) string {
	s := make([]string, len(v))
	for i, x := range v {
		s[i] = fmt.Sprint(x)
	}
	return strings.Join(s, "+")
}

func c41mk(e c41ev) c41ev {
	switch e.kind {
	case c41kInit:
		e.label = fmt.Sprintf("init(admin=I%d)", e.a)
	case c41kInitNoCtx:
		e.label = fmt.Sprintf("init-nocaller(admin=I%d)", e.a)
	case c41kTransfer:
		e.label = fmt.Sprintf("transfer(new=I%d|wit=K%d)", e.a, e.wit)
	case c41kFuncs:
		e.label = fmt.Sprintf("funcs(admin=I%d,role=%d,fns=%s|wit=K%d)", e.a, e.role, c41ints(e.fns), e.wit)
	case c41kIDs:
		e.label = fmt.Sprintf("ids(admin=I%d,role=%d,ids=%s|wit=K%d)", e.a, e.role, c41ints(e.persons), e.wit)
	case c41kDeleg:
		e.label = fmt.Sprintf("delegate(I%d->I%d,role=%d,period=%d,level=%d|wit=K%d)", e.a, e.b, e.role, e.period, e.level, e.wit)
	case c41kWd:
		e.label = fmt.Sprintf("withdraw(init=I%d,from=I%d,role=%d|wit=K%d)", e.a, e.b, e.role, e.wit)
	case c41kTime:
		e.label = fmt.Sprintf("time+%d", e.dt)
	}
	return e
}

// c41alphabet returns the event menu, simplest first.  "wrong witness" = the
// key of the next identity instead of the acting identity's own key.
func c41alphabet(thorough bool) []c41ev {
	var out []c41ev
	add := func(e c41ev) { out = append(out, c41mk(e)) }
	// contract admin
	add(c41ev{kind: c41kInit, a: 0})
	add(c41ev{kind: c41kInit, a: 1})
	add(c41ev{kind: c41kInitNoCtx, a: 0})
	// time
	add(c41ev{kind: c41kTime, dt: 1})
	add(c41ev{kind: c41kTime, dt: 10})
	// role -> functions
	for _, a := range []int{0, 1} {
		add(c41ev{kind: c41kFuncs, a: a, role: 0, fns: []int{0}, wit: a})
		add(c41ev{kind: c41kFuncs, a: a, role: 0, fns: []int{1}, wit: a})
		add(c41ev{kind: c41kFuncs, a: a, role: 1, fns: []int{1}, wit: a})
		add(c41ev{kind: c41kFuncs, a: a, role: 0, fns: []int{0}, wit: (a + 1) % c41NID})
	}
	if thorough {
		add(c41ev{kind: c41kFuncs, a: 0, role: 1, fns: []int{0, 1}, wit: 0})
	}
	// identity -> role
	for _, r := range []int{0, 1} {
		for _, p := range []int{1, 2} {
			add(c41ev{kind: c41kIDs, a: 0, role: r, persons: []int{p}, wit: 0})
		}
	}
	add(c41ev{kind: c41kIDs, a: 0, role: 0, persons: []int{0}, wit: 0})
	add(c41ev{kind: c41kIDs, a: 1, role: 0, persons: []int{1}, wit: 1}) // self-assignment by a non-admin / new admin
	add(c41ev{kind: c41kIDs, a: 1, role: 0, persons: []int{2}, wit: 1})
	add(c41ev{kind: c41kIDs, a: 0, role: 0, persons: []int{1}, wit: 1}) // wrong witness
	if thorough {
		add(c41ev{kind: c41kIDs, a: 0, role: 0, persons: []int{1, 2}, wit: 0})
		add(c41ev{kind: c41kIDs, a: 0, role: 1, persons: []int{2, 2}, wit: 0})
	}
	// delegation: 1->2 (both roles), 2->0 (second link of the chain 1->2->0), 0->2 (competing root)
	for _, per := range []uint64{1, 10} {
		add(c41ev{kind: c41kDeleg, a: 1, b: 2, role: 0, period: per, level: 1, wit: 1})
		add(c41ev{kind: c41kDeleg, a: 1, b: 2, role: 1, period: per, level: 1, wit: 1})
		add(c41ev{kind: c41kDeleg, a: 0, b: 2, role: 0, period: per, level: 1, wit: 0})
	}
	add(c41ev{kind: c41kDeleg, a: 2, b: 0, role: 0, period: 10, level: 1, wit: 2})
	add(c41ev{kind: c41kDeleg, a: 1, b: 2, role: 0, period: 10, level: 2, wit: 1})
	add(c41ev{kind: c41kDeleg, a: 1, b: 2, role: 0, period: 10, level: 1, wit: 2}) // wrong witness (the delegate's own key)
	if thorough {
		add(c41ev{kind: c41kDeleg, a: 2, b: 0, role: 0, period: 1, level: 1, wit: 2})
		add(c41ev{kind: c41kDeleg, a: 2, b: 0, role: 0, period: 10, level: 2, wit: 2})
		add(c41ev{kind: c41kDeleg, a: 1, b: 2, role: 0, period: 10, level: 0, wit: 1})
		add(c41ev{kind: c41kDeleg, a: 1, b: 0, role: 1, period: 10, level: 1, wit: 1})
	}
	// withdrawal
	add(c41ev{kind: c41kWd, a: 1, b: 2, role: 0, wit: 1})
	add(c41ev{kind: c41kWd, a: 1, b: 2, role: 1, wit: 1})
	add(c41ev{kind: c41kWd, a: 0, b: 2, role: 0, wit: 0}) // a role holder that may or may not be the root
	add(c41ev{kind: c41kWd, a: 2, b: 0, role: 0, wit: 2})
	add(c41ev{kind: c41kWd, a: 1, b: 2, role: 0, wit: 2}) // wrong witness
	if thorough {
		add(c41ev{kind: c41kWd, a: 2, b: 2, role: 0, wit: 2}) // the delegate "withdraws" itself
		add(c41ev{kind: c41kWd, a: 0, b: 2, role: 1, wit: 0})
	}
	// admin transfer (explicit witness: the admin is implicit in the call)
	for _, n := range []int{1, 2} {
		for _, w := range []int{0, 1} {
			add(c41ev{kind: c41kTransfer, a: n, wit: w})
		}
	}
	if thorough {
		add(c41ev{kind: c41kTransfer, a: 0, wit: 1})
		add(c41ev{kind: c41kTransfer, a: 0, wit: 2})
		add(c41ev{kind: c41kTransfer, a: 1, wit: 2})
	}
	return out
}

// ---------------------------------------------------------------- fixture

type c41fix struct {
	base     *vnative.Base
	baseWS   []vnative.KV // write set of the identity registrations (never changes afterwards)
	id       [c41NID][]byte
	key      [c41NID]common.Address // first key (keyNo 1) of each identity
	key2     common.Address         // second key (keyNo 2) of identity 1
	contract common.Address
	other    common.Address // a contract nobody ever initialises
	authPfx  []byte
	evs      map[string]c41ev
	menu     []string
	horizon  uint32 // expiry of permanent tokens (2100-01-01T12:00Z)
	maxDepth int
	quiet    bool // probing (no class recording)
	rootOff  int  // shard-balancing offset for the next seed's root menu
	// impl observations per canonical state
	obs map[string][]bool
	r   *vh.Run
}

func (f *c41fix) class(c string) {
	if !f.quiet {
		f.r.Class(c)
	}
}

func c41varbytes(bs ...[]byte) []byte {
	sink := common.NewZeroCopySink(nil)
	for _, b := range bs {
		sink.WriteVarBytes(b)
	}
	return sink.Bytes()
}

func c41open(r *vh.Run) *c41fix {
	f := &c41fix{base: vnative.OpenSolo(nil), obs: map[string][]bool{}, r: r}
	f.contract = common.Address{0xc4, 0x41, 0x01}
	f.other = common.Address{0xc4, 0x41, 0x02}
	f.authPfx = vnative.StorageKey(utils.AuthContractAddress, nil)
	f.horizon = uint32(time.Date(2100, 1, 1, 12, 0, 0, 0, time.UTC).Unix())
	e := f.base.NewEnv()
	genesisAuth := vnative.DumpKey(e.Dump(utils.AuthContractAddress)) // the governance contract's admin entry
	for i := 0; i < c41NID; i++ {
		id, err := account.CreateID([]byte{0x41, byte(i)})
		r.Need(err == nil, "CreateID: %v", err)
		acct := vnative.Acct(i + 1)
		f.id[i] = []byte(id)
		f.key[i] = acct.Address
		res := e.Call(utils.OntIDContractAddress, "regIDWithPublicKey",
			c41varbytes(f.id[i], keypair.SerializePublicKey(acct.PublicKey)), acct.Address)
		r.Need(res.Err == nil && bytes.Equal(res.Ret, utils.BYTE_TRUE), "regIDWithPublicKey I%d: %v", i, res.Err)
	}
	// identity 1 gets a second key (keyNo 2)
	k2 := vnative.Acct(11)
	f.key2 = k2.Address
	res := e.Call(utils.OntIDContractAddress, "addKey",
		c41varbytes(f.id[1], keypair.SerializePublicKey(k2.PublicKey), keypair.SerializePublicKey(vnative.Acct(2).PublicKey)), f.key[1])
	r.Need(res.Err == nil, "addKey I1: %v", res.Err)
	e.Overlay.GetWriteSet().ForEach(func(k, v []byte) {
		f.baseWS = append(f.baseWS, vnative.KV{K: append([]byte{}, k...), V: append([]byte{}, v...)})
	})
	r.Need(vnative.DumpKey(e.Dump(utils.AuthContractAddress)) == genesisAuth, "identity registration wrote auth storage")
	f.evs = map[string]c41ev{}
	for _, ev := range c41alphabet(true) {
		f.evs[ev.label] = ev
	}
	for _, ev := range c41listAlphabet() {
		f.evs[ev.label] = ev
	}
	for _, ev := range c41alphabet(r.Thorough()) {
		f.menu = append(f.menu, ev.label)
	}
	return f
}

// ---------------------------------------------------------------- reference model (DESIGN §9)

type c41deleg struct {
	set    bool
	root   int
	level  uint64
	expiry uint32
}

type c41ref struct {
	admin     int                       // -1 = unset
	funcs     [c41NRole][c41NFn]bool    // grow-only
	direct    [c41NID][c41NRole]bool    // roles assigned by the admin
	dirLive   [c41NID][c41NRole]bool    // (naming only) assigned while the same role was held through a live delegation
	dirLate   [c41NID][c41NRole]bool    // (naming only) assigned as a later (not the first) element of the call's person list
	fnLate    [c41NRole][c41NFn]bool    // (naming only) assigned as a later (not the first) element of the call's function list
	deleg     [c41NID][c41NRole]c41deleg
	withdrawn [c41NID][c41NRole]bool // (naming only)
	now       uint32
}

// holdsRole: direct, or through a delegation with expiry >= now.
func (m *c41ref) holdsRole(id, role int) bool {
	if m.direct[id][role] {
		return true
	}
	d := m.deleg[id][role]
	return d.set && d.expiry >= m.now
}

// may: does the identity hold a role the function is assigned to; why / why not.
func (m *c41ref) may(id, fn int) (bool, string) {
	why := ""
	rank := 0
	set := func(rk int, w string) {
		if rk > rank {
			rank, why = rk, w
		}
	}
	for role := 0; role < c41NRole; role++ {
		if !m.funcs[role][fn] {
			continue
		}
		// the plain reason outranks the same reason with a list-position note
		fl, fnote := 1, ""
		if m.fnLate[role][fn] {
			fl, fnote = 0, "+function-listed-after-others-in-its-call"
		}
		d := m.deleg[id][role]
		if m.direct[id][role] && !m.dirLive[id][role] {
			if m.dirLate[id][role] {
				set(16+fl, "direct-role(person-listed-after-others-in-its-call)"+fnote)
			} else {
				set(18+fl, "direct-role"+fnote)
			}
		}
		if d.set && d.expiry > m.now {
			set(14+fl, "delegated-role"+fnote)
		}
		if d.set && d.expiry == m.now {
			set(12+fl, "delegated-role@expiry==now"+fnote)
		}
		if m.direct[id][role] && m.dirLive[id][role] {
			set(10+fl, "direct-role-assigned-during-live-delegation"+fnote)
		}
	}
	if rank > 0 {
		return true, why
	}
	// naming of the refusal
	for role := 0; role < c41NRole; role++ {
		d := m.deleg[id][role]
		if m.funcs[role][fn] && d.set && d.expiry < m.now {
			return false, "delegation-expired"
		}
	}
	for role := 0; role < c41NRole; role++ {
		if m.funcs[role][fn] && m.withdrawn[id][role] {
			return false, "delegation-withdrawn"
		}
	}
	for role := 0; role < c41NRole; role++ {
		if m.holdsRole(id, role) {
			return false, "role-lacks-function"
		}
	}
	return false, "no-role"
}

// ---------------------------------------------------------------- state

type c41st struct {
	f     *c41fix
	root  bool
	seed  string
	env   *vnative.Env // transient; rebuilt from (baseWS, authWS, now) on demand
	auth  []vnative.KV // overlay write-set entries under the auth contract prefix
	dh    string       // hash of the sorted auth-contract storage dump
	ref   c41ref
	depth int
}

func (s *c41st) materialize() *vnative.Env {
	if s.env == nil {
		e := s.f.base.NewEnv()
		for _, kv := range s.f.baseWS {
			e.Overlay.Put(kv.K, kv.V)
		}
		for _, kv := range s.auth {
			if len(kv.V) == 0 {
				e.Overlay.Delete(kv.K)
			} else {
				e.Overlay.Put(kv.K, kv.V)
			}
		}
		s.env = e
	}
	s.env.Time = s.ref.now
	return s.env
}

func (s *c41st) snapshot() {
	if s.env == nil {
		return
	}
	var ws []vnative.KV
	pfx := s.f.authPfx
	s.env.Overlay.GetWriteSet().ForEach(func(k, v []byte) {
		if bytes.HasPrefix(k, pfx) {
			ws = append(ws, vnative.KV{K: append([]byte{}, k...), V: append([]byte{}, v...)})
		}
	})
	s.auth = ws
}

func (s *c41st) dumpHash() string {
	if s.dh == "" {
		d := vnative.DumpKey(s.materialize().Dump(utils.AuthContractAddress))
		h := sha256.Sum256([]byte(d))
		s.dh = fmt.Sprintf("n%d:", strings.Count(d, ";")) + hex.EncodeToString(h[:16])
	}
	return s.dh
}

// key: sorted auth-contract storage dump (hashed) + time.
func (s *c41st) key() string { return fmt.Sprintf("t=%d|%s", s.ref.now, s.dumpHash()) }

// searchKey is what the search deduplicates on: the implementation state
// (storage + time) and the reference state.  On a contract that agrees with
// the reference the second is a function of the first; where a successful
// call left the storage untouched the two diverge, and merging such a state
// with its storage-equal sibling would hide the divergence from later steps.
func (s *c41st) searchKey() string {
	m := s.ref
	return s.key() + fmt.Sprintf("|ref:%d%v%v%v%v%v%v%v", m.admin, m.funcs, m.direct, m.dirLive, m.deleg, m.withdrawn, m.dirLate, m.fnLate)
}

func (f *c41fix) init(seed string, prefix []string, t0 uint32) *c41st {
	s := &c41st{f: f, seed: seed, root: true}
	s.ref.admin = -1
	s.ref.now = f.base.NewEnv().Time
	if t0 != 0 {
		s.ref.now = t0
	}
	for _, l := range prefix {
		if k, d := f.apply(s, l); k != "" {
			f.r.Need(false, "seed %s: violation while building the seed at %s: %s %s", seed, l, k, d)
		}
	}
	return s
}

func c41ser(p common.Serializable) []byte { return common.SerializeToBytes(p) }

// apply drives the real contract and the reference model with one event.
func (f *c41fix) apply(s *c41st, label string) (string, string) {
	ev, ok := f.evs[label]
	if !ok {
		panic("C41: unknown event " + label)
	}
	m := &s.ref
	if ev.kind == c41kTime {
		m.now += ev.dt
		if s.env != nil {
			s.env.Time = m.now
		}
		return "", ""
	}
	before := s.dumpHash()
	e := s.materialize()
	wit := f.key[ev.wit]
	var res vnative.CallResult
	role := []byte(c41roleName[ev.role])
	switch ev.kind {
	case c41kInit:
		res = e.CallFrom(&f.contract, utils.AuthContractAddress, "initContractAdmin",
			c41ser(&auth.InitContractAdminParam{AdminOntID: f.id[ev.a]}))
	case c41kInitNoCtx:
		res = e.Call(utils.AuthContractAddress, "initContractAdmin",
			c41ser(&auth.InitContractAdminParam{AdminOntID: f.id[ev.a]}))
	case c41kTransfer:
		res = e.Call(utils.AuthContractAddress, "transfer",
			c41ser(&auth.TransferParam{ContractAddr: f.contract, NewAdminOntID: f.id[ev.a], KeyNo: 1}), wit)
	case c41kFuncs:
		var fns []string
		for _, x := range ev.fns {
			fns = append(fns, c41fnName[x])
		}
		res = e.Call(utils.AuthContractAddress, "assignFuncsToRole",
			c41ser(&auth.FuncsToRoleParam{ContractAddr: f.contract, AdminOntID: f.id[ev.a], Role: role, FuncNames: fns, KeyNo: 1}), wit)
	case c41kIDs:
		var ps [][]byte
		for _, x := range ev.persons {
			ps = append(ps, f.id[x])
		}
		res = e.Call(utils.AuthContractAddress, "assignOntIDsToRole",
			c41ser(&auth.OntIDsToRoleParam{ContractAddr: f.contract, AdminOntID: f.id[ev.a], Role: role, Persons: ps, KeyNo: 1}), wit)
	case c41kDeleg:
		res = e.Call(utils.AuthContractAddress, "delegate",
			c41ser(&auth.DelegateParam{ContractAddr: f.contract, From: f.id[ev.a], To: f.id[ev.b], Role: role,
				Period: ev.period, Level: ev.level, KeyNo: 1}), wit)
	case c41kWd:
		res = e.Call(utils.AuthContractAddress, "withdraw",
			c41ser(&auth.WithdrawParam{ContractAddr: f.contract, Initiator: f.id[ev.a], Delegate: f.id[ev.b], Role: role, KeyNo: 1}), wit)
	}
	s.dh = ""
	kn := c41kindName[ev.kind]
	if res.Err != nil && strings.HasPrefix(res.Err.Error(), "PANIC") {
		return "panic:" + kn, res.Err.Error()
	}
	success := res.Err == nil && bytes.Equal(res.Ret, utils.BYTE_TRUE)
	if !success {
		if res.Err != nil {
			f.class("op:" + kn + ":error")
		} else {
			f.class("op:" + kn + ":refused")
		}
		// a refusal must leave the contract's storage unchanged
		if after := s.dumpHash(); after != before {
			return "refused-call-changed-storage:" + kn, fmt.Sprintf("%s returned ret=%x err=%v but the auth storage changed", label, res.Ret, res.Err)
		}
		s.dh = before
		return "", ""
	}
	f.class("op:" + kn + ":ok")
	// the contract says the operation happened: demand its legitimacy, then record it.
	vk, vd := "", ""
	bad := func(k, d string) {
		if vk == "" {
			vk, vd = k, label+": "+d
		}
	}
	switch ev.kind {
	case c41kInit, c41kInitNoCtx:
		if ev.kind == c41kInitNoCtx {
			bad("initContractAdmin:succeeded-without-calling-contract", "no contract called it")
		}
		if m.admin != -1 {
			bad("initContractAdmin:overwrote-existing-admin", fmt.Sprintf("admin was already I%d", m.admin))
		}
		m.admin = ev.a
	case c41kTransfer:
		if m.admin == -1 {
			bad("transfer:succeeded-without-admin", "no admin was set")
		} else if ev.wit != m.admin {
			bad("transfer:succeeded-without-admin-key-proof", fmt.Sprintf("admin is I%d, witness was K%d", m.admin, ev.wit))
		}
		m.admin = ev.a
	case c41kFuncs, c41kIDs:
		if ev.a != m.admin {
			bad(kn+":succeeded-for-non-admin", fmt.Sprintf("admin is I%d", m.admin))
		} else if ev.wit != ev.a {
			bad(kn+":succeeded-without-key-proof", fmt.Sprintf("witness was K%d", ev.wit))
		}
		if ev.kind == c41kFuncs {
			// every listed function is assigned to the role (repeats and functions the role already has change nothing)
			for i, x := range ev.fns {
				if !m.funcs[ev.role][x] {
					m.funcs[ev.role][x] = true
					m.fnLate[ev.role][x] = i > 0
				}
			}
		} else {
			// every listed person is given the role (repeats and persons that already hold it change nothing)
			for i, p := range ev.persons {
				if !m.direct[p][ev.role] {
					d := m.deleg[p][ev.role]
					m.direct[p][ev.role] = true
					m.dirLive[p][ev.role] = d.set && d.expiry > m.now
					m.dirLate[p][ev.role] = i > 0
				}
			}
		}
	case c41kDeleg:
		if ev.wit != ev.a {
			bad("delegate:succeeded-without-key-proof", fmt.Sprintf("witness was K%d", ev.wit))
		} else if !m.holdsRole(ev.a, ev.role) {
			bad("delegate:succeeded-though-delegator-lacks-role", fmt.Sprintf("I%d does not hold role %q", ev.a, c41roleName[ev.role]))
		}
		m.deleg[ev.b][ev.role] = c41deleg{set: true, root: ev.a, level: ev.level, expiry: m.now + uint32(ev.period)}
		m.withdrawn[ev.b][ev.role] = false
	case c41kWd:
		d := m.deleg[ev.b][ev.role]
		if ev.wit != ev.a {
			bad("withdraw:succeeded-without-key-proof", fmt.Sprintf("witness was K%d", ev.wit))
		} else if !d.set {
			bad("withdraw:succeeded-without-delegation", fmt.Sprintf("I%d has no delegation of role %q", ev.b, c41roleName[ev.role]))
		} else if d.root != ev.a {
			bad("withdraw:succeeded-for-non-initiator", fmt.Sprintf("the delegation of role %q to I%d was made by I%d", c41roleName[ev.role], ev.b, d.root))
		}
		if d.set {
			m.deleg[ev.b][ev.role] = c41deleg{}
			m.withdrawn[ev.b][ev.role] = true
		}
	}
	return vk, vd
}

// ---------------------------------------------------------------- verdict in every state

type c41query struct {
	id, fn   int
	contract int // 0 = the contract, 1 = the uninitialised contract
	mode     string
	keyNo    uint64
	wit      []common.Address
	proof    bool // does the witness set prove control of key keyNo of the identity
}

func (f *c41fix) queries() []c41query {
	var q []c41query
	for id := 0; id < c41NID; id++ {
		for fn := 0; fn < c41NFn; fn++ {
			q = append(q, c41query{id: id, fn: fn, mode: "own-key", keyNo: 1, wit: []common.Address{f.key[id]}, proof: true})
			q = append(q, c41query{id: id, fn: fn, mode: "no-witness", keyNo: 1})
			q = append(q, c41query{id: id, fn: fn, mode: "other-identity-key", keyNo: 1, wit: []common.Address{f.key[(id+1)%c41NID]}})
			q = append(q, c41query{id: id, fn: fn, contract: 1, mode: "own-key", keyNo: 1, wit: []common.Address{f.key[id]}, proof: true})
			if id == 1 {
				q = append(q, c41query{id: id, fn: fn, mode: "second-key", keyNo: 2, wit: []common.Address{f.key2}, proof: true})
				q = append(q, c41query{id: id, fn: fn, mode: "second-key-as-keyNo1", keyNo: 1, wit: []common.Address{f.key2}})
				q = append(q, c41query{id: id, fn: fn, mode: "first-key-as-keyNo2", keyNo: 2, wit: []common.Address{f.key[id]}})
			}
		}
	}
	return q
}

// observe evaluates the registered native method verifyToken for every query.
func (f *c41fix) observe(s *c41st, qs []c41query) ([]bool, string) {
	e := s.materialize()
	out := make([]bool, len(qs))
	for i, q := range qs {
		c := f.contract
		if q.contract == 1 {
			c = f.other
		}
		res := e.Call(utils.AuthContractAddress, "verifyToken",
			c41ser(&auth.VerifyTokenParam{ContractAddr: c, Caller: f.id[q.id], Fn: c41fnName[q.fn], KeyNo: q.keyNo}), q.wit...)
		if res.Err != nil && strings.HasPrefix(res.Err.Error(), "PANIC") {
			return nil, res.Err.Error()
		}
		out[i] = res.Err == nil && bytes.Equal(res.Ret, utils.BYTE_TRUE)
	}
	return out, ""
}

func (f *c41fix) check(s *c41st, hist []string, qs []c41query) (string, string) {
	s.depth = len(hist)
	k := s.key()
	obs, seen := f.obs[k]
	if !seen {
		before := s.dumpHash()
		var p string
		obs, p = f.observe(s, qs)
		if p != "" {
			return "panic:verifyToken", p
		}
		s.dh = ""
		if s.dumpHash() != before {
			return "verifyToken-changed-storage", "the auth storage differs after the verifyToken queries"
		}
		f.obs[k] = obs
		f.r.Eval(int64(len(qs)))
		f.r.StateKey(k)
	}
	m := &s.ref
	for i, q := range qs {
		role, why := m.may(q.id, q.fn)
		want := role && q.proof && q.contract == 0
		if !seen {
			cls := "denied:" + why
			switch {
			case want && q.mode != "own-key":
				cls = "confirmed:" + why + "(" + q.mode + ")"
			case want:
				cls = "confirmed:" + why
			case q.contract == 1:
				cls = "denied:other-contract"
			case !q.proof:
				cls = "denied:" + q.mode
			}
			f.r.Class(cls)
		}
		if obs[i] == want {
			continue
		}
		desc := fmt.Sprintf("seed=%s now=%d verifyToken(I%d, %q, keyNo=%d, witness=%s)=%v, reference says %v (%s); ref: admin=I%d funcs=%v direct=%v deleg=%+v",
			s.seed, m.now, q.id, c41fnName[q.fn], q.keyNo, q.mode, obs[i], want, why, m.admin, m.funcs, m.direct, m.deleg)
		if obs[i] {
			switch {
			case q.contract == 1:
				return "verifyToken-confirms:role-of-another-contract", desc
			case !q.proof:
				return "verifyToken-confirms:without-key-proof(" + q.mode + ")", desc
			}
			return "verifyToken-confirms:" + why, desc
		}
		return "verifyToken-denies:" + why, desc
	}
	return "", ""
}

// ---------------------------------------------------------------- the check

type c41seed struct {
	name   string
	prefix []string
	t0     uint32
	depth  [2]int // quick, thorough
}

// c41lab: label of an event.
func c41lab(e c41ev) string { return c41mk(e).label }

// c41prefixes: the event prefixes that build the seed states (shared by both units).
func c41prefixes() (s0, s1, s2, s3, s4 []string) {
	lab := c41lab
	init0 := lab(c41ev{kind: c41kInit, a: 0})
	f0 := lab(c41ev{kind: c41kFuncs, a: 0, role: 0, fns: []int{0}, wit: 0})
	f1 := lab(c41ev{kind: c41kFuncs, a: 0, role: 1, fns: []int{1}, wit: 0})
	id := func(role, p int) string { return lab(c41ev{kind: c41kIDs, a: 0, role: role, persons: []int{p}, wit: 0}) }
	dg := func(role int) string {
		return lab(c41ev{kind: c41kDeleg, a: 1, b: 2, role: role, period: 10, level: 1, wit: 1})
	}
	s0 = []string{init0}
	s1 = []string{init0, f0, f1, id(0, 1)}
	s2 = append(append([]string{}, s1...), id(1, 1), id(0, 0))
	s3 = append(append([]string{}, s2...), dg(0), dg(1))
	s4 = append(append([]string{}, s2...), id(1, 2))
	return
}

func c41tier(r *vh.Run) int {
	if r.Thorough() {
		return 1
	}
	return 0
}

func c41bounds(seeds []c41seed, tier int) string {
	var bounds []string
	for _, sd := range seeds {
		bounds = append(bounds, fmt.Sprintf("%s:depth<=%d", sd.name, sd.depth[tier]))
	}
	return strings.Join(bounds, ", ")
}

func TestVerif_C41(t *testing.T) {
	r := vh.Start(t, "C41", "auth")
	defer r.Finish()
	f := c41open(r)
	defer f.base.Close()
	qs := f.queries()

	_, s1, s2, s3, s4 := c41prefixes()
	seeds := []c41seed{
		{"bare", nil, 0, [2]int{4, 6}},
		{"admin+roles+I1:r", s1, 0, [2]int{3, 5}},
		{"admin+roles+I1:r,rw+I0:r", s2, 0, [2]int{3, 5}},
		{"two-delegations-to-I2", s3, 0, [2]int{3, 5}},
		{"admin+roles+I1:r,rw+I0:r+I2:rw", s4, 0, [2]int{4, 5}},
		{"horizon-1(2100-01-01)", s4, f.horizon - 1, [2]int{2, 3}},
	}
	tier := c41tier(r)
	r.Rule("every event sequence (BFS, deduplicated on auth storage + time + reference state) from each seed state is executed on the real auth+ontid contracts; in every distinct state verifyToken is called for every (identity, function, key proof) and compared with the reference model; a class is (reference verdict, reason) of one query or the outcome of one operation kind")
	r.Bound(fmt.Sprintf("3 identities (one with 2 keys), 2 roles, 2 functions, periods {1,10}, levels {0,1,2}, time steps {1,10}; %d events; seeds: %s",
		len(f.menu), c41bounds(seeds, tier)))
	r.Assume("block time never exceeds 2100-01-01T12:00Z, the fixed expiry the contract gives to roles assigned by the admin (time events are disabled at that instant)")
	r.Assume("identities keep their keys (no key revocation / ONT ID changes during a history); one contract is administered, a second one is only queried")

	if c41drive(r, f, qs, seeds) {
		return
	}
	for _, c := range []string{"confirmed:direct-role", "confirmed:delegated-role", "confirmed:delegated-role@expiry==now",
		"confirmed:direct-role(second-key)", "denied:delegation-expired", "denied:delegation-withdrawn", "denied:no-witness",
		"denied:other-identity-key", "denied:role-lacks-function", "denied:no-role", "op:delegate:ok", "op:withdraw:ok", "op:transfer:ok"} {
		r.NeedClass(c)
	}
}

// c41drive runs the search over f.menu from every seed (or, under --replay, the
// stored history from every seed; then it returns true).
func c41drive(r *vh.Run, f *c41fix, qs []c41query, seeds []c41seed) bool {
	tier := c41tier(r)
	clone := func(s *c41st) *c41st {
		n := &c41st{f: f, seed: s.seed, auth: s.auth, dh: s.dh, ref: s.ref}
		if s.env != nil { // not frozen yet (root)
			s.snapshot()
			n.auth = s.auth
		}
		return n
	}
	mk := func(sd c41seed) xs.Config {
		var rootMenu []string
		return xs.Config{
			Init: func() interface{} { return f.init(sd.name, sd.prefix, sd.t0) },
			Events: func(si interface{}) []string {
				s := si.(*c41st)
				var out []string
				for _, l := range f.menu {
					if ev := f.evs[l]; ev.kind == c41kTime && s.ref.now+ev.dt > f.horizon {
						continue
					}
					out = append(out, l)
				}
				if s.root && rootMenu == nil {
					// Shard balancing only (xs shards on the index of the first event): list
					// the first events that lead to a new state contiguously, starting at a
					// position that continues where the previous seed stopped.
					var prod, rest []string
					k0 := s.searchKey()
					f.quiet = true
					for _, l := range out {
						n := clone(s)
						f.apply(n, l)
						if n.searchKey() != k0 {
							prod = append(prod, l)
						} else {
							rest = append(rest, l)
						}
					}
					f.quiet = false
					k := f.rootOff % r.R.NShards
					if k > len(rest) {
						k = len(rest)
					}
					rootMenu = append(append(append([]string{}, rest[:k]...), prod...), rest[k:]...)
					f.rootOff += len(prod)
				}
				if s.root {
					return rootMenu
				}
				return out
			},
			Apply: func(si interface{}, ev string) (string, string) { return f.apply(si.(*c41st), ev) },
			Check: func(si interface{}, hist []string) (string, string) { return f.check(si.(*c41st), hist, qs) },
			Key: func(si interface{}) string {
				s := si.(*c41st)
				k := s.searchKey()
				// freeze: keep only the compact snapshot (nothing for states that are never expanded)
				if s.depth >= f.maxDepth && s.depth > 0 {
					s.auth, s.env = nil, nil
				} else {
					s.snapshot()
					s.env = nil
				}
				return k
			},
			Clone: func(si interface{}) interface{} { return clone(si.(*c41st)) },
			MaxDepth:   sd.depth[tier],
			ShardFirst: true,
		}
	}

	// replay of a stored counterexample: the history is tried from every seed
	var rc struct {
		History []string `json:"history"`
	}
	if r.ReplayCase(&rc) {
		for _, sd := range seeds {
			c := mk(sd)
			f.maxDepth = 1 << 30
			st := c.Init()
			k, d := c.Check(st, nil)
			for i := 0; i < len(rc.History) && k == ""; i++ {
				enabled := false
				for _, l := range c.Events(st) {
					enabled = enabled || l == rc.History[i]
				}
				if _, known := f.evs[rc.History[i]]; !enabled && !known {
					r.Need(false, "replay: unknown event %q", rc.History[i])
				}
				if !enabled && f.evs[rc.History[i]].kind == c41kTime {
					break // the history does not exist from this seed (time horizon)
				}
				if k, d = c.Apply(st, rc.History[i]); k == "" {
					k, d = c.Check(st, rc.History[:i+1])
				}
			}
			if k != "" {
				r.Violation(k, fmt.Sprintf("after %s: %s", strings.Join(rc.History, " ; "), d), map[string]interface{}{"history": rc.History})
			}
		}
		r.State(1)
		r.Trans(int64(len(rc.History)))
		r.Sample(map[string]interface{}{"replayed": rc.History})
		return true
	}

	var perSeed []string
	for _, sd := range seeds {
		c := mk(sd)
		f.maxDepth = c.MaxDepth
		st := xs.Run(r, c)
		// xs counted its states with r.State; this harness counts distinct keys itself (union over seeds and shards)
		r.State(-st.States)
		perSeed = append(perSeed, fmt.Sprintf("%s: states=%d transitions=%d per-depth=%v", sd.name, st.States, st.Transitions, st.PerDepth))
		if r.Expired() {
			break
		}
	}
	sort.Strings(perSeed)
	r.Set("per_seed", perSeed)
	r.Set("queries_per_state", len(qs))
	r.Sample(map[string]interface{}{"identities": []string{string(f.id[0]), string(f.id[1]), string(f.id[2])},
		"contract": f.contract.ToHexString(), "events": len(f.menu), "first_events": f.menu[:6]})
	return false
}

package auth_test

// C41, unit "lists" — the list-valued parameters of the two assignment
// operations.  assignOntIDsToRole takes a LIST of persons and
// assignFuncsToRole a LIST of function names; the statement ("holds a role to
// which that function is assigned") quantifies over every such assignment, so
// a person / function that the admin listed anywhere in a successful call
// holds / belongs to the role afterwards, whatever the other list elements
// are and whatever they held before.
//
// Same engine, fixture, reference model and oracle as unit "auth"
// (C41_auth_test.go); only the event menu differs: both list parameters range
// over EVERY ordered list, repeats included, of 1..3 elements of the alphabet
// (3 identities / 2 function names) for both roles, mixed with delegation,
// withdrawal and a time step, so that lists meet persons that already hold the
// role (permanently, only through a delegation, expired), hold another role,
// or have no token record at all, and functions the role already has.

import (
	"fmt"
	"testing"

	"github.com/ontio/ontology/verifshim/vh"
)

const c41maxList = 3

// c41lists: every ordered list (with repeats) of 1..maxLen elements of 0..n-1, shortest first.
func c41lists(n, maxLen int) [][]int {
	var out [][]int
	for l := 1; l <= maxLen; l++ {
		radix := make([]int, l)
		for i := range radix {
			radix[i] = n
		}
		vh.Odometer(radix, func(d []int) bool {
			out = append(out, append([]int{}, d...))
			return true
		})
	}
	return out
}

// c41listAlphabet is the event menu of unit "lists".
func c41listAlphabet() []c41ev {
	var out []c41ev
	add := func(e c41ev) { out = append(out, c41mk(e)) }
	add(c41ev{kind: c41kTime, dt: 10})
	// role -> functions: every list of 1..3 function names, by the admin with its own key
	for _, fns := range c41lists(c41NFn, c41maxList) {
		for role := 0; role < c41NRole; role++ {
			add(c41ev{kind: c41kFuncs, a: 0, role: role, fns: fns, wit: 0})
		}
	}
	// identity -> role: every list of 1..3 persons
	for _, ps := range c41lists(c41NID, c41maxList) {
		for role := 0; role < c41NRole; role++ {
			add(c41ev{kind: c41kIDs, a: 0, role: role, persons: ps, wit: 0})
		}
	}
	// list calls that must be refused as a whole: not the admin / the admin without its key proof
	add(c41ev{kind: c41kIDs, a: 1, role: 0, persons: []int{1, 2}, wit: 1})
	add(c41ev{kind: c41kIDs, a: 0, role: 0, persons: []int{1, 2}, wit: 1})
	add(c41ev{kind: c41kFuncs, a: 0, role: 0, fns: []int{0, 1}, wit: 1})
	// delegation / withdrawal, so that a listed person may hold the role only through a (live, expired, withdrawn) delegation
	add(c41ev{kind: c41kDeleg, a: 1, b: 2, role: 0, period: 10, level: 1, wit: 1})
	add(c41ev{kind: c41kDeleg, a: 1, b: 2, role: 0, period: 1, level: 1, wit: 1})
	add(c41ev{kind: c41kDeleg, a: 1, b: 2, role: 1, period: 10, level: 1, wit: 1})
	add(c41ev{kind: c41kDeleg, a: 2, b: 0, role: 0, period: 10, level: 1, wit: 2})
	add(c41ev{kind: c41kWd, a: 1, b: 2, role: 0, wit: 1})
	return out
}

func TestVerif_C41_lists(t *testing.T) {
	r := vh.Start(t, "C41", "lists")
	defer r.Finish()
	f := c41open(r)
	defer f.base.Close()
	qs := f.queries()
	f.menu = nil
	nIDs, nFuncs := 0, 0
	for _, ev := range c41listAlphabet() {
		f.menu = append(f.menu, ev.label)
		if ev.kind == c41kIDs && ev.a == 0 && ev.wit == 0 {
			nIDs++
		}
		if ev.kind == c41kFuncs && ev.a == 0 && ev.wit == 0 {
			nFuncs++
		}
	}
	s0, s1, s2, s3, s4 := c41prefixes()
	seeds := []c41seed{
		{"lists:admin", s0, 0, [2]int{2, 3}},
		{"lists:admin+roles+I1:r", s1, 0, [2]int{2, 3}},
		{"lists:admin+roles+I1:r,rw+I0:r", s2, 0, [2]int{2, 3}},
		{"lists:two-delegations-to-I2", s3, 0, [2]int{2, 3}},
		{"lists:admin+roles+I1:r,rw+I0:r+I2:rw", s4, 0, [2]int{2, 3}},
	}
	tier := c41tier(r)
	r.Rule("as unit auth, over a menu in which the person list of assignOntIDsToRole and the function list of assignFuncsToRole range over every ordered list (repeats included) of 1.." + fmt.Sprint(c41maxList) + " alphabet elements for both roles; the reference gives every listed person the role / the role every listed function; classes additionally name whether the deciding person or function was a later element of its call's list")
	r.Bound(fmt.Sprintf("3 identities, 2 roles, 2 functions; %d person-list calls and %d function-list calls by the admin, 3 list calls that must be refused, 4 delegations (periods {1,10}), 1 withdrawal, time step 10; %d events; seeds: %s",
		nIDs, nFuncs, len(f.menu), c41bounds(seeds, tier)))
	r.Assume("as unit auth; lists longer than " + fmt.Sprint(c41maxList) + " elements, nil or unregistered list elements are not driven")
	r.Need(nIDs == 2*(3+9+27) && nFuncs == 2*(2+4+8), "list alphabet: %d person lists, %d function lists", nIDs, nFuncs)

	if c41drive(r, f, qs, seeds) {
		return
	}
	for _, c := range []string{"op:assignOntIDsToRole:ok", "op:assignOntIDsToRole:refused", "op:assignFuncsToRole:ok", "op:assignFuncsToRole:refused",
		"confirmed:direct-role", "confirmed:direct-role(person-listed-after-others-in-its-call)",
		"confirmed:direct-role+function-listed-after-others-in-its-call",
		"confirmed:direct-role(person-listed-after-others-in-its-call)+function-listed-after-others-in-its-call",
		"confirmed:delegated-role", "confirmed:direct-role-assigned-during-live-delegation",
		"denied:role-lacks-function", "denied:no-role", "denied:delegation-expired"} {
		r.NeedClass(c)
	}
}

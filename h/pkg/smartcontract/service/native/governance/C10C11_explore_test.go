package governance_test

// Exploration, reference model and oracles of C10 / C11 (fixture and event
// execution: C10C11_gov_test.go).

import (
	"fmt"
	"math/big"
	"sort"
	"strconv"
	"strings"
	"testing"

	"github.com/ontio/ontology/smartcontract/service/native/governance"
	"github.com/ontio/ontology/verifshim/vh"
	"github.com/ontio/ontology/verifshim/vnative"
	"github.com/ontio/ontology/verifshim/xs"
)

// ------------------------------------------------- reference model (C11)
//
// Which stake may be withdrawn, in the words of the contract's own record
// comments: newly authorised pos "can be withdrawn at any time" until the
// next epoch; pos unauthorised from a consensus node is "frozen until next
// next epoch", from a candidate node "until next epoch"; when a node leaves
// the pool (quit completed / blacklisted) whatever the contract then releases
// is taken as the new baseline.  The model keeps, per (address, peer):
//   NewPos  authorised in the current view and not yet taken back,
//   Locks   (amount, view at which it unfreezes),
//   Free    unfrozen and not yet withdrawn.

type c11Lock struct {
	Amt  uint64
	View uint32
}

type c11Ref struct {
	NewPos map[string]uint64
	Locks  map[string][]c11Lock
	Free   map[string]uint64
}

func c11NewRef() *c11Ref {
	return &c11Ref{NewPos: map[string]uint64{}, Locks: map[string][]c11Lock{}, Free: map[string]uint64{}}
}

func (m *c11Ref) clone() *c11Ref {
	n := c11NewRef()
	for k, v := range m.NewPos {
		n.NewPos[k] = v
	}
	for k, v := range m.Free {
		n.Free[k] = v
	}
	for k, v := range m.Locks {
		n.Locks[k] = append([]c11Lock{}, v...)
	}
	return n
}

func (m *c11Ref) digest() string {
	var parts []string
	for k, v := range m.NewPos {
		if v != 0 {
			parts = append(parts, fmt.Sprintf("n%s=%d", k, v))
		}
	}
	for k, v := range m.Free {
		if v != 0 {
			parts = append(parts, fmt.Sprintf("f%s=%d", k, v))
		}
	}
	for k, ls := range m.Locks {
		byView := map[uint32]uint64{}
		for _, l := range ls {
			byView[l.View] += l.Amt
		}
		for v, a := range byView {
			if a != 0 {
				parts = append(parts, fmt.Sprintf("l%s@%d=%d", k, v, a))
			}
		}
	}
	sort.Strings(parts)
	return strings.Join(parts, ",")
}

// ------------------------------------------------------------------ state

type c10State struct {
	scen  string // "" = scenario not chosen yet
	fx    *c10Fix
	e     *vnative.Env
	o     *c10Obs
	ref   *c11Ref
	depth int // events after the scenario root
	ticks int
	hist  []string
	dead  bool // scenario root could not be prepared (after a violation): not expanded
}

func (s *c10State) clone() *c10State {
	if s.scen == "" {
		return &c10State{}
	}
	return &c10State{scen: s.scen, fx: s.fx, e: s.e.Clone(), o: s.o, ref: s.ref.clone(), depth: s.depth, ticks: s.ticks, dead: s.dead,
		hist: append(make([]string, 0, len(s.hist)+1), s.hist...)}
}

type c10Viol struct{ key, detail string }

type c10Step struct {
	ev        string // as executed (state-relative amounts resolved)
	kind      string
	f         []string
	ok        bool
	err       string
	pre, post *c10Obs
}

type c10Scenario struct {
	name string // e.g. "F/S1"
	kind string // fixture
	prep []string
}

type c10Sys struct {
	r      *vh.Run
	prop   string // "C10" | "C11"
	wide   bool
	fx     map[string]*c10Fix
	scens  []c10Scenario
	roots  map[string]*c10State
	rootV  map[string][]c10Viol
	tried  map[string]bool // (fee map, balance) combinations whose joint withdrawal was tried
	panics map[string]string
	isReplay bool
}

func (y *c10Sys) report(s *c10State, vs []c10Viol) {
	for _, v := range vs {
		y.r.Violation(v.key, "after S:"+s.scen+" ; "+strings.Join(s.hist, " ; ")+": "+v.detail,
			map[string]interface{}{"history": append([]string{"S:" + s.scen}, s.hist...)})
	}
}

func (y *c10Sys) fixture(kind string) *c10Fix {
	if f, ok := y.fx[kind]; ok {
		return f
	}
	f := c10Open(kind)
	y.fx[kind] = f
	// validate the storage reading of balances against balanceOf once per fixture
	for _, n := range f.actList {
		for _, tok := range []int{0, 1} {
			t := c10Ont
			if tok == 1 {
				t = c10Ong
			}
			y.r.Need(c10Balance(f.root, t, f.actor[n]) == c10BalanceOf(f.root, t, f.actor[n]), "balance record of %s differs from balanceOf", n)
		}
	}
	y.r.Need(c10Balance(f.root, c10Ong, c10Gov) == c10BalanceOf(f.root, c10Ong, c10Gov) && c10Balance(f.root, c10Ont, c10Gov) == c10BalanceOf(f.root, c10Ont, c10Gov), "governance balance record differs from balanceOf")
	return f
}

// resolve turns state-relative labels into concrete ones.
func (s *c10State) resolve(ev string) string {
	f := strings.Split(ev, ":")
	k := strings.TrimSuffix(f[0], "!")
	if (k == "wd" || k == "wd2") && len(f) == 4 {
		u := s.o.unfreeze(f[1], f[2])
		switch f[3] {
		case "all":
			f[3] = strconv.FormatUint(u, 10)
		case "over":
			f[3] = strconv.FormatUint(u+1, 10)
		case "half":
			f[3] = strconv.FormatUint((u+1)/2, 10)
		}
		return strings.Join(f, ":")
	}
	if k == "wdl" && len(f) == 4 { // every entry relative to the unfrozen record of its own peer
		ps, as := strings.Split(f[2], "+"), strings.Split(f[3], "+")
		for i := range as {
			if i >= len(ps) {
				break
			}
			u := s.o.unfreeze(f[1], ps[i])
			switch as[i] {
			case "all":
				as[i] = strconv.FormatUint(u, 10)
			case "over":
				as[i] = strconv.FormatUint(u+1, 10)
			case "half":
				as[i] = strconv.FormatUint((u+1)/2, 10)
			}
		}
		f[3] = strings.Join(as, "+")
		return strings.Join(f, ":")
	}
	return ev
}

// step executes one event on the state (real contract + reference model) and
// returns the violations of the property under check seen across the step.
func (y *c10Sys) step(s *c10State, label string) (*c10Step, []c10Viol) {
	ev := s.resolve(label)
	f := strings.Split(ev, ":")
	st := &c10Step{ev: ev, kind: strings.TrimSuffix(f[0], "!"), f: f, pre: s.o}
	r := s.fx.call(s.e, ev)
	if st.kind == "tick" {
		s.ticks++
	}
	if r.Err != nil {
		st.err = r.Err.Error()
		st.post = st.pre
		if strings.HasPrefix(st.err, "PANIC") {
			// a panic inside a native call is C12's subject; recorded, not judged here
			y.r.Class("panic:" + st.kind)
			if _, seen := y.panics[st.kind]; !seen {
				y.panics[st.kind] = s.scen + " ; " + ev + " => " + st.err
				y.r.Set("panic."+st.kind, y.panics[st.kind])
			}
		}
	} else {
		st.ok = true
		st.post = c10Observe(s.fx, s.e)
	}
	s.o = st.post
	s.depth++
	s.hist = append(s.hist, ev)
	var vs []c10Viol
	out := "refused"
	if st.ok {
		out = "ok"
	}
	cls := st.kind
	if strings.HasSuffix(f[0], "!") {
		cls += "!"
	}
	y.r.Class(cls + ":" + out)
	if c10StepExt != nil {
		c10StepExt(y, s, st)
	}
	if y.prop == "C11" {
		vs = append(vs, y.c11Transition(s, st)...)
	} else {
		vs = append(vs, y.c10Transition(s, st)...)
	}
	return st, vs
}

// ------------------------------------------------------------ C11 oracle

func (y *c10Sys) c11Transition(s *c10State, st *c10Step) []c10Viol {
	var vs []c10Viol
	m := s.ref
	if !st.ok {
		return nil
	}
	pre, post := st.pre, st.post
	n := uint64(1)
	if strings.HasSuffix(st.kind, "2") {
		n = 2
	}
	switch st.kind {
	case "auth", "auth2":
		pos, _ := strconv.ParseUint(st.f[3], 10, 64)
		m.NewPos[st.f[1]+"|"+st.f[2]] += pos * n
	case "unauth", "unauth2":
		k := st.f[1] + "|" + st.f[2]
		pp, qq := pre.Pool[s.fx.peer[st.f[2]]], post.Pool[s.fx.peer[st.f[2]]]
		if pp != nil && qq != nil && pp.TotalPos >= qq.TotalPos {
			eff := pp.TotalPos - qq.TotalPos
			fromNew := eff
			if m.NewPos[k] < fromNew {
				fromNew = m.NewPos[k]
			}
			m.NewPos[k] -= fromNew
			m.Free[k] += fromNew
			if rest := eff - fromNew; rest > 0 {
				rel := pre.View + 1
				if pp.Status == governance.ConsensusStatus {
					rel = pre.View + 2
				}
				m.Locks[k] = append(m.Locks[k], c11Lock{rest, rel})
			}
		}
	case "redinit":
		k := s.fx.owner[st.f[1]] + "|" + st.f[1]
		pos, _ := strconv.ParseUint(st.f[2], 10, 64)
		if pp := pre.Pool[s.fx.peer[st.f[1]]]; pp != nil {
			switch pp.Status {
			case governance.ConsensusStatus:
				m.Locks[k] = append(m.Locks[k], c11Lock{pos, pre.View + 2})
			case governance.CandidateStatus:
				m.Locks[k] = append(m.Locks[k], c11Lock{pos, pre.View + 1})
			default:
				m.Free[k] += pos
			}
		}
	case "wd", "wd2", "wdl":
		// one withdraw call: per named peer the amounts of all its entries together
		// are what the call takes out of that peer's unfrozen record
		a := st.f[1]
		var peers []string
		per := map[string]uint64{}
		var tot uint64
		if st.kind == "wdl" {
			as := strings.Split(st.f[3], "+")
			for i, p := range strings.Split(st.f[2], "+") {
				amt, _ := strconv.ParseUint(as[i], 10, 64)
				if _, seen := per[p]; !seen {
					peers = append(peers, p)
				}
				per[p] += amt
				tot += amt
			}
		} else {
			amt, _ := strconv.ParseUint(st.f[3], 10, 64)
			peers, tot = []string{st.f[2]}, amt*n
			per[st.f[2]] = tot
		}
		for _, p := range peers {
			k := a + "|" + p
			if per[p] > pre.unfreeze(a, p) {
				vs = append(vs, c10Viol{"C11:withdraw-exceeds-unfrozen-record:" + st.kind, fmt.Sprintf("%s withdrew %d of %s with only %d unfrozen", a, per[p], p, pre.unfreeze(a, p))})
			}
			if per[p] > m.Free[k] {
				vs = append(vs, c10Viol{"C11:withdraw-of-frozen-stake:" + st.kind, fmt.Sprintf("%s withdrew %d of %s; the reference model has only %d unfrozen", a, per[p], p, m.Free[k])})
				m.Free[k] = 0
			} else {
				m.Free[k] -= per[p]
			}
		}
		if post.Ont[a]-pre.Ont[a] != tot || pre.OntGov-post.OntGov != tot {
			vs = append(vs, c10Viol{"C11:withdraw-pays-wrong-amount:" + st.kind, fmt.Sprintf("withdraw of %d moved %d to %s and %d out of governance", tot, post.Ont[a]-pre.Ont[a], a, pre.OntGov-post.OntGov)})
		}
	}
	if post.View != pre.View { // an epoch change (commitDpos, or blackNode of a consensus node)
		for k := range m.NewPos {
			delete(m.NewPos, k)
		}
		for k, ls := range m.Locks {
			var keep []c11Lock
			for _, l := range ls {
				if l.View <= post.View {
					m.Free[k] += l.Amt
				} else {
					keep = append(keep, l)
				}
			}
			if len(keep) == 0 {
				delete(m.Locks, k)
			} else {
				m.Locks[k] = keep
			}
		}
		// peers that left the pool: whatever the contract released is the new baseline
		for h := range pre.Pool {
			if post.Pool[h] != nil {
				continue
			}
			pn := s.fx.pname(h)
			for k := range m.Locks {
				if strings.HasSuffix(k, "|"+pn) {
					delete(m.Locks, k)
				}
			}
			for k := range m.Free {
				if strings.HasSuffix(k, "|"+pn) {
					delete(m.Free, k)
				}
			}
			for k, ai := range post.Auth {
				if strings.HasSuffix(k, "|"+pn) {
					m.Free[k] = ai.WithdrawUnfreezePos
				}
			}
			y.r.Class("epoch:peer-left-pool")
			if pre.Penalty[pn] > 0 && post.Penalty[pn] > pre.Penalty[pn] {
				// a node punished again while the penalty of its earlier life is still held by the contract
				y.r.Class("epoch:penalty-added-to-held-penalty")
			}
		}
	}
	if st.kind == "wd" || st.kind == "wd2" || st.kind == "wdl" {
		y.r.Class("withdraw:paid")
	}
	return vs
}

// c11Check: the invariants of C11 in one state.
func (y *c10Sys) c11Check(s *c10State) []c10Viol {
	var vs []c10Viol
	o, fx := s.o, s.fx
	var sum, pen uint64
	for _, v := range o.Total {
		sum += v
	}
	for _, v := range o.Penalty {
		pen += v
	}
	if o.OntGov+fx.offset != sum+pen {
		key := "C11:ont-balance-differs-from-stakes"
		if fx.offset != 0 {
			key = "C11:ont-balance-minus-stakes-not-constant"
		}
		vs = append(vs, c10Viol{key, fmt.Sprintf("fixture %s: ONT.balanceOf(governance)=%d (+%d genesis stake recorded without ONT) but total stakes %d + penalty stakes %d", fx.kind, o.OntGov, fx.offset, sum, pen)})
	}
	if pen > 0 {
		y.r.Class("state:penalty-stake-held")
	}
	// every recorded stake is in exactly one bucket: the unfrozen record of an
	// address is not also counted as active stake (else it could withdraw stake
	// that is still frozen elsewhere)
	pos := map[string]uint64{}
	for k, ai := range o.Auth {
		a := k[:strings.Index(k, "|")]
		pos[a] += ai.ConsensusPos + ai.CandidatePos + ai.NewPos + ai.WithdrawConsensusPos + ai.WithdrawCandidatePos + ai.WithdrawUnfreezePos
		if ai.WithdrawUnfreezePos > s.ref.Free[k] {
			vs = append(vs, c10Viol{"C11:frozen-stake-released-early", fmt.Sprintf("%s: contract records %d unfrozen, reference model %d (view %d)", k, ai.WithdrawUnfreezePos, s.ref.Free[k], o.View)})
		}
		if ai.WithdrawUnfreezePos > 0 {
			y.r.Class("state:unfrozen-stake-present")
		}
		if ai.WithdrawConsensusPos > 0 || ai.WithdrawCandidatePos > 0 {
			y.r.Class("state:frozen-withdrawal-pending")
		}
	}
	for _, it := range o.Pool {
		pos[fx.aname(it.Address)] += it.InitPos
	}
	names := map[string]bool{}
	for a := range pos {
		names[a] = true
	}
	for a := range o.Total {
		names[a] = true
	}
	for a := range names {
		if pos[a] != o.Total[a] {
			vs = append(vs, c10Viol{"C11:total-stake-differs-from-positions", fmt.Sprintf("%s: recorded total stake %d, positions (authorize records + init pos of owned peers) %d", a, o.Total[a], pos[a])})
		}
	}
	// nobody holds more ONT than it was given: withdrawn <= deposited
	for _, a := range fx.actList {
		if a == "ADM" {
			continue
		}
		if fx.kind == "U" && strings.HasPrefix(a, "G") {
			continue // their stake was recorded without ONT (the fixture's constant); see DESIGN §4
		}
		if o.Ont[a] > fx.funded[a] {
			vs = append(vs, c10Viol{"C11:withdrawn-more-than-deposited", fmt.Sprintf("%s holds %d ONT but was given %d", a, o.Ont[a], fx.funded[a])})
		}
	}
	return vs
}

// ------------------------------------------------------------ C10 oracle

func c10Big(v uint64) *big.Int { return new(big.Int).SetUint64(v) }

func (y *c10Sys) c10Transition(s *c10State, st *c10Step) []c10Viol {
	var vs []c10Viol
	if !st.ok {
		return nil
	}
	pre, post := st.pre, st.post
	if post.View != pre.View && pre.View > governance.NEW_VERSION_VIEW {
		// a settlement.  income = what governance holds beyond the credits it
		// already owes, plus what arrived during the call (its unbound share).
		var dappOut uint64
		if pre.GasAddr == s.fx.actor["DAPP"] {
			dappOut = post.Ong["DAPP"] - pre.Ong["DAPP"]
		}
		preOwed, w := pre.sumFee()
		if w {
			vs = append(vs, c10Viol{"C10:credits-sum-wraps", "sum of credits before the settlement exceeds 2^64"})
		}
		inflow := new(big.Int).Sub(c10Big(post.OngGov), c10Big(pre.OngGov))
		inflow.Add(inflow, c10Big(dappOut))
		income := new(big.Int).Sub(c10Big(pre.OngGov), c10Big(preOwed))
		income.Add(income, inflow)
		credits := c10Big(dappOut)
		names := map[string]bool{}
		for a := range pre.Fee {
			names[a] = true
		}
		for a := range post.Fee {
			names[a] = true
		}
		var ownerCred, authCred, candCred bool
		for a := range names {
			if post.Fee[a] < pre.Fee[a] {
				vs = append(vs, c10Viol{"C10:settlement-decreases-credit", fmt.Sprintf("%s: %d -> %d", a, pre.Fee[a], post.Fee[a])})
				continue
			}
			d := c10Big(post.Fee[a] - pre.Fee[a])
			if d.Cmp(income) > 0 {
				vs = append(vs, c10Viol{"C10:single-credit-exceeds-income", fmt.Sprintf("%s credited %v, income %v (wrap-around?)", a, d, income)})
			}
			credits.Add(credits, d)
			if d.Sign() > 0 {
				isOwner := false
				for h, it := range pre.Pool {
					if s.fx.aname(it.Address) == a {
						isOwner = true
						if it.Status != governance.ConsensusStatus && post.Pool[h] != nil {
							candCred = true
						}
					}
				}
				if isOwner {
					ownerCred = true
				} else {
					authCred = true
				}
			}
		}
		if credits.Cmp(income) > 0 {
			vs = append(vs, c10Viol{"C10:credits-exceed-income", fmt.Sprintf("view %d: credited %v (dapp %d) out of an income of %v (balance %d, owed before %d, arrived during the call %v)", pre.View, credits, dappOut, income, pre.OngGov, preOwed, inflow)})
		}
		if c10Big(dappOut).Cmp(income) > 0 {
			vs = append(vs, c10Viol{"C10:dapp-share-exceeds-income", fmt.Sprintf("dapp %d income %v", dappOut, income)})
		}
		switch {
		case credits.Sign() == 0:
			y.r.Class("settle:nothing-credited")
		default:
			y.r.Class("settle:credited")
		}
		if ownerCred {
			y.r.Class("settle:node-owner-credited")
		}
		if authCred {
			y.r.Class("settle:authorizer-credited")
		}
		if candCred {
			y.r.Class("settle:candidate-node-credited")
		}
		if dappOut > 0 {
			y.r.Class("settle:dapp-paid")
		}
		if inflow.Sign() > 0 {
			y.r.Class("settle:unbound-share-arrived")
		}
		if credits.Sign() > 0 && credits.Cmp(income) < 0 {
			y.r.Class("settle:rounding-remainder-kept")
		}
		if st.kind == "black" {
			y.r.Class("settle:by-blackNode")
		}
	}
	if st.kind == "wfee" {
		a := st.f[1]
		if post.Ong[a]-pre.Ong[a] != pre.Fee[a] || pre.OngGov-post.OngGov != pre.Fee[a] {
			vs = append(vs, c10Viol{"C10:withdrawFee-pays-wrong-amount", fmt.Sprintf("%s was owed %d, received %d, governance paid %d", a, pre.Fee[a], post.Ong[a]-pre.Ong[a], pre.OngGov-post.OngGov)})
		}
		if pre.Fee[a] > 0 {
			y.r.Class("withdrawFee:paid")
		}
	}
	return vs
}

func (o *c10Obs) feeSig() string {
	var ks []string
	for a, v := range o.Fee {
		ks = append(ks, a+"="+strconv.FormatUint(v, 10))
	}
	sort.Strings(ks)
	return fmt.Sprintf("%s|%d|%d", strings.Join(ks, ","), o.SplitFee, o.OngGov)
}

// c10Check: in every state the credits are covered by the balance, and all
// credited addresses can withdraw, one after the other.
func (y *c10Sys) c10Check(s *c10State) []c10Viol {
	var vs []c10Viol
	o := s.o
	if c10CheckExt != nil {
		vs = append(vs, c10CheckExt(y, s)...)
	}
	owed, w := o.sumFee()
	if w || owed > o.OngGov {
		vs = append(vs, c10Viol{"C10:credits-exceed-governance-balance", fmt.Sprintf("credits %d (wrapped=%v) > ONG balance %d", owed, w, o.OngGov)})
	}
	if owed == 0 {
		return vs
	}
	sig := s.fx.kind + "|" + o.feeSig()
	if y.tried[sig] { // withdrawFee reads only these records (and the height, which is constant above the gate)
		return vs
	}
	y.tried[sig] = true
	e := s.e.Clone()
	var names []string
	for a, v := range o.Fee {
		if v > 0 {
			names = append(names, a)
		}
	}
	sort.Strings(names)
	for _, a := range names {
		addr, ok := s.fx.actor[a]
		if !ok {
			vs = append(vs, c10Viol{"C10:credit-to-unknown-address", a})
			continue
		}
		before := c10Balance(e, c10Ong, addr)
		r := s.fx.call(e, "wfee:"+a)
		if r.Err != nil {
			vs = append(vs, c10Viol{"C10:credited-amount-not-withdrawable", fmt.Sprintf("withdrawFee of %s (owed %d; governance balance %d, owed in total %d) fails: %v", a, o.Fee[a], o.OngGov, owed, r.Err)})
			continue
		}
		if got := c10Balance(e, c10Ong, addr) - before; got != o.Fee[a] {
			vs = append(vs, c10Viol{"C10:withdrawFee-pays-wrong-amount", fmt.Sprintf("%s owed %d received %d", a, o.Fee[a], got)})
		}
	}
	y.r.Class("all-credited-addresses-withdrew")
	y.r.Eval(1)
	return vs
}

// ----------------------------------------------------------- event menu

func (y *c10Sys) menu(s *c10State) []string {
	o, fx := s.o, s.fx
	var ev []string
	c10, c11, wide := y.prop == "C10", y.prop == "C11", y.wide
	add := func(cond bool, l string) {
		if cond {
			ev = append(ev, l)
		}
	}
	item := func(p string) *governance.PeerPoolItem { return o.Pool[fx.peer[p]] }
	live := func(p string) bool {
		it := item(p)
		return it != nil && (it.Status == governance.CandidateStatus || it.Status == governance.ConsensusStatus)
	}
	active := func(a, p string) bool {
		ai := o.Auth[a+"|"+p]
		return ai != nil && ai.ConsensusPos+ai.CandidatePos+ai.NewPos > 0
	}
	add(item("P8") == nil, "reg:P8:10000")
	add(item("P8") == nil && wide, "reg:P8:20000")
	add(item("P9") == nil, "reg:P9:20000")
	add(live("P8"), "max:P8:100000")
	add(live("P9"), "max:P9:100000")
	add(wide, "max:P1:100000")
	add(wide && live("P8"), "max:P8:0")
	add(live("P8"), "auth:A1:P8:500")
	add(live("P8"), "auth:A2:P8:1000")
	add(live("P9"), "auth:A1:P9:500")
	add(wide && live("P8"), "auth:A1:P8:1000")
	add((wide || c11) && live("P8"), "auth2:A1:P8:500") // one call whose peer list names the node twice
	add(wide, "auth:A1:P1:500")
	add(wide && live("P8"), "auth:O2:P8:500")
	add(wide && !live("P8"), "auth:A1:P8:500") // refusal path
	add(active("A1", "P8"), "unauth:A1:P8:500")
	add(active("A2", "P8"), "unauth:A2:P8:500")
	add(active("A1", "P9"), "unauth:A1:P9:500")
	// more than was authorized in this epoch: the part beyond NewPos comes out of the effective pos
	add((wide || c11) && active("A1", "P8"), "unauth:A1:P8:1000")
	add((wide || c11) && active("A1", "P9"), "unauth:A1:P9:1000")
	add((wide || c11) && active("A1", "P8"), "unauth2:A1:P8:500")
	add(wide && active("O2", "P8"), "unauth:O2:P8:500")
	add(wide && active("A1", "P1"), "unauth:A1:P1:500")
	add(wide && active("A1", "P8"), "unauth!:A1:P8:500")
	add(live("P8"), "quit:P8")
	add(wide && live("P9"), "quit:P9")
	add(wide && live("P1"), "quit:P1")
	add(wide && live("P8"), "quit!:P8")
	add(item("P8") != nil && item("P8").Status != governance.BlackStatus, "black:P8")
	add(wide && item("P9") != nil && item("P9").Status != governance.BlackStatus, "black:P9")
	add(wide && item("P1") != nil && item("P1").Status != governance.BlackStatus, "black:P1")
	add(wide && item("P8") != nil, "black!:P8")
	add(wide && item("P8") != nil, "approve:P8")
	add(wide && item("P8") != nil, "reject:P8")
	add(wide && item("P8") != nil, "unreg:P8")
	add(o.Black["P8"] && (wide || c11), "white:P8")
	add(wide && o.Black["P1"], "white:P1")
	if c11 || wide {
		unfrozen := map[string][]string{} // actor -> peers on which it has an unfrozen record (sorted)
		var ks []string
		for k := range o.Auth {
			ks = append(ks, k)
		}
		sort.Strings(ks)
		for _, k := range ks {
			ai := o.Auth[k]
			ap := strings.Split(k, "|")
			if _, known := fx.actor[ap[0]]; !known {
				continue
			}
			if _, known := fx.peer[ap[1]]; !known {
				continue
			}
			add(ai.WithdrawUnfreezePos > 0, "wd:"+ap[0]+":"+ap[1]+":all")
			add(wide && ai.WithdrawUnfreezePos > 1, "wd:"+ap[0]+":"+ap[1]+":half")
			// one withdraw call that names the node twice: twice the whole record (must be
			// refused), twice half of it (pays the record once)
			add(ai.WithdrawUnfreezePos > 0, "wd2:"+ap[0]+":"+ap[1]+":all")
			add(ai.WithdrawUnfreezePos > 1, "wd2:"+ap[0]+":"+ap[1]+":half")
			if ai.WithdrawUnfreezePos > 0 {
				unfrozen[ap[0]] = append(unfrozen[ap[0]], ap[1])
			}
			add(wide && ai.WithdrawUnfreezePos > 0, "wd!:"+ap[0]+":"+ap[1]+":all")
			add(ai.WithdrawConsensusPos+ai.WithdrawCandidatePos > 0 || (wide && ai.ConsensusPos+ai.CandidatePos+ai.NewPos > 0), "wd:"+ap[0]+":"+ap[1]+":over")
		}
		if c11 {
			// one withdraw call over two different nodes (and one of them twice, not adjacent)
			var as []string
			for a := range unfrozen {
				as = append(as, a)
			}
			sort.Strings(as)
			for _, a := range as {
				ps := unfrozen[a]
				for i := 0; i < len(ps); i++ {
					for j := i + 1; j < len(ps); j++ {
						p, q := ps[i], ps[j]
						add(true, "wdl:"+a+":"+p+"+"+q+":all+all")
						add(true, "wdl:"+a+":"+p+"+"+q+":all+over") // refused as a whole
						add(o.unfreeze(a, p) > 1, "wdl:"+a+":"+p+"+"+q+"+"+p+":half+all+half")
					}
				}
			}
		}
		add(live("P8"), "addinit:P8:500")
		add(item("P8") != nil, "redinit:P8:500")
		add(wide && item("P8") != nil, "promise:P8:0")
		add(wide && item("P8") != nil, "redinit:P8:10000")
		add(wide && item("P1") != nil, "redinit:P1:500")
		add(wide && item("P8") != nil, "redinit!:P8:500")
		add(wide, "wong:A1")
		add(o.Penalty["P8"] > 0, "penalty:P8")
		add(wide && o.Penalty["P1"] > 0, "penalty:P1")
	}
	if c10 || wide {
		add(item("P8") != nil, "cost:P8:50:20")
		add(wide && item("P8") != nil, "cost:P8:0:0")
		add(wide && item("P8") != nil, "cost:P8:100:100")
		add(wide && item("P8") != nil, "pcost:P8:0")
		add(wide && item("P9") != nil, "cost:P9:10:90")
		add(true, "income:1000000007")
		add(wide, "income:1")
		for _, a := range []string{"A1", "A2", "O1", "O2", "G1", "G7"} {
			add(o.Fee[a] > 0 && (wide || a == "A1" || a == "O1" || a == "G7"), "wfee:"+a)
		}
		add(wide && o.Fee["A1"] > 0, "wfee!:A1")
		add(wide, "wfee:X")
		add(o.GasAddr != fx.actor["DAPP"], "gas:set")
		add(true, "dapp:30")
		add(wide, "dapp:100")
		add(wide, "dapp:0")
		add(wide, "dapp:30:8") // only 8 nodes share
		add(wide, "income:400000000000000000") // 4*10^8 ONG: products with percentages pass 2^64
		add(wide, "gp:100:0:5")
		add(wide, "gp:0:100:5")
		add(wide, "cfg:8")
	}
	add(wide && c11, "gp:50:50:100") // whole authorised stake is penalised
	add(true, "commit")
	add(wide, "commit:any")
	add(wide, "commit:cycle")
	add(wide && s.ticks < c10MaxTk, "tick")
	if c10MenuExt != nil {
		ev = c10MenuExt(y, s, ev)
	}
	return ev
}

// -------------------------------------------------------------- scenarios

func c10Scenarios(prop string, thorough bool) []c10Scenario {
	cat := func(a []string, b ...string) []string { return append(append([]string{}, a...), b...) }
	// S1: two candidate nodes registered (P8 stays a candidate node, P9 enters
	// consensus), fee percentages set and old enough to be in force, dapp share on
	s1 := []string{"reg:P8:10000", "max:P8:100000", "cost:P8:50:20", "reg:P9:20000", "max:P9:100000", "cost:P9:10:90", "gas:set", "dapp:30", "commit", "commit"}
	// S2: authorizations on both nodes that have been through two settlements
	s2 := cat(s1, "auth:A1:P8:1000", "auth:A2:P8:500", "auth:A1:P9:500", "commit", "income:1000000007", "commit", "income:1000000007")
	// S3: withdrawals in every stage of the freeze pipeline
	s3 := cat(s2, "unauth:A1:P8:500", "unauth:A1:P9:500", "addinit:P9:1000", "redinit:P9:500", "commit", "wd:A1:P8:all", "auth:A2:P8:500")
	// S4: a blacklisted node with authorizers, settled (penalty stake held)
	s4 := cat(s2, "black:P8", "commit")
	// S5: authorizers on a consensus node that is voted OUT of consensus while part of their stake is
	// un-authorized and still frozen (the split after a demotion divides by a snapshot that excludes it)
	s5 := cat(s1, "addinit:P8:5000", "commit", "auth:O2:P8:40000", "auth:A2:P8:500", "commit", "income:1000000007", "unauth:O2:P8:39500", "redinit:P8:5000", "commit", "income:1000000007")
	// S6: a node paid by the CANDIDATE loop whose received authorization exceeds its own init pos (TotalPos > InitPos)
	// and whose owner shares income with the authorizers
	s6 := cat(s1, "auth:O2:P8:40000", "auth:A2:P8:500", "commit", "income:1000000007", "commit", "income:1000000007")
	// S7: an authorizer with unfrozen stake on two nodes and active stake on both besides (its total stake
	// covers more than any one unfrozen record): the root for withdraw calls with several entries
	s7 := cat(s2, "auth:A1:P8:500", "auth:A1:P9:500", "unauth:A1:P8:500", "unauth:A1:P9:500")
	// S8: a node that has been blacklisted once (with authorizers), settled and whitelisted again; the penalty
	// stake of its first life has NOT been transferred out: the root for registering and punishing the same node key again
	s8 := cat(s4, "white:P8")
	// S9: the second life of that node, registered again with an authorizer whose stake has been through a settlement
	s9 := cat(s8, "reg:P8:10000", "max:P8:100000", "auth:A1:P8:500", "commit")
	out := []c10Scenario{{"F/S0", "F", nil}, {"F/S1", "F", s1}, {"F/S2", "F", s2}, {"F/S5", "F", s5}, {"H/S6", "H", s6}}
	if prop == "C11" {
		out = append(out, c10Scenario{"F/S3", "F", s3}, c10Scenario{"F/S4", "F", s4}, c10Scenario{"F/S7", "F", s7})
		out = append(out, c10Scenario{"F/S8", "F", s8}, c10Scenario{"F/S9", "F", s9})
		out = append(out, c10Scenario{"U/S0", "U", nil}, c10Scenario{"U/S2", "U", s2})
		// Z: the first settlement with any stake divides by a zero stake (see the
		// report / C12); the scenario stays within one epoch
		out = append(out, c10Scenario{"Z/S0", "Z", nil}, c10Scenario{"Z/S1", "Z", []string{"reg:P8:10000", "max:P8:100000", "auth:A1:P8:1000", "unauth:A1:P8:500"}})
	} else if thorough {
		out = append(out, c10Scenario{"F/S3", "F", s3}, c10Scenario{"F/S4", "F", s4})
	}
	return out
}

func (y *c10Sys) check(s *c10State) []c10Viol {
	if y.prop == "C11" {
		return y.c11Check(s)
	}
	return y.c10Check(s)
}

// open builds (once) the root state of a scenario through the real calls,
// judged by the same oracles.
func (y *c10Sys) open(sc c10Scenario) (*c10State, []c10Viol) {
	if st, ok := y.roots[sc.name]; ok {
		return st.clone(), y.rootV[sc.name]
	}
	fx := y.fixture(sc.kind)
	s := &c10State{scen: sc.name, fx: fx, e: fx.root.Clone(), ref: c11NewRef()}
	s.o = c10Observe(fx, s.e)
	vs := y.check(s)
	tagged := func(ev string, in []c10Viol) []c10Viol {
		for i := range in {
			in[i].detail = "while the scenario root is prepared, after step " + ev + ": " + in[i].detail
		}
		return in
	}
	for _, ev := range sc.prep {
		st, v := y.step(s, ev)
		if !st.ok && len(vs) > 0 {
			s.dead = true // a violation was already seen; the rest of the preparation makes no sense
			break
		}
		y.r.Need(st.ok, "scenario %s: preparation step %s refused: %s", sc.name, ev, st.err)
		vs = append(vs, tagged(ev, v)...)
		vs = append(vs, tagged(ev, y.check(s))...)
	}
	s.depth = 0
	s.hist = nil // the replayable case of a root violation is the scenario itself
	y.report(s, vs)
	y.roots[sc.name] = s
	y.rootV[sc.name] = vs
	return s.clone(), vs
}

func (y *c10Sys) config(depth int) xs.Config {
	byName := map[string]c10Scenario{}
	for _, sc := range y.scens {
		byName[sc.name] = sc
	}
	return xs.Config{
		Init: func() interface{} { return &c10State{} },
		Events: func(si interface{}) []string {
			s := si.(*c10State)
			if s.scen == "" {
				var out []string
				for _, sc := range y.scens {
					out = append(out, "S:"+sc.name)
				}
				return out
			}
			if s.dead {
				return nil
			}
			evs := y.menu(s)
			if s.depth == 0 && !y.replay() { // shard on (scenario, first event)
				var mine []string
				si := 0
				for i, sc := range y.scens {
					if sc.name == s.scen {
						si = i
					}
				}
				for i, e := range evs {
					if y.r.Mine(si*7 + i) {
						mine = append(mine, e)
					}
				}
				return mine
			}
			return evs
		},
		Apply: func(si interface{}, ev string) (string, string) {
			s := si.(*c10State)
			if strings.HasPrefix(ev, "S:") {
				ns, _ := y.open(byName[ev[2:]])
				*s = *ns
				return "", ""
			}
			_, vs := y.step(s, ev)
			y.report(s, vs)
			return "", ""
		},
		Key: func(si interface{}) string {
			s := si.(*c10State)
			if s.scen == "" {
				return "unopened"
			}
			k := s.fx.kind + "#" + s.o.key + "#" + s.ref.digest() + "#" + strconv.Itoa(s.ticks)
			if s.depth >= depth {
				s.e = nil // never expanded: keep only the bookkeeping
			}
			return k
		},
		Check: func(si interface{}, hist []string) (string, string) {
			s := si.(*c10State)
			if s.scen == "" || len(hist) <= 1 {
				return "", "" // scenario roots are checked while they are built
			}
			y.report(s, y.check(s))
			return "", ""
		},
		Clone:    func(si interface{}) interface{} { return si.(*c10State).clone() },
		MaxDepth: depth + 1,
	}
}

func (y *c10Sys) replay() bool { return y.isReplay }

// extension points set by files that belong to one property only (nil otherwise):
// more fixture names, more menu events, a class per step, more per-state invariants
var (
	c10FixExt   func(fx *c10Fix)
	c10MenuExt  func(y *c10Sys, s *c10State, ev []string) []string // gets the menu, returns the final one
	c10StepExt  func(y *c10Sys, s *c10State, st *c10Step)
	c10CheckExt func(y *c10Sys, s *c10State) []c10Viol
	c10PhaseExt func(y *c10Sys) []string // further explorations after the phases of c10Run; returns their descriptions
)

// ------------------------------------------------------------------ tests

func c10Run(t *testing.T, prop, unit string) {
	r := vh.Start(t, prop, unit)
	defer r.Finish()
	y := &c10Sys{r: r, prop: prop, wide: r.Thorough(), fx: map[string]*c10Fix{}, roots: map[string]*c10State{},
		rootV: map[string][]c10Viol{}, tried: map[string]bool{}, panics: map[string]string{}}
	defer func() {
		for _, f := range y.fx {
			f.base.Close()
		}
	}()
	y.scens = c10Scenarios(prop, r.Thorough())
	var rc struct {
		History []string `json:"history"`
	}
	if r.ReplayCase(&rc) && len(rc.History) > 0 && strings.HasPrefix(rc.History[0], "S:") {
		y.isReplay = true
		for _, sc := range y.scens {
			if "S:"+sc.name != rc.History[0] {
				continue
			}
			s, _ := y.open(sc)
			for _, ev := range rc.History[1:] {
				_, vs := y.step(s, ev)
				y.report(s, vs)
				y.report(s, y.check(s))
			}
			r.Trans(int64(len(rc.History)))
			r.State(int64(len(rc.History)))
		}
		return
	}
	type phase struct {
		wide  bool
		depth int
	}
	phases := []phase{{false, 3}}
	if r.Thorough() {
		phases = []phase{{true, 3}, {false, 5}}
		if prop == "C10" {
			phases = []phase{{true, 3}, {false, 6}} // fee percentages need three settlements to take effect
		}
	}
	var desc []string
	for _, ph := range phases {
		if r.Expired() {
			break
		}
		y.wide = ph.wide
		st := xs.Run(r, y.config(ph.depth))
		name := map[bool]string{false: "pruned", true: "wide"}[ph.wide]
		for d, n := range st.PerDepth {
			// depth 0 = the unopened root, depth 1 = the scenario roots
			r.Add(fmt.Sprintf("new_states.%s_menu.depth_%d", name, d-1), n)
		}
		desc = append(desc, fmt.Sprintf("%s menu to depth %d", name, ph.depth))
		r.Sample(map[string]interface{}{"phase": name, "scenario_roots": len(y.scens), "depth_after_root": ph.depth, "states_this_shard": st.States, "per_depth": st.PerDepth})
	}
	if c10PhaseExt != nil && !r.Expired() {
		desc = append(desc, c10PhaseExt(y)...)
	}
	c10Describe(y, strings.Join(desc, " and "))
}

func TestVerif_C10(t *testing.T) { c10Run(t, "C10", "split") }
func TestVerif_C11(t *testing.T) { c10Run(t, "C11", "stake") }

func c10Describe(y *c10Sys, depth string) {
	r := y.r
	var names []string
	for _, sc := range y.scens {
		names = append(names, sc.name)
	}
	menu := "pruned menu = ops relevant to the property, one amount each"
	if y.prop == "C11" {
		menu += ", plus calls with several list entries: authorizeForPeer/unAuthorizeForPeer naming one node twice, withdraw naming one node twice (twice the whole unfrozen record, twice half of it), withdraw over every pair of nodes on which the caller has an unfrozen record (all+all, all+one-too-many, half+all+half with the first node named again)"
	}
	menu += "; wide menu = all governance ops, several amounts, duplicate-entry lists, wrong-witness variants, non-admin/cycle commit, time ticks"
	r.Bound(fmt.Sprintf("7 genesis peers (K=7) + 2 candidate nodes, 2 owners, 2 authorizers, admin, dapp address; scenario roots %s (fixture/prepared history, all reached through real calls from a 7-peer VBFT genesis and six commitDpos); BFS after each root: %s; %s",
		strings.Join(names, ","), depth, menu))
	if y.prop == "C10" {
		r.Rule("state = canonical dump of governance+ONT+ONG storage (last-commit height/tx-hash reduced to its relation to the block height) ; transition = one real native call ; across every transition that changes the view (commitDpos or blackNode of a consensus node, view>6): income := ONG balance before - credits owed before + ONG arrived during the call, credits := sum of increases of SplitFeeAddress.Amount + ONG paid to the gas address; demanded: no credit decreases, each credit <= income, credits <= income; in every state: sum of credits <= ONG balance; for every distinct (credits, splitFee, balance) all credited addresses withdrawFee one after the other and receive exactly their credit; classes = event x ok/refused, settlement shapes")
		r.Assume("income is measured from balances (not from the contract's splitFee counter); ONG arriving during commitDpos is governance's unbound share transferred by the ONT contract")
		r.Assume("the solo network gives all ONG to the bookkeeper; the fixture moves half of it to the ONT contract (as on every other network) so that governance's unbound share can be paid")
	} else {
		r.Rule("state = canonical dump of governance+ONT+ONG storage + freeze reference model ; transition = one real native call ; in every state: ONT.balanceOf(governance) (+ constant genesis stake in fixture U) = sum TotalStake.Stake + sum PenaltyStake(InitPos+AuthorizePos); per address TotalStake = sum of its authorize-record buckets + InitPos of its peers in the pool; no actor holds more ONT than it was given; unfrozen record <= reference model (new pos free until the epoch ends, unauthorised consensus pos frozen 2 epochs, candidate pos 1 epoch, baseline reset when a peer leaves the pool); every withdraw call pays exactly the sum of its entries, and per named node the entries together are <= the unfrozen record before the call and <= the model; classes = event x ok/refused, state shapes")
		r.Assume("fixture U: InitConfig records genesis InitPos as stake without ONT moving; demanded there: the difference is the same constant in every state, and the withdraw bound is not applied to genesis owners")
		r.Assume("fixture F: the genesis peers' stake is paid into governance by a plain ONT transfer before the first commitDpos")
	}
	// non-vacuity: facts every shard sees while it builds the scenario roots
	if y.isReplay || r.R.NViolations > 0 || r.R.CapHit {
		return
	}
	need := []string{"settle:credited", "settle:node-owner-credited", "settle:authorizer-credited", "settle:candidate-node-credited", "settle:dapp-paid", "all-credited-addresses-withdrew"}
	if y.prop == "C11" {
		need = []string{"withdraw:paid", "state:frozen-withdrawal-pending", "state:unfrozen-stake-present", "state:penalty-stake-held", "epoch:peer-left-pool"}
	}
	for _, c := range need {
		r.Need(r.R.Classes[c] > 0, "outcome class %q never observed", c)
	}
	r.Need(r.R.Transitions > 0 && r.R.States > 1, "nothing explored")
}

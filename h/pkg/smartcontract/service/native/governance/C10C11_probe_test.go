package governance_test

import (
	"fmt"
	"syscall"
	"testing"
	"time"

	"github.com/ontio/ontology/smartcontract/service/native/governance"
	nutils "github.com/ontio/ontology/smartcontract/service/native/utils"
)

func c10cpu() time.Duration {
	var ru syscall.Rusage
	syscall.Getrusage(syscall.RUSAGE_SELF, &ru)
	return time.Duration(ru.Utime.Nano() + ru.Stime.Nano())
}

func TestVerif_C10C11_probe(t *testing.T) {
	fx := c10Open("F")
	defer fx.base.Close()
	e := fx.root.Clone()
	fmt.Println("root view", c10View(e), "height", e.Height)
	c0 := c10cpu()
	for i := 0; i < 500; i++ {
		_ = e.Clone()
	}
	fmt.Println("clone cpu", (c10cpu()-c0)/500)
	c0 = c10cpu()
	for i := 0; i < 500; i++ {
		_ = c10Observe(fx, e)
	}
	fmt.Println("observe cpu", (c10cpu()-c0)/500)
	c0 = c10cpu()
	for i := 0; i < 500; i++ {
		_ = e.Dump(c10Gov)
	}
	fmt.Println("dump gov cpu", (c10cpu()-c0)/500)
	c0 = c10cpu()
	for i := 0; i < 500; i++ {
		fx.call(e, "income:1")
	}
	fmt.Println("income call cpu", (c10cpu()-c0)/500)
	t0 := time.Now()
	r := fx.call(e, "reg:P8:10000")
	fmt.Println("reg", r)
	r = fx.call(e, "max:P8:100000")
	fmt.Println("max", r)
	r = fx.call(e, "auth:A1:P8:500")
	fmt.Println("auth", r)
	t0 = time.Now()
	r = fx.call(e, "commit")
	fmt.Println("commit", r, time.Since(t0))
	r = fx.call(e, "income:1000000007")
	fmt.Println("income", r)
	r = fx.call(e, "commit")
	fmt.Println("commit", r)
	o := c10Observe(fx, e)
	fmt.Printf("%+v\n", o)
	for _, kv := range e.Dump(nutils.GovernanceContractAddress) {
		fmt.Printf("%q = %x\n", kv.K[21:], kv.V)
	}
	_ = governance.PRECISE
}

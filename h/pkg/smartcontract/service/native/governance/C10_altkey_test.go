package governance_test

// C10 — alternative valid encodings of a node key that is already in the pool.
//
// The property quantifies over all peer pools reachable through
// register/authorize/unauthorize/commit sequences.  A peer public key reaches
// the contract as a hex STRING; the pool map is keyed by that string while the
// authorize records, peer attributes, peer index and promise pos are keyed by
// the decoded BYTES.  The same key therefore has several spellings the
// contract's own format check accepts (upper-case and mixed-case hex digits),
// and every call that takes a peer key can be made with any of them.  This
// file adds those spellings of two keys that are in the pool (P8 registered by
// a real call, P1 a genesis node) to the event menu of C10:
//
//   P8^ / P1^  the key in upper-case hex,  P8~ / P1~  in mixed-case hex
//
// each with an owner of its own (the party that would register and operate the
// entry), so that "reg:P8^:10000", "auth:A2:P8^:500", "quit:P8^" ... are
// ordinary events of the shared grammar.  The oracles are those of C10
// (credits <= income, no wrap, withdrawable), plus the structural fact the
// split relies on: the pool never holds two entries whose keys decode to the
// same bytes (they would share one set of authorize records and attributes).

import (
	"encoding/hex"
	"fmt"
	"sort"
	"strings"

	"github.com/ontio/ontology/smartcontract/service/native/governance"
	"github.com/ontio/ontology/verifshim/xs"
)

var c10AltNames = []string{"P8^", "P8~", "P1^", "P1~"}

func c10AltBase(p string) string { return strings.TrimRight(p, "^~") }

func c10IsAlt(p string) bool { return strings.HasSuffix(p, "^") || strings.HasSuffix(p, "~") }

// c10MixedCase spells every second hex letter in upper case.
func c10MixedCase(h string) string {
	b := []byte(strings.ToLower(h))
	n := 0
	for i, c := range b {
		if c >= 'a' && c <= 'f' {
			if n%2 == 0 {
				b[i] = c - 'a' + 'A'
			}
			n++
		}
	}
	return string(b)
}

func init() {
	c10FixExt = func(fx *c10Fix) {
		owner := map[string]string{"P8^": "O1", "P8~": "O2", "P1^": "O1", "P1~": "O2"}
		for _, alt := range c10AltNames {
			base := fx.peer[c10AltBase(alt)]
			h := strings.ToUpper(base)
			if strings.HasSuffix(alt, "~") {
				h = c10MixedCase(base)
			}
			rb, err1 := hex.DecodeString(base)
			ra, err2 := hex.DecodeString(h)
			if err1 != nil || err2 != nil || string(rb) != string(ra) || h == base {
				panic("C10 altkey fixture: " + alt + " is not another spelling of the same key")
			}
			if _, dup := fx.peerName[h]; dup {
				panic("C10 altkey fixture: spelling " + alt + " collides with another name")
			}
			fx.peer[alt] = h
			fx.peerName[h] = alt
			fx.owner[alt] = owner[alt]
		}
	}
	c10MenuExt = c10AltMenu
	c10PhaseExt = c10AltExplore
	c10StepExt = c10AltStep
	c10CheckExt = c10AltCheck
}

// c10AltEvents: calls that name a pooled node by another spelling of its key.
//
//	level 0 (pruned menu of the general exploration): the key is registered again, P8 in
//	        upper case by its own owner, the genesis node P1 in mixed case by somebody else;
//	level 1 (alt-key exploration, quick): + P8 in mixed case by somebody else, and the
//	        calls that take a peer key made with P8^ / P1~;
//	level 2 (wide menu; alt-key exploration, thorough): all four spellings, all calls.
func c10AltEvents(s *c10State, level int) []string {
	o, fx := s.o, s.fx
	var ev []string
	add := func(cond bool, l string) {
		if cond {
			ev = append(ev, l)
		}
	}
	item := func(p string) *governance.PeerPoolItem { return o.Pool[fx.peer[p]] }
	live := func(p string) bool {
		it := item(p)
		return it != nil && (it.Status == governance.CandidateStatus || it.Status == governance.ConsensusStatus)
	}
	active := func(a, p string) bool {
		ai := o.Auth[a+"|"+p]
		return ai != nil && ai.ConsensusPos+ai.CandidatePos+ai.NewPos > 0
	}
	for _, alt := range c10AltNames {
		base := c10AltBase(alt)
		first := alt == "P8^" || alt == "P1~"
		if level == 0 && !first {
			continue
		}
		if level == 1 && !first && alt != "P8~" {
			continue
		}
		pooled := item(base) != nil || item(alt) != nil
		// register the key (again): with the minimum stake; a genesis key with a stake that
		// ranks above the genesis nodes of fixture F.  P8^ is registered by P8's own owner,
		// also while P8 is not in the pool (the entry must then BE P8's).
		regPos := "10000"
		if base == "P1" {
			regPos = "20000"
		}
		add(item(alt) == nil && (pooled || alt == "P8^"), "reg:"+alt+":"+regPos)
		add(level == 2 && item(alt) == nil && pooled && base == "P8", "reg:"+alt+":20000")
		if level == 0 || (level == 1 && !first) {
			continue
		}
		any := live(base) || live(alt)
		add(any, "auth:A2:"+alt+":500")
		add(any, "quit:"+alt)
		if base == "P1" && level < 2 {
			continue
		}
		add(any, "max:"+alt+":100000")
		add(pooled, "cost:"+alt+":50:20")
		add(active("A1", base) || active("A1", alt), "unauth:A1:"+alt+":500")
		add(level == 2 && (active("A2", base) || active("A2", alt)), "unauth:A2:"+alt+":500")
		add(level == 2 && pooled, "pcost:"+alt+":0")
		add(level == 2 && item(alt) != nil && item(alt).Status != governance.BlackStatus, "black:"+alt)
	}
	return ev
}

// c10AltPhase is set while the alt-key exploration runs: the menu is then the
// settlement skeleton (commit, income, one authorization to the registered
// node) plus the alt-key calls, which leaves room for more depth.
var c10AltPhase bool

func c10AltMenu(y *c10Sys, s *c10State, ev []string) []string {
	if y.prop != "C10" {
		return ev
	}
	if !c10AltPhase {
		level := 0
		if y.wide {
			level = 2
		}
		return append(ev, c10AltEvents(s, level)...)
	}
	var out []string
	for _, e := range ev {
		if e == "commit" || e == "income:1000000007" || e == "auth:A2:P8:1000" {
			out = append(out, e)
		}
	}
	level := 1
	if y.r.Thorough() {
		level = 2
	}
	return append(out, c10AltEvents(s, level)...)
}

// c10AltExplore: from the roots in which the registered node has authorizers
// and shares its income, every sequence of alt-key calls, settlements, income
// and authorizations up to a depth that covers "register the key again, have
// stake authorized, settle the epoch, earn, settle again".
func c10AltExplore(y *c10Sys) []string {
	if y.prop != "C10" {
		return nil
	}
	r := y.r
	roots := map[string]bool{"F/S2": true, "H/S6": true}
	depth := 5
	if r.Thorough() {
		roots["F/S1"], roots["F/S5"] = true, true
		depth = 6
	}
	all, wide := y.scens, y.wide
	defer func() { y.scens, y.wide, c10AltPhase = all, wide, false }()
	y.scens = nil
	var names []string
	for _, sc := range all {
		if roots[sc.name] {
			y.scens = append(y.scens, sc)
			names = append(names, sc.name)
		}
	}
	y.wide, c10AltPhase = false, true
	st := xs.Run(r, y.config(depth))
	for d, n := range st.PerDepth {
		r.Add(fmt.Sprintf("new_states.altkey_menu.depth_%d", d-1), n)
	}
	r.Sample(map[string]interface{}{"phase": "altkey", "scenario_roots": len(y.scens), "depth_after_root": depth, "states_this_shard": st.States, "per_depth": st.PerDepth})
	spell := "P8 in upper-case (by its owner) and mixed-case (by another owner) hex, P1 in mixed-case hex; calls with P8^: authorize, unauthorize, quit, changeMaxAuthorization, setFeePercentage; with P1~: authorize, quit"
	if r.Thorough() {
		spell = "P8 and P1 each in upper-case and mixed-case hex; every call that takes a peer key (authorize, unauthorize, quit, changeMaxAuthorization, setFeePercentage, setPeerCost, blackNode) with every spelling"
	}
	return []string{fmt.Sprintf("alt-key menu (commit, income, auth:A2:P8:1000 + registration of a pooled key in another spelling: %s) to depth %d from %s; in every state of every search: no two pool entries whose keys decode to the same bytes", spell, depth, strings.Join(names, ","))}
}

// c10AltStep records what became of a call made with another spelling.
func c10AltStep(y *c10Sys, s *c10State, st *c10Step) {
	alt := false
	for _, f := range st.f[1:] {
		if c10IsAlt(f) {
			alt = true
		}
	}
	if !alt {
		return
	}
	switch {
	case st.ok:
		y.r.Class("altkey:" + st.kind + ":ok")
	case st.kind == "reg" && strings.Contains(st.err, "already in peerPoolMap"):
		y.r.Class("altkey:reg:refused-as-the-same-key")
	default:
		y.r.Class("altkey:" + st.kind + ":refused")
	}
}

// c10AltCheck: no two pool entries for one key.
func c10AltCheck(y *c10Sys, s *c10State) []c10Viol {
	byBytes := map[string][]string{}
	for k := range s.o.Pool {
		raw, err := hex.DecodeString(k)
		if err != nil {
			continue
		}
		byBytes[string(raw)] = append(byBytes[string(raw)], s.fx.pname(k))
	}
	var vs []c10Viol
	for _, names := range byBytes {
		if len(names) > 1 {
			sort.Strings(names)
			vs = append(vs, c10Viol{"C10:pool-holds-one-node-key-twice", fmt.Sprintf("pool entries %s are spellings of the same public key; they share one set of authorize records and peer attributes, which the fee split divides by the stake of one entry only", strings.Join(names, ","))})
		}
	}
	sort.Slice(vs, func(i, j int) bool { return vs[i].detail < vs[j].detail })
	return vs
}

package governance_test

// C10 / C11 — governance contract.
//
//   C10  When a consensus epoch is settled, the ONG credited to node owners,
//        authorizers and the dapp address together never exceeds the income
//        being split, no individual credit wraps, and every credited amount is
//        later withdrawable from the governance contract's balance.
//   C11  Governance's ONT balance equals the sum of all recorded total stakes
//        plus penalty stakes, and no address can withdraw more ONT than it
//        deposited and has unfrozen.
//
// Technique: explicit-state search (verifshim/xs, cloning) over the REAL
// native service on the Native/mem fixture with a 7-peer VBFT genesis.  A
// state is (overlay over the genesis ledger, block height/time) plus a boring
// reference model of which stake is frozen.  The root states ("scenarios") are
// themselves reached only through real calls (six commitDpos to leave the old
// split code, candidate registrations, authorizations ...), each step of the
// preparation judged by the same oracles.
//
// Fixtures (DESIGN §4, fixture note):
//   F  genesis peers with InitPos>0 whose ONT has been paid into governance by
//      a plain ONT transfer (exact equality demanded);
//   U  the same genesis but unfunded: InitConfig records the stake without any
//      ONT moving, so the equality is off by that constant in every state
//      (demanded: the difference never changes);
//   Z  genesis InitPos=0 (exact equality);
//   H  like F with genesis stakes above 100000, so that a registered node can hold more authorised pos than
//      its own init pos and still be ranked below the consensus nodes (paid by the candidate loop).

import (
	"bytes"
	"crypto/sha256"
	"encoding/hex"
	"fmt"
	"sort"
	"strconv"
	"strings"

	"github.com/ontio/ontology-crypto/keypair"
	"github.com/ontio/ontology/common"
	"github.com/ontio/ontology/common/config"
	"github.com/ontio/ontology/common/constants"
	cstates "github.com/ontio/ontology/core/states"
	"github.com/ontio/ontology/smartcontract/service/native/governance"
	"github.com/ontio/ontology/smartcontract/service/native/ont"
	nutils "github.com/ontio/ontology/smartcontract/service/native/utils"
	"github.com/ontio/ontology/verifshim/vkeys"
	"github.com/ontio/ontology/verifshim/vnative"
)

const (
	c10H0    = 3000000 // above NEW_VERSION_BLOCK (414100) and NEW_WITHDRAW_BLOCK (2800000)
	c10Cycle = 10000   // MaxBlockChangeView of the fixture
	c10T0    = 1000    // seconds after genesis at which the fixture starts
	c10DT    = 3600    // one "tick"
	c10MaxTk = 2       // ticks explored beyond the root
)

var (
	c10Gov = nutils.GovernanceContractAddress
	c10Ont = nutils.OntContractAddress
	c10Ong = nutils.OngContractAddress
)

// ------------------------------------------------------------------ fixture

type c10Fix struct {
	kind     string
	base     *vnative.Base
	root     *vnative.Env
	actor    map[string]common.Address
	actName  map[common.Address]string
	actList  []string // sorted names of the actors whose balances are observed
	peer     map[string]string // P1..P9 -> hex pubkey
	peerName map[string]string
	owner    map[string]string // peer name -> owner actor name
	funded   map[string]uint64 // ONT an actor has been given (wallet may never exceed it)
	offset   uint64            // expected (sum of stakes - ONT balance), constant
}

func c10PeerHex(i int) string {
	_, pub := vkeys.P256(i)
	return hex.EncodeToString(keypair.SerializePublicKey(pub))
}

func c10GenesisPos(kind string, i int) uint64 {
	if kind == "Z" {
		return 0
	}
	if kind == "H" {
		// high genesis stakes: a 10000-ONT candidate stays a candidate node even with 40000 ONT authorised to it
		return uint64(112000 + (8-i)*100)
	}
	return uint64(12000 + (8-i)*100) // P1=12700 ... P7=12100: a 10000-ONT candidate needs >2100 authorised to enter consensus
}

func c10Open(kind string) *c10Fix {
	fx := &c10Fix{kind: kind, actor: map[string]common.Address{}, actName: map[common.Address]string{},
		peer: map[string]string{}, peerName: map[string]string{}, owner: map[string]string{}, funded: map[string]uint64{}}
	add := func(n string, a common.Address) { fx.actor[n] = a; fx.actName[a] = n }
	add("ADM", vnative.Acct(0).Address)
	add("O1", vnative.Acct(1).Address)
	add("O2", vnative.Acct(2).Address)
	add("A1", vnative.Acct(3).Address)
	add("A2", vnative.Acct(4).Address)
	add("DAPP", vnative.Acct(5).Address)
	add("X", vnative.Acct(6).Address)
	for i := 1; i <= 7; i++ {
		add("G"+strconv.Itoa(i), vnative.Acct(10+i).Address)
		fx.peer["P"+strconv.Itoa(i)] = c10PeerHex(10 + i)
		fx.owner["P"+strconv.Itoa(i)] = "G" + strconv.Itoa(i)
	}
	fx.peer["P8"], fx.owner["P8"] = c10PeerHex(21), "O1"
	fx.peer["P9"], fx.owner["P9"] = c10PeerHex(22), "O2"
	for n, h := range fx.peer {
		fx.peerName[h] = n
	}
	for n := range fx.actor {
		fx.actList = append(fx.actList, n)
	}
	sort.Strings(fx.actList)

	fx.base = vnative.OpenSolo(func() {
		v := &config.VBFTConfig{N: 7, C: 2, K: 7, L: 112, BlockMsgDelay: 10000, HashMsgDelay: 10000,
			PeerHandshakeTimeout: 10, MaxBlockChangeView: c10Cycle, MinInitStake: 10000,
			AdminOntID: "did:ont:AZYsUWrzNYoXKjUNmMNwRZFHgdFceepDY8",
			VrfValue:   "1c9810aa9822e511d5804a9c4db9dd08497c31087b0daafa34d768a3253441fa20515e2f30f81741102af0ca3cefc4818fef16adb825fbaa8cad78647f3afb590e",
			VrfProof:   "c57741f934042cb8d8b087b44b161db56fc3ffd4ffb675d36cd09f83935be853d8729f3f5298d12d6fd28d45dde515a4b9d7f67682d182ba5118abf451ff1988"}
		for i := 1; i <= 7; i++ {
			v.Peers = append(v.Peers, &config.VBFTPeerStakeInfo{Index: uint32(i), PeerPubkey: c10PeerHex(10 + i),
				Address: c10B58(vnative.Acct(10 + i).Address), InitPos: c10GenesisPos(kind, i)})
		}
		config.DefConfig.Genesis.VBFT = v
	})
	e := fx.base.NewEnv()
	e.Height = c10H0
	e.Time = constants.GENESIS_BLOCK_TIMESTAMP + c10T0
	must := func(what string, r vnative.CallResult) {
		if r.Err != nil {
			panic(fmt.Sprintf("C10C11 fixture %s: %s: %v", kind, what, r.Err))
		}
	}
	adm := fx.actor["ADM"]
	// the solo network gives all ONG to the bookkeeper; every other network
	// leaves it with the ONT contract, from where governance's share unbinds.
	must("fund ont contract", e.Call(c10Ong, "transfer", c10Transfer(adm, c10Ont, 500000000*1000000000), adm))
	give := func(n string, ontAmt, ongAmt uint64) {
		if ontAmt > 0 {
			must("ont "+n, e.Call(c10Ont, "transfer", c10Transfer(adm, fx.actor[n], ontAmt), adm))
		}
		if ongAmt > 0 {
			must("ong "+n, e.Call(c10Ong, "transfer", c10Transfer(adm, fx.actor[n], ongAmt), adm))
		}
		fx.funded[n] = ontAmt
	}
	give("O1", 60000, 2000*1000000000)
	give("O2", 60000, 2000*1000000000)
	give("A1", 5000, 0)
	give("A2", 5000, 0)
	var gsum uint64
	for i := 1; i <= 7; i++ {
		gsum += c10GenesisPos(kind, i)
		if kind == "F" || kind == "H" {
			fx.funded["G"+strconv.Itoa(i)] = c10GenesisPos(kind, i)
		}
	}
	if (kind == "F" || kind == "H") && gsum > 0 {
		must("fund genesis stake", e.Call(c10Ont, "transfer", c10Transfer(adm, c10Gov, gsum), adm))
	}
	if kind == "U" {
		fx.offset = gsum
	}
	// leave the old split code: views 1..6 run executeCommitDpos1
	for c10View(e) <= governance.NEW_VERSION_VIEW {
		e.Height++
		must("commitDpos view "+strconv.Itoa(int(c10View(e))), e.Call(c10Gov, governance.COMMIT_DPOS, nil, adm))
	}
	fx.root = e
	if c10FixExt != nil {
		c10FixExt(fx)
	}
	return fx
}

func c10B58(a common.Address) string { return a.ToBase58() }

func c10Transfer(from, to common.Address, v uint64) []byte {
	return common.SerializeToBytes(&ont.TransferStates{States: []ont.TransferState{{From: from, To: to, Value: v}}})
}

// ------------------------------------------------------------- observation

type c10Obs struct {
	View     uint32
	GVHeight uint32
	OntGov   uint64
	OngGov   uint64
	Ont      map[string]uint64 // actor name -> wallet
	Ong      map[string]uint64
	Pool     map[string]*governance.PeerPoolItem // peer hex -> item (current view)
	Auth     map[string]*governance.AuthorizeInfo // "actor|peer" (names when known)
	Total    map[string]uint64                    // actor name (or hex) -> TotalStake.Stake
	Penalty  map[string]uint64                    // peer name -> InitPos+AuthorizePos
	Fee      map[string]uint64                    // actor name (or hex) -> SplitFeeAddress.Amount
	SplitFee uint64
	GasAddr  common.Address
	Black    map[string]bool
	key      string
}

func (fx *c10Fix) aname(a common.Address) string {
	if n, ok := fx.actName[a]; ok {
		return n
	}
	if a == c10Gov {
		return "GOV"
	}
	return a.ToHexString()
}

func (fx *c10Fix) pname(h string) string {
	if n, ok := fx.peerName[h]; ok {
		return n
	}
	return h
}

// c10BalanceOf asks the token contract (used to validate the storage reading).
func c10BalanceOf(e *vnative.Env, token, a common.Address) uint64 {
	sink := common.NewZeroCopySink(nil)
	nutils.EncodeAddress(sink, a)
	r := e.Call(token, "balanceOf", sink.Bytes())
	if r.Err != nil {
		panic(r.Err)
	}
	b := common.BigIntFromNeoBytes(r.Ret)
	if !b.IsUint64() {
		panic("balance does not fit uint64")
	}
	return b.Uint64()
}

// c10Balance reads the balance record the token contract keeps (what
// balanceOf returns; validated against balanceOf at every scenario root).
func c10Balance(e *vnative.Env, token, a common.Address) uint64 {
	raw := e.Get(vnative.StorageKey(token, a[:]))
	if len(raw) == 0 {
		return 0
	}
	item := new(cstates.StorageItem)
	if err := item.Deserialization(common.NewZeroCopySource(raw)); err != nil {
		panic(err)
	}
	b, err := cstates.NativeTokenBalanceFromStorageItem(item)
	if err != nil {
		panic(err)
	}
	v := b.ToInteger().BigInt()
	if !v.IsUint64() {
		panic("balance does not fit uint64")
	}
	return v.Uint64()
}

func c10View(e *vnative.Env) uint32 {
	r := e.Call(c10Gov, governance.GET_VIEW, nil)
	if r.Err != nil {
		panic(r.Err)
	}
	v, _ := common.NewZeroCopySource(r.Ret).NextUint32()
	return v
}

func c10RawValue(v []byte) []byte {
	b, err := cstates.GetValueFromRawStorageItem(v)
	if err != nil {
		panic(err)
	}
	return b
}

// c10Observe reads everything the oracles look at: token balances through
// balanceOf, governance records by decoding the contract's storage dump with
// the contract's own exported record types.
func c10Observe(fx *c10Fix, e *vnative.Env) *c10Obs {
	o := &c10Obs{Ont: map[string]uint64{}, Ong: map[string]uint64{}, Pool: map[string]*governance.PeerPoolItem{},
		Auth: map[string]*governance.AuthorizeInfo{}, Total: map[string]uint64{}, Penalty: map[string]uint64{},
		Fee: map[string]uint64{}, Black: map[string]bool{}}
	o.OntGov = c10Balance(e, c10Ont, c10Gov)
	o.OngGov = c10Balance(e, c10Ong, c10Gov)
	for _, n := range fx.actList {
		o.Ont[n] = c10Balance(e, c10Ont, fx.actor[n])
		o.Ong[n] = c10Balance(e, c10Ong, fx.actor[n])
	}
	dump := e.Dump(c10Gov)
	pools := map[uint32][]byte{}
	kb := sha256.New() // the canonical key is a digest of the canonical dump
	var lenb [4]byte
	put := func(b []byte) {
		lenb[0], lenb[1], lenb[2], lenb[3] = byte(len(b)), byte(len(b)>>8), byte(len(b)>>16), byte(len(b)>>24)
		kb.Write(lenb[:])
		kb.Write(b)
	}
	for _, kv := range dump {
		k := kv.K[21:]
		masked := false
		switch {
		case string(k) == governance.GOVERNANCE_VIEW:
			gv := new(governance.GovernanceView)
			if err := gv.Deserialize(bytes.NewBuffer(c10RawValue(kv.V))); err != nil {
				panic(err)
			}
			o.View, o.GVHeight = gv.View, gv.Height
			masked = true // height and tx hash of the last commit: only their relation to the block height matters
		case bytes.HasPrefix(k, []byte(governance.PEER_POOL)) && len(k) == len(governance.PEER_POOL)+4:
			v, _ := common.NewZeroCopySource(k[len(governance.PEER_POOL):]).NextUint32()
			pools[v] = kv.V
		case bytes.HasPrefix(k, governance.AUTHORIZE_INFO_POOL):
			ai := new(governance.AuthorizeInfo)
			if err := ai.Deserialization(common.NewZeroCopySource(c10RawValue(kv.V))); err != nil {
				panic(err)
			}
			o.Auth[fx.aname(ai.Address)+"|"+fx.pname(ai.PeerPubkey)] = ai
		case bytes.HasPrefix(k, []byte(governance.TOTAL_STAKE)):
			ts := new(governance.TotalStake)
			if err := ts.Deserialization(common.NewZeroCopySource(c10RawValue(kv.V))); err != nil {
				panic(err)
			}
			o.Total[fx.aname(ts.Address)] = ts.Stake
		case bytes.HasPrefix(k, []byte(governance.PENALTY_STAKE)):
			ps := new(governance.PenaltyStake)
			if err := ps.Deserialization(common.NewZeroCopySource(c10RawValue(kv.V))); err != nil {
				panic(err)
			}
			o.Penalty[fx.pname(ps.PeerPubkey)] = ps.InitPos + ps.AuthorizePos
		case bytes.HasPrefix(k, []byte(governance.SPLIT_FEE_ADDRESS)):
			sf := new(governance.SplitFeeAddress)
			if err := sf.Deserialization(common.NewZeroCopySource(c10RawValue(kv.V))); err != nil {
				panic(err)
			}
			o.Fee[fx.aname(sf.Address)] = sf.Amount
		case string(k) == governance.SPLIT_FEE:
			v, err := governance.GetBytesUint64(c10RawValue(kv.V))
			if err != nil {
				panic(err)
			}
			o.SplitFee = v
		case string(k) == governance.GAS_ADDRESS:
			ga := new(governance.GasAddress)
			if err := ga.Deserialization(common.NewZeroCopySource(c10RawValue(kv.V))); err != nil {
				panic(err)
			}
			o.GasAddr = ga.Address
		case bytes.HasPrefix(k, []byte(governance.BLACK_LIST)):
			o.Black[fx.pname(hex.EncodeToString(k[len(governance.BLACK_LIST):]))] = true
		}
		if !masked {
			put(k)
			put(kv.V)
		}
	}
	if pv, ok := pools[o.View]; ok {
		m := new(governance.PeerPoolMap)
		if err := m.Deserialization(common.NewZeroCopySource(c10RawValue(pv))); err != nil {
			panic(err)
		}
		o.Pool = m.PeerPoolMap
	} else {
		panic("no peer pool of the current view")
	}
	// canonical key: governance + ONT + ONG storage, with the last-commit
	// height reduced to what the contract can distinguish.
	rel := e.Height - o.GVHeight
	bucket := "mid"
	if rel == 0 {
		bucket = "same"
	} else if rel >= c10Cycle {
		bucket = "cycle"
	}
	put([]byte(fmt.Sprintf("|view=%d|rel=%s|t=%d|", o.View, bucket, e.Time)))
	for _, kv := range e.Dump(c10Ont, c10Ong) {
		put(kv.K[1:])
		put(kv.V)
	}
	o.key = hex.EncodeToString(kb.Sum(nil))
	return o
}

func (o *c10Obs) sumFee() (s uint64, wrapped bool) {
	for _, v := range o.Fee {
		if s+v < s {
			wrapped = true
		}
		s += v
	}
	return
}

func (o *c10Obs) unfreeze(actor, peer string) uint64 {
	if ai := o.Auth[actor+"|"+peer]; ai != nil {
		return ai.WithdrawUnfreezePos
	}
	return 0
}

// --------------------------------------------------------------- events

// c10Call performs one labelled event on e.  The label grammar is
// method[!]:args; "!" = signed by the outsider X instead of the party the
// contract requires.  It returns the result; for events that need a new block
// (commit*) the height is advanced only when the call succeeds.
func (fx *c10Fix) call(e *vnative.Env, ev string) vnative.CallResult {
	f := strings.Split(ev, ":")
	m := f[0]
	wrong := strings.HasSuffix(m, "!")
	m = strings.TrimSuffix(m, "!")
	wit := func(n string) common.Address {
		if wrong {
			return fx.actor["X"]
		}
		return fx.actor[n]
	}
	u32 := func(s string) uint32 {
		v, err := strconv.ParseUint(s, 10, 32)
		if err != nil {
			panic("bad number in " + ev)
		}
		return uint32(v)
	}
	gov := func(method string, args []byte, w common.Address) vnative.CallResult {
		return e.Call(c10Gov, method, args, w)
	}
	sink := common.NewZeroCopySink(nil)
	switch m {
	case "reg": // reg:P:pos
		p := f[1]
		oa := fx.actor[fx.owner[p]]
		(&governance.RegisterCandidateParam{PeerPubkey: fx.peer[p], Address: oa, InitPos: u32(f[2]),
			Caller: []byte("did:ont:" + oa.ToBase58()), KeyNo: 1}).Serialization(sink)
		return gov(governance.REGISTER_CANDIDATE, sink.Bytes(), wit(fx.owner[p]))
	case "max": // max:P:n
		p := f[1]
		(&governance.ChangeMaxAuthorizationParam{PeerPubkey: fx.peer[p], Address: fx.actor[fx.owner[p]], MaxAuthorize: u32(f[2])}).Serialization(sink)
		return gov(governance.CHANGE_MAX_AUTHORIZATION, sink.Bytes(), wit(fx.owner[p]))
	case "auth", "auth2", "unauth", "unauth2": // auth:A:P:pos
		a, p := f[1], f[2]
		prm := &governance.AuthorizeForPeerParam{Address: fx.actor[a], PeerPubkeyList: []string{fx.peer[p]}, PosList: []uint32{u32(f[3])}}
		if strings.HasSuffix(m, "2") {
			prm.PeerPubkeyList = append(prm.PeerPubkeyList, fx.peer[p])
			prm.PosList = append(prm.PosList, u32(f[3]))
		}
		if err := prm.Serialization(sink); err != nil {
			panic(err)
		}
		meth := governance.AUTHORIZE_FOR_PEER
		if strings.HasPrefix(m, "un") {
			meth = governance.UNAUTHORIZE_FOR_PEER
		}
		return gov(meth, sink.Bytes(), wit(a))
	case "wd", "wd2": // wd:A:P:amount  (amount resolved by the caller of call(): a number)
		a, p := f[1], f[2]
		prm := &governance.WithdrawParam{Address: fx.actor[a], PeerPubkeyList: []string{fx.peer[p]}, WithdrawList: []uint32{u32(f[3])}}
		if m == "wd2" {
			prm.PeerPubkeyList = append(prm.PeerPubkeyList, fx.peer[p])
			prm.WithdrawList = append(prm.WithdrawList, u32(f[3]))
		}
		if err := prm.Serialization(sink); err != nil {
			panic(err)
		}
		return gov(governance.WITHDRAW, sink.Bytes(), wit(a))
	case "wdl": // wdl:A:P8+P9+P8:250+500+250  one withdraw call with several (peer, amount) entries
		a := f[1]
		ps, as := strings.Split(f[2], "+"), strings.Split(f[3], "+")
		if len(ps) != len(as) {
			panic("bad list in " + ev)
		}
		prm := &governance.WithdrawParam{Address: fx.actor[a]}
		for i, p := range ps {
			prm.PeerPubkeyList = append(prm.PeerPubkeyList, fx.peer[p])
			prm.WithdrawList = append(prm.WithdrawList, u32(as[i]))
		}
		if err := prm.Serialization(sink); err != nil {
			panic(err)
		}
		return gov(governance.WITHDRAW, sink.Bytes(), wit(a))
	case "approve": // deprecated admin path: only for RegisterCandidateStatus peers
		(&governance.ApproveCandidateParam{PeerPubkey: fx.peer[f[1]]}).Serialization(sink)
		return gov(governance.APPROVE_CANDIDATE, sink.Bytes(), wit("ADM"))
	case "reject":
		(&governance.RejectCandidateParam{PeerPubkey: fx.peer[f[1]]}).Serialization(sink)
		return gov(governance.REJECT_CANDIDATE, sink.Bytes(), wit("ADM"))
	case "unreg":
		p := f[1]
		(&governance.UnRegisterCandidateParam{PeerPubkey: fx.peer[p], Address: fx.actor[fx.owner[p]]}).Serialization(sink)
		return gov(governance.UNREGISTER_CANDIDATE, sink.Bytes(), wit(fx.owner[p]))
	case "quit":
		p := f[1]
		(&governance.QuitNodeParam{PeerPubkey: fx.peer[p], Address: fx.actor[fx.owner[p]]}).Serialization(sink)
		return gov(governance.QUIT_NODE, sink.Bytes(), wit(fx.owner[p]))
	case "black":
		(&governance.BlackNodeParam{PeerPubkeyList: []string{fx.peer[f[1]]}}).Serialization(sink)
		e.Height++ // blacklisting a consensus node settles the epoch: needs a block after the last settlement
		r := gov(governance.BLACK_NODE, sink.Bytes(), wit("ADM"))
		if r.Err != nil {
			e.Height--
		} else if c10GVHeight(e) != e.Height {
			e.Height-- // no settlement happened: stay in the same block
		}
		return r
	case "white":
		(&governance.WhiteNodeParam{PeerPubkey: fx.peer[f[1]]}).Serialization(sink)
		return gov(governance.WHITE_NODE, sink.Bytes(), wit("ADM"))
	case "cost": // cost:P:peer:stake
		p := f[1]
		if err := (&governance.SetFeePercentageParam{PeerPubkey: fx.peer[p], Address: fx.actor[fx.owner[p]], PeerCost: u32(f[2]), StakeCost: u32(f[3])}).Serialization(sink); err != nil {
			panic(err)
		}
		return gov(governance.SET_FEE_PERCENTAGE, sink.Bytes(), wit(fx.owner[p]))
	case "pcost": // pcost:P:c
		p := f[1]
		if err := (&governance.SetPeerCostParam{PeerPubkey: fx.peer[p], Address: fx.actor[fx.owner[p]], PeerCost: u32(f[2])}).Serialization(sink); err != nil {
			panic(err)
		}
		return gov(governance.SET_PEER_COST, sink.Bytes(), wit(fx.owner[p]))
	case "addinit", "redinit":
		p := f[1]
		(&governance.ChangeInitPosParam{PeerPubkey: fx.peer[p], Address: fx.actor[fx.owner[p]], Pos: u32(f[2])}).Serialization(sink)
		meth := governance.ADD_INIT_POS
		if m == "redinit" {
			meth = governance.REDUCE_INIT_POS
		}
		return gov(meth, sink.Bytes(), wit(fx.owner[p]))
	case "promise": // promise:P:n (admin)
		(&governance.PromisePos{PeerPubkey: fx.peer[f[1]], PromisePos: uint64(u32(f[2]))}).Serialization(sink)
		return gov(governance.SET_PROMISE_POS, sink.Bytes(), wit("ADM"))
	case "wfee":
		(&governance.WithdrawFeeParam{Address: fx.actor[f[1]]}).Serialization(sink)
		return gov(governance.WITHDRAW_FEE, sink.Bytes(), wit(f[1]))
	case "wong":
		(&governance.WithdrawOngParam{Address: fx.actor[f[1]]}).Serialization(sink)
		return gov(governance.WITHDRAW_ONG, sink.Bytes(), wit(f[1]))
	case "income": // fee income: plain ONG transfer to the governance address
		v, err := strconv.ParseUint(f[1], 10, 64)
		if err != nil {
			panic(err)
		}
		return e.Call(c10Ong, "transfer", c10Transfer(fx.actor["ADM"], c10Gov, v), wit("ADM"))
	case "gas": // gas:set
		(&governance.GasAddress{Address: fx.actor["DAPP"]}).Serialization(sink)
		return gov(governance.SET_GAS_ADDRESS, sink.Bytes(), wit("ADM"))
	case "gp": // gp:A:B:penalty  (updateGlobalParam, other fields as InitConfig set them)
		(&governance.GlobalParam{CandidateFee: 500000000000, MinInitStake: 10000, CandidateNum: 49, PosLimit: 20,
			A: u32(f[1]), B: u32(f[2]), Yita: 5, Penalty: u32(f[3])}).Serialization(sink)
		return gov(governance.UPDATE_GLOBAL_PARAM, sink.Bytes(), wit("ADM"))
	case "cfg": // cfg:K  (updateConfig; takes effect at the next settlement)
		k := u32(f[1])
		(&governance.Configuration{N: k, C: 2, K: k, L: 16 * k, BlockMsgDelay: 10000, HashMsgDelay: 10000,
			PeerHandshakeTimeout: 10, MaxBlockChangeView: c10Cycle}).Serialization(sink)
		return gov(governance.UPDATE_CONFIG, sink.Bytes(), wit("ADM"))
	case "dapp": // dapp:pct[:splitNum]  (updateGlobalParam2, other fields at their defaults)
		num := uint32(49)
		if len(f) > 2 {
			num = u32(f[2])
		}
		if err := (&governance.GlobalParam2{MinAuthorizePos: 500, CandidateFeeSplitNum: num, DappFee: u32(f[1])}).Serialization(sink); err != nil {
			panic(err)
		}
		return gov(governance.UPDATE_GLOBAL_PARAM2, sink.Bytes(), wit("ADM"))
	case "penalty": // penalty:P  (transferPenalty to the admin)
		(&governance.TransferPenaltyParam{PeerPubkey: fx.peer[f[1]], Address: fx.actor["ADM"]}).Serialization(sink)
		return gov(governance.TRANSFER_PENALTY, sink.Bytes(), wit("ADM"))
	case "commit": // commit | commit:any | commit:cycle
		h := e.Height
		w := fx.actor["ADM"]
		e.Height++
		if len(f) > 1 {
			w = fx.actor["X"]
			if f[1] == "cycle" {
				e.Height = c10GVHeight(e) + c10Cycle
				if e.Height <= h {
					e.Height = h + 1
				}
			}
		}
		r := gov(governance.COMMIT_DPOS, nil, w)
		if r.Err != nil {
			e.Height = h
		}
		return r
	case "tick":
		e.Time += c10DT
		return vnative.CallResult{}
	}
	panic("unknown event " + ev)
}

func c10GVHeight(e *vnative.Env) uint32 {
	v := e.Get(vnative.StorageKey(c10Gov, []byte(governance.GOVERNANCE_VIEW)))
	gv := new(governance.GovernanceView)
	if err := gv.Deserialize(bytes.NewBuffer(c10RawValue(v))); err != nil {
		panic(err)
	}
	return gv.Height
}

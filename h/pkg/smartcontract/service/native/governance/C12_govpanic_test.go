package governance_test

// C12 (unit govpanic): native governance calls in prepared governance states.
// Reuses the C10/C11 fixture and event menu (files C10C11_*): breadth-first
// search over governance operations from scenario roots, including the
// genesis-InitPos-0 fixture; a call that PANICS (vnative.Env.Call recovers it;
// the node's block execution does not) is a C12 violation.  The C10/C11
// oracles evaluated along the way are written to a scratch run and ignored
// here.

import (
	"fmt"
	"sort"
	"strings"
	"testing"

	"github.com/ontio/ontology/verifshim/vh"
	"github.com/ontio/ontology/verifshim/xs"
)

func TestVerif_C12_gov(t *testing.T) {
	r := vh.Start(t, "C12", "govpanic")
	defer r.Finish()
	scratch := vh.Start(t, "C12", "govpanic-scratch") // never finished: C10/C11 verdicts are not C12's business
	y := &c10Sys{r: scratch, prop: "C11", wide: false, fx: map[string]*c10Fix{}, roots: map[string]*c10State{},
		rootV: map[string][]c10Viol{}, tried: map[string]bool{}, panics: map[string]string{}}
	defer func() {
		for _, f := range y.fx {
			f.base.Close()
		}
	}()
	y.scens = []c10Scenario{
		{"Z/S0", "Z", nil},
		{"Z/S1", "Z", []string{"reg:P8:10000", "max:P8:100000", "auth:A1:P8:1000", "unauth:A1:P8:500"}},
		{"F/S0", "F", nil},
	}
	if r.Thorough() {
		y.scens = c10Scenarios("C11", true)
	}
	depth := r.Pick(2, 3)
	st := xs.Run(scratch, y.config(depth))
	r.State(st.States)
	r.Trans(st.Transitions)
	r.Eval(st.Transitions)
	r.Trace(st.Transitions)
	r.Rule("breadth-first search over governance operations (event menu of the C10/C11 harness) from scenario roots built by real calls on a 7-peer VBFT genesis, including the fixture whose genesis peers have InitPos 0; every transition is one real native call through NativeService; a Go panic inside the call is the violation (block execution has no recover)")
	r.Bound(fmt.Sprintf("scenario roots %d, depth<=%d after the root, pruned menu", len(y.scens), depth))
	r.Class("explored")
	r.Class(fmt.Sprintf("panicking-operation-kinds=%d", len(y.panics)))
	var kinds []string
	for k := range y.panics {
		kinds = append(kinds, k)
	}
	sort.Strings(kinds)
	for _, k := range kinds {
		where := y.panics[k]
		msg := where
		if i := strings.Index(where, "PANIC"); i >= 0 {
			msg = where[i:]
		}
		cls := "other"
		if strings.Contains(msg, "division by zero") {
			cls = "division-by-zero"
		} else if strings.Contains(msg, "index out of range") {
			cls = "index-out-of-range"
		} else if strings.Contains(msg, "nil pointer") {
			cls = "nil-pointer"
		}
		r.Violation("panic:native:governance."+k+":"+cls, "governance call panics (would terminate the node during block execution): "+where, map[string]interface{}{"history": where})
	}
	r.Sample(map[string]interface{}{"scenarios": len(y.scens), "states": st.States, "transitions": st.Transitions})
}

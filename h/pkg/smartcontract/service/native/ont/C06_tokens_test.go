package ont_test

// C06 — native ONT/ONG: supply conservation, no negative balance, debits only
// with the owner's witness or within an allowance the owner granted, failed
// calls change nothing.
//
// Explicit-state search (verifshim/xs, cloning) over the REAL native service
// on the Native/mem fixture.  A state is (overlay over the genesis ledger,
// block-time level) together with a plain-map reference model of balances and
// allowances.  Two alphabets:
//   * constructive events (authorised, state-changing calls and time ticks)
//     span the BFS;
//   * in EVERY distinct state reached, the full probe alphabet (all six
//     methods of both tokens x account pairs x amounts relative to the state's
//     balances/allowances x witness sets {0,{A},{B},{A,B}} x calling-contract
//     context) is executed as one further step and judged by the same oracle.
// The oracle is the property statement; the amount of ONG an ONT transfer
// unbinds is NOT modelled (the statement only calls it "a transfer between
// holders"): it is constrained to be conservative, to debit only the ONT
// contract's own ONG and to credit only the parties of the ONT transfer.

import (
	"bytes"
	"fmt"
	"math/big"
	"sort"
	"strings"
	"testing"

	"github.com/ontio/ontology/common"
	"github.com/ontio/ontology/common/config"
	"github.com/ontio/ontology/common/constants"
	cstates "github.com/ontio/ontology/core/states"
	nutils "github.com/ontio/ontology/smartcontract/service/native/utils"
	"github.com/ontio/ontology/verifshim/vh"
	"github.com/ontio/ontology/verifshim/vnative"
	"github.com/ontio/ontology/verifshim/xs"
)

const (
	c06ONT = 0
	c06ONG = 1
)

var (
	c06tokName  = [2]string{"ont", "ong"}
	c06contract = [2]common.Address{nutils.OntContractAddress, nutils.OngContractAddress}
	c06scale    = big.NewInt(1000000000)
	c06acct     = map[string]common.Address{}
	c06acctName = map[common.Address]string{}
	c06two64    = new(big.Int).Lsh(big.NewInt(1), 64)
)

func c06init() {
	if len(c06acct) > 0 {
		return
	}
	c06acct["A"] = vnative.Acct(0).Address
	c06acct["B"] = vnative.Acct(1).Address
	c06acct["C"] = vnative.Acct(2).Address // never signs; doubles as a calling contract
	c06acct["Z"] = nutils.OntContractAddress
	for n, a := range c06acct {
		c06acctName[a] = n
	}
}

func c06name(a common.Address) string {
	if n, ok := c06acctName[a]; ok {
		return n
	}
	return a.ToHexString()
}

func c06big(s string) *big.Int {
	v, ok := new(big.Int).SetString(s, 10)
	if !ok {
		panic("bad number " + s)
	}
	return v
}

// supply in the unit of the method version (v1: integer units, v2: 10^-9)
func c06supply(tok int, v2 bool) *big.Int {
	var s *big.Int
	if tok == c06ONT {
		s = big.NewInt(constants.ONT_TOTAL_SUPPLY)
	} else {
		s = new(big.Int).SetUint64(constants.ONG_TOTAL_SUPPLY)
	}
	if v2 {
		s = new(big.Int).Mul(s, c06scale)
	}
	return s
}

// ---------------------------------------------------------------- events

type c06st struct {
	From, To string
	V        *big.Int // in the unit of the method version
}

type c06ev struct {
	Tick   int // >=0: move block time to that level
	Tok    int
	Method string
	Sender string // transferFrom*
	Sts    []c06st
	W      int    // witness bitmask A=1 B=2
	Ctx    string // calling contract ("" = none)
}

func (e *c06ev) v2() bool { return strings.HasSuffix(e.Method, "V2") }
func (e *c06ev) kind() string {
	return strings.TrimSuffix(e.Method, "V2")
}

func c06wname(w int) string {
	s := ""
	if w&1 != 0 {
		s += "A"
	}
	if w&2 != 0 {
		s += "B"
	}
	if s == "" {
		s = "-"
	}
	return s
}

func (e *c06ev) String() string {
	if e.Tick >= 0 {
		return fmt.Sprintf("tick:%d", e.Tick)
	}
	var b strings.Builder
	fmt.Fprintf(&b, "%s.%s ", c06tokName[e.Tok], e.Method)
	if e.Sender != "" {
		b.WriteString(e.Sender + ":")
	}
	for i, s := range e.Sts {
		if i > 0 {
			b.WriteString(",")
		}
		fmt.Fprintf(&b, "%s>%s=%s", s.From, s.To, s.V.String())
	}
	b.WriteString(" w=" + c06wname(e.W))
	if e.Ctx != "" {
		b.WriteString(" ctx=" + e.Ctx)
	}
	return b.String()
}

func c06parse(label string) *c06ev {
	e := &c06ev{Tick: -1}
	if strings.HasPrefix(label, "tick:") {
		fmt.Sscanf(label, "tick:%d", &e.Tick)
		return e
	}
	f := strings.Split(label, " ")
	if len(f) < 3 {
		panic("bad event label " + label)
	}
	tm := strings.SplitN(f[0], ".", 2)
	if tm[0] == "ong" {
		e.Tok = c06ONG
	}
	e.Method = tm[1]
	sts := f[1]
	if i := strings.Index(sts, ":"); i >= 0 {
		e.Sender, sts = sts[:i], sts[i+1:]
	}
	for _, s := range strings.Split(sts, ",") {
		gt, eq := strings.Index(s, ">"), strings.Index(s, "=")
		e.Sts = append(e.Sts, c06st{s[:gt], s[gt+1 : eq], c06big(s[eq+1:])})
	}
	for _, x := range f[2:] {
		if strings.HasPrefix(x, "w=") {
			if strings.Contains(x[2:], "A") {
				e.W |= 1
			}
			if strings.Contains(x[2:], "B") {
				e.W |= 2
			}
		} else if strings.HasPrefix(x, "ctx=") {
			e.Ctx = x[4:]
		}
	}
	return e
}

func c06val(sink *common.ZeroCopySink, v *big.Int) {
	// the wire format of a value is the same for the uint64 and the decimal-9
	// methods: var-bytes of the little-endian two's complement integer
	nutils.EncodeVarBytes(sink, common.BigIntToNeoBytes(v))
}

func (e *c06ev) args() []byte {
	sink := common.NewZeroCopySink(nil)
	switch e.kind() {
	case "transfer":
		nutils.EncodeVarUint(sink, uint64(len(e.Sts)))
		for _, s := range e.Sts {
			nutils.EncodeAddress(sink, c06acct[s.From])
			nutils.EncodeAddress(sink, c06acct[s.To])
			c06val(sink, s.V)
		}
	case "approve":
		nutils.EncodeAddress(sink, c06acct[e.Sts[0].From])
		nutils.EncodeAddress(sink, c06acct[e.Sts[0].To])
		c06val(sink, e.Sts[0].V)
	case "transferFrom":
		nutils.EncodeAddress(sink, c06acct[e.Sender])
		nutils.EncodeAddress(sink, c06acct[e.Sts[0].From])
		nutils.EncodeAddress(sink, c06acct[e.Sts[0].To])
		c06val(sink, e.Sts[0].V)
	default:
		panic("method " + e.Method)
	}
	return sink.Bytes()
}

// ---------------------------------------------------------------- reference model

type c06pair [2]common.Address

// c06tok: balances and allowances of one token, in 10^-9 units of the token's
// v1 unit (ONT: 10^-9 ONT, ONG: 10^-18 ONG); zero entries are absent.
type c06tok struct {
	bal map[common.Address]*big.Int
	alw map[c06pair]*big.Int
}

func c06newTok() c06tok {
	return c06tok{map[common.Address]*big.Int{}, map[c06pair]*big.Int{}}
}

func (t c06tok) clone() c06tok {
	n := c06newTok()
	for k, v := range t.bal {
		n.bal[k] = v // big.Ints are never mutated in place
	}
	for k, v := range t.alw {
		n.alw[k] = v
	}
	return n
}

var c06zero = big.NewInt(0)

func (t c06tok) b(a common.Address) *big.Int {
	if v, ok := t.bal[a]; ok {
		return v
	}
	return c06zero
}
func (t c06tok) a(from, spender common.Address) *big.Int {
	if v, ok := t.alw[c06pair{from, spender}]; ok {
		return v
	}
	return c06zero
}
func (t c06tok) setB(a common.Address, v *big.Int) {
	if v.Sign() == 0 {
		delete(t.bal, a)
	} else {
		t.bal[a] = v
	}
}
func (t c06tok) setA(from, spender common.Address, v *big.Int) {
	if v.Sign() == 0 {
		delete(t.alw, c06pair{from, spender})
	} else {
		t.alw[c06pair{from, spender}] = v
	}
}
func (t c06tok) sum() *big.Int {
	s := new(big.Int)
	for _, v := range t.bal {
		s.Add(s, v)
	}
	return s
}

func (t c06tok) String() string {
	var l []string
	for k, v := range t.bal {
		l = append(l, fmt.Sprintf("bal[%s]=%s", c06name(k), v))
	}
	for k, v := range t.alw {
		l = append(l, fmt.Sprintf("alw[%s>%s]=%s", c06name(k[0]), c06name(k[1]), v))
	}
	sort.Strings(l)
	return strings.Join(l, " ")
}

func c06tokEqual(x, y c06tok) bool {
	if len(x.bal) != len(y.bal) || len(x.alw) != len(y.alw) {
		return false
	}
	for k, v := range x.bal {
		if w, ok := y.bal[k]; !ok || v.Cmp(w) != 0 {
			return false
		}
	}
	for k, v := range x.alw {
		if w, ok := y.alw[k]; !ok || v.Cmp(w) != 0 {
			return false
		}
	}
	return true
}

// c06judge applies the statement's semantics of a SUCCESSFUL call to a copy of
// the token's model.  verdict "" = the call is legitimate and eff is its
// effect; otherwise the reason why a success with any effect violates the
// statement.
func c06judge(t c06tok, e *c06ev) (verdict string, eff c06tok) {
	eff = t.clone()
	auth := func(n string) bool {
		if n == e.Ctx && n != "" {
			return true
		}
		return (n == "A" && e.W&1 != 0) || (n == "B" && e.W&2 != 0)
	}
	unit := func(v *big.Int) *big.Int {
		if e.v2() {
			return v
		}
		return new(big.Int).Mul(v, c06scale)
	}
	move := func(from, to common.Address, v *big.Int) bool {
		if eff.b(from).Cmp(v) < 0 {
			return false
		}
		eff.setB(from, new(big.Int).Sub(eff.b(from), v))
		eff.setB(to, new(big.Int).Add(eff.b(to), v))
		return true
	}
	switch e.kind() {
	case "transfer":
		for _, s := range e.Sts {
			v := unit(s.V)
			if v.Sign() == 0 {
				continue
			}
			if !auth(s.From) {
				return "debit-without-owner-witness", eff
			}
			if !move(c06acct[s.From], c06acct[s.To], v) {
				return "debit-beyond-balance", eff
			}
		}
	case "approve":
		s := e.Sts[0]
		if !auth(s.From) {
			return "allowance-granted-without-owner-witness", eff
		}
		eff.setA(c06acct[s.From], c06acct[s.To], unit(s.V))
	case "transferFrom":
		s := e.Sts[0]
		v := unit(s.V)
		if v.Sign() == 0 {
			return "", eff
		}
		from, sp := c06acct[s.From], c06acct[e.Sender]
		if !auth(e.Sender) && !auth(s.From) {
			return "allowance-spent-without-spender-or-owner-witness", eff
		}
		if eff.a(from, sp).Cmp(v) < 0 {
			return "debit-beyond-allowance", eff
		}
		eff.setA(from, sp, new(big.Int).Sub(eff.a(from, sp), v))
		if !move(from, c06acct[s.To], v) {
			return "debit-beyond-balance", eff
		}
	}
	return "", eff
}

// ---------------------------------------------------------------- observation

type c06obs struct {
	key   string // canonical dump of ONT+ONG storage
	tok   [2]c06tok
	other string // the totalSupply entries
	bad   string // unparsable / negative entry
}

// c06dumpKey is an injective rendering of a sorted dump (length-prefixed raw bytes).
func c06dumpKey(kvs []vnative.KV) string {
	n := 0
	for _, kv := range kvs {
		n += len(kv.K) + len(kv.V) + 2
	}
	b := make([]byte, 0, n)
	for _, kv := range kvs {
		b = append(b, byte(len(kv.K)))
		b = append(b, kv.K...)
		b = append(b, byte(len(kv.V)))
		b = append(b, kv.V...)
	}
	return string(b)
}

func (o *c06obs) hex() string {
	var b strings.Builder
	k := []byte(o.key)
	for len(k) > 0 {
		n := int(k[0])
		fmt.Fprintf(&b, "%x=", k[1:1+n])
		k = k[1+n:]
		n = int(k[0])
		fmt.Fprintf(&b, "%x;", k[1:1+n])
		k = k[1+n:]
	}
	return b.String()
}

// c06observe reads the whole ONT+ONG storage; prev (may be nil) is reused when
// nothing changed.
func c06observe(e *vnative.Env, prev *c06obs) *c06obs {
	o := &c06obs{tok: [2]c06tok{c06newTok(), c06newTok()}}
	kvs := e.Dump(c06contract[0], c06contract[1])
	o.key = c06dumpKey(kvs)
	if prev != nil && prev.key == o.key {
		return prev
	}
	var other strings.Builder
	for _, kv := range kvs {
		if len(kv.K) > 250 || len(kv.V) > 250 {
			o.bad = fmt.Sprintf("oversized entry %x", kv.K)
		}
		tok := -1
		for i := range c06contract {
			if bytes.Equal(kv.K[1:21], c06contract[i][:]) {
				tok = i
			}
		}
		rest := kv.K[21:]
		if len(rest) != 20 && len(rest) != 40 {
			if string(rest) == "totalSupply" {
				fmt.Fprintf(&other, "%x=%x;", kv.K, kv.V)
			}
			continue
		}
		item := new(cstates.StorageItem)
		if err := item.Deserialization(common.NewZeroCopySource(kv.V)); err != nil {
			o.bad = fmt.Sprintf("entry %x=%x: %v", kv.K, kv.V, err)
			continue
		}
		nb, err := cstates.NativeTokenBalanceFromStorageItem(item)
		if err != nil {
			o.bad = fmt.Sprintf("entry %x=%x: %v", kv.K, kv.V, err)
			continue
		}
		v := nb.ToBigInt()
		if v.Sign() < 0 {
			o.bad = fmt.Sprintf("negative entry %x=%x", kv.K, kv.V)
			continue
		}
		if v.Sign() == 0 {
			continue
		}
		var a, b common.Address
		copy(a[:], rest[:20])
		if len(rest) == 20 {
			o.tok[tok].bal[a] = v
		} else {
			copy(b[:], rest[20:])
			o.tok[tok].alw[c06pair{a, b}] = v
		}
	}
	o.other = other.String()
	return o
}

// ---------------------------------------------------------------- system under exploration

type c06cfg struct {
	name   string
	netID  uint32
	levels []uint32 // block times
}

type c06sys struct {
	r       *vh.Run
	cfg     *c06cfg
	base    *vnative.Base
	supply  [2]*big.Int // Σ balances in the root state
	other0  string
	wide    bool
	dist    bool // unit "distinguished": funded distinguished addresses, see C06_distinguished_test.go
	probed  map[string]bool
	thor    bool
	nprobes int64
}

type c06state struct {
	sys  *c06sys
	env  *vnative.Env
	lvl  int
	ref  [2]c06tok
	obs  *c06obs
	root string
	hist []string
}

func (s *c06state) clone() *c06state {
	return &c06state{sys: s.sys, env: s.env.Clone(), lvl: s.lvl, ref: [2]c06tok{s.ref[0].clone(), s.ref[1].clone()}, obs: s.obs,
		root: s.root, hist: append(make([]string, 0, len(s.hist)+1), s.hist...)}
}

// report records a violation with a self-contained replayable case.
func (s *c06state) report(key, detail, probe string) {
	where := "[" + s.root + "] " + strings.Join(s.hist, " ; ")
	if probe != "" {
		where += " ; then " + probe
	}
	s.sys.r.Violation(key, where+": "+detail, map[string]interface{}{"config": s.sys.cfg.name, "root": s.root, "history": append([]string{}, s.hist...), "probe": probe})
}

func (y *c06sys) newRoot(lvl int) *c06state {
	e := y.base.NewEnv()
	e.Time = y.cfg.levels[lvl]
	s := &c06state{sys: y, env: e, lvl: lvl, root: fmt.Sprintf("%s@L%d", y.cfg.name, lvl), hist: []string{}}
	s.obs = c06observe(e, nil)
	s.ref = [2]c06tok{s.obs.tok[0].clone(), s.obs.tok[1].clone()}
	return s
}

func (s *c06state) key() string { return fmt.Sprintf("L%d|%s", s.lvl, s.obs.key) }

// call executes the event on the real contracts.
func (s *c06state) call(e *c06ev) vnative.CallResult {
	var ws []common.Address
	if e.W&1 != 0 {
		ws = append(ws, c06acct["A"])
	}
	if e.W&2 != 0 {
		ws = append(ws, c06acct["B"])
	}
	var res vnative.CallResult
	if e.Ctx != "" {
		c := c06acct[e.Ctx]
		res = s.env.CallFrom(&c, c06contract[e.Tok], e.Method, e.args(), ws...)
	} else {
		res = s.env.Call(c06contract[e.Tok], e.Method, e.args(), ws...)
	}
	return res
}

func c06ok(res vnative.CallResult) bool {
	return res.Err == nil && bytes.Equal(res.Ret, nutils.BYTE_TRUE)
}

// step performs one event on the state (mutating it) and judges it.  It
// returns a violation key and detail, and the outcome class.
func (s *c06state) step(e *c06ev) (vkey, detail, class string) {
	if e.Tick >= 0 {
		s.lvl = e.Tick
		s.env.Time = s.sys.cfg.levels[e.Tick]
		return "", "", "tick"
	}
	pre := s.obs
	var res vnative.CallResult
	if p := vh.Catch(func() { res = s.call(e) }); p != "" {
		res.Err = fmt.Errorf("PANIC(harness-level): %s", p)
	}
	post := c06observe(s.env, pre)
	s.obs = post
	name := c06tokName[e.Tok] + "." + e.Method
	verdict, eff := c06judge(s.ref[e.Tok], e)
	if !c06ok(res) {
		// a failed call leaves every balance and allowance (indeed the whole
		// storage of both tokens) untouched
		if post.key != pre.key {
			return "failed-call-changed-state:" + name, fmt.Sprintf("call failed (ret=%x err=%v) but storage changed:\n pre  %s\n post %s", res.Ret, res.Err, pre.hex(), post.hex()), ""
		}
		if res.Err != nil && strings.HasPrefix(res.Err.Error(), "PANIC") {
			// not this property's subject (C12), but worth a class
			return "", "", name + ":panic"
		}
		if verdict == "" {
			return "", "", name + ":legit/refused"
		}
		return "", "", name + ":" + verdict + "/refused"
	}
	if post.bad != "" {
		return "corrupt-or-negative-entry:" + name, post.bad, ""
	}
	if verdict != "" {
		if post.key == pre.key {
			return "", "", name + ":" + verdict + "/accepted-without-effect"
		}
		return verdict + ":" + name, fmt.Sprintf("call succeeded and changed state although the statement forbids it (%s): model before: %s | observed after: %s", verdict, s.ref[e.Tok], post.tok[e.Tok]), ""
	}
	// legitimate success: the called token must show exactly the model's effect
	if !c06tokEqual(post.tok[e.Tok], eff) {
		return "wrong-effect:" + name, fmt.Sprintf("expected %s | observed %s", eff, post.tok[e.Tok]), ""
	}
	s.ref[e.Tok] = eff
	other := 1 - e.Tok
	cls := name + ":ok"
	if e.Tok == c06ONG {
		// an ONG call never touches ONT
		if !c06tokEqual(post.tok[other], s.ref[other]) {
			return "ong-call-changed-ont:" + name, fmt.Sprintf("ONT before %s | after %s", s.ref[other], post.tok[other]), ""
		}
	} else {
		// ONT call: unbound ONG may move, "which is only a transfer between
		// holders": conservative, debited from the ONT contract's own ONG
		// only, credited to parties of this ONT transfer only; the only
		// allowances that may change are the ONT contract's grants to them.
		parties := map[common.Address]bool{}
		for _, st := range e.Sts {
			if st.V.Sign() != 0 {
				parties[c06acct[st.From]] = true
				parties[c06acct[st.To]] = true
			}
		}
		z := nutils.OntContractAddress
		oldT, newT := s.ref[other], post.tok[other]
		moved := false
		addrs := map[common.Address]bool{}
		for a := range oldT.bal {
			addrs[a] = true
		}
		for a := range newT.bal {
			addrs[a] = true
		}
		for a := range addrs {
			c := newT.b(a).Cmp(oldT.b(a))
			if c == 0 {
				continue
			}
			moved = true
			net := new(big.Int).Sub(newT.b(a), oldT.b(a))
			if c < 0 && a != z {
				return "ont-call-debited-ong-of-holder:" + name, fmt.Sprintf("ONG of %s changed by %s", c06name(a), net), ""
			}
			if c > 0 && !parties[a] {
				return "ont-call-credited-ong-to-stranger:" + name, fmt.Sprintf("ONG of %s changed by %s", c06name(a), net), ""
			}
		}
		if newT.sum().Cmp(oldT.sum()) != 0 {
			return "ont-call-changed-ong-supply:" + name, fmt.Sprintf("Σ ONG %s -> %s", oldT.sum(), newT.sum()), ""
		}
		pairs := map[c06pair]bool{}
		for p := range oldT.alw {
			pairs[p] = true
		}
		for p := range newT.alw {
			pairs[p] = true
		}
		granted := false
		for p := range pairs {
			if newT.a(p[0], p[1]).Cmp(oldT.a(p[0], p[1])) == 0 {
				continue
			}
			granted = true
			if p[0] != z || !parties[p[1]] {
				return "ont-call-changed-foreign-ong-allowance:" + name, fmt.Sprintf("ONG allowance %s>%s: %s -> %s", c06name(p[0]), c06name(p[1]), oldT.a(p[0], p[1]), newT.a(p[0], p[1])), ""
			}
		}
		s.ref[other] = newT.clone()
		if moved {
			cls += "+ong-moved"
		} else if granted {
			cls += "+ong-granted"
		}
	}
	return "", "", cls
}

// invariant of every state
func (s *c06state) invariant() (string, string) {
	y := s.sys
	if s.obs.bad != "" {
		return "corrupt-or-negative-entry:state", s.obs.bad
	}
	if s.obs.other != y.other0 {
		return "total-supply-entry-changed", fmt.Sprintf("%s -> %s", y.other0, s.obs.other)
	}
	for t := 0; t < 2; t++ {
		if sum := s.obs.tok[t].sum(); sum.Cmp(y.supply[t]) != 0 {
			return "supply-not-conserved:" + c06tokName[t], fmt.Sprintf("Σ %s balances = %s, was %s", c06tokName[t], sum, y.supply[t])
		}
		if !c06tokEqual(s.obs.tok[t], s.ref[t]) {
			return "model-mismatch:" + c06tokName[t], fmt.Sprintf("model %s | observed %s", s.ref[t], s.obs.tok[t])
		}
	}
	return "", ""
}

// queries: balanceOf/balanceOfV2/allowance/allowanceV2 agree with the stored
// entries (they are the property's observation points).
func (s *c06state) queries(sc *c06state) (string, string) {
	q := func(tok int, method string, addrs ...common.Address) (*big.Int, error) {
		sink := common.NewZeroCopySink(nil)
		for _, a := range addrs {
			nutils.EncodeAddress(sink, a)
		}
		res := sc.env.Call(c06contract[tok], method, sink.Bytes())
		if res.Err != nil {
			return nil, res.Err
		}
		return common.BigIntFromNeoBytes(res.Ret), nil
	}
	names := []string{"A", "B", "C", "Z"}
	spenders := names[:3]
	if s.sys.dist {
		names = append(names, "0", "G", "V", "a")
		spenders = names
	}
	for t := 0; t < 2; t++ {
		for _, n := range names {
			a := c06acct[n]
			want := s.obs.tok[t].b(a)
			v2, err := q(t, "balanceOfV2", a)
			if err != nil || v2.Cmp(want) != 0 {
				return "query-differs:balanceOfV2", fmt.Sprintf("%s balanceOfV2(%s)=%v err=%v, stored %s", c06tokName[t], n, v2, err, want)
			}
			v1, err := q(t, "balanceOf", a)
			if err != nil || v1.Cmp(new(big.Int).Div(want, c06scale)) != 0 {
				return "query-differs:balanceOf", fmt.Sprintf("%s balanceOf(%s)=%v err=%v, stored %s", c06tokName[t], n, v1, err, want)
			}
		}
		for _, f := range names {
			for _, sp := range spenders {
				want := s.obs.tok[t].a(c06acct[f], c06acct[sp])
				if want.Sign() == 0 && !(f == "A" && sp == "B") {
					continue
				}
				v2, err := q(t, "allowanceV2", c06acct[f], c06acct[sp])
				if err != nil || v2.Cmp(want) != 0 {
					return "query-differs:allowanceV2", fmt.Sprintf("%s allowanceV2(%s,%s)=%v err=%v, stored %s", c06tokName[t], f, sp, v2, err, want)
				}
				v1, err := q(t, "allowance", c06acct[f], c06acct[sp])
				if err != nil || v1.Cmp(new(big.Int).Div(want, c06scale)) != 0 {
					return "query-differs:allowance", fmt.Sprintf("%s allowance(%s,%s)=%v err=%v, stored %s", c06tokName[t], f, sp, v1, err, want)
				}
			}
		}
	}
	return "", ""
}

// ---------------------------------------------------------------- alphabets

func c06uniq(vs ...*big.Int) []*big.Int {
	var out []*big.Int
	for _, v := range vs {
		if v == nil || v.Sign() < 0 {
			continue
		}
		dup := false
		for _, o := range out {
			if o.Cmp(v) == 0 {
				dup = true
			}
		}
		if !dup {
			out = append(out, v)
		}
	}
	return out
}

func c06add(v *big.Int, d int64) *big.Int { return new(big.Int).Add(v, big.NewInt(d)) }
func c06int(v *big.Int) *big.Int          { return new(big.Int).Div(v, c06scale) }

var c06frac = big.NewInt(1500000000) // 1.5 units
var c06half = big.NewInt(500000000)

func c06third(a, b string) string {
	for _, n := range []string{"C", "B", "A"} {
		if n != a && n != b {
			return n
		}
	}
	return "C"
}

// constructive events: authorised calls that (mostly) change the state, and
// time ticks.  The "core" alphabet is the subset marked core; the "wide" one
// is everything.
func (s *c06state) events() []string {
	if s.sys.dist {
		return s.distEvents()
	}
	var out []string
	wide := s.sys.wide
	add := func(core bool, e c06ev) {
		if !core && !wide {
			return
		}
		e.Tick = -1
		out = append(out, e.String())
	}
	wOf := func(n string) (int, string) {
		switch n {
		case "A":
			return 1, ""
		case "B":
			return 2, ""
		}
		return 0, n // C (and Z) can only authorise as calling contract
	}
	one := big.NewInt(1)
	for t := 0; t < 2; t++ {
		ref := s.ref[t]
		for _, f := range []string{"A", "B", "C"} {
			w, ctx := wOf(f)
			bal := ref.b(c06acct[f])
			bi := c06int(bal)
			for _, to := range []string{"A", "B", "C"} {
				if to == f && !(t == c06ONT && f == "A") {
					continue
				}
				if f == "C" && to != "A" {
					continue
				}
				if bi.Sign() > 0 {
					amts := c06uniq(one, bi)
					if to == f {
						amts = amts[:1]
					}
					for _, v := range amts {
						isOne, isAll := v.Cmp(one) == 0, v.Cmp(bi) == 0
						core := (f == "A" && to == "B") || (f == "A" && to == "C" && isOne) || (f == "B" && to == "A" && isAll) ||
							(f == "B" && to == "C" && isOne) || (f == "A" && to == "A")
						add(core, c06ev{Tok: t, Method: "transfer", Sts: []c06st{{f, to, v}}, W: w, Ctx: ctx})
					}
				}
				// decimal-9 amounts
				if f != "C" && to != f {
					if bal.Cmp(c06frac) >= 0 {
						add(f == "A" && to == "B", c06ev{Tok: t, Method: "transferV2", Sts: []c06st{{f, to, c06frac}}, W: w, Ctx: ctx})
					}
					if new(big.Int).Mod(bal, c06scale).Sign() != 0 {
						add(to != "C", c06ev{Tok: t, Method: "transferV2", Sts: []c06st{{f, to, bal}}, W: w, Ctx: ctx})
					}
				}
			}
		}
		// a chained two-state transfer
		if c06int(ref.b(c06acct["A"])).Sign() > 0 {
			add(true, c06ev{Tok: t, Method: "transfer", Sts: []c06st{{"A", "B", one}, {"B", "C", one}}, W: 3})
		}
		// approvals
		for _, p := range [][2]string{{"A", "B"}, {"B", "A"}, {"A", "C"}} {
			w, ctx := wOf(p[0])
			isAB := p[0] == "A" && p[1] == "B"
			cur := ref.a(c06acct[p[0]], c06acct[p[1]])
			if cur.Sign() == 0 {
				add(p[1] != "C", c06ev{Tok: t, Method: "approve", Sts: []c06st{{p[0], p[1], big.NewInt(2)}}, W: w, Ctx: ctx})
				add(isAB, c06ev{Tok: t, Method: "approve", Sts: []c06st{{p[0], p[1], c06supply(t, false)}}, W: w, Ctx: ctx})
				if p[0] == "A" {
					add(isAB, c06ev{Tok: t, Method: "approveV2", Sts: []c06st{{p[0], p[1], c06frac}}, W: w, Ctx: ctx})
				}
			} else {
				add(p[1] != "C", c06ev{Tok: t, Method: "approve", Sts: []c06st{{p[0], p[1], big.NewInt(0)}}, W: w, Ctx: ctx})
			}
		}
		// spending allowances (including the ONT contract's ONG grants)
		var pairs []c06pair
		for p := range ref.alw {
			pairs = append(pairs, p)
		}
		sort.Slice(pairs, func(i, j int) bool {
			return bytes.Compare(append(pairs[i][0][:], pairs[i][1][:]...), append(pairs[j][0][:], pairs[j][1][:]...)) < 0
		})
		for _, p := range pairs {
			from, sp := c06name(p[0]), c06name(p[1])
			w, ctx := wOf(sp)
			if _, ok := c06acct[from]; !ok {
				continue
			}
			if _, ok := c06acct[sp]; !ok {
				continue
			}
			a := ref.alw[p]
			lim := a
			if ref.b(p[0]).Cmp(lim) < 0 {
				lim = ref.b(p[0])
			}
			tos := []string{sp, c06third(sp, from)}
			for _, to := range tos {
				for _, v := range c06uniq(one, c06int(lim)) {
					if v.Sign() == 0 || c06int(lim).Cmp(v) < 0 {
						continue
					}
					add(to == sp, c06ev{Tok: t, Method: "transferFrom", Sender: sp, Sts: []c06st{{from, to, v}}, W: w, Ctx: ctx})
				}
				if lim.Cmp(c06half) >= 0 && to == sp {
					add(true, c06ev{Tok: t, Method: "transferFromV2", Sender: sp, Sts: []c06st{{from, to, c06half}}, W: w, Ctx: ctx})
				}
				if new(big.Int).Mod(lim, c06scale).Sign() != 0 && to == sp {
					add(false, c06ev{Tok: t, Method: "transferFromV2", Sender: sp, Sts: []c06st{{from, to, lim}}, W: w, Ctx: ctx})
				}
			}
		}
	}
	for k := s.lvl + 1; k < len(s.sys.cfg.levels); k++ {
		out = append(out, fmt.Sprintf("tick:%d", k))
	}
	return out
}

// probes: the full one-step alphabet judged in every state.
func (s *c06state) probes() []*c06ev {
	if s.sys.dist {
		return s.distProbes()
	}
	var out []*c06ev
	thor := s.sys.thor
	add := func(e c06ev) {
		e.Tick = -1
		c := e
		out = append(out, &c)
	}
	allW := []int{0, 1, 2, 3}
	accts := []string{"A", "B", "C"}
	huge1 := func(t int) []*big.Int {
		return []*big.Int{c06add(c06supply(t, false), 1), c06add(c06two64, -1), c06add(c06two64, 1)}
	}
	for t := 0; t < 2; t++ {
		ref := s.ref[t]
		// --- transfer, single state
		type pr struct{ f, to string }
		var pairs []pr
		for _, f := range accts {
			for _, to := range accts {
				pairs = append(pairs, pr{f, to})
			}
		}
		if t == c06ONG {
			pairs = append(pairs, pr{"Z", "A"})
		} else {
			pairs = append(pairs, pr{"A", "Z"})
		}
		for _, p := range pairs {
			bal := ref.b(c06acct[p.f])
			bi := c06int(bal)
			ctxs := []string{""}
			if p.f == "C" || (p.f == "A" && p.to == "B") || p.f == "Z" {
				ctxs = append(ctxs, "C")
			}
			if p.f == "Z" {
				ctxs = append(ctxs, "Z")
			}
			for _, ctx := range ctxs {
				ws := allW
				if ctx != "" {
					ws = []int{0}
				}
				for _, v := range c06uniq(big.NewInt(0), big.NewInt(1), bi, c06add(bi, 1)) {
					for _, w := range ws {
						add(c06ev{Tok: t, Method: "transfer", Sts: []c06st{{p.f, p.to, v}}, W: w, Ctx: ctx})
					}
				}
				for _, v := range huge1(t) {
					hw := []int{3}
					if thor {
						hw = ws
					}
					if ctx != "" {
						hw = []int{0}
					}
					for _, w := range hw {
						add(c06ev{Tok: t, Method: "transfer", Sts: []c06st{{p.f, p.to, v}}, W: w, Ctx: ctx})
					}
				}
				v2pair := thor || (p.f == "A" && p.to == "B") || (p.f == "B" && p.to == "A") || (p.f == "A" && p.to == "A") || (p.f == "C" && p.to == "A") || (p.f == "B" && p.to == "C")
				if v2pair {
					for _, v := range c06uniq(big.NewInt(1), c06frac, bal, c06add(bal, 1)) {
						for _, w := range ws {
							add(c06ev{Tok: t, Method: "transferV2", Sts: []c06st{{p.f, p.to, v}}, W: w, Ctx: ctx})
						}
					}
					for _, v := range []*big.Int{big.NewInt(0), c06add(c06supply(t, true), 1)} {
						w := 3
						if ctx != "" {
							w = 0
						}
						add(c06ev{Tok: t, Method: "transferV2", Sts: []c06st{{p.f, p.to, v}}, W: w, Ctx: ctx})
					}
				}
			}
		}
		// --- transfer, two states
		biA := c06int(ref.b(c06acct["A"]))
		one, zero := big.NewInt(1), big.NewInt(0)
		half64 := new(big.Int).Lsh(big.NewInt(1), 63)
		multis := []struct {
			sts []c06st
			ws  []int
		}{
			{[]c06st{{"A", "B", one}, {"B", "C", one}}, allW},              // chain: second debit needs B
			{[]c06st{{"A", "B", biA}, {"A", "C", one}}, []int{1, 3}},       // second overdraws
			{[]c06st{{"A", "B", one}, {"C", "A", one}}, []int{3}},          // second unauthorised
			{[]c06st{{"A", "B", half64}, {"A", "C", half64}}, []int{1}},    // amounts summing to 2^64
			{[]c06st{{"A", "B", zero}, {"C", "A", zero}}, []int{0}},        // all-zero: no debit at all
			{[]c06st{{"A", "A", biA}, {"A", "B", biA}}, []int{1}},          // self then everything
			{[]c06st{{"A", "B", c06add(biA, 1)}, {"B", "A", one}}, []int{3}}, // first overdraws
			{[]c06st{{"B", "A", one}, {"A", "B", one}}, []int{1, 2, 3}},
		}
		for _, m := range multis {
			for _, w := range m.ws {
				add(c06ev{Tok: t, Method: "transfer", Sts: m.sts, W: w})
				if thor || w == m.ws[len(m.ws)-1] {
					add(c06ev{Tok: t, Method: "transferV2", Sts: m.sts, W: w})
				}
			}
		}
		// --- transfer, batches of 2-3 states with a zero-valued state in EVERY position
		// (first / middle / last, alone or several) among non-zero states: a
		// zero-valued state moves nothing and needs no witness, the states around
		// it are judged as usual; whatever the call reports, a reported failure
		// (error or FALSE) must leave the storage untouched, also when it comes
		// after states that were already applied.
		for _, v2 := range []bool{false, true} {
			method, nz, ws := "transfer", one, []int{1, 3}
			if v2 {
				method, nz = "transferV2", c06frac
				if !thor {
					ws = []int{3}
				}
			}
			for _, sts := range c06zeroBatches(nz) {
				for _, w := range ws {
					add(c06ev{Tok: t, Method: method, Sts: sts, W: w})
				}
			}
		}
		// --- approve
		apairs := [][2]string{{"A", "B"}, {"B", "A"}, {"A", "A"}, {"C", "A"}, {"A", "C"}, {"B", "C"}}
		if thor {
			apairs = nil
			for _, f := range accts {
				for _, to := range accts {
					apairs = append(apairs, [2]string{f, to})
				}
			}
			apairs = append(apairs, [2]string{"Z", "A"})
		}
		for _, p := range apairs {
			bi := c06int(ref.b(c06acct[p[0]]))
			ctxs := []string{""}
			if p[0] == "C" || p[0] == "Z" {
				ctxs = append(ctxs, "C")
			}
			for _, ctx := range ctxs {
				ws := allW
				if ctx != "" {
					ws = []int{0}
				}
				for _, v := range c06uniq(zero, one, c06supply(t, false)) {
					for _, w := range ws {
						add(c06ev{Tok: t, Method: "approve", Sts: []c06st{{p[0], p[1], v}}, W: w, Ctx: ctx})
					}
				}
				for _, v := range c06uniq(c06add(bi, 1), c06add(c06supply(t, false), 1), c06add(c06two64, 1)) {
					hw := []int{ws[len(ws)-1]}
					if thor {
						hw = ws
					}
					for _, w := range hw {
						add(c06ev{Tok: t, Method: "approve", Sts: []c06st{{p[0], p[1], v}}, W: w, Ctx: ctx})
					}
				}
				for _, w := range ws {
					add(c06ev{Tok: t, Method: "approveV2", Sts: []c06st{{p[0], p[1], c06frac}}, W: w, Ctx: ctx})
				}
				add(c06ev{Tok: t, Method: "approveV2", Sts: []c06st{{p[0], p[1], c06add(c06supply(t, true), 1)}}, W: ws[len(ws)-1], Ctx: ctx})
			}
		}
		// --- transferFrom
		type tr struct{ sp, f, to string }
		var trs []tr
		for _, sp := range accts {
			for _, f := range accts {
				trs = append(trs, tr{sp, f, sp})
				trs = append(trs, tr{sp, f, c06third(sp, f)})
				if sp != f {
					trs = append(trs, tr{sp, f, f}) // a spender moving the owner's tokens back to the owner (from == to)
				}
			}
		}
		if t == c06ONG {
			trs = append(trs, tr{"A", "Z", "A"}, tr{"B", "Z", "B"}, tr{"A", "Z", "B"}, tr{"C", "Z", "C"}, tr{"B", "Z", "A"})
		}
		for _, x := range trs {
			a := ref.a(c06acct[x.f], c06acct[x.sp])
			ai := c06int(a)
			bi := c06int(ref.b(c06acct[x.f]))
			ctxs := []string{""}
			if x.sp == "C" || (x.sp == "B" && x.f == "A") {
				ctxs = append(ctxs, "C")
			}
			if x.f == "Z" {
				ctxs = append(ctxs, "Z") // pretend the ONT contract itself is the caller
			}
			for _, ctx := range ctxs {
				ws := allW
				if ctx != "" {
					ws = []int{0}
				}
				amts := c06uniq(zero, one, ai, c06add(ai, 1))
				if ai.Cmp(bi) > 0 {
					amts = c06uniq(append(amts, bi, c06add(bi, 1))...)
				}
				for _, v := range amts {
					for _, w := range ws {
						add(c06ev{Tok: t, Method: "transferFrom", Sender: x.sp, Sts: []c06st{{x.f, x.to, v}}, W: w, Ctx: ctx})
					}
				}
				add(c06ev{Tok: t, Method: "transferFrom", Sender: x.sp, Sts: []c06st{{x.f, x.to, c06add(c06two64, 1)}}, W: ws[len(ws)-1], Ctx: ctx})
				if thor || a.Sign() > 0 || (x.sp == "B" && x.f == "A" && x.to == "B") {
					for _, v := range c06uniq(one, c06half, a, c06add(a, 1)) {
						for _, w := range ws {
							add(c06ev{Tok: t, Method: "transferFromV2", Sender: x.sp, Sts: []c06st{{x.f, x.to, v}}, W: w, Ctx: ctx})
						}
					}
				}
			}
		}
	}
	return out
}

// c06zeroBatches: every batch of 2 and of 3 states whose states are drawn from
// {A>B, B>C} (a sender that owns nearly everything and one that may own
// nothing / may not have witnessed) and whose amounts are drawn from {0, nz},
// with at least one zero-valued and at least one non-zero state: 4*2 + 8*6 = 56.
func c06zeroBatches(nz *big.Int) [][]c06st {
	var out [][]c06st
	zero := big.NewInt(0)
	for n := 2; n <= 3; n++ {
		for seq := 0; seq < 1<<uint(n); seq++ {
			for mask := 1; mask < 1<<uint(n)-1; mask++ { // bit i set: state i is zero-valued
				var sts []c06st
				for i := 0; i < n; i++ {
					st := c06st{"A", "B", nz}
					if seq>>uint(i)&1 != 0 {
						st = c06st{"B", "C", nz}
					}
					if mask>>uint(i)&1 != 0 {
						st.V = zero
					}
					sts = append(sts, st)
				}
				out = append(out, sts)
			}
		}
	}
	return out
}

// c06zeroPositions: for a transfer batch that mixes zero-valued and non-zero
// states, the positions (first / middle / last) of its zero-valued states.
func c06zeroPositions(e *c06ev) []string {
	if e.Tick >= 0 || e.kind() != "transfer" || len(e.Sts) < 2 {
		return nil
	}
	var pos []string
	nonzero := false
	for i, st := range e.Sts {
		if st.V.Sign() != 0 {
			nonzero = true
			continue
		}
		p := "middle"
		if i == 0 {
			p = "first"
		} else if i == len(e.Sts)-1 {
			p = "last"
		}
		pos = append(pos, p)
	}
	if !nonzero {
		return nil
	}
	return pos
}

// c06batchClasses: the non-vacuity classes of the zero-position batches
// (position of the zero-valued state x method x applied / refused).
func c06batchClasses(e *c06ev, cls string) []string {
	pos := c06zeroPositions(e)
	if len(pos) == 0 || cls == "" {
		return nil
	}
	outcome := "other"
	if strings.Contains(cls, ":ok") {
		outcome = "applied"
	} else if strings.HasSuffix(cls, "/refused") {
		outcome = "refused"
	}
	var out []string
	for _, p := range pos {
		out = append(out, "batch/zero@"+p+"/"+c06tokName[e.Tok]+"."+e.Method+":"+outcome)
	}
	return out
}

// probeAll judges every probe event as one further step from s.
func (s *c06state) probeAll() {
	y := s.sys
	sc := s.clone()
	if k, d := s.queries(sc); k != "" {
		s.report(k, d, "")
	}
	dirty := false
	for i, e := range s.probes() {
		if i&31 == 31 && y.r.Expired() {
			return
		}
		if y.dist && !y.r.Mine(i) {
			continue // unit "distinguished": every shard visits every state and judges its slice of the probes
		}
		if dirty {
			sc = s.clone()
			dirty = false
		}
		pre := sc.obs.key
		k, d, cls := sc.step(e)
		y.nprobes++
		if k == "" {
			k, d = sc.invariant()
		}
		batch := c06batchClasses(e, cls)
		if y.dist {
			k, cls = c06distKey(k, e), c06distClass(cls, e)
		}
		if k != "" {
			s.report(k, d, e.String())
			dirty = true
			continue
		}
		y.r.Class(cls)
		for _, c := range batch {
			y.r.Class(c)
		}
		if sc.obs.key != pre {
			dirty = true
		}
	}
}

// ---------------------------------------------------------------- the check

func c06configs() []*c06cfg {
	gen := constants.GENESIS_BLOCK_TIMESTAMP
	dl := constants.CHANGE_UNBOUND_TIMESTAMP_POLARIS
	return []*c06cfg{
		// network id 2: every height gate is 0 as in solo, but the ONT-holder
		// unbound deadline is a real date and genesis puts all ONG under the
		// ONT contract (as on the public networks), so unbinding is live.
		{name: "polaris-rules", netID: config.NETWORK_ID_POLARIS_NET, levels: []uint32{gen, gen + 1, dl, dl + 1}},
		// solo: deadline 0 (every time is "after the deadline"), all ONG with the bookkeeper
		{name: "solo-rules", netID: config.NETWORK_ID_SOLO_NET, levels: []uint32{gen, gen + 1}},
	}
}

func (y *c06sys) xsConfig(rootLvl int, depth int) xs.Config {
	return xs.Config{
		Init: func() interface{} {
			if y.dist {
				return y.newFundedRoot(rootLvl)
			}
			return y.newRoot(rootLvl)
		},
		Events: func(si interface{}) []string {
			return si.(*c06state).events()
		},
		Apply: func(si interface{}, ev string) (string, string) {
			s := si.(*c06state)
			k, d, cls := s.step(c06parse(ev))
			s.hist = append(s.hist, ev)
			if y.dist {
				k = c06distKey(k, c06parse(ev))
			}
			if k == "" {
				y.r.Class(cls)
			} else {
				s.report(k, d, "")
			}
			return "", ""
		},
		Key: func(si interface{}) string { return si.(*c06state).key() },
		Check: func(si interface{}, hist []string) (string, string) {
			s := si.(*c06state)
			if k, d := s.invariant(); k != "" {
				s.report(k, d, "")
				return "", ""
			}
			// every shard runs the (cheap) BFS; the expensive probe step of a
			// state is done by the shard that owns the state's key
			key := s.key()
			if !y.probed[key] {
				y.probed[key] = true
				if y.dist || y.r.Mine(int(c06hash(key)%1000003)) {
					y.r.StateKey(key)
					s.probeAll()
				}
			}
			return "", ""
		},
		Clone:      func(si interface{}) interface{} { return si.(*c06state).clone() },
		MaxDepth: depth,
	}
}

func c06hash(s string) uint64 {
	h := uint64(14695981039346656037)
	for i := 0; i < len(s); i++ {
		h ^= uint64(s[i])
		h *= 1099511628211
	}
	return h
}

type c06replay struct {
	Config  string   `json:"config"`
	Root    string   `json:"root"`
	History []string `json:"history"`
	Probe   string   `json:"probe"`
}

func TestVerif_C06(t *testing.T) {
	r := vh.Start(t, "C06", "tokens")
	defer r.Finish()
	c06init()
	r.Rule("states = distinct (ONT+ONG storage dump, block-time level) reached by BFS over authorised state-changing calls (transfer/approve/transferFrom and V2 forms of both tokens, chained multi-state transfer, calling-contract witness, time ticks); in every distinct state every probe of the full one-step alphabet (6 methods x 2 tokens x account pairs incl. self and the ONT contract x amounts {0,1,1.5,bal,bal+1,allowance,allowance+1,supply+1,2^64-1,2^64+1} x witness sets {0,A,B,AB} x caller context; hand-picked two-state batches; all 56 batches of 2-3 states over {A>B,B>C} x {0, non-zero} with a zero-valued state in every position, transfer and transferV2 of both tokens, witness sets {A,AB}) is executed and judged; transitions = calls on the real NativeService; classes = method x statement verdict x outcome")
	var rc c06replay
	isReplay := r.ReplayCase(&rc) && (rc.Root != "" || rc.Config != "")
	type plan struct {
		lvl, depth int
		wide       bool
	}
	plans := map[string][]plan{}
	if r.Quick() {
		plans["polaris-rules"] = []plan{{1, 2, true}, {3, 2, false}, {0, 1, false}, {2, 1, false}}
		plans["solo-rules"] = []plan{{0, 1, false}, {1, 1, false}}
		r.Bound("accounts A,B,C (+ONT contract as ONG holder); polaris-rules: wide constructive alphabet depth 2 from block-time level genesis+1, core alphabet depth 2 from deadline+1, depth 1 from genesis and from the deadline (ticks to later levels are events); solo-rules: core depth 1 from both levels; + 1 probe step (sharp probe alphabet) in every state")
	} else {
		plans["polaris-rules"] = []plan{{0, 2, true}, {1, 2, true}, {2, 2, true}, {3, 2, true}, {0, 3, false}, {1, 3, false}, {2, 3, false}, {3, 3, false}, {1, 3, true}, {3, 3, true}} // cheapest first: a deadline cuts only the deepest
		plans["solo-rules"] = []plan{{0, 1, true}, {1, 1, true}, {0, 2, false}, {1, 2, false}}
		r.Bound("accounts A,B,C (+ONT contract as ONG holder); polaris-rules: wide constructive alphabet depth 3 from block-time levels genesis+1 and deadline+1, wide depth 2 and core depth 3 from genesis and from the deadline (ticks to later levels are events); solo-rules: wide depth 1, core depth 2; + 1 probe step (full-product probe alphabet) in every state")
	}
	r.Assume("the amount of ONG unbound by an ONT transfer is not modelled (statement: 'only a transfer between holders'): it is constrained to be conservative, debited from the ONT contract's own ONG, credited to parties of the transfer")
	r.Assume("transferFrom: the spender named in the allowance must witness the call (authorisation reading of 'spends an allowance it granted'), except inside the ONT contract's own unbinding")
	for _, cfg := range c06configs() {
		cfg := cfg
		if isReplay && rc.Config != "" && rc.Config != cfg.name {
			continue
		}
		base := vnative.OpenSolo(func() { config.DefConfig.P2PNode.NetworkId = cfg.netID })
		y := &c06sys{r: r, cfg: cfg, base: base, probed: map[string]bool{}, thor: r.Thorough()}
		root := y.newRoot(0)
		y.supply = [2]*big.Int{root.obs.tok[0].sum(), root.obs.tok[1].sum()}
		r.Need(y.supply[0].Cmp(c06supply(c06ONT, true)) == 0 && y.supply[1].Cmp(c06supply(c06ONG, true)) == 0, "genesis supplies %v", y.supply)
		r.Need(root.obs.tok[0].b(c06acct["A"]).Cmp(y.supply[0]) == 0, "A does not own all ONT")
		y.other0 = root.obs.other
		for _, pl := range plans[cfg.name] {
			lvl := pl.lvl
			if r.Expired() {
				break
			}
			y.wide = pl.wide
			xc := y.xsConfig(lvl, pl.depth)
			if isReplay {
				if rc.Root != fmt.Sprintf("%s@L%d", cfg.name, lvl) {
					continue
				}
				s := y.newRoot(lvl)
				for _, ev := range rc.History {
					k, d, _ := s.step(c06parse(ev))
					s.hist = append(s.hist, ev)
					if k == "" {
						k, d = s.invariant()
					}
					if k != "" {
						s.report(k, d, "")
					}
				}
				if rc.Probe != "" {
					sc := s.clone()
					k, d, _ := sc.step(c06parse(rc.Probe))
					if k == "" {
						k, d = sc.invariant()
					}
					if k != "" {
						s.report(k, d, rc.Probe)
					}
				} else {
					s.probeAll()
				}
				break
			}
			st := xs.Run(r, xc)
			// the BFS is replicated in every shard: states are counted through
			// StateKey by their owning shard, BFS transitions by shard 0 only
			r.State(-st.States)
			if r.R.Shard != 0 {
				r.Trans(-st.Transitions)
				r.Trace(-st.Transitions)
			}
			r.Set(fmt.Sprintf("bfs-states %s@L%d depth=%d wide=%v", cfg.name, lvl, pl.depth, pl.wide), fmt.Sprint(st.States, " per depth ", st.PerDepth))
		}
		r.Trans(y.nprobes)
		r.Trace(y.nprobes)
		r.Eval(y.nprobes)
		r.Add("probes", y.nprobes)
		base.Close()
	}
	if isReplay {
		return
	}
	r.Sample(map[string]interface{}{"config": "polaris-rules", "trace": []string{"ont.transfer A>B=1 w=A (at genesis+1: grants ONG allowances Z>A, Z>B)", "tick:3", "probe ont.transfer B>C=1 w=B (after the deadline: unbound ONG moves from the ONT contract to B)"}})
	for _, c := range []string{"ont.transfer:ok+ong-moved", "ont.transfer:ok+ong-granted", "ong.transferFrom:ok", "ont.transferFrom:debit-beyond-allowance/refused", "ont.transfer:debit-without-owner-witness/refused", "ong.transfer:debit-beyond-balance/refused", "ont.transferV2:ok", "ong.approve:allowance-granted-without-owner-witness/refused"} {
		r.NeedClass(c)
	}
	// the zero-position batches: every position of the zero-valued state was seen
	// both in an applied and in a refused batch (also need_classes in checks.d/C06.json)
	for t := 0; t < 2; t++ {
		for _, m := range []string{"transfer", "transferV2"} {
			for _, pos := range []string{"first", "middle", "last"} {
				for _, o := range []string{"applied", "refused"} {
					r.NeedClass("batch/zero@" + pos + "/" + c06tokName[t] + "." + m + ":" + o)
				}
			}
		}
	}
}

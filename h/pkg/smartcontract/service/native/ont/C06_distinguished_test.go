package ont_test

// C06, unit "distinguished" — the account alphabet of the statement ("any
// sequence of calls over a small set of accounts", "a debit from an account
// succeeds only if that account witnessed the call") extended by the
// DISTINGUISHED addresses, i.e. the addresses code can confuse with "unset",
// "already handled" or "myself":
//
//	0  the all-zero address (the zero value of common.Address; it holds burnt
//	   tokens on a live chain and can never witness anything)
//	Z  the ONT contract, G the ONG contract, V the governance contract (they
//	   hold tokens and authorise only as the calling contract)
//	a  an address equal to account A except in the last byte (never witnesses)
//
// A root state is the genesis state after a scripted, fully AUTHORISED and
// oracle-judged funding history: A transfers 3.5 units of ONT and of ONG TO each
// distinguished address, grants each of them an allowance, and the three
// contracts grant A an allowance (as calling contract).  From every such root
// the BFS runs over time ticks and a further ONT credit to all distinguished
// addresses (which, after a tick, makes the ONT contract unbind ONG to them),
// and in EVERY state the distinguished probe alphabet is executed one step
// further and judged by the unchanged C06 oracle (c06judge/step/invariant):
// every transfer / transferV2 (single state and batches that mix a
// distinguished sender with an ordinary one in every order) / approve /
// approveV2 / transferFrom / transferFromV2 whose owner or spender is a
// distinguished address, under every witness set {0,{A},{B},{A,B}} and under
// calling contracts {none, a user contract, another native contract, the
// address itself when it is a contract}.

import (
	"fmt"
	"math/big"
	"strings"
	"testing"

	"github.com/ontio/ontology/common"
	"github.com/ontio/ontology/common/config"
	nutils "github.com/ontio/ontology/smartcontract/service/native/utils"
	"github.com/ontio/ontology/verifshim/vh"
	"github.com/ontio/ontology/verifshim/vnative"
	"github.com/ontio/ontology/verifshim/xs"
)

var (
	c06distNames = []string{"0", "Z", "G", "V", "a"}
	c06distLong  = map[string]string{"0": "zero-address", "Z": "ont-contract", "G": "ong-contract", "V": "governance-contract", "a": "near-address"}
	c06distCtr   = map[string]bool{"Z": true, "G": true, "V": true}
)

const c06funded = "+funded"

func c06initDist() {
	c06init()
	if _, ok := c06acct["0"]; ok {
		return
	}
	near := c06acct["A"]
	near[len(near)-1] ^= 1
	c06acct["0"] = common.ADDRESS_EMPTY
	c06acct["G"] = nutils.OngContractAddress
	c06acct["V"] = nutils.GovernanceContractAddress
	c06acct["a"] = near
	for n, a := range c06acct {
		c06acctName[a] = n
	}
}

// c06distRole names the distinguished address an event is about: the first
// debited owner, else the spender, else the first receiver.
func c06distRole(e *c06ev) string {
	if e.Tick >= 0 {
		return ""
	}
	for _, s := range e.Sts {
		if n, ok := c06distLong[s.From]; ok {
			return "from=" + n
		}
	}
	if n, ok := c06distLong[e.Sender]; ok {
		return "spender=" + n
	}
	for _, s := range e.Sts {
		if n, ok := c06distLong[s.To]; ok {
			return "to=" + n
		}
	}
	return ""
}

func c06distKey(k string, e *c06ev) string {
	if k == "" {
		return ""
	}
	if r := c06distRole(e); r != "" {
		return k + ":" + r
	}
	return k
}

func c06distClass(cls string, e *c06ev) string {
	if cls == "" {
		return ""
	}
	return "dist/" + c06distRole(e) + "/" + cls
}

// ---------------------------------------------------------------- funded root

func c06multi(from string, v *big.Int) []c06st {
	var sts []c06st
	for _, d := range c06distNames {
		sts = append(sts, c06st{from, d, v})
	}
	return sts
}

// newFundedRoot: genesis at the block-time level, then the scripted funding
// history.  Every step goes through step() and invariant(), i.e. is judged by
// the oracle like any other call; a step that is refused makes the fixture
// unusable (infrastructure failure, not a verdict).
func (y *c06sys) newFundedRoot(lvl int) *c06state {
	s := y.newRoot(lvl)
	s.root += c06funded
	do := func(e c06ev) bool {
		e.Tick = -1
		label := e.String()
		k, d, cls := s.step(c06parse(label))
		if k == "" {
			k, d = s.invariant()
		}
		if k != "" {
			s.report(c06distKey(k, &e), "during the funding step "+label+": "+d, "")
			return true
		}
		return strings.Contains(cls, ":ok")
	}
	must := func(e c06ev) {
		e.Tick = -1
		y.r.Need(do(e), "funding step refused in %s: %s", s.root, e.String())
	}
	three, two, hundred := big.NewInt(3), big.NewInt(2), big.NewInt(100)
	// ONT: A owns the whole supply
	must(c06ev{Tok: c06ONT, Method: "transfer", Sts: c06multi("A", three), W: 1})
	must(c06ev{Tok: c06ONT, Method: "transferV2", Sts: c06multi("A", c06half), W: 1})
	// ONG: A owns it (solo), or was just granted unbound ONG by the ONT contract (to be claimed
	// before the deadline), or received it with the ONT transfer (after the deadline)
	ong := s.ref[c06ONG]
	if c06int(ong.b(c06acct["A"])).Cmp(hundred) < 0 && c06int(ong.a(c06acct["Z"], c06acct["A"])).Cmp(hundred) >= 0 {
		must(c06ev{Tok: c06ONG, Method: "transferFrom", Sender: "A", Sts: []c06st{{"Z", "A", hundred}}, W: 1})
	}
	must(c06ev{Tok: c06ONG, Method: "transfer", Sts: c06multi("A", three), W: 1})
	must(c06ev{Tok: c06ONG, Method: "transferV2", Sts: c06multi("A", c06half), W: 1})
	for t := 0; t < 2; t++ {
		for _, d := range c06distNames {
			must(c06ev{Tok: t, Method: "approve", Sts: []c06st{{"A", d, two}}, W: 1})
			if c06distCtr[d] {
				must(c06ev{Tok: t, Method: "approve", Sts: []c06st{{d, "A", two}}, Ctx: d})
			}
		}
	}
	for t := 0; t < 2; t++ {
		for _, d := range c06distNames {
			y.r.Need(s.ref[t].b(c06acct[d]).Cmp(big.NewInt(3500000000)) >= 0, "%s: %s of %s after funding: %s", s.root, c06tokName[t], d, s.ref[t].b(c06acct[d]))
		}
	}
	return s
}

// ---------------------------------------------------------------- alphabets

// distEvents: time ticks and one more authorised ONT credit of 1 to every
// distinguished address (after a tick the ONT contract unbinds ONG for them:
// an allowance before the deadline, a transferFrom on their behalf after it).
func (s *c06state) distEvents() []string {
	var out []string
	if c06int(s.ref[c06ONT].b(c06acct["A"])).Cmp(big.NewInt(5)) >= 0 {
		e := c06ev{Tick: -1, Tok: c06ONT, Method: "transfer", Sts: c06multi("A", big.NewInt(1)), W: 1}
		out = append(out, e.String())
	}
	for k := s.lvl + 1; k < len(s.sys.cfg.levels); k++ {
		out = append(out, fmt.Sprintf("tick:%d", k))
	}
	return out
}

func (s *c06state) distProbes() []*c06ev {
	var out []*c06ev
	add := func(e c06ev) {
		e.Tick = -1
		c := e
		out = append(out, &c)
	}
	zero, one := big.NewInt(0), big.NewInt(1)
	type cw struct {
		ctx string
		w   int
	}
	for t := 0; t < 2; t++ {
		ref := s.ref[t]
		for _, d := range c06distNames {
			da := c06acct[d]
			bal := ref.b(da)
			bi := c06int(bal)
			other := "V" // another native contract as the caller
			if d == "V" {
				other = "G"
			}
			cws := []cw{{"", 0}, {"", 1}, {"", 2}, {"", 3}, {"C", 0}, {other, 0}}
			if c06distCtr[d] {
				cws = append(cws, cw{d, 0})
			}
			// --- transfer / transferV2, single state: to an ordinary account and to itself
			for _, to := range []string{"A", d} {
				for _, x := range cws {
					for _, v := range c06uniq(zero, one, bi, c06add(bi, 1)) {
						add(c06ev{Tok: t, Method: "transfer", Sts: []c06st{{d, to, v}}, W: x.w, Ctx: x.ctx})
					}
					for _, v := range c06uniq(one, c06frac, bal, c06add(bal, 1)) {
						add(c06ev{Tok: t, Method: "transferV2", Sts: []c06st{{d, to, v}}, W: x.w, Ctx: x.ctx})
					}
				}
			}
			add(c06ev{Tok: t, Method: "transfer", Sts: []c06st{{d, "A", c06add(c06two64, 1)}}, W: 3})
			add(c06ev{Tok: t, Method: "transferV2", Sts: []c06st{{d, "A", c06add(c06supply(t, true), 1)}}, W: 3})
			// --- batches mixing the distinguished sender with an ordinary one
			multis := []struct {
				sts []c06st
				ws  []int
			}{
				{[]c06st{{d, "A", one}, {d, "B", one}}, []int{0, 1, 2, 3}},           // a run of one (unwitnessed) sender
				{[]c06st{{"A", "B", one}, {d, "A", one}}, []int{1, 3}},               // witnessed sender first
				{[]c06st{{d, "A", one}, {"A", "B", one}}, []int{1, 3}},               // witnessed sender second
				{[]c06st{{"A", d, one}, {d, "B", one}}, []int{1, 3}},                 // credited, then debited
				{[]c06st{{d, "A", zero}, {d, "B", one}}, []int{0, 3}},                // a skipped zero-valued state first
				{[]c06st{{d, "A", one}, {d, "B", zero}}, []int{0, 3}},                // a skipped zero-valued state last
				{[]c06st{{"A", d, one}, {d, "A", zero}, {"A", "B", one}}, []int{1}},  // a skipped zero-valued state in the middle
				{[]c06st{{"A", "B", one}, {"A", "C", one}, {d, "A", one}}, []int{1}}, // after a run of a witnessed sender
				{[]c06st{{d, "A", bi}, {d, "B", one}}, []int{0}},                     // everything, then one more
			}
			for _, m := range multis {
				for _, w := range m.ws {
					add(c06ev{Tok: t, Method: "transfer", Sts: m.sts, W: w})
					add(c06ev{Tok: t, Method: "transferV2", Sts: m.sts, W: w})
				}
				if c06distCtr[d] { // the contract as caller: its own debits are authorised
					add(c06ev{Tok: t, Method: "transfer", Sts: m.sts, W: m.ws[0], Ctx: d})
					add(c06ev{Tok: t, Method: "transferV2", Sts: m.sts, W: 0, Ctx: d})
				}
			}
			// --- approve / approveV2 with the distinguished address as owner
			for _, to := range []string{"A", d} {
				for _, x := range cws {
					for _, v := range c06uniq(zero, one, c06supply(t, false)) {
						add(c06ev{Tok: t, Method: "approve", Sts: []c06st{{d, to, v}}, W: x.w, Ctx: x.ctx})
					}
					add(c06ev{Tok: t, Method: "approveV2", Sts: []c06st{{d, to, c06frac}}, W: x.w, Ctx: x.ctx})
				}
			}
			add(c06ev{Tok: t, Method: "approve", Sts: []c06st{{d, "A", c06add(c06supply(t, false), 1)}}, W: 3})
			// --- transferFrom / transferFromV2 with the distinguished address as owner or spender
			type tr struct {
				sp, f, to string
				v2        bool
			}
			trs := []tr{{"A", d, "A", true}, {"B", d, "B", false}, {d, "A", d, true}, {d, "A", "B", false}, {d, d, "A", false}}
			if t == c06ONG && d != "Z" {
				trs = append(trs, tr{d, "Z", d, true}) // claiming ONG the ONT contract unbound for d
			}
			for _, x := range trs {
				a := ref.a(c06acct[x.f], c06acct[x.sp])
				ai := c06int(a)
				xcws := cws
				if x.f == "Z" && d != "Z" {
					xcws = append(append([]cw{}, cws...), cw{"Z", 0}) // the ONT contract as caller (its unbinding path)
				}
				for _, c := range xcws {
					for _, v := range c06uniq(zero, one, ai, c06add(ai, 1)) {
						add(c06ev{Tok: t, Method: "transferFrom", Sender: x.sp, Sts: []c06st{{x.f, x.to, v}}, W: c.w, Ctx: c.ctx})
					}
					if x.v2 {
						for _, v := range c06uniq(one, c06half, a, c06add(a, 1)) {
							add(c06ev{Tok: t, Method: "transferFromV2", Sender: x.sp, Sts: []c06st{{x.f, x.to, v}}, W: c.w, Ctx: c.ctx})
						}
					}
				}
			}
		}
	}
	return out
}

// ---------------------------------------------------------------- the unit

func TestVerif_C06_distinguished(t *testing.T) {
	r := vh.Start(t, "C06", "distinguished")
	defer r.Finish()
	c06initDist()
	r.Rule("account alphabet extended by the distinguished addresses {all-zero address, ONT / ONG / governance contract, an address differing from account A in the last byte}; root states = genesis + an authorised, oracle-judged funding history (A sends 3.5 units of ONT and of ONG to each of them, grants each an allowance of 2, the three contracts grant A an allowance of 2 as calling contract); states = distinct (ONT+ONG storage dump, block-time level) reached from a funded root by BFS over time ticks and a further ONT credit of 1 to every distinguished address; in every state every probe of the distinguished alphabet is executed and judged by the C06 oracle: 2 tokens x 5 distinguished addresses x {transfer, transferV2 to A and to itself with amounts 0,1,1.5,bal,bal+1, over-supply; 9 two/three-state batches mixing the distinguished sender with A in every order, with a zero-valued state first / in the middle / last; approve/approveV2 as owner; transferFrom/transferFromV2 as owner and as spender with amounts 0,1,allowance,allowance+1} x witness sets {0,A,B,AB} x calling contract {none, user contract, another native contract, itself if a contract, the ONT contract on its unbinding path}; classes = distinguished role x method x statement verdict x outcome")
	var rc c06replay
	isReplay := r.ReplayCase(&rc) && (rc.Root != "" || rc.Config != "")
	if isReplay && !strings.HasSuffix(rc.Root, c06funded) {
		return // a case of unit "tokens"
	}
	type plan struct{ lvl, depth int }
	plans := map[string][]plan{}
	if r.Quick() {
		plans["polaris-rules"] = []plan{{1, 2}, {3, 1}}
		plans["solo-rules"] = []plan{{0, 2}}
		r.Bound("funded roots: polaris-rules at block-time levels genesis+1 (BFS depth 2) and deadline+1 (depth 1), solo-rules at genesis (depth 2); events = ticks to later levels, ONT credit to all distinguished addresses; + 1 probe step (whole distinguished probe alphabet) in every state")
	} else {
		plans["polaris-rules"] = []plan{{1, 3}, {2, 2}, {3, 2}}
		plans["solo-rules"] = []plan{{0, 3}}
		r.Bound("funded roots: polaris-rules at block-time levels genesis+1 (BFS depth 3), deadline (depth 2) and deadline+1 (depth 2), solo-rules at genesis (depth 3); events = ticks to later levels, ONT credit to all distinguished addresses; + 1 probe step (whole distinguished probe alphabet) in every state")
	}
	r.Assume("the amount of ONG unbound by an ONT transfer is not modelled (statement: 'only a transfer between holders'): it is constrained to be conservative, debited from the ONT contract's own ONG, credited to parties of the transfer")
	r.Assume("a contract address authorises exactly when it is the calling contract; the zero address and the near-address never authorise")
	for _, cfg := range c06configs() {
		cfg := cfg
		if isReplay && rc.Config != "" && rc.Config != cfg.name {
			continue
		}
		base := vnative.OpenSolo(func() { config.DefConfig.P2PNode.NetworkId = cfg.netID })
		y := &c06sys{r: r, cfg: cfg, base: base, probed: map[string]bool{}, thor: r.Thorough(), dist: true}
		root := y.newRoot(0)
		y.supply = [2]*big.Int{root.obs.tok[0].sum(), root.obs.tok[1].sum()}
		r.Need(y.supply[0].Cmp(c06supply(c06ONT, true)) == 0 && y.supply[1].Cmp(c06supply(c06ONG, true)) == 0, "genesis supplies %v", y.supply)
		y.other0 = root.obs.other
		for _, pl := range plans[cfg.name] {
			if r.Expired() {
				break
			}
			if isReplay {
				if rc.Root != fmt.Sprintf("%s@L%d%s", cfg.name, pl.lvl, c06funded) {
					continue
				}
				s := y.newFundedRoot(pl.lvl)
				for _, ev := range rc.History {
					e := c06parse(ev)
					k, d, _ := s.step(e)
					s.hist = append(s.hist, ev)
					if k == "" {
						k, d = s.invariant()
					}
					if k != "" {
						s.report(c06distKey(k, e), d, "")
					}
				}
				if rc.Probe != "" {
					e := c06parse(rc.Probe)
					sc := s.clone()
					k, d, _ := sc.step(e)
					if k == "" {
						k, d = sc.invariant()
					}
					if k != "" {
						s.report(c06distKey(k, e), d, rc.Probe)
					}
				} else {
					r.R.NShards, r.R.Shard = 1, 0
					s.probeAll()
				}
				break
			}
			st := xs.Run(r, y.xsConfig(pl.lvl, pl.depth))
			// the BFS is replicated in every shard (each judges its slice of the probes of every
			// state): states are counted through StateKey, BFS transitions by shard 0 only
			r.State(-st.States)
			if r.R.Shard != 0 {
				r.Trans(-st.Transitions)
				r.Trace(-st.Transitions)
			}
			r.Set(fmt.Sprintf("bfs-states %s@L%d%s depth=%d", cfg.name, pl.lvl, c06funded, pl.depth), fmt.Sprint(st.States, " per depth ", st.PerDepth))
		}
		r.Trans(y.nprobes)
		r.Trace(y.nprobes)
		r.Eval(y.nprobes)
		r.Add("probes", y.nprobes)
		base.Close()
	}
	if isReplay {
		return
	}
	r.Sample(map[string]interface{}{"config": "polaris-rules", "root": "polaris-rules@L1" + c06funded, "trace": []string{"tick:3", "probe ong.transfer 0>A=1,0>B=1 w=AB (the zero address holds 3.5 ONG units but never witnesses: refused)"}})
	for _, c := range c06distNeed {
		r.NeedClass(c)
	}
}

// non-vacuity classes of the unit (also listed as need_classes in checks.d/C06.json)
var c06distNeed = []string{
	"dist/from=zero-address/ong.transfer:debit-without-owner-witness/refused",
	"dist/from=zero-address/ong.transferV2:debit-without-owner-witness/refused",
	"dist/from=zero-address/ont.transfer:debit-without-owner-witness/refused",
	"dist/from=zero-address/ong.approve:allowance-granted-without-owner-witness/refused",
	"dist/from=near-address/ong.transfer:debit-without-owner-witness/refused",
	"dist/from=ong-contract/ong.transfer:ok",
	"dist/from=ont-contract/ont.transferV2:ok",
	"dist/from=governance-contract/ong.transferFrom:ok",
	"dist/spender=zero-address/ong.transferFrom:allowance-spent-without-spender-or-owner-witness/refused",
}

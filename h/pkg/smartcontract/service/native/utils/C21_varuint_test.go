package utils

import (
	"bytes"
	"fmt"
	"math"
	"math/big"
	"testing"

	"github.com/ontio/ontology/common"
	"github.com/ontio/ontology/verifshim/vh"
)

// C21 (unit varuint) — native contract variable-length integers:
// EncodeVarUint writes  varbytes(minimal two's complement bytes of v);
// DecodeVarUint reads it back.  Demanded: decode(encode(v)) = v for every
// uint64; the encoder output is the unique shortest accepted form; an
// irregular (non-minimal) length prefix, a truncated input, a negative value
// and a value above 2^64-1 are refused — never wrapped.
//
// The payload is a NeoVM integer (contracts hand byte arrays of any padding to
// native calls), so a sign-extended payload denotes the same number and is
// accepted by design: it is counted as an outcome class, and must be strictly
// longer than the encoder's output.

func c21vPow(k uint) *big.Int { return new(big.Int).Lsh(big.NewInt(1), k) }

func c21vDec(b []byte) *big.Int {
	u := new(big.Int)
	for i := len(b) - 1; i >= 0; i-- {
		u.Lsh(u, 8)
		u.Or(u, big.NewInt(int64(b[i])))
	}
	if len(b) > 0 && b[len(b)-1]&0x80 != 0 {
		u.Sub(u, c21vPow(uint(8*len(b))))
	}
	return u
}

// c21vEnc: minimal two's complement of a non-negative value.
func c21vEnc(v uint64) []byte {
	var out []byte
	for x := v; x != 0; x >>= 8 {
		out = append(out, byte(x))
	}
	if len(out) > 0 && out[len(out)-1]&0x80 != 0 {
		out = append(out, 0)
	}
	return out
}

// c21vPrefix parses the var-bytes length prefix: n = payload length, used =
// prefix size; eof / irregular as the wire format defines them.
func c21vPrefix(b []byte) (n uint64, used int, eof, irregular bool) {
	if len(b) == 0 {
		return 0, 0, true, false
	}
	w := 0
	switch b[0] {
	case 0xfd:
		w = 2
	case 0xfe:
		w = 4
	case 0xff:
		w = 8
	default:
		return uint64(b[0]), 1, false, false
	}
	if len(b) < 1+w {
		return 0, 0, true, false
	}
	for i := w; i >= 1; i-- {
		n = n<<8 | uint64(b[i])
	}
	switch w {
	case 2:
		irregular = n < 0xfd
	case 4:
		irregular = n <= 0xffff
	case 8:
		irregular = n <= 0xffffffff
	}
	return n, 1 + w, false, irregular
}

type c21vCase struct {
	Kind  string `json:"kind"`
	Bytes string `json:"bytes,omitempty"`
	Val   uint64 `json:"val,omitempty"`
}

var c21vMaxU64 = new(big.Int).SetUint64(math.MaxUint64)

func c21vCheckBytes(r *vh.Run, b []byte, classes map[string]int64) {
	in := append([]byte{}, b...)
	var key, detail string
	p := vh.Catch(func() {
		src := common.NewZeroCopySource(b)
		got, err := DecodeVarUint(src)
		consumed := int(src.Pos())
		srcW := common.NewZeroCopySource(b)
		gotW, errW := DecodeVarUintWrapping(srcW)

		n, used, eof, irr := c21vPrefix(in)
		if !eof && n > uint64(len(in)-used) {
			eof = true
		}
		if eof || irr {
			why := "truncated"
			if !eof {
				why = "irregular-prefix"
			}
			if err == nil {
				key, detail = "accepted:"+why, fmt.Sprintf("DecodeVarUint(%x) = %d, input is %s", in, got, why)
				return
			}
			if errW == nil {
				key, detail = "wrapping:accepted:"+why, fmt.Sprintf("DecodeVarUintWrapping(%x) = %d, input is %s", in, gotW, why)
				return
			}
			classes["varuint:rejected:"+why]++
			return
		}
		payload := in[used : used+int(n)]
		v := c21vDec(payload)
		if v.Sign() < 0 || v.Cmp(c21vMaxU64) > 0 {
			why := "negative"
			if v.Sign() > 0 {
				why = "above-uint64"
			}
			if err == nil {
				key, detail = "accepted:"+why, fmt.Sprintf("DecodeVarUint(%x) = %d, payload denotes %v", in, got, v)
				return
			}
			if why == "negative" && errW == nil {
				key, detail = "wrapping:accepted:negative", fmt.Sprintf("DecodeVarUintWrapping(%x) = %d, payload denotes %v", in, gotW, v)
				return
			}
			classes["varuint:rejected:"+why]++
			return
		}
		if err != nil {
			key, detail = "rejected:valid", fmt.Sprintf("DecodeVarUint(%x): %v; payload denotes %v", in, err, v)
			return
		}
		if got != v.Uint64() {
			key, detail = "value", fmt.Sprintf("DecodeVarUint(%x) = %d, payload denotes %v", in, got, v)
			return
		}
		if errW != nil || gotW != got {
			key, detail = "wrapping:value", fmt.Sprintf("DecodeVarUintWrapping(%x) = %d,%v, want %d", in, gotW, errW, got)
			return
		}
		if consumed != used+int(n) {
			key, detail = "consumed", fmt.Sprintf("DecodeVarUint(%x) consumed %d bytes, the item has %d", in, consumed, used+int(n))
			return
		}
		sink := common.NewZeroCopySink(nil)
		EncodeVarUint(sink, got)
		e := sink.Bytes()
		item := in[:consumed]
		if len(e) > len(item) {
			key, detail = "encode-longer-than-accepted-form", fmt.Sprintf("%x decodes to %d whose encoding %x is longer", item, got, e)
			return
		}
		if len(e) == len(item) && !bytes.Equal(e, item) {
			key, detail = "two-shortest-encodings", fmt.Sprintf("%x and %x both denote %d at the minimal length", item, e, got)
			return
		}
		if len(e) == len(item) {
			classes["varuint:accepted:canonical"]++
		} else {
			classes["varuint:accepted:sign-extended-payload"]++
		}
	})
	if p != "" {
		key, detail = "panic:bytes", fmt.Sprintf("panic on %x: %s", in, p)
	}
	if key != "" {
		r.Violation("varuint:"+key, detail, c21vCase{Kind: "bytes", Bytes: fmt.Sprintf("%x", in)})
	}
}

func c21vCheckVal(r *vh.Run, v uint64, classes map[string]int64) {
	var key, detail string
	p := vh.Catch(func() {
		sink := common.NewZeroCopySink(nil)
		size := EncodeVarUint(sink, v)
		e := sink.Bytes()
		pay := c21vEnc(v)
		want := append([]byte{byte(len(pay))}, pay...)
		if !bytes.Equal(e, want) {
			key, detail = "encode:not-minimal", fmt.Sprintf("EncodeVarUint(%d) = %x, minimal form is %x", v, e, want)
			return
		}
		if size != uint64(len(e)) {
			key, detail = "encode:size", fmt.Sprintf("EncodeVarUint(%d) reports %d bytes, wrote %d", v, size, len(e))
			return
		}
		// followed by other data: must consume exactly its own bytes
		src := common.NewZeroCopySource(append(append([]byte{}, e...), 0x01, 0xff))
		got, err := DecodeVarUint(src)
		if err != nil || got != v || int(src.Pos()) != len(e) {
			key, detail = "roundtrip", fmt.Sprintf("DecodeVarUint(EncodeVarUint(%d)) = %d, %v (consumed %d of %d)", v, got, err, src.Pos(), len(e))
			return
		}
		classes[fmt.Sprintf("varuint:roundtrip:payload-len%d", len(pay))]++
	})
	if p != "" {
		key, detail = "panic:val", fmt.Sprintf("panic on %d: %s", v, p)
	}
	if key != "" {
		r.Violation("varuint:"+key, detail, c21vCase{Kind: "val", Val: v})
	}
}

func TestVerif_C21_varuint(t *testing.T) {
	r := vh.Start(t, "C21", "varuint")
	defer r.Finish()
	r.Rule("every uint64 of the stated set: EncodeVarUint equals prefix+minimal two's complement payload and DecodeVarUint returns it consuming exactly those bytes; every byte string of the stated set: DecodeVarUint agrees with a reference reader (truncated / irregular prefix / negative / above 2^64-1 refused, otherwise the denoted value), and EncodeVarUint of the result is never longer than the accepted item and identical when of equal length; distinct = outcome class (rejected:why, accepted canonical / sign-extended, payload length)")
	r.Bound("values: [0,70000], 2^k+{-1,0,1} for k<=64; strings: all <=3 bytes, 4-byte strings over a 16-symbol alphabet, every prefix form (1,3,5,9-byte) x payloads around the uint64 boundary (7..11 bytes) with every truncation")
	classes := map[string]int64{}
	flush := func() {
		for k, n := range classes {
			r.ClassN(k, n)
			delete(classes, k)
		}
	}
	defer flush()
	var c c21vCase
	if r.ReplayCase(&c) && c.Kind != "" {
		if c.Kind == "bytes" {
			var b []byte
			fmt.Sscanf(c.Bytes, "%x", &b)
			c21vCheckBytes(r, b, classes)
		} else {
			c21vCheckVal(r, c.Val, classes)
		}
		r.Eval(1)
		return
	}
	var n int64
	for v := uint64(0); v <= 70000; v++ {
		if !r.Mine(int(v & 0xff)) {
			continue
		}
		c21vCheckVal(r, v, classes)
		n++
	}
	if r.Mine(0) {
		for k := uint(0); k < 64; k++ {
			for _, d := range []uint64{math.MaxUint64, 0, 1} { // -1, 0, +1
				c21vCheckVal(r, (uint64(1)<<k)+d, classes)
				n++
			}
		}
		c21vCheckVal(r, math.MaxUint64, classes)
		c21vCheckVal(r, math.MaxUint64-1, classes)
		n += 2
	}
	// all strings <= 3 bytes
	if r.Mine(1) {
		c21vCheckBytes(r, []byte{}, classes)
		n++
	}
	for a := 0; a < 256; a++ {
		if !r.Mine(a) {
			continue
		}
		if r.Expired() {
			break
		}
		c21vCheckBytes(r, []byte{byte(a)}, classes)
		n++
		for b := 0; b < 256; b++ {
			c21vCheckBytes(r, []byte{byte(a), byte(b)}, classes)
			n++
			if a > 3 && a < 0xfd && r.Quick() {
				// the third byte is beyond the item or the item is truncated: one representative
				c21vCheckBytes(r, []byte{byte(a), byte(b), 0x80}, classes)
				n++
				continue
			}
			for c := 0; c < 256; c++ {
				c21vCheckBytes(r, []byte{byte(a), byte(b), byte(c)}, classes)
				n++
			}
		}
	}
	sharp := []byte{0x00, 0x01, 0x02, 0x03, 0x04, 0x7f, 0x80, 0x81, 0xfc, 0xfd, 0xfe, 0xff, 0x10, 0x40, 0xc0, 0x55}
	for i, a := range sharp {
		if !r.Mine(i) {
			continue
		}
		for _, b := range sharp {
			for _, c := range sharp {
				for _, d := range sharp {
					c21vCheckBytes(r, []byte{a, b, c, d}, classes)
					n++
					c21vCheckBytes(r, []byte{a, b, c, d, 0x00}, classes)
					n++
				}
			}
		}
	}
	// payloads around the uint64 boundary under every prefix form, every truncation
	if r.Mine(2) {
		var payloads [][]byte
		for _, ln := range []int{7, 8, 9, 10, 11} {
			for _, low := range []byte{0x00, 0x01, 0xff} {
				for _, fill := range []byte{0x00, 0xff} {
					for _, ntop := range []byte{0x00, 0x7f, 0x80, 0xff} {
						for _, top := range []byte{0x00, 0x01, 0x7f, 0x80, 0xff} {
							p := make([]byte, ln)
							for i := range p {
								p[i] = fill
							}
							p[0], p[ln-2], p[ln-1] = low, ntop, top
							payloads = append(payloads, p)
						}
					}
				}
			}
		}
		for _, p := range payloads {
			l := uint64(len(p))
			prefixes := [][]byte{{byte(l)}, {0xfd, byte(l), 0}, {0xfe, byte(l), 0, 0, 0}, {0xff, byte(l), 0, 0, 0, 0, 0, 0, 0}}
			for _, pre := range prefixes {
				full := append(append([]byte{}, pre...), p...)
				c21vCheckBytes(r, full, classes)
				c21vCheckBytes(r, append(append([]byte{}, full...), 0xaa), classes)
				n += 2
				if len(pre) == 1 {
					for cut := 1; cut < len(full); cut++ {
						c21vCheckBytes(r, full[:cut], classes)
						n++
					}
				}
			}
		}
		// regular long prefixes with too little data
		for _, b := range [][]byte{{0xfd, 0xfd, 0x00}, {0xfd, 0xff, 0xff, 1, 2}, {0xfe, 0, 0, 1, 0}, {0xff, 0, 0, 0, 0, 1, 0, 0, 0}, {0xff, 0xff, 0xff, 0xff, 0xff, 0xff, 0xff, 0xff, 0xff}} {
			c21vCheckBytes(r, b, classes)
			n++
		}
	}
	r.Eval(n)
	r.Sample(c21vCase{Kind: "bytes", Bytes: "020500"})
	r.Sample(c21vCase{Kind: "bytes", Bytes: "09ffffffffffffffff00"})
	r.Sample(c21vCase{Kind: "val", Val: 128})
	flush()
	r.NeedClass("varuint:accepted:canonical")
	r.NeedClass("varuint:accepted:sign-extended-payload")
	r.NeedClass("varuint:rejected:negative")
	r.NeedClass("varuint:rejected:above-uint64")
	r.NeedClass("varuint:rejected:irregular-prefix")
	r.NeedClass("varuint:rejected:truncated")
}

package utils

import (
	"fmt"
	"sort"
	"testing"

	"github.com/ontio/ontology/common/config"
	"github.com/ontio/ontology/common/constants"
	"github.com/ontio/ontology/verifshim/vh"
)

// C09: ONG issuance is interval-additive and totals exactly the ONG supply.
//
// Oracle (from the statement only):
//   additivity  Calc(a,c) == Calc(a,b) + Calc(b,c)   for a <= b <= c, both schedules
//   totals      holders(ONT_TOTAL_SUPPLY, whole schedule) + governance(whole schedule) == ONG_TOTAL_SUPPLY
// on every network configuration.  No rate table is assumed by the oracle; the
// breakpoints of the code are used only to choose where to look.

const c09max = ^uint32(0)

type c09net struct {
	Name string
	ID   uint32
	hd   uint32 // holder deadline (offset)
	gd   uint32 // governance deadline (offset)
	gap  uint64
}

func c09networks() []*c09net {
	ns := []*c09net{
		{Name: "mainnet", ID: config.NETWORK_ID_MAIN_NET},
		{Name: "polaris", ID: config.NETWORK_ID_POLARIS_NET},
		{Name: "solo3", ID: config.NETWORK_ID_SOLO_NET},
		{Name: "other0", ID: 0},
		{Name: "other4294967295", ID: c09max},
	}
	for _, n := range ns {
		n.use()
		n.hd = config.GetOntHolderUnboundDeadline()
		n.gd, n.gap = config.GetGovUnboundDeadline()
	}
	return ns
}

// the harness is single-threaded per process, so selecting the network
// configuration through the global is safe.
func (n *c09net) use() { config.DefConfig.P2PNode.NetworkId = n.ID }

const (
	c09holder = 0
	c09gov    = 1
)

var c09sched = []string{"holder", "gov"}

func c09calc(sched int, bal uint64, a, b uint32) uint64 {
	if sched == c09holder {
		return CalcUnbindOng(bal, a, b)
	}
	return CalcGovernanceUnbindOng(a, b)
}

// c09where names the position of an offset relative to the breakpoints of the
// schedule (used for violation keys and classes only).
func (n *c09net) where(t uint32) string {
	rel := func(name string, p uint32) string {
		for d := int64(-2); d <= 2; d++ {
			if int64(t) == int64(p)+d {
				if d == 0 {
					return name
				}
				return fmt.Sprintf("%s%+d", name, d)
			}
		}
		return ""
	}
	if s := rel("govDeadline", n.gd); s != "" {
		return s
	}
	if n.hd != 0 {
		if s := rel("holderDeadline", n.hd); s != "" {
			return s
		}
	}
	if t == 0 {
		return "zero"
	}
	if t >= c09max-1 {
		return "max"
	}
	y := uint32(TIME_INTERVAL)
	k := (uint64(t) + 2) / uint64(y)
	if s := rel("yearBoundary", uint32(k)*y); s != "" && k > 0 {
		if k > 18 {
			return "beyond18y:" + s
		}
		return s
	}
	if t > 18*y {
		return "interior>18y"
	}
	return "interior"
}

func (n *c09net) region(t uint32) string {
	switch {
	case t < n.hd:
		return "H" // holders' period
	case t <= n.gd:
		return "G" // governance period
	}
	return "E" // after the end
}

type c09case struct {
	Net   string `json:"net"`
	Sched string `json:"sched"`
	Bal   uint64 `json:"balance"`
	A     uint32 `json:"a"`
	B     uint32 `json:"b"`
	C     uint32 `json:"c"`
}

// c09triple evaluates one additivity identity on the real code.
func c09triple(r *vh.Run, n *c09net, sched int, bal uint64, a, b, c uint32) bool {
	var whole, left, right uint64
	p := vh.Catch(func() {
		whole = c09calc(sched, bal, a, c)
		left = c09calc(sched, bal, a, b)
		right = c09calc(sched, bal, b, c)
	})
	cs := c09case{n.Name, c09sched[sched], bal, a, b, c}
	if p != "" {
		r.Violationf(c09sched[sched]+":panic:split@"+n.where(b), cs, "%s %s(a=%d,b=%d,c=%d) panics: %s", n.Name, c09sched[sched], a, b, c, p)
		return false
	}
	if whole != left+right {
		r.Violationf(c09sched[sched]+":split@"+n.where(b), cs,
			"%s %s: Calc(%d,%d)=%d but Calc(%d,%d)+Calc(%d,%d)=%d+%d=%d (split %s; holderDeadline=%d govDeadline=%d gap=%d balance=%d)",
			n.Name, c09sched[sched], a, c, whole, a, b, b, c, left, right, left+right, n.where(b), n.hd, n.gd, n.gap, bal)
		return false
	}
	return true
}

// c09sweep checks, for every t in [lo,hi] (hi <= max-1), on both schedules:
//   Calc(t,t+1) == F(t+1)-F(t)          (split of [0,t+1) at t)
//   F(t) + Calc(t,max) == F(max)        (split of the whole schedule at t)
// with F(x)=Calc(0,x) computed by the real code.
type c09rates [2][8]int64

func c09sweep(r *vh.Run, n *c09net, lo, hi uint32, rates *c09rates) {
	n.use()
	var fmax, f0 [2]uint64
	unit := [2]uint64{1, constants.ONT_TOTAL_SUPPLY}
	for s := 0; s < 2; s++ {
		fmax[s] = c09calc(s, 1, 0, c09max)
		f0[s] = c09calc(s, 1, 0, lo)
	}
	var evals int64
	for t := lo; ; t++ {
		for s := 0; s < 2; s++ {
			var u, f1, tail uint64
			if s == c09holder {
				u = CalcUnbindOng(1, t, t+1)
				f1 = CalcUnbindOng(1, 0, t+1)
				tail = CalcUnbindOng(1, t, c09max)
			} else {
				u = CalcGovernanceUnbindOng(t, t+1)
				f1 = CalcGovernanceUnbindOng(0, t+1)
				tail = CalcGovernanceUnbindOng(t, c09max)
			}
			if u != f1-f0[s] || f1 < f0[s] {
				c09triple(r, n, s, 1, 0, t, t+1) // reports with the full detail
				if f1 < f0[s] {
					r.Violationf(c09sched[s]+":decreasing@"+n.where(t), c09case{n.Name, c09sched[s], 1, 0, t, t + 1},
						"%s %s: Calc(0,%d)=%d < Calc(0,%d)=%d", n.Name, c09sched[s], t+1, f1, t, f0[s])
				}
			}
			if f0[s]+tail != fmax[s] {
				c09triple(r, n, s, 1, 0, t, c09max)
			}
			q := u / unit[s]
			if u%unit[s] != 0 || q > 6 {
				q = 7
			}
			rates[s][q]++
			f0[s] = f1
		}
		evals += 4
		if t == hi {
			break
		}
	}
	r.Eval(evals)
}

// c09points: the breakpoint alphabet B of a network configuration.
func (n *c09net) points(maxYear int) []uint32 {
	set := map[uint32]bool{}
	add := func(v int64) {
		if v >= 0 && v <= int64(c09max) {
			set[uint32(v)] = true
		}
	}
	y := int64(TIME_INTERVAL)
	for k := int64(0); k <= int64(maxYear); k++ {
		add(k*y - 1)
		add(k * y)
		add(k*y + 1)
		if k < 18 {
			add(k*y + y/2)
		}
	}
	for d := int64(-2); d <= 2; d++ {
		add(int64(n.hd) + d)
		add(int64(n.gd) + d)
	}
	add((int64(n.hd) + int64(n.gd)) / 2)
	add(int64(n.hd) / 2)
	add(0)
	add(1)
	add(int64(c09max))
	add(int64(c09max) - 1)
	add((int64(n.gd) + int64(c09max)) / 2)
	out := make([]uint32, 0, len(set))
	for v := range set {
		out = append(out, v)
	}
	sort.Slice(out, func(i, j int) bool { return out[i] < out[j] })
	return out
}

type c09iv struct{ lo, hi uint32 }

// c09windows: merged windows of +-w around every breakpoint (quick tier).
func (n *c09net) windows(w int64) []c09iv {
	pts := n.points(136)
	var ivs []c09iv
	for _, p := range pts {
		lo, hi := int64(p)-w, int64(p)+w
		if lo < 0 {
			lo = 0
		}
		if hi > int64(c09max)-1 {
			hi = int64(c09max) - 1
		}
		if len(ivs) > 0 && int64(ivs[len(ivs)-1].hi)+1 >= lo {
			if uint32(hi) > ivs[len(ivs)-1].hi {
				ivs[len(ivs)-1].hi = uint32(hi)
			}
			continue
		}
		ivs = append(ivs, c09iv{uint32(lo), uint32(hi)})
	}
	return ivs
}

func c09totals(r *vh.Run, n *c09net) {
	n.use()
	y := uint32(TIME_INTERVAL)
	for _, end := range []uint32{18 * y, c09max} {
		r.Eval(1)
		var h, g uint64
		p := vh.Catch(func() {
			h = CalcUnbindOng(constants.ONT_TOTAL_SUPPLY, 0, end)
			g = CalcGovernanceUnbindOng(0, end)
		})
		cs := map[string]interface{}{"net": n.Name, "total_end": end}
		if p != "" {
			r.Violationf("total:"+n.Name, cs, "network %s: totals over [0,%d) panic: %s", n.Name, end, p)
			continue
		}
		if h+g != constants.ONG_TOTAL_SUPPLY {
			r.Violationf("total:"+n.Name, cs, "network %s: holders(ONT_TOTAL_SUPPLY,0,%d)=%d + governance(0,%d)=%d = %d, ONG_TOTAL_SUPPLY=%d (difference %d; holderDeadline=%d govDeadline=%d gap=%d)",
				n.Name, end, h, end, g, h+g, uint64(constants.ONG_TOTAL_SUPPLY), int64(h+g-constants.ONG_TOTAL_SUPPLY), n.hd, n.gd, n.gap)
			continue
		}
		r.Class("total:" + n.Name + ":equals-supply")
	}
	// the same with the interval cut at every b in B.  A cut total that fails
	// although both schedules are additive at that cut and the uncut total
	// holds is arithmetically impossible; it is evaluated as a cross-check of
	// the harness itself and reported separately.
	for _, b := range n.points(18) {
		r.Eval(1)
		var tot, hw, gw, h1, h2, g1, g2 uint64
		p := vh.Catch(func() {
			h1 = CalcUnbindOng(constants.ONT_TOTAL_SUPPLY, 0, b)
			h2 = CalcUnbindOng(constants.ONT_TOTAL_SUPPLY, b, c09max)
			g1 = CalcGovernanceUnbindOng(0, b)
			g2 = CalcGovernanceUnbindOng(b, c09max)
			hw = CalcUnbindOng(constants.ONT_TOTAL_SUPPLY, 0, c09max)
			gw = CalcGovernanceUnbindOng(0, c09max)
			tot = h1 + h2 + g1 + g2
		})
		if p != "" {
			continue // reported by the triples
		}
		if tot == constants.ONG_TOTAL_SUPPLY {
			r.Class("cut-total:equals-supply")
			continue
		}
		if h1+h2 != hw || g1+g2 != gw || hw+gw != constants.ONG_TOTAL_SUPPLY {
			r.Class("cut-total:differs(explained by a reported additivity/total violation)")
			continue
		}
		r.Violationf("total-cut:"+n.Name, map[string]interface{}{"net": n.Name, "cut": b}, "network %s: total cut at %d is %d", n.Name, b, tot)
	}
}

func TestVerif_C09(t *testing.T) {
	r := vh.Start(t, "C09", "unbind")
	defer r.Finish()
	saved := config.DefConfig.P2PNode.NetworkId
	defer func() { config.DefConfig.P2PNode.NetworkId = saved }()

	r.Rule("real CalcUnbindOng/CalcGovernanceUnbindOng under NetworkId in {mainnet, polaris, solo(3), 0, 2^32-1}: (i) sweep over offsets t: Calc(t,t+1)==F(t+1)-F(t) and F(t)+Calc(t,max)==F(max), F(x)=Calc(0,x) [thorough: all 2^32 t on mainnet/polaris/solo; quick: every t within +-2000 of each breakpoint k*Y (k<=136), both deadlines, 0, max, midpoints, and every 65536-th t]; (ii) all triples a<=b<=c over the breakpoint alphabet B x balances {1,7,ONT_TOTAL_SUPPLY}: Calc(a,c)==Calc(a,b)+Calc(b,c); (iii) totals over [0,18Y) and [0,2^32-1) == ONG_TOTAL_SUPPLY, also cut at every b in B. classes = (schedule, network, per-second rate) seen in the sweep, (schedule, regions of a/b/c: H before holder deadline, G governance period, E after end) of triples, totals")
	nets := c09networks()
	for _, n := range nets {
		r.Set("deadlines:"+n.Name, fmt.Sprintf("holder=%d gov=%d gap=%d", n.hd, n.gd, n.gap))
	}

	var rc c09case
	if r.ReplayCase(&rc) && rc.Net != "" {
		for _, n := range nets {
			if n.Name != rc.Net {
				continue
			}
			n.use()
			if rc.Sched == "" {
				c09totals(r, n)
				return
			}
			s := c09holder
			if rc.Sched == "gov" {
				s = c09gov
			}
			r.Eval(1)
			c09triple(r, n, s, rc.Bal, rc.A, rc.B, rc.C)
		}
		return
	}

	item := 0
	// ---- (i) sweep ----
	rates := map[string]*c09rates{}
	for _, n := range nets {
		rates[n.Name] = &c09rates{}
	}
	if r.Thorough() {
		r.Bound("all 2^32 offsets x {mainnet,polaris,solo3} x 2 schedules (2 identities each); triples over B with k<=136; 5 network ids")
		const chunk = 1 << 20
	sweep:
		for lo := uint64(0); lo < 1<<32; lo += chunk {
			for _, n := range nets[:3] {
				item++
				if !r.Mine(item) {
					continue
				}
				if r.Expired() {
					break sweep
				}
				hi := lo + chunk - 1
				if hi > uint64(c09max)-1 {
					hi = uint64(c09max) - 1
				}
				c09sweep(r, n, uint32(lo), uint32(hi), rates[n.Name])
			}
		}
		// the two other ids take the same (default) branch as solo: windows only
		for _, n := range nets[3:] {
			for _, iv := range n.windows(2000) {
				item++
				if r.Mine(item) {
					c09sweep(r, n, iv.lo, iv.hi, rates[n.Name])
				}
			}
		}
	} else {
		r.Bound("offsets within +-2000 of ~430 breakpoints and every 65536-th offset x 5 network ids x 2 schedules; triples over B with k<=18")
		for _, n := range nets {
			for _, iv := range n.windows(2000) {
				item++
				if r.Mine(item) {
					c09sweep(r, n, iv.lo, iv.hi, rates[n.Name])
				}
			}
			for t := uint64(0); t < uint64(c09max); t += 65536 * 16 {
				item++
				if !r.Mine(item) {
					continue
				}
				for k := uint64(0); k < 16 && t+k*65536 < uint64(c09max); k++ {
					v := uint32(t + k*65536)
					c09sweep(r, n, v, v, rates[n.Name])
				}
			}
		}
	}
	for _, n := range nets {
		for s := 0; s < 2; s++ {
			for q, cnt := range rates[n.Name][s] {
				if cnt == 0 {
					continue
				}
				name := fmt.Sprintf("rate:%s:%s:%d/s", c09sched[s], n.Name, q)
				if q == 7 {
					name = fmt.Sprintf("rate:%s:%s:other", c09sched[s], n.Name)
				}
				r.ClassN(name, cnt)
			}
		}
	}

	// ---- (ii) triples over B ----
	bals := []uint64{1, 7, constants.ONT_TOTAL_SUPPLY}
	maxYear := r.Pick(18, 136)
	ntr := int64(0)
	for _, n := range nets {
		n.use()
		B := n.points(maxYear)
		r.Set("alphabet:"+n.Name, int64(len(B)))
		for ia := range B {
			item++
			if !r.Mine(item) {
				continue
			}
			if r.Expired() {
				break
			}
			tc := map[string]int64{}
			for ib := ia; ib < len(B); ib++ {
				for ic := ib; ic < len(B); ic++ {
					a, b, c := B[ia], B[ib], B[ic]
					reg := n.region(a) + n.region(b) + n.region(c)
					for _, bal := range bals {
						c09triple(r, n, c09holder, bal, a, b, c)
						ntr++
					}
					c09triple(r, n, c09gov, 0, a, b, c)
					ntr++
					tc[reg]++
				}
			}
			for k, v := range tc {
				r.ClassN("triple:regions="+k, v)
			}
		}
	}
	r.Eval(ntr)

	// ---- (iii) totals ----
	for _, n := range nets {
		item++
		if r.Mine(item) {
			c09totals(r, n)
		}
	}

	r.Sample(c09case{"mainnet", "gov", 0, 0, nets[0].gd, nets[0].gd + 1})
	r.Sample(c09case{"mainnet", "holder", 7, uint32(TIME_INTERVAL) - 1, nets[0].hd, c09max})
	r.Sample(c09case{"solo3", "gov", 0, 0, uint32(TIME_INTERVAL), 18 * uint32(TIME_INTERVAL)})
	if r.R.NShards == 1 {
		r.NeedClass("rate:holder:mainnet:5/s")
		r.NeedClass("rate:holder:mainnet:0/s")
		r.NeedClass("rate:gov:mainnet:3/s")
		r.NeedClass("rate:gov:solo3:5/s")
		r.NeedClass("triple:regions=HGE")
	}
}

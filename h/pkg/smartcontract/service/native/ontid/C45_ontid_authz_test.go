package ontid_test

// C45 — only an ONT ID's authorised keys or controllers can change it; a
// revoked identity can never be registered or modified again (DESIGN.md §4
// C45, §9 "C45 (ONT ID)").
//
// Explicit-state search (xs) over histories of the REAL ontid native contract
// on the Native/mem fixture.  Every event is one call of a method registered
// in ontid/init.go through the real NativeService with a chosen witness set.
// The authorised signer set of an identity is never parsed from storage: it is
// read back through the contract's own query methods (getDocumentJson,
// getKeyState, getControllerJson, getDDO).  Verdicts, per transition:
//
//   * a successful mutating call whose witness set contains no signer
//     authorised for that method family (own authentication keys / legacy
//     recovery address / controller identity or group / recovery group) is a
//     violation;
//   * a successful call on (or a registration of) an identity that was revoked
//     earlier in the history is a violation, as is any later change of its
//     storage;
//   * a successful call must change only the storage of the identity it names;
//   * once removeRecovery / removeController has SUCCEEDED (witnessed by an own
//     authentication key), the reference model - not the storage - says that the
//     identity has no recovery group / controller until a later successful
//     setRecovery / updateRecovery (regIDWithController): a *ByRecovery /
//     *ByController call that succeeds for the former recovery members / former
//     controller while the contract's queries still report the removed
//     configuration is a violation (unauth:<method>:removed-recovery /
//     :removed-controller).
//
// A failed call cannot change storage here by construction (fresh transaction
// cache, committed only on success — what HandleInvokeTransaction does), so
// "leaves the dump unchanged" reduces to "returns failure".

import (
	"bytes"
	"crypto/sha256"
	"encoding/hex"
	"encoding/json"
	"fmt"
	"sort"
	"strconv"
	"strings"
	"testing"

	"github.com/ontio/ontology-crypto/keypair"
	"github.com/ontio/ontology/account"
	"github.com/ontio/ontology/common"
	"github.com/ontio/ontology/core/types"
	"github.com/ontio/ontology/smartcontract/service/native/ontid"
	nutils "github.com/ontio/ontology/smartcontract/service/native/utils"
	"github.com/ontio/ontology/verifshim/vh"
	"github.com/ontio/ontology/verifshim/vnative"
	"github.com/ontio/ontology/verifshim/xs"
)

// ------------------------------------------------------------ principals

// principals (deterministic P-256 accounts): k1..k3 are keys meant for X,
// a1/a2 for A, b1 for B, r/r2 legacy recovery addresses, s a stranger.
var c45prin = []string{"k1", "k2", "k3", "a1", "a2", "b1", "r", "r2", "s"}

const (
	c45famSelf      = iota // own authentication key (by index or by public key)
	c45famSelfOrOld        // legacy addKey/removeKey: own key or the legacy recovery address
	c45famOldRec           // changeRecovery: the legacy recovery address
	c45famCtrl             // *ByController
	c45famRec              // *ByRecovery / updateRecovery
	c45famReg              // regID*
	c45famNobody           // addProof: nobody can
)

var c45famName = []string{"own-key", "own-key|legacy-recovery", "legacy-recovery", "controller", "recovery-group", "register", "nobody"}

type c45Ev struct {
	label  string
	method string
	target string // identity name
	fam    int
	args   []byte
	w      []string
	wset   map[common.Address]bool
	waddr  []common.Address
	revoke bool // success revokes the target
	quick  bool
	// effect of a success on the legacy (address) recovery, which no working
	// query method reports: it is tracked by the harness
	setOld   *common.Address
	clearOld bool
}

type c45raw []byte

func c45enc(parts ...interface{}) []byte {
	sink := common.NewZeroCopySink(nil)
	for _, p := range parts {
		switch v := p.(type) {
		case string:
			sink.WriteVarBytes([]byte(v))
		case []byte:
			sink.WriteVarBytes(v)
		case int:
			nutils.EncodeVarUint(sink, uint64(v))
		case common.Address:
			sink.WriteVarBytes(v[:])
		case c45raw:
			sink.WriteBytes(v)
		default:
			panic(fmt.Sprintf("c45enc: %T", p))
		}
	}
	return sink.Bytes()
}

// ------------------------------------------------------------ fixture

type c45fx struct {
	r        *vh.Run
	base     *vnative.Base
	contract common.Address
	acct     map[string]*account.Account
	pk       map[string][]byte
	addr     map[string]common.Address
	prinOf   map[common.Address]string
	id       map[string][]byte // identity name -> did
	idName   map[string]string // did -> identity name
	names    []string          // identity names in fixed order
	prefix   map[string][]byte // identity name -> raw storage prefix
	evs      []*c45Ev
	evByLbl  map[string]*c45Ev
	labels   []string
	roots    []*c45Root
	rootBy   map[string]*c45Root
	macros   []string
	baseSt   *c45St
	maxDepth int
}

type c45Root struct {
	name  string
	steps []*c45Ev
	st    *c45St
}

func c45newFx(r *vh.Run) *c45fx {
	f := &c45fx{r: r, contract: nutils.OntIDContractAddress,
		acct: map[string]*account.Account{}, pk: map[string][]byte{}, addr: map[string]common.Address{},
		prinOf: map[common.Address]string{}, id: map[string][]byte{}, idName: map[string]string{}, prefix: map[string][]byte{},
		evByLbl: map[string]*c45Ev{}, rootBy: map[string]*c45Root{}}
	for i, n := range c45prin {
		a := vnative.Acct(10 + i)
		f.acct[n] = a
		f.pk[n] = keypair.SerializePublicKey(a.PublicKey)
		f.addr[n] = a.Address
		f.prinOf[a.Address] = n
	}
	f.names = []string{"X", "A", "B"}
	for _, n := range f.names {
		id, err := account.CreateID([]byte("verif-c45-" + n))
		if err != nil || !account.VerifyID(id) {
			panic("c45: cannot create id")
		}
		f.id[n] = []byte(id)
		f.idName[id] = n
		f.prefix[n] = vnative.StorageKey(f.contract, append([]byte{byte(len(id))}, []byte(id)...))
	}
	f.base = vnative.OpenSolo(nil)
	return f
}

// ------------------------------------------------------------ state

type c45Grp struct {
	members   []interface{} // string (did) or *c45Grp
	threshold int
}

type c45Info struct {
	valid   bool
	revoked bool                    // the contract itself reports the identity as revoked
	auth    map[common.Address]bool // addresses of the keys listed under "authentication" and "in use"
	listed  map[common.Address]bool // addresses of all listed (non-revoked) public keys
	ctrl    interface{}             // nil | string (did) | *c45Grp
	rec     *c45Grp
	desc    string
}

type c45Box struct{ env *vnative.Env }

type c45St struct {
	f     *c45fx
	depth int
	snap  []vnative.KV // live ontid storage, sorted; immutable
	box   *c45Box      // env materialised from snap, shared with not-yet-applied clones
	info  map[string]*c45Info
	rev   map[string]string // identities revoked earlier in the history -> their dump right after revocation
	old   map[string]common.Address // tracked legacy recovery address per identity
	// reference model of removals: identity -> its recovery group / controller was
	// removed by a successful removeRecovery / removeController and has not been
	// configured again by a successful call since, yet the contract's queries
	// still report one.  (A removal that the queries confirm needs no entry: the
	// queries then describe the configuration.)  Immutable maps, copied on write.
	recGone  map[string]bool
	ctrlGone map[string]bool
	key      string
}

func (s *c45St) clone() *c45St {
	n := *s
	return &n
}

func (s *c45St) env() *vnative.Env {
	if s.box == nil {
		s.box = &c45Box{}
	}
	if s.box.env == nil {
		e := s.f.base.NewEnv()
		for _, kv := range s.snap {
			e.Overlay.Put(kv.K, kv.V)
		}
		s.box.env = e
	}
	return s.box.env
}

func (f *c45fx) dumpOf(snap []vnative.KV, name string) string {
	p := f.prefix[name]
	var b bytes.Buffer
	for _, kv := range snap {
		if bytes.HasPrefix(kv.K, p) {
			fmt.Fprintf(&b, "%x=%x;", kv.K[len(p):], kv.V)
		}
	}
	return b.String()
}

// dumpRest: everything in the contract's storage that belongs to none of the
// known identities.
func (f *c45fx) dumpRest(snap []vnative.KV) string {
	var b bytes.Buffer
outer:
	for _, kv := range snap {
		for _, n := range f.names {
			if bytes.HasPrefix(kv.K, f.prefix[n]) {
				continue outer
			}
		}
		fmt.Fprintf(&b, "%x=%x;", kv.K, kv.V)
	}
	return b.String()
}

func (s *c45St) computeKey() {
	h := sha256.New()
	h.Write([]byte(vnative.DumpKey(s.snap)))
	var rv []string
	for n := range s.rev {
		rv = append(rv, n)
	}
	sort.Strings(rv)
	h.Write([]byte("|revoked:" + strings.Join(rv, ",")))
	for _, n := range s.f.names {
		if a, ok := s.old[n]; ok {
			h.Write([]byte("|legacy-recovery:" + n))
			h.Write(a[:])
		}
		if s.recGone[n] {
			h.Write([]byte("|recovery-removed:" + n))
		}
		if s.ctrlGone[n] {
			h.Write([]byte("|controller-removed:" + n))
		}
	}
	s.key = string(h.Sum(nil))
}

// ------------------------------------------------------------ reading the authorised set back through the query methods

type c45PkJson struct {
	Id           string `json:"id"`
	PublicKeyHex string `json:"publicKeyHex"`
}

type c45DocJson struct {
	PublicKey      []c45PkJson       `json:"publicKey"`
	Authentication []json.RawMessage `json:"authentication"`
	Recovery       json.RawMessage   `json:"recovery"`
}

func c45parseGrp(raw json.RawMessage) (*c45Grp, error) {
	var g struct {
		Members   []json.RawMessage `json:"members"`
		Threshold int               `json:"threshold"`
	}
	if err := json.Unmarshal(raw, &g); err != nil {
		return nil, err
	}
	out := &c45Grp{threshold: g.Threshold}
	for _, m := range g.Members {
		var sid string
		if json.Unmarshal(m, &sid) == nil {
			out.members = append(out.members, sid)
			continue
		}
		sub, err := c45parseGrp(m)
		if err != nil {
			return nil, err
		}
		out.members = append(out.members, sub)
	}
	return out, nil
}

func (g *c45Grp) String() string {
	var p []string
	for _, m := range g.members {
		switch t := m.(type) {
		case string:
			p = append(p, t[len(t)-4:])
		case *c45Grp:
			p = append(p, t.String())
		}
	}
	return fmt.Sprintf("%d-of-(%s)", g.threshold, strings.Join(p, ","))
}

func c45keyIndex(id string) int {
	i := strings.LastIndex(id, "#keys-")
	if i < 0 {
		return 0
	}
	n, _ := strconv.Atoi(id[i+6:])
	return n
}

func c45addrOfHex(h string) (common.Address, error) {
	b, err := hex.DecodeString(h)
	if err != nil {
		return common.Address{}, err
	}
	pk, err := keypair.DeserializePublicKey(b)
	if err != nil {
		return common.Address{}, err
	}
	return types.AddressFromPubKey(pk), nil
}

func (f *c45fx) query(e *vnative.Env, method string, args []byte) vnative.CallResult {
	return e.Call(f.contract, method, args)
}

func (f *c45fx) computeInfo(e *vnative.Env, name string) *c45Info {
	id := f.id[name]
	inf := &c45Info{auth: map[common.Address]bool{}, listed: map[common.Address]bool{}}
	// getDDO (deprecated) reports a revoked identity by an error; on identities
	// stored in the current format it fails for another reason (it parses the
	// key list with the old layout), which is of no interest here
	ddo := f.query(e, "getDDO", c45enc(id))
	if ddo.Err != nil && strings.Contains(ddo.Err.Error(), "revoked") {
		inf.revoked = true
	}
	doc := f.query(e, "getDocumentJson", c45enc(id))
	if doc.Err != nil {
		panic(fmt.Sprintf("c45: getDocumentJson(%s): %v", name, doc.Err))
	}
	if len(doc.Ret) == 0 {
		inf.desc = "unregistered"
		if inf.revoked {
			inf.desc = "revoked"
		}
		return inf
	}
	inf.valid = true
	var d c45DocJson
	if err := json.Unmarshal(doc.Ret, &d); err != nil {
		panic(fmt.Sprintf("c45: document json of %s: %v: %s", name, err, doc.Ret))
	}
	hexOf := map[string]string{}
	for _, p := range d.PublicKey {
		hexOf[p.Id] = p.PublicKeyHex
		a, err := c45addrOfHex(p.PublicKeyHex)
		if err != nil {
			panic(fmt.Sprintf("c45: public key of %s: %v", p.Id, err))
		}
		inf.listed[a] = true
	}
	var authIdx []string
	for _, raw := range d.Authentication {
		var kid string
		var obj c45PkJson
		h := ""
		if json.Unmarshal(raw, &kid) == nil {
			h = hexOf[kid]
		} else if json.Unmarshal(raw, &obj) == nil {
			kid, h = obj.Id, obj.PublicKeyHex
		}
		idx := c45keyIndex(kid)
		if idx == 0 || h == "" {
			panic(fmt.Sprintf("c45: authentication entry of %s not resolvable: %s", name, raw))
		}
		ks := f.query(e, "getKeyState", c45enc(id, idx))
		if ks.Err != nil || string(ks.Ret) != "in use" {
			continue // not an authorised signer according to getKeyState
		}
		a, err := c45addrOfHex(h)
		if err != nil {
			panic(fmt.Sprintf("c45: authentication key %s: %v", kid, err))
		}
		inf.auth[a] = true
		authIdx = append(authIdx, fmt.Sprintf("%d:%s", idx, f.prinOf[a]))
	}
	// controller
	cj := f.query(e, "getControllerJson", c45enc(id))
	if cj.Err != nil {
		panic(fmt.Sprintf("c45: getControllerJson(%s): %v", name, cj.Err))
	}
	cdesc := "-"
	if len(cj.Ret) > 0 && string(cj.Ret) != "null" {
		var sid string
		if json.Unmarshal(cj.Ret, &sid) == nil {
			inf.ctrl = sid
			cdesc = f.idName[sid]
		} else {
			g, err := c45parseGrp(cj.Ret)
			if err != nil {
				panic(fmt.Sprintf("c45: controller json of %s: %v", name, err))
			}
			inf.ctrl = g
			cdesc = g.String()
		}
	}
	rdesc := "-"
	if len(d.Recovery) > 0 && string(d.Recovery) != "null" {
		g, err := c45parseGrp(d.Recovery)
		if err != nil {
			panic(fmt.Sprintf("c45: recovery json of %s: %v", name, err))
		}
		inf.rec = g
		rdesc = g.String()
	}
	inf.desc = fmt.Sprintf("valid auth=[%s] listed=%d ctrl=%s rec=%s", strings.Join(authIdx, ","), len(inf.listed), cdesc, rdesc)
	return inf
}

func (inf *c45Info) hasAuthIn(w map[common.Address]bool) bool {
	for a := range inf.auth {
		if w[a] {
			return true
		}
	}
	return false
}

func (s *c45St) satID(did string, w map[common.Address]bool) bool {
	n, ok := s.f.idName[did]
	if !ok {
		return false
	}
	return s.info[n].hasAuthIn(w)
}

func (s *c45St) satGrp(g *c45Grp, w map[common.Address]bool) bool {
	cnt := 0
	for _, m := range g.members {
		switch t := m.(type) {
		case string:
			if s.satID(t, w) {
				cnt++
			}
		case *c45Grp:
			if s.satGrp(t, w) {
				cnt++
			}
		}
	}
	return cnt >= g.threshold
}

// authorised: does the witness set contain a signer (set) entitled to use a
// method of family fam on identity target in this state?
func (s *c45St) authorised(ev *c45Ev) bool {
	inf := s.info[ev.target]
	w := ev.wset
	oldOK := false
	if a, ok := s.old[ev.target]; ok {
		oldOK = w[a]
	}
	switch ev.fam {
	case c45famSelf, c45famReg:
		return inf.hasAuthIn(w)
	case c45famSelfOrOld:
		return inf.hasAuthIn(w) || oldOK
	case c45famOldRec:
		return oldOK
	case c45famCtrl:
		if s.ctrlGone[ev.target] {
			return false // removed by the owner: whatever storage still says, nobody is the controller
		}
		switch c := inf.ctrl.(type) {
		case string:
			return s.satID(c, w)
		case *c45Grp:
			return s.satGrp(c, w)
		}
		return false
	case c45famRec:
		if s.recGone[ev.target] {
			return false // removed by the owner: the former members are strangers now
		}
		return inf.rec != nil && s.satGrp(inf.rec, w)
	}
	return false
}

// wclass names what the witness set is relative to the target (or, for the
// controller / recovery families, to the member identities) — for violation keys.
var c45ownerOf = map[string]string{"k1": "X", "k2": "X", "k3": "X", "a1": "A", "a2": "A", "b1": "B"}

func c45flatten(g *c45Grp, out []string) []string {
	for _, m := range g.members {
		switch t := m.(type) {
		case string:
			out = append(out, t)
		case *c45Grp:
			out = c45flatten(t, out)
		}
	}
	return out
}

func (s *c45St) wclass(ev *c45Ev) string {
	if ev.fam == c45famRec && s.recGone[ev.target] {
		return "removed-recovery"
	}
	if ev.fam == c45famCtrl && s.ctrlGone[ev.target] {
		return "removed-controller"
	}
	if len(ev.w) == 0 {
		return "no-witness"
	}
	inf := s.info[ev.target]
	var ids []string // identities whose keys count for this family
	switch ev.fam {
	case c45famCtrl:
		switch c := inf.ctrl.(type) {
		case string:
			ids = []string{s.f.idName[c]}
		case *c45Grp:
			for _, d := range c45flatten(c, nil) {
				ids = append(ids, s.f.idName[d])
			}
		}
	case c45famRec:
		if inf.rec != nil {
			for _, d := range c45flatten(inf.rec, nil) {
				ids = append(ids, s.f.idName[d])
			}
		}
	default:
		ids = []string{ev.target}
	}
	c, some := "foreign-signers", false
	for _, n := range ids {
		mi := s.info[n]
		if mi == nil {
			continue
		}
		for _, p := range ev.w {
			a := s.f.addr[p]
			switch {
			case mi.auth[a]:
				some = true
			case mi.listed[a]:
				return "key-without-authentication"
			case c45ownerOf[p] == n:
				c = "revoked-or-unlisted-key"
			}
		}
	}
	if some && c == "foreign-signers" {
		c = "below-group-threshold"
	}
	return c
}

// ------------------------------------------------------------ transitions

func (f *c45fx) apply(s *c45St, label string) (string, string) {
	if s.depth == 0 && strings.HasPrefix(label, "@") {
		i := strings.Index(label, "|")
		root := f.rootBy[label[1:i]]
		ev := f.evByLbl[label[i+1:]]
		if root == nil || ev == nil {
			panic("c45: unknown macro event " + label)
		}
		base := *s
		*s = *root.st.clone()
		s.depth = 0
		s.box = nil // never share the root's env
		k, d, ok := f.step(s, ev)
		if d != "" {
			d = "root " + root.name + " {" + root.describe() + "}: " + d
		}
		if !ok {
			*s = base // a refused first event leaves the (already expanded) root: fold into the base state
		}
		s.depth = 1
		return k, d
	}
	ev := f.evByLbl[label]
	if ev == nil {
		panic("c45: unknown event " + label)
	}
	k, d, _ := f.step(s, ev)
	s.depth++
	return k, d
}

func (s *c45St) hasOld(n string) bool { _, ok := s.old[n]; return ok }

func (rt *c45Root) describe() string {
	var l []string
	for _, e := range rt.steps {
		l = append(l, e.label)
	}
	return strings.Join(l, " ; ")
}

// step performs one call and evaluates the verdicts.  It returns the first
// violation and whether the call succeeded.
func (f *c45fx) step(s *c45St, ev *c45Ev) (vkey, detail string, ok bool) {
	r := f.r
	e := s.env()
	res := e.Call(f.contract, ev.method, ev.args, ev.waddr...)
	ok = res.Err == nil
	inf := s.info[ev.target]
	_, wasRevoked := s.rev[ev.target]
	wasRevoked = wasRevoked || inf.revoked
	auth := s.authorised(ev)
	fam := c45famName[ev.fam]
	if !ok {
		switch {
		case strings.HasPrefix(res.Err.Error(), "PANIC"):
			r.Class("refused:panic")
		case wasRevoked:
			r.Class("refused:identity-revoked")
		case !inf.valid && ev.fam != c45famReg:
			r.Class("refused:identity-not-registered")
		case ev.fam == c45famReg && !inf.valid:
			r.Class("refused:registration")
		case auth:
			r.Class("refused-though-authorised-signer-present:" + fam)
		default:
			r.Class("refused:no-authorised-signer:" + fam)
		}
		return "", "", false
	}
	// the call committed: the shared env now belongs to this state only
	s.box.env = nil
	s.box = &c45Box{}
	before := s.snap
	after := e.Dump(f.contract)
	state := fmt.Sprintf("%s before: %s; witnesses=%v", ev.target, inf.desc, ev.w)
	if a, ok := s.old[ev.target]; ok {
		state += "; legacy recovery=" + f.prinOf[a]
	}
	note := func(k, d string) {
		if vkey == "" {
			vkey, detail = k, d
		} else {
			r.Violation(k, d, map[string]interface{}{"note": "additional verdict of the same transition", "event": ev.label})
		}
	}
	switch {
	case wasRevoked && ev.fam == c45famReg:
		note("revoked:re-registered:"+ev.method, fmt.Sprintf("%s succeeded for an identity revoked earlier (%s)", ev.label, state))
	case wasRevoked:
		note("revoked:modified:"+ev.method, fmt.Sprintf("%s succeeded on an identity revoked earlier (%s)", ev.label, state))
	case ev.fam == c45famReg && !inf.valid:
		r.Class("ok:register")
	case ev.fam == c45famReg && !auth:
		note("unauth:"+ev.method+":over-existing-identity:"+s.wclass(ev), fmt.Sprintf("%s succeeded on an already registered identity without one of its authentication keys (%s)", ev.label, state))
	case !auth:
		note("unauth:"+ev.method+":"+s.wclass(ev), fmt.Sprintf("%s succeeded although the witness set holds no signer authorised for family %q (%s)", ev.label, fam, state))
	default:
		r.Class("ok:" + fam)
	}
	// only the named identity may change
	changed := map[string]bool{}
	for _, n := range f.names {
		if f.dumpOf(before, n) != f.dumpOf(after, n) {
			changed[n] = true
			if n != ev.target {
				note("cross-write:"+ev.method, fmt.Sprintf("%s on %s changed the storage of identity %s (%s)", ev.label, ev.target, n, state))
			}
		}
	}
	if f.dumpRest(before) != f.dumpRest(after) {
		note("cross-write:"+ev.method, fmt.Sprintf("%s changed contract storage outside the named identity (%s)", ev.label, state))
	}
	for n, d := range s.rev {
		if f.dumpOf(after, n) != d {
			note("revoked:storage-changed:"+ev.method, fmt.Sprintf("%s changed the storage of revoked identity %s", ev.label, n))
		}
	}
	// new state
	s.snap = after
	ninfo := map[string]*c45Info{}
	for _, n := range f.names {
		if changed[n] {
			ninfo[n] = f.computeInfo(e, n)
		} else {
			ninfo[n] = s.info[n]
		}
	}
	s.info = ninfo
	if ev.setOld != nil || ((ev.clearOld || ev.revoke) && s.hasOld(ev.target)) {
		nold := map[string]common.Address{}
		for n, a := range s.old {
			nold[n] = a
		}
		if ev.setOld != nil {
			nold[ev.target] = *ev.setOld
		} else {
			delete(nold, ev.target)
		}
		s.old = nold
	}
	// removals: the model follows the SUCCESSFUL call, not the storage
	{
		post := ninfo[ev.target]
		setFlag := func(m map[string]bool, v bool) map[string]bool {
			if m[ev.target] == v {
				return m
			}
			n := map[string]bool{}
			for k, x := range m {
				n[k] = x
			}
			if v {
				n[ev.target] = true
			} else {
				delete(n, ev.target)
			}
			return n
		}
		switch ev.method {
		case "removeRecovery":
			if inf.rec != nil {
				if post.rec == nil {
					r.Class("ok:removeRecovery:group-recovery-no-longer-reported")
				} else {
					r.Class("note:removeRecovery-succeeded-but-recovery-still-reported")
				}
			}
			s.recGone = setFlag(s.recGone, true)
		case "setRecovery", "updateRecovery":
			s.recGone = setFlag(s.recGone, false)
		case "removeController":
			if inf.ctrl != nil {
				if post.ctrl == nil {
					r.Class("ok:removeController:controller-no-longer-reported")
				} else {
					r.Class("note:removeController-succeeded-but-controller-still-reported")
				}
			}
			s.ctrlGone = setFlag(s.ctrlGone, true)
		case "regIDWithController":
			s.ctrlGone = setFlag(s.ctrlGone, false)
		}
		// a removal the queries confirm (or an identity that is gone) needs no model entry
		if s.recGone[ev.target] && (!post.valid || post.rec == nil) {
			s.recGone = setFlag(s.recGone, false)
		}
		if s.ctrlGone[ev.target] && (!post.valid || post.ctrl == nil) {
			s.ctrlGone = setFlag(s.ctrlGone, false)
		}
	}
	if ev.revoke {
		nrev := map[string]string{}
		for n, d := range s.rev {
			nrev[n] = d
		}
		nrev[ev.target] = f.dumpOf(after, ev.target)
		s.rev = nrev
		if !ninfo[ev.target].revoked {
			r.Class("note:revoked-identity-not-reported-revoked-by-getDDO")
		}
	}
	if changed[ev.target] {
		f.readOnlyProbe(s, e, ev.target, note)
	}
	s.computeKey()
	return vkey, detail, true
}

// readOnlyProbe calls every registered non-mutating method on the identity and
// demands that none of them writes.
func (f *c45fx) readOnlyProbe(s *c45St, e *vnative.Env, name string, note func(k, d string)) {
	id := f.id[name]
	sAB := ontid.SerializeSigners([]ontid.Signer{{Id: f.id["A"], Index: 1}, {Id: f.id["B"], Index: 1}})
	qs := []struct {
		m    string
		args []byte
		w    []common.Address
	}{
		{"getPublicKeys", c45enc(id), nil},
		{"getPublicKeysJson", c45enc(id), nil},
		{"getAttributes", c45enc(id), nil},
		{"getAttributesJson", c45enc(id), nil},
		{"getAttributeByKey", c45enc(id, "p"), nil},
		{"getServiceJson", c45enc(id, "sv"), nil},
		{"verifySignature", c45enc(id, 1), []common.Address{f.addr["k1"], f.addr["a1"]}},
		{"verifySignature", c45enc(id, 2), []common.Address{f.addr["k2"], f.addr["k3"]}},
		{"verifyController", c45enc(id, 1), []common.Address{f.addr["a1"]}},
		{"verifyController", c45enc(id, sAB), []common.Address{f.addr["a1"], f.addr["b1"]}},
	}
	for _, q := range qs {
		res := e.Call(f.contract, q.m, q.args, q.w...)
		if res.Err == nil {
			f.r.Class("query-ok:" + q.m)
		}
	}
	if vnative.DumpKey(e.Dump(f.contract)) != vnative.DumpKey(s.snap) {
		note("query-wrote", "a registered query/verification method changed the contract storage of "+name)
	}
}

// ------------------------------------------------------------ alphabet

func (f *c45fx) ev(quick bool, method, target string, fam int, desc string, args []byte, w []string) *c45Ev {
	e := &c45Ev{method: method, target: target, fam: fam, args: args, w: w, quick: quick, wset: map[common.Address]bool{}}
	for _, p := range w {
		a, ok := f.addr[p]
		if !ok {
			panic("c45: unknown principal " + p)
		}
		e.wset[a] = true
		e.waddr = append(e.waddr, a)
	}
	e.label = fmt.Sprintf("%s(%s%s)/W={%s}", method, target, desc, strings.Join(w, ","))
	e.revoke = method == "revokeID" || method == "revokeIDByController"
	e.clearOld = method == "setRecovery" || method == "updateRecovery" || method == "removeRecovery"
	return e
}

func (f *c45fx) group(threshold int, members ...string) []byte {
	parts := []interface{}{len(members)}
	for _, m := range members {
		parts = append(parts, f.id[m])
	}
	parts = append(parts, threshold)
	return c45enc(parts...)
}

type c45Tail struct {
	name string
	raw  c45raw
}

func (f *c45fx) signers(name string) []byte {
	var s []ontid.Signer
	switch name {
	case "sAB":
		s = []ontid.Signer{{Id: f.id["A"], Index: 1}, {Id: f.id["B"], Index: 1}}
	case "sA":
		s = []ontid.Signer{{Id: f.id["A"], Index: 1}}
	case "sA2":
		s = []ontid.Signer{{Id: f.id["A"], Index: 2}}
	case "sA2B":
		s = []ontid.Signer{{Id: f.id["A"], Index: 2}, {Id: f.id["B"], Index: 1}}
	case "sB":
		s = []ontid.Signer{{Id: f.id["B"], Index: 1}}
	case "s0":
		s = nil
	case "sX":
		s = []ontid.Signer{{Id: f.id["X"], Index: 1}}
	case "sAX":
		s = []ontid.Signer{{Id: f.id["A"], Index: 1}, {Id: f.id["X"], Index: 1}}
	case "sAA":
		s = []ontid.Signer{{Id: f.id["A"], Index: 1}, {Id: f.id["A"], Index: 1}}
	// entries of a non-member ahead of the members that are merely named
	case "sXA":
		s = []ontid.Signer{{Id: f.id["X"], Index: 1}, {Id: f.id["A"], Index: 1}}
	case "sXAB":
		s = []ontid.Signer{{Id: f.id["X"], Index: 1}, {Id: f.id["A"], Index: 1}, {Id: f.id["B"], Index: 1}}
	case "sXXAB":
		s = []ontid.Signer{{Id: f.id["X"], Index: 1}, {Id: f.id["X"], Index: 1}, {Id: f.id["A"], Index: 1}, {Id: f.id["B"], Index: 1}}
	default:
		panic("c45: signers " + name)
	}
	return ontid.SerializeSigners(s)
}

func (f *c45fx) tail(name string) c45Tail {
	if name[0] == 'i' {
		n, _ := strconv.Atoi(name[1:])
		return c45Tail{name, c45raw(c45enc(n))}
	}
	return c45Tail{name, c45raw(c45enc(f.signers(name)))}
}

type c45TW struct {
	tail string
	w    []string
	q    bool
}

func (f *c45fx) buildAlphabet(thorough bool) {
	var out []*c45Ev
	add := func(e *c45Ev) { out = append(out, e) }
	X := f.id["X"]
	A := f.id["A"]
	others := []string{"a1", "b1", "r", "s"}
	allX := []string{"k1", "k2", "k3", "r", "s"}
	attr := c45raw(c45enc(1, "p", "t", "v"))
	G2 := f.group(2, "A", "B")
	G1A := f.group(1, "A")

	// ---- registration (and re-registration of a revoked / existing identity)
	add(f.ev(true, "regIDWithPublicKey", "X", c45famReg, ",k1", c45enc(X, f.pk["k1"]), []string{"k1"}))
	add(f.ev(true, "regIDWithPublicKey", "X", c45famReg, ",k1", c45enc(X, f.pk["k1"]), others))
	add(f.ev(true, "regIDWithPublicKey", "X", c45famReg, ",k3", c45enc(X, f.pk["k3"]), []string{"k3"}))
	add(f.ev(true, "regIDWithPublicKey", "X", c45famReg, ",s", c45enc(X, f.pk["s"]), []string{"s"}))
	add(f.ev(true, "regIDWithAttributes", "X", c45famReg, ",k1,[p]", c45enc(X, f.pk["k1"], attr), []string{"k1"}))
	add(f.ev(true, "regIDWithAttributes", "X", c45famReg, ",s,[p]", c45enc(X, f.pk["s"], attr), []string{"s"}))
	add(f.ev(true, "regIDWithController", "X", c45famReg, ",ctrl=A,i1", c45enc(X, A, 1), []string{"a1"}))
	add(f.ev(true, "regIDWithController", "X", c45famReg, ",ctrl=A,i1", c45enc(X, A, 1), allX))
	add(f.ev(true, "regIDWithController", "X", c45famReg, ",ctrl=2of(A,B),sAB", c45enc(X, G2, f.signers("sAB")), []string{"a1", "b1"}))
	add(f.ev(true, "regIDWithController", "X", c45famReg, ",ctrl=2of(A,B),sAB", c45enc(X, G2, f.signers("sAB")), []string{"a1"}))
	// nested group: 2 of (A, 1 of (B))
	GN := c45enc(2, A, c45enc(1, f.id["B"], 1), 2)
	add(f.ev(false, "regIDWithController", "X", c45famReg, ",ctrl=2of(A,1of(B)),sAB", c45enc(X, GN, f.signers("sAB")), []string{"a1", "b1"}))

	// ---- own-key family, signer named by key index
	type byIdx struct {
		q      bool
		method string
		desc   string
		mk     func(idx int) []byte
	}
	svc := func(sid, typ, ep string) func(int) []byte {
		return func(i int) []byte { return c45enc(X, sid, typ, ep, i) }
	}
	idxMethods := []byIdx{
		{true, "revokeID", "", func(i int) []byte { return c45enc(X, i) }},
		{true, "removeController", "", func(i int) []byte { return c45enc(X, i) }},
		{true, "addKeyByIndex", ",k2", func(i int) []byte { return c45enc(X, f.pk["k2"], i) }},
		{false, "addKeyByIndex", ",k3", func(i int) []byte { return c45enc(X, f.pk["k3"], i) }},
		{true, "removeKeyByIndex", ",k1", func(i int) []byte { return c45enc(X, f.pk["k1"], i) }},
		{false, "removeKeyByIndex", ",k2", func(i int) []byte { return c45enc(X, f.pk["k2"], i) }},
		{true, "removeKeyByIndex", ",k3", func(i int) []byte { return c45enc(X, f.pk["k3"], i) }},
		{true, "addNewAuthKey", ",k3", func(i int) []byte { return c45enc(X, f.pk["k3"], X, i) }},
		{true, "setAuthKey", ",#2", func(i int) []byte { return c45enc(X, 2, i) }},
		{false, "setAuthKey", ",#3", func(i int) []byte { return c45enc(X, 3, i) }},
		{true, "removeAuthKey", ",#1", func(i int) []byte { return c45enc(X, 1, i) }},
		{false, "removeAuthKey", ",#2", func(i int) []byte { return c45enc(X, 2, i) }},
		{false, "removeAuthKey", ",#3", func(i int) []byte { return c45enc(X, 3, i) }},
		{true, "addAttributesByIndex", ",[p]", func(i int) []byte { return c45enc(X, attr, i) }},
		{true, "removeAttributeByIndex", ",p", func(i int) []byte { return c45enc(X, "p", i) }},
		{true, "setRecovery", ",2of(A,B)", func(i int) []byte { return c45enc(X, G2, i) }},
		{true, "removeRecovery", "", func(i int) []byte { return c45enc(X, i) }},
		{false, "addService", ",sv", svc("sv", "t", "e1")},
		{false, "updateService", ",sv", svc("sv", "t", "e2")},
		{false, "removeService", ",sv", func(i int) []byte { return c45enc(X, "sv", i) }},
		{false, "addContext", ",[c]", func(i int) []byte { return c45enc(X, 1, "c", i) }},
		{false, "removeContext", ",[c]", func(i int) []byte { return c45enc(X, 1, "c", i) }},
	}
	for _, m := range idxMethods {
		for idx := 1; idx <= 3; idx++ {
			for wi, w := range [][]string{{"k1"}, {"k2"}, {"k3"}, others} {
				// quick: the named key's own address, plus the non-own signers for index 1
				q := m.q && (wi == idx-1 || (idx == 1 && wi == 3))
				// the removals of controller / recovery: every index x witness pairing in the
				// quick tier too (in the roots with a controller the own keys sit at other
				// indices than in the self-registered ones)
				if m.method == "removeController" || m.method == "removeRecovery" {
					q = true
				}
				add(f.ev(q, m.method, "X", c45famSelf, fmt.Sprintf("%s,signer#%d", m.desc, idx), m.mk(idx), w))
			}
		}
	}
	add(f.ev(true, "revokeID", "X", c45famSelf, ",signer#1", c45enc(X, 1), nil))

	// ---- own-key family, signer named by public key (legacy interface)
	type byOp struct {
		q      bool
		method string
		fam    int
		desc   string
		mk     func(op []byte) []byte
	}
	opMethods := []byOp{
		{true, "addKey", c45famSelfOrOld, ",k2", func(op []byte) []byte { return c45enc(X, f.pk["k2"], op) }},
		{true, "removeKey", c45famSelfOrOld, ",k1", func(op []byte) []byte { return c45enc(X, f.pk["k1"], op) }},
		{false, "removeKey", c45famSelfOrOld, ",k2", func(op []byte) []byte { return c45enc(X, f.pk["k2"], op) }},
		{false, "removeKey", c45famSelfOrOld, ",k3", func(op []byte) []byte { return c45enc(X, f.pk["k3"], op) }},
		{true, "addAttributes", c45famSelf, ",[p]", func(op []byte) []byte { return c45enc(X, attr, op) }},
		{true, "removeAttribute", c45famSelf, ",p", func(op []byte) []byte { return c45enc(X, "p", op) }},
		{true, "addRecovery", c45famSelf, ",r", func(op []byte) []byte { return c45enc(X, f.addr["r"], op) }},
	}
	ra, ra2 := f.addr["r"], f.addr["r2"]
	addOp := func(e *c45Ev) {
		if e.method == "addRecovery" {
			e.setOld = &ra
		}
		add(e)
	}
	for _, m := range opMethods {
		for _, p := range []string{"k1", "k2", "k3", "s", "a1"} {
			addOp(f.ev(m.q && p != "a1", m.method, "X", m.fam, m.desc+",op="+p, m.mk(f.pk[p]), []string{p}))
		}
		addOp(f.ev(m.q, m.method, "X", m.fam, m.desc+",op=addr(r)", m.mk(ra[:]), []string{"r"}))
		// the other spelling of each operator: the recovery account named by public key, an own key named by address
		k1a := f.addr["k1"]
		addOp(f.ev(false, m.method, "X", m.fam, m.desc+",op=pk(r)", m.mk(f.pk["r"]), []string{"r"}))
		addOp(f.ev(false, m.method, "X", m.fam, m.desc+",op=addr(k1)", m.mk(k1a[:]), []string{"k1"}))
		addOp(f.ev(false, m.method, "X", m.fam, m.desc+",op=k1", m.mk(f.pk["k1"]), others))
	}
	// changeRecovery: operator must be the legacy recovery address
	for _, op := range []string{"r", "r2", "k1", "s"} {
		e := f.ev(op == "r" || op == "k1", "changeRecovery", "X", c45famOldRec, ",new=r2,op=addr("+op+")", c45enc(X, f.addr["r2"], f.addr[op]), []string{op})
		e.setOld = &ra2
		add(e)
	}
	{
		e := f.ev(false, "changeRecovery", "X", c45famOldRec, ",new=r2,op=addr(r)", c45enc(X, f.addr["r2"], f.addr["r"]), []string{"k1", "k2", "k3", "a1", "b1", "s"})
		e.setOld = &ra2
		add(e)
	}

	// ---- controller family
	ctw := []c45TW{
		{"i1", []string{"a1"}, true},
		{"i1", []string{"b1"}, false},
		{"i1", allX, true},
		{"sAB", []string{"a1", "b1"}, true},
		{"sAB", []string{"a1"}, true},
		{"sAB", []string{"b1"}, false},
		{"sA", []string{"a1"}, true},
		{"sB", []string{"b1"}, false},
		{"s0", nil, true},
		{"sX", []string{"k1"}, false},
		{"sAX", []string{"a1", "k1"}, false},
		{"sAA", []string{"a1"}, true},
		{"sAB", allX, false},
		{"sXA", []string{"k1"}, true},
		{"sXAB", []string{"k1"}, false},
		{"sXXAB", []string{"k1"}, true},
	}
	ctw = append(ctw, c45TW{"i2", []string{"a2"}, false}, c45TW{"i1", []string{"a2"}, false}, c45TW{"i2", []string{"a1"}, false},
		c45TW{"sA2B", []string{"a2", "b1"}, false}, c45TW{"sA2", []string{"a2"}, false})
	type byTail struct {
		q      bool
		method string
		desc   string
		mk     func(t c45raw) []byte
	}
	ctlMethods := []byTail{
		{true, "revokeIDByController", "", func(t c45raw) []byte { return c45enc(X, t) }},
		{true, "addKeyByController", ",k2", func(t c45raw) []byte { return c45enc(X, f.pk["k2"], t) }},
		{true, "removeKeyByController", ",#1", func(t c45raw) []byte { return c45enc(X, 1, t) }},
		{false, "removeKeyByController", ",#2", func(t c45raw) []byte { return c45enc(X, 2, t) }},
		{true, "addAttributesByController", ",[p]", func(t c45raw) []byte { return c45enc(X, attr, t) }},
		{true, "removeAttributeByController", ",p", func(t c45raw) []byte { return c45enc(X, "p", t) }},
		{true, "addNewAuthKeyByController", ",k3", func(t c45raw) []byte { return c45enc(X, f.pk["k3"], X, t) }},
		{true, "setAuthKeyByController", ",#1", func(t c45raw) []byte { return c45enc(X, 1, t) }},
		{false, "setAuthKeyByController", ",#2", func(t c45raw) []byte { return c45enc(X, 2, t) }},
		{true, "removeAuthKeyByController", ",#1", func(t c45raw) []byte { return c45enc(X, 1, t) }},
		{false, "removeAuthKeyByController", ",#2", func(t c45raw) []byte { return c45enc(X, 2, t) }},
	}
	for _, m := range ctlMethods {
		for _, tw := range ctw {
			add(f.ev(m.q && tw.q, m.method, "X", c45famCtrl, m.desc+","+tw.tail, m.mk(f.tail(tw.tail).raw), tw.w))
		}
	}

	// ---- recovery-group family
	rtw := []c45TW{
		{"sAB", []string{"a1", "b1"}, true},
		{"sAB", []string{"a1"}, true},
		{"sA", []string{"a1"}, true},
		{"sB", []string{"b1"}, false},
		{"s0", nil, true},
		{"sX", []string{"k1"}, true},
		{"sAX", []string{"a1", "k1"}, false},
		{"sAA", []string{"a1"}, false},
		{"sAB", allX, false},
		{"sXA", []string{"k1"}, true},
		{"sXAB", []string{"k1"}, false},
		{"sXXAB", []string{"k1"}, true},
	}
	rtw = append(rtw, c45TW{"sA2B", []string{"a2", "b1"}, false}, c45TW{"sA2", []string{"a2"}, false})
	type bySig struct {
		q      bool
		method string
		desc   string
		mk     func(sg []byte) []byte
	}
	recMethods := []bySig{
		{false, "updateRecovery", ",1of(A)", func(sg []byte) []byte { return c45enc(X, G1A, sg) }},
		{true, "addKeyByRecovery", ",k2", func(sg []byte) []byte { return c45enc(X, f.pk["k2"], sg) }},
		{true, "removeKeyByRecovery", ",#1", func(sg []byte) []byte { return c45enc(X, 1, sg) }},
		{false, "removeKeyByRecovery", ",#2", func(sg []byte) []byte { return c45enc(X, 2, sg) }},
		{true, "addNewAuthKeyByRecovery", ",k3", func(sg []byte) []byte { return c45enc(X, f.pk["k3"], X, sg) }},
		{false, "setAuthKeyByRecovery", ",#1", func(sg []byte) []byte { return c45enc(X, 1, sg) }},
		{true, "setAuthKeyByRecovery", ",#2", func(sg []byte) []byte { return c45enc(X, 2, sg) }},
		{true, "removeAuthKeyByRecovery", ",#1", func(sg []byte) []byte { return c45enc(X, 1, sg) }},
		{false, "removeAuthKeyByRecovery", ",#2", func(sg []byte) []byte { return c45enc(X, 2, sg) }},
	}
	for _, m := range recMethods {
		for _, tw := range rtw {
			add(f.ev(m.q && tw.q, m.method, "X", c45famRec, m.desc+","+tw.tail, m.mk(f.signers(tw.tail)), tw.w))
		}
	}

	// ---- nobody
	add(f.ev(false, "addProof", "X", c45famNobody, "", c45enc(X, "proof", 1), []string{"k1", "k2", "k3", "a1", "b1"}))

	// ---- the controller / group member A changes too (thorough): its authority over X must follow
	{
		allButA := []string{"k1", "k2", "k3", "b1", "r", "s"}
		add(f.ev(false, "addNewAuthKey", "A", c45famSelf, ",a2,signer#1", c45enc(A, f.pk["a2"], A, 1), []string{"a1"}))
		add(f.ev(false, "addNewAuthKey", "A", c45famSelf, ",a2,signer#1", c45enc(A, f.pk["a2"], A, 1), allButA))
		add(f.ev(false, "removeKeyByIndex", "A", c45famSelf, ",a1,signer#1", c45enc(A, f.pk["a1"], 1), []string{"a1"}))
		add(f.ev(false, "removeKeyByIndex", "A", c45famSelf, ",a1,signer#2", c45enc(A, f.pk["a1"], 2), []string{"a2"}))
		add(f.ev(false, "removeAuthKey", "A", c45famSelf, ",#1,signer#1", c45enc(A, 1, 1), []string{"a1"}))
		add(f.ev(false, "removeAuthKey", "A", c45famSelf, ",#1,signer#2", c45enc(A, 1, 2), []string{"a2"}))
		add(f.ev(false, "setAuthKey", "A", c45famSelf, ",#1,signer#1", c45enc(A, 1, 1), []string{"a1"}))
		add(f.ev(false, "setAuthKey", "A", c45famSelf, ",#1,signer#2", c45enc(A, 1, 2), []string{"a2"}))
		add(f.ev(false, "revokeID", "A", c45famSelf, ",signer#1", c45enc(A, 1), []string{"a1"}))
		add(f.ev(false, "revokeID", "A", c45famSelf, ",signer#1", c45enc(A, 1), allButA))
		add(f.ev(false, "regIDWithPublicKey", "A", c45famReg, ",a1", c45enc(A, f.pk["a1"]), []string{"a1"}))
	}

	for _, e := range out {
		if f.evByLbl[e.label] != nil {
			panic("c45: duplicate label " + e.label)
		}
		f.evByLbl[e.label] = e
		if thorough || e.quick {
			f.evs = append(f.evs, e)
			f.labels = append(f.labels, e.label)
		}
	}
}

func (f *c45fx) mustEv(label string) *c45Ev {
	e := f.evByLbl[label]
	if e == nil {
		panic("c45: root step not in the alphabet: " + label)
	}
	return e
}

// roots: configurations of X reached by a short prologue of authorised calls
// (the prologue runs through the same oracle).
func (f *c45fx) buildRoots(thorough bool) {
	reg1 := "regIDWithPublicKey(X,k1)/W={k1}"
	addK2 := "addKeyByIndex(X,k2,signer#1)/W={k1}"
	addK3 := "addNewAuthKey(X,k3,signer#1)/W={k1}"
	regA := "regIDWithController(X,ctrl=A,i1)/W={a1}"
	regG := "regIDWithController(X,ctrl=2of(A,B),sAB)/W={a1,b1}"
	rotA1 := "addNewAuthKey(A,a2,signer#1)/W={a1}"
	rotA2 := "removeKeyByIndex(A,a1,signer#2)/W={a2}"
	defs := []struct {
		name  string
		q     bool
		steps []string
	}{
		{"fresh", true, nil},
		{"self", true, []string{reg1}},
		{"self3", true, []string{reg1, addK2, addK3}},
		{"self3-k3revoked", true, []string{reg1, addK2, addK3, "removeKeyByIndex(X,k3,signer#1)/W={k1}"}},
		{"self3-k1noauth", true, []string{reg1, addK2, addK3, "removeAuthKey(X,#1,signer#3)/W={k3}"}},
		{"ctrlA", true, []string{regA}},
		{"ctrlG", true, []string{regG}},
		{"ctrlA+keys", true, []string{regA, "addNewAuthKeyByController(X,k3,i1)/W={a1}", "addKeyByController(X,k2,i1)/W={a1}"}},
		{"recG", true, []string{reg1, "setRecovery(X,2of(A,B),signer#1)/W={k1}", addK2}},
		{"recLegacy", true, []string{reg1, "addRecovery(X,r,op=k1)/W={k1}", addK2}},
		{"revoked", true, []string{reg1, "revokeID(X,signer#1)/W={k1}"}},
		{"revokedByCtrl", true, []string{regG, "revokeIDByController(X,sAB)/W={a1,b1}"}},
		{"regWithAttributes", true, []string{"regIDWithAttributes(X,k1,[p])/W={k1}"}},
		// the controlling identity A rotated its key: a1 revoked, a2 in use
		{"ctrlA-a1rotated", true, []string{regA, rotA1, rotA2}},
		// ... or withdrew the authentication right of a1
		{"ctrlA-a1noauth", true, []string{regA, rotA1, "removeAuthKey(A,#1,signer#2)/W={a2}"}},
		{"ctrlG-a1noauth", false, []string{regG, rotA1, "removeAuthKey(A,#1,signer#2)/W={a2}"}},
		{"ctrlG-a1rotated", false, []string{regG, rotA1, rotA2}},
		{"recG-a1rotated", false, []string{reg1, "setRecovery(X,2of(A,B),signer#1)/W={k1}", rotA1, rotA2}},
		{"ctrlA-Arevoked", false, []string{regA, "revokeID(A,signer#1)/W={a1}"}},
		{"ctrlNested", false, []string{"regIDWithController(X,ctrl=2of(A,1of(B)),sAB)/W={a1,b1}"}},
	}
	for _, d := range defs {
		if !thorough && !d.q {
			continue
		}
		rt := &c45Root{name: d.name}
		st := f.baseSt.clone()
		st.box = nil
		for _, l := range d.steps {
			ev := f.mustEv(l)
			k, det, ok := f.step(st, ev)
			f.r.Need(ok, "root %s: prologue step %s was refused", d.name, l)
			if k != "" {
				// a verdict inside a prologue is a verdict like any other
				f.r.Violation(k, "in the prologue of root "+d.name+": "+det, map[string]interface{}{"history": []string{}, "root": d.name})
			}
			rt.steps = append(rt.steps, ev)
		}
		st.computeKey()
		st.box = nil
		rt.st = st
		f.roots = append(f.roots, rt)
		f.rootBy[rt.name] = rt
		f.r.StateKey(st.key)
	}
	for _, rt := range f.roots {
		for _, l := range f.labels {
			f.macros = append(f.macros, "@"+rt.name+"|"+l)
		}
	}
}

// ------------------------------------------------------------ the check

func TestVerif_C45(t *testing.T) {
	r := vh.Start(t, "C45", "ontid")
	defer r.Finish()
	thorough := r.Thorough()
	f := c45newFx(r)
	defer f.base.Close()

	// base state: the helper identities A (key a1) and B (key b1) are registered
	env := f.base.NewEnv()
	gen := env.Dump(f.contract) // the contract's version flag only
	for _, n := range f.names {
		r.Need(f.dumpOf(gen, n) == "", "identity %s has storage at genesis", n)
	}
	for _, h := range [][2]string{{"A", "a1"}, {"B", "b1"}} {
		res := env.Call(f.contract, "regIDWithPublicKey", c45enc(f.id[h[0]], f.pk[h[1]]), f.addr[h[1]])
		r.Need(res.Err == nil, "registering helper identity %s: %v", h[0], res.Err)
	}
	base := &c45St{f: f, snap: env.Dump(f.contract), info: map[string]*c45Info{}, rev: map[string]string{}, old: map[string]common.Address{},
		recGone: map[string]bool{}, ctrlGone: map[string]bool{}}
	for _, n := range f.names {
		base.info[n] = f.computeInfo(env, n)
	}
	r.Need(base.info["A"].valid && base.info["A"].auth[f.addr["a1"]] && len(base.info["A"].auth) == 1, "helper A: authorised set not read back: %s", base.info["A"].desc)
	r.Need(!base.info["X"].valid && !base.info["X"].revoked, "X registered at start")
	base.computeKey()
	f.baseSt = base

	f.buildAlphabet(thorough)
	f.buildRoots(thorough)
	f.maxDepth = r.Pick(3, 4)

	r.Rule("state = storage of the ontid contract (+ set of identities revoked earlier, + identities whose recovery / controller was removed by a successful call while the queries still report it); event = one registered method x arguments x witness set; " +
		"classes: ok:<family> (succeeded with an authorised signer present), refused:no-authorised-signer:<family>, refused-though-authorised-signer-present:<family>, refused:identity-revoked, ...; " +
		"violation = success without an authorised signer (a recovery group / controller removed by a successful removeRecovery / removeController is no authorised signer, whatever the storage says) / on a revoked identity / writing another identity")
	r.Bound(fmt.Sprintf("%d roots x %d events (%d methods), BFS depth %d after the root prologue; identities X (target), A, B; keys k1..k3, a1,a2,b1; witness sets per family incl. empty, partial group, foreign, revoked and non-authentication keys",
		len(f.roots), len(f.labels), f.nMethods(), f.maxDepth))
	r.Assume("witnesses are injected as Transaction.SignedAddr (signature verification itself is C16/C17); a failed call cannot write because the transaction cache is only committed on success (as in HandleInvokeTransaction)")
	r.Assume("P-256 keys only; block time constant; groups have threshold >= 1")

	cfg := xs.Config{
		Init: func() interface{} { return f.baseSt.clone() },
		Events: func(si interface{}) []string {
			s := si.(*c45St)
			if s.depth == 0 {
				return f.macros
			}
			return f.labels
		},
		Apply: func(si interface{}, ev string) (string, string) { return f.apply(si.(*c45St), ev) },
		Key: func(si interface{}) string {
			s := si.(*c45St)
			if s.key == "" {
				s.computeKey()
			}
			r.StateKey(s.key)
			return s.key
		},
		Clone:      func(si interface{}) interface{} { s := si.(*c45St); s.env(); return s.clone() },
		MaxDepth:   f.maxDepth,
		ShardFirst: true,
	}

	var rc struct {
		History []string `json:"history"`
		Root    string   `json:"root"`
	}
	if r.ReplayCase(&rc) {
		// (violations inside a root prologue re-appear while the roots are built)
		if k, d := xs.Replay(cfg, rc.History); k != "" {
			r.Violation(k, fmt.Sprintf("after %s: %s", strings.Join(rc.History, " ; "), d), map[string]interface{}{"history": rc.History})
		}
		r.State(1)
		r.Trans(int64(len(rc.History)) + 1)
		r.Trace(int64(len(rc.History)) + 1)
		r.Sample(map[string]interface{}{"replayed": rc.History})
		return
	}

	st := xs.Run(r, cfg)
	r.State(-st.States) // distinct states are counted by canonical key (union over shards)
	r.Eval(st.Transitions)
	var rootDesc []string
	for _, rt := range f.roots {
		rootDesc = append(rootDesc, rt.name+": "+rt.st.info["X"].desc)
	}
	r.Set("roots", rootDesc)
	r.Set("events", len(f.labels))
	r.Sample(map[string]interface{}{"X": string(f.id["X"]), "A": string(f.id["A"]), "B": string(f.id["B"]), "first_events": f.labels[:4]})
	for _, c := range []string{"ok:own-key", "ok:controller", "ok:recovery-group", "ok:own-key|legacy-recovery", "ok:register",
		"refused:no-authorised-signer:own-key", "refused:no-authorised-signer:controller", "refused:no-authorised-signer:recovery-group",
		"refused:identity-revoked",
		"ok:removeRecovery:group-recovery-no-longer-reported", "ok:removeController:controller-no-longer-reported"} {
		r.NeedClass(c)
	}
}

func (f *c45fx) nMethods() int {
	m := map[string]bool{}
	for _, e := range f.evs {
		m[e.method] = true
	}
	return len(m)
}

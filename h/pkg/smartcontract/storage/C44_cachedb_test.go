package storage

// C44 (unit cachedb) — MigrateContractStorage / CleanContractStorage /
// destroyed-contract marker on the real CacheDB -> OverlayDB -> LevelDB stack.
//
// Every placement of 4 prefix-sharing storage keys {"", "k", "kk", "l"} of a
// contract over the three layers (persistent store: present or not; block
// overlay: untouched / put / deleted; transaction cache: untouched / put /
// deleted: 18 placements per key, 18^4 layouts) is built with the real
// objects; then the contract is migrated (to an address sorting directly below
// or directly above the old one) or destroyed, and the result is observed at
// cache level (CacheDB.Get / NewIterator / GetContract), after cache.Commit at
// overlay level, and after overlay.CommitTo + BatchCommit at store level.
// Oracle = the statement: every visible entry of the old contract is readable
// under the new contract with the same value, nothing is left under the old
// address, destroy leaves nothing, the old address is marked destroyed,
// storage of neighbouring addresses is untouched.

import (
	"bytes"
	"fmt"
	"sort"
	"strings"
	"testing"

	comm "github.com/ontio/ontology/common"
	"github.com/ontio/ontology/common/config"
	"github.com/ontio/ontology/core/payload"
	"github.com/ontio/ontology/core/store/common"
	"github.com/ontio/ontology/core/store/leveldbstore"
	"github.com/ontio/ontology/core/store/overlaydb"
	"github.com/ontio/ontology/verifshim/vh"
)

var c44keys = []string{"", "k", "kk", "l"}

const (
	c44none = 0
	c44put  = 1
	c44del  = 2
)

type c44place struct {
	s    bool // present in the persistent store
	o, c int  // block overlay / tx cache: none, put, del
}

func (p c44place) String() string {
	n := []string{"-", "P", "D"}
	s := "-"
	if p.s {
		s = "S"
	}
	return s + n[p.o] + n[p.c]
}

func c44allPlaces() []c44place {
	var out []c44place
	for _, s := range []bool{false, true} {
		for o := 0; o < 3; o++ {
			for c := 0; c < 3; c++ {
				out = append(out, c44place{s, o, c})
			}
		}
	}
	return out
}

// the quick subset: absent, each single layer, the stacked pairs and the
// tombstones over a lower value
func c44sharpPlaces() []c44place {
	return []c44place{
		{false, c44none, c44none}, {true, c44none, c44none}, {false, c44put, c44none}, {false, c44none, c44put},
		{true, c44none, c44del}, {true, c44del, c44none}, {false, c44put, c44del}, {true, c44put, c44put}, {true, c44del, c44put},
	}
}

// visible value of a key given its placement ("" = absent)
func (p c44place) visible(k string) string {
	switch p.c {
	case c44put:
		return "C:" + k
	case c44del:
		return ""
	}
	switch p.o {
	case c44put:
		return "O:" + k
	case c44del:
		return ""
	}
	if p.s {
		return "S:" + k
	}
	return ""
}

func c44addr(last byte) comm.Address {
	var a comm.Address
	for i := range a {
		a[i] = 0x5a
	}
	a[19] = last
	return a
}

var (
	c44old  = c44addr(0x80)
	c44lo   = c44addr(0x7f) // neighbours: must never be touched
	c44hi   = c44addr(0x81)
	c44newL = c44addr(0x7e)
	c44newH = c44addr(0x82)
)

func c44skey(a comm.Address, k string) []byte {
	return append(append([]byte{byte(common.ST_STORAGE)}, a[:]...), k...)
}
func c44ckey(a comm.Address, k string) []byte { return append(append([]byte{}, a[:]...), k...) }

type c44kv struct{ k, v string }

func c44fmt(l []c44kv) string {
	var s []string
	for _, x := range l {
		s = append(s, fmt.Sprintf("%q=%q", x.k, x.v))
	}
	return "[" + strings.Join(s, " ") + "]"
}

func c44eq(a, b []c44kv) bool {
	if len(a) != len(b) {
		return false
	}
	for i := range a {
		if a[i] != b[i] {
			return false
		}
	}
	return true
}

type c44iter interface {
	First() bool
	Next() bool
	Key() []byte
	Value() []byte
	Release()
}

// list the live entries under addr as the iterator of the given level shows them
func c44list(it c44iter, strip int) []c44kv {
	var out []c44kv
	for ok := it.First(); ok; ok = it.Next() {
		k := it.Key()
		if len(it.Value()) == 0 {
			continue // a tombstone surfaced by a raw store/memdb iterator
		}
		out = append(out, c44kv{string(k[strip:]), string(it.Value())})
	}
	it.Release()
	return out
}

type c44world struct {
	store   *leveldbstore.LevelDBStore
	overlay *overlaydb.OverlayDB
	cache   *CacheDB
}

// views of one address at the three levels
func (w *c44world) view(level string, a comm.Address) []c44kv {
	switch level {
	case "cache":
		return c44list(w.cache.NewIterator(a[:]), 20)
	case "overlay":
		return c44list(w.overlay.NewIterator(c44skey(a, "")), 21)
	default:
		return c44list(w.store.NewIterator(c44skey(a, "")), 21)
	}
}

func (w *c44world) get(level string, a comm.Address, k string) string {
	var v []byte
	var err error
	switch level {
	case "cache":
		v, err = w.cache.Get(c44ckey(a, k))
	case "overlay":
		v, err = w.overlay.Get(c44skey(a, k))
	default:
		v, err = w.store.Get(c44skey(a, k))
		if err == common.ErrNotFound {
			v, err = nil, nil
		}
	}
	if err != nil {
		return "ERR:" + err.Error()
	}
	return string(v)
}

func (w *c44world) raw(level string, key []byte) string {
	var v []byte
	var err error
	switch level {
	case "cache":
		v, err = w.cache.get(common.DataEntryPrefix(key[0]), key[1:])
	case "overlay":
		v, err = w.overlay.Get(key)
	default:
		v, err = w.store.Get(key)
		if err == common.ErrNotFound {
			v, err = nil, nil
		}
	}
	if err != nil {
		return "ERR:" + err.Error()
	}
	return string(v)
}

var c44deploy = func() []byte {
	d, err := payload.NewDeployCode([]byte{0x51, 0x66}, payload.NEOVM_TYPE, "n", "v", "a", "e", "d")
	if err != nil {
		panic(err)
	}
	sink := comm.NewZeroCopySink(nil)
	d.Serialization(sink)
	return sink.Bytes()
}()

// one in-memory LevelDB per process, wiped between scenarios (opening a
// goleveldb instance costs milliseconds)
var c44shared *leveldbstore.LevelDBStore
var c44sharedUses int

func c44freshStore() *leveldbstore.LevelDBStore {
	c44sharedUses++
	if c44shared != nil && c44sharedUses%128 == 0 {
		// old versions pile up in the memtable and slow iteration down
		c44shared.Close()
		c44shared = nil
	}
	if c44shared == nil {
		c44shared = leveldbstore.NewMemLevelDBStore()
		return c44shared
	}
	var keys [][]byte
	it := c44shared.NewIterator(nil)
	for ok := it.First(); ok; ok = it.Next() {
		keys = append(keys, append([]byte{}, it.Key()...))
	}
	it.Release()
	for _, k := range keys {
		c44shared.Delete(k)
	}
	it = c44shared.NewIterator(nil)
	if it.First() {
		panic("C44: shared store not empty after wipe")
	}
	it.Release()
	return c44shared
}

type c44case struct {
	Unit   string   `json:"unit"`   // "cachedb"
	Layout []string `json:"layout"` // placement per key
	Action string   `json:"action"` // migrate-low, migrate-high, destroy
	// height-/network-gated part (zero values: the ordinary part, solo network, height c44height)
	Gate   bool   `json:"gate,omitempty"`
	Net    uint32 `json:"net,omitempty"`    // config.DefConfig.P2PNode.NetworkId
	Height uint32 `json:"height,omitempty"` // block height passed to the action
}

const c44height = 7

// c44run builds the layout, performs the action and checks every level.  It
// returns violations as (key, detail) pairs and the number of real operations.
func c44run(places []c44place, action string) (viol [][2]string, ops int64) {
	return c44runAt(places, action, c44height, true, "")
}

// c44runAt: the action happens in a block of the given height; tracked tells
// whether destroyed-contract tracking is active at that height (only then does
// the statement demand the destroyed marker); kp prefixes the violation keys.
func c44runAt(places []c44place, action string, height uint32, tracked bool, kp string) (viol [][2]string, ops int64) {
	bad := func(k, d string) { viol = append(viol, [2]string{kp + k, d}) }
	store := c44freshStore()
	w := &c44world{store: store}
	// persistent layer: the old contract, its stored entries, neighbours
	store.Put(append([]byte{byte(common.ST_CONTRACT)}, c44old[:]...), c44deploy)
	store.Put(c44skey(c44lo, ""), []byte("lo0"))
	store.Put(c44skey(c44lo, "kk"), []byte("lo1"))
	store.Put(c44skey(c44hi, ""), []byte("hi0"))
	store.Put(c44skey(c44hi, "k"), []byte("hi1"))
	for i, p := range places {
		if p.s {
			store.Put(c44skey(c44old, c44keys[i]), []byte("S:"+c44keys[i]))
			ops++
		}
	}
	w.overlay = overlaydb.NewOverlayDB(store)
	w.overlay.Put(c44skey(c44lo, "z"), []byte("lo2"))
	for i, p := range places {
		switch p.o {
		case c44put:
			w.overlay.Put(c44skey(c44old, c44keys[i]), []byte("O:"+c44keys[i]))
			ops++
		case c44del:
			w.overlay.Delete(c44skey(c44old, c44keys[i]))
			ops++
		}
	}
	w.cache = NewCacheDB(w.overlay)
	w.cache.Put(c44ckey(c44hi, "z"), []byte("hi2"))
	for i, p := range places {
		switch p.c {
		case c44put:
			w.cache.Put(c44ckey(c44old, c44keys[i]), []byte("C:"+c44keys[i]))
			ops++
		case c44del:
			w.cache.Delete(c44ckey(c44old, c44keys[i]))
			ops++
		}
	}
	// the reference: what the old contract's storage is, by the layering rule
	var want []c44kv
	for i, p := range places {
		if v := p.visible(c44keys[i]); v != "" {
			want = append(want, c44kv{c44keys[i], v})
		}
	}
	sort.Slice(want, func(i, j int) bool { return want[i].k < want[j].k })
	if got := w.view("cache", c44old); !c44eq(got, want) {
		// the layering itself is C04's subject; here it is a fixture precondition
		bad("precondition:layered-view-differs", fmt.Sprintf("before the action the cache iterator shows %s, layering rule says %s", c44fmt(got), c44fmt(want)))
		return
	}
	loBefore, hiBefore := w.view("cache", c44lo), w.view("cache", c44hi)

	var nw comm.Address
	var err error
	switch action {
	case "migrate-low", "migrate-high":
		nw = c44newL
		if action == "migrate-high" {
			nw = c44newH
		}
		// what ContractMigrate does: PutContract(new) then MigrateContractStorage
		w.cache.put(common.ST_CONTRACT, nw[:], c44deploy)
		err = w.cache.MigrateContractStorage(c44old, nw, height)
	case "destroy":
		err = w.cache.CleanContractStorage(c44old, height)
	}
	ops++
	if err != nil {
		bad(action+":returned-error", err.Error())
	}
	act := strings.SplitN(action, "-", 2)[0]
	for _, level := range []string{"cache", "overlay", "store"} {
		switch level {
		case "overlay":
			w.cache.Commit()
			ops++
		case "store":
			store.NewBatch()
			w.overlay.CommitTo()
			if err := store.BatchCommit(); err != nil {
				bad("precondition:batch-commit", err.Error())
				return
			}
			ops++
		}
		if got := w.view(level, c44old); len(got) != 0 {
			bad(fmt.Sprintf("%s:%s:old-prefix-not-empty", act, level), fmt.Sprintf("entries left under the old address: %s", c44fmt(got)))
		}
		for _, k := range c44keys {
			if v := w.get(level, c44old, k); v != "" {
				bad(fmt.Sprintf("%s:%s:old-key-still-readable", act, level), fmt.Sprintf("Get(old,%q)=%q", k, v))
			}
		}
		if act == "migrate" {
			if got := w.view(level, nw); !c44eq(got, want) {
				bad(fmt.Sprintf("%s:%s:new-content-differs", act, level), fmt.Sprintf("under the new address %s, old contract had %s", c44fmt(got), c44fmt(want)))
			}
			for i, p := range places {
				if v := w.get(level, nw, c44keys[i]); v != p.visible(c44keys[i]) {
					bad(fmt.Sprintf("%s:%s:new-read-differs", act, level), fmt.Sprintf("Get(new,%q)=%q, old value %q (placement %s)", c44keys[i], v, p.visible(c44keys[i]), p))
				}
			}
			if v := w.raw(level, append([]byte{byte(common.ST_CONTRACT)}, nw[:]...)); v != string(c44deploy) {
				bad(fmt.Sprintf("%s:%s:new-contract-missing", act, level), "contract entry of the new address missing")
			}
		}
		if got := w.view(level, c44lo); !c44eq(got, loBefore) {
			bad(fmt.Sprintf("%s:%s:neighbour-below-changed", act, level), fmt.Sprintf("%s -> %s", c44fmt(loBefore), c44fmt(got)))
		}
		if got := w.view(level, c44hi); !c44eq(got, hiBefore) {
			bad(fmt.Sprintf("%s:%s:neighbour-above-changed", act, level), fmt.Sprintf("%s -> %s", c44fmt(hiBefore), c44fmt(got)))
		}
		if v := w.raw(level, append([]byte{byte(common.ST_CONTRACT)}, c44old[:]...)); v != "" {
			bad(fmt.Sprintf("%s:%s:old-contract-entry-left", act, level), "contract entry of the old address still present")
		}
		if v := w.raw(level, append([]byte{byte(common.ST_DESTROYED)}, c44old[:]...)); v == "" && tracked {
			bad(fmt.Sprintf("%s:%s:old-not-marked-destroyed", act, level), "no destroyed marker for the old address")
		}
	}
	// a fresh transaction cache over the committed store sees the address as destroyed
	c2 := NewCacheDB(overlaydb.NewOverlayDB(store))
	dep, destroyed, err := c2.GetContract(c44old)
	if err != nil || dep != nil || (!destroyed && tracked) {
		bad(act+":GetContract-old-not-destroyed", fmt.Sprintf("GetContract(old) = (%v, destroyed=%v, %v)", dep != nil, destroyed, err))
	}
	return
}

// c44marker: contract entry and destroyed marker at every layer combination.
func c44marker(r *vh.Run) {
	layers := []string{"none", "store", "overlay", "cache"}
	for _, ce := range layers { // where the contract entry lives
		for _, dm := range layers { // where the destroyed marker was written
			a := c44old
			store := c44freshStore()
			overlay := overlaydb.NewOverlayDB(store)
			// lower layers are filled through real CacheDB calls committed downwards
			fill := func(layer string, f func(c *CacheDB)) {
				switch layer {
				case "store":
					c := NewCacheDB(overlaydb.NewOverlayDB(store))
					f(c)
					c.Commit()
					store.NewBatch()
					c.backend.CommitTo()
					store.BatchCommit()
				case "overlay":
					c := NewCacheDB(overlay)
					f(c)
					c.Commit()
				}
			}
			for _, layer := range []string{"store", "overlay"} {
				if ce == layer {
					fill(layer, func(c *CacheDB) { c.put(common.ST_CONTRACT, a[:], c44deploy) })
				}
				if dm == layer {
					fill(layer, func(c *CacheDB) { c.SetContractDestroyed(a, c44height) })
				}
			}
			cache := NewCacheDB(overlay)
			if ce == "cache" {
				cache.put(common.ST_CONTRACT, a[:], c44deploy)
			}
			if dm == "cache" {
				cache.SetContractDestroyed(a, c44height)
			}
			wantDestroyed := dm != "none"
			wantContract := ce != "none" && !wantDestroyed
			dep, destroyed, err := cache.GetContract(a)
			is, err2 := cache.IsContractDestroyed(a)
			r.Trace(1)
			r.Trans(3)
			cs := map[string]interface{}{"unit": "cachedb", "marker": true, "contract": ce, "destroyed": dm}
			if err != nil || err2 != nil {
				r.Violationf("marker:error", cs, "GetContract err=%v IsContractDestroyed err=%v", err, err2)
			}
			if destroyed != wantDestroyed || is != wantDestroyed {
				r.Violationf("marker:destroyed-flag-wrong", cs, "contract entry at %s, marker set at %s: GetContract destroyed=%v IsContractDestroyed=%v, want %v", ce, dm, destroyed, is, wantDestroyed)
			}
			if (dep != nil) != wantContract {
				r.Violationf("marker:destroyed-contract-returned", cs, "contract entry at %s, marker set at %s: GetContract returned contract=%v, want %v", ce, dm, dep != nil, wantContract)
			}
			r.Class(fmt.Sprintf("marker:destroyed=%v:contract=%v", wantDestroyed, wantContract))
		}
	}
}

// ---------------------------------------------------------------- height-/network-gated part
//
// Destroyed-contract tracking is introduced by a hard fork: it is active from
// the block height config.GetTrackDestroyedContractHeight() on, which depends
// on the configured network id.  For every network id the configuration
// distinguishes and every height around that network's activation height the
// same migrate / destroy runs are repeated with that block height.

type c44net struct {
	name string
	id   uint32
}

// main net, polaris, solo and an id the configuration does not know (default branch)
var c44nets = []c44net{{"mainnet", config.NETWORK_ID_MAIN_NET}, {"polaris", config.NETWORK_ID_POLARIS_NET}, {"solo", config.NETWORK_ID_SOLO_NET}, {"other", 0}}

type c44gh struct {
	class  string
	height uint32
}

// heights around the activation height act, a far later one and the largest
func c44gateHeights(act uint32) []c44gh {
	var out []c44gh
	if act > 0 {
		out = append(out, c44gh{"below-activation", act - 1})
	}
	return append(out, c44gh{"at-activation", act}, c44gh{"activation+1", act + 1}, c44gh{"far-above", act + 54321}, c44gh{"max-height", ^uint32(0)})
}

// with the network id set for the duration of f only
func c44withNet(id uint32, f func()) {
	saved := config.DefConfig.P2PNode.NetworkId
	defer func() { config.DefConfig.P2PNode.NetworkId = saved }()
	config.DefConfig.P2PNode.NetworkId = id
	f()
}

func c44gateLayouts() [][]c44place {
	var out [][]c44place
	for _, p := range c44sharpPlaces() { // all four keys at the same placement
		out = append(out, []c44place{p, p, p, p})
	}
	sp := c44sharpPlaces()
	return append(out, []c44place{sp[4], sp[2], sp[7], sp[0]}, []c44place{sp[1], sp[3], sp[8], sp[6]})
}

func c44names(ps []c44place) []string {
	var n []string
	for _, p := range ps {
		n = append(n, p.String())
	}
	return n
}

func c44gate(r *vh.Run, base int) {
	idx := base
	for _, net := range c44nets {
		var act uint32
		c44withNet(net.id, func() { act = config.GetTrackDestroyedContractHeight() })
		if net.name == "mainnet" {
			r.Need(act > 0, "main net activation height is 0: no height below the gate")
		}
		for _, gh := range c44gateHeights(act) {
			tracked := gh.height >= act // active FROM the activation height on
			for _, ps := range c44gateLayouts() {
				for _, a := range []string{"migrate-low", "migrate-high", "destroy"} {
					idx++
					if !r.Mine(idx) {
						continue
					}
					var viol [][2]string
					var ops int64
					c44withNet(net.id, func() {
						viol, ops = c44runAt(ps, a, gh.height, tracked, "gate:"+gh.class+":")
					})
					r.StateKey(fmt.Sprintf("gate:%s:%d:%s:%s", net.name, gh.height, strings.Join(c44names(ps), ","), a))
					r.Trace(1)
					r.Trans(ops)
					for _, v := range viol {
						r.Violation(v[0], fmt.Sprintf("network %s (id %d, tracking active from height %d), action in the block of height %d, layout %v, %s: %s", net.name, net.id, act, gh.height, c44names(ps), a, v[1]),
							c44case{Unit: "cachedb", Layout: c44names(ps), Action: a, Gate: true, Net: net.id, Height: gh.height})
					}
					r.Class(fmt.Sprintf("gate:%s:%s:%s:tracked=%v", net.name, gh.class, strings.SplitN(a, "-", 2)[0], tracked))
				}
			}
		}
	}
}

func TestVerif_C44_cachedb(t *testing.T) {
	r := vh.Start(t, "C44", "cachedb")
	defer r.Finish()
	savedNet := config.DefConfig.P2PNode.NetworkId
	defer func() { config.DefConfig.P2PNode.NetworkId = savedNet }()
	config.DefConfig.P2PNode.NetworkId = config.NETWORK_ID_SOLO_NET // destroyed-contract tracking from height 0
	r.Need(config.GetTrackDestroyedContractHeight() == 0, "tracking height")
	places := c44sharpPlaces()
	if r.Thorough() {
		places = c44allPlaces()
	}
	actions := []string{"migrate-low", "migrate-high", "destroy"}
	r.Rule("states = storage layouts: every assignment of a placement (persistent store present/absent x block overlay none/put/deleted x tx cache none/put/deleted) to each of the 4 prefix-sharing keys \"\",k,kk,l of the old contract, with neighbouring addresses populated; per layout the real CacheDB.MigrateContractStorage (new address sorting directly below / above the old one) and CleanContractStorage are run and observed through Get/NewIterator/GetContract at cache level, after Commit at overlay level and after CommitTo+BatchCommit at store level; plus the contract-entry x destroyed-marker layer product for GetContract/IsContractDestroyed; plus the height-/network-gated part: for every network id the configuration distinguishes (main net, polaris, solo, unknown id) x block height of the action in {activation-1 (if any), activation, activation+1, activation+54321, 2^32-1} of that network's config.GetTrackDestroyedContractHeight() x 11 layouts (all keys at one sharp placement, two mixed) x 3 actions the same runs, where the destroyed marker is demanded iff height >= activation height (storage move/removal and removal of the contract entry are demanded at every height); transitions = layer operations and actions applied to the real objects; classes = action x number of visible entries x tombstones present")
	r.Bound(fmt.Sprintf("%d placements per key (%s), 4 keys => %d layouts x 3 actions; marker product 4x4; gate part: 4 network ids x 4-5 heights x 11 layouts x 3 actions = 561 runs", len(places), map[bool]string{false: "sharp subset: absent, each single layer, stacked puts, tombstones over lower values", true: "all 18"}[r.Thorough()], len(places)*len(places)*len(places)*len(places)))

	var rc c44case
	if r.ReplayCase(&rc) && rc.Unit != "" && rc.Unit != "cachedb" {
		return // a replay case of the other unit
	}
	if len(rc.Layout) == 4 {
		var ps []c44place
		for _, s := range rc.Layout {
			for _, p := range c44allPlaces() {
				if p.String() == s {
					ps = append(ps, p)
				}
			}
		}
		var viol [][2]string
		if rc.Gate {
			c44withNet(rc.Net, func() {
				act := config.GetTrackDestroyedContractHeight()
				class := "?"
				for _, gh := range c44gateHeights(act) {
					if gh.height == rc.Height {
						class = gh.class
					}
				}
				viol, _ = c44runAt(ps, rc.Action, rc.Height, rc.Height >= act, "gate:"+class+":")
			})
		} else {
			viol, _ = c44run(ps, rc.Action)
		}
		for _, v := range viol {
			r.Violation(v[0], v[1], rc)
		}
		return
	}
	if r.Mine(0) {
		c44marker(r)
	}
	c44gate(r, 0)
	n := len(places)
	idx := 0
	vh.Odometer([]int{n, n, n, n}, func(d []int) bool {
		idx++
		if !r.Mine(idx) {
			return true
		}
		if idx&63 == 0 && r.Expired() {
			return false
		}
		ps := []c44place{places[d[0]], places[d[1]], places[d[2]], places[d[3]]}
		names := []string{ps[0].String(), ps[1].String(), ps[2].String(), ps[3].String()}
		r.StateKey(strings.Join(names, ","))
		vis, tomb := 0, false
		for i, p := range ps {
			if p.visible(c44keys[i]) != "" {
				vis++
			}
			if p.o == c44del || p.c == c44del {
				tomb = true
			}
		}
		for _, a := range actions {
			viol, ops := c44run(ps, a)
			r.Trace(1)
			r.Trans(ops)
			for _, v := range viol {
				r.Violation(v[0], fmt.Sprintf("layout %v, %s: %s", names, a, v[1]), c44case{Unit: "cachedb", Layout: names, Action: a})
			}
			r.Class(fmt.Sprintf("%s:visible=%d:tombstones=%v", strings.SplitN(a, "-", 2)[0], vis, tomb))
		}
		return true
	})
	r.Eval(r.R.Traces)
	r.Sample(map[string]interface{}{"layout": map[string]string{"": "S-D (stored, deleted in tx cache)", "k": "-P- (block overlay)", "kk": "SPP (stored, overwritten in overlay and in tx cache)", "l": "--- (absent)"}, "action": "migrate-high", "expect": "new contract has k=O:k, kk=C:kk; nothing under the old address at cache, overlay and store level"})
	r.Assume("destroyed-contract tracking is active at block height h iff h >= config.GetTrackDestroyedContractHeight() for the configured network id (the statement's 'once tracking is active'; the same comparison registers the governance methods in global_params)")
	r.Need(r.R.States >= 10, "only %d layouts", r.R.States)
}

var _ = bytes.Equal

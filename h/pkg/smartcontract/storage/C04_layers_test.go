package storage

import (
	"fmt"
	"sort"
	"strconv"
	"strings"
	"testing"

	scommon "github.com/ontio/ontology/core/store/common"
	"github.com/ontio/ontology/core/store/leveldbstore"
	"github.com/ontio/ontology/core/store/overlaydb"
	"github.com/ontio/ontology/verifshim/vh"
)

// C04 — CacheDB over OverlayDB over a (memory backed) LevelDB store behaves
// like one ordered key/value map.
//
// Explicit-state search.  The reference model is three small tables (store,
// overlay write set with tombstones, transaction-cache write set with
// tombstones).  Its reachable states are enumerated breadth-first up to depth D
// from every pre-population of the store; for every state s and every event e
// the shortest history of s is replayed on FRESH real CacheDB/OverlayDB objects
// (over a recycled LevelDB store of the right content), reads are performed
// (all of them for one event per state, rotating; the point reads through the
// cache for the others), e is applied, and ALL reads are performed in s'.
// "All reads" = every CacheDB.Get and OverlayDB.Get, every prefix iteration
// through the cache and through the overlay, a full iteration of the store,
// and the overlay's write set, each compared with the merge of the three
// reference maps.
//
// The state key contains, besides the three maps, ghost bits that only
// distinguish histories (never used by the oracle): whether a memdb has been
// Reset (buffers reused) and whether a tombstone sits on a node that used to
// hold a value.  So continuations after Reset/Commit and after
// delete-of-existing are explored separately from continuations on virgin
// structures.

const c04MaxK = 5

var c04keys = [c04MaxK]string{"a", "ab", "abc", "b", "a\xff"}
var c04vals = []string{"v1", "v22"}

const (
	c04None  = 0 // not in this layer
	c04TombF = 1 // tombstone on a node that never held a value
	c04TombO = 2 // tombstone on a node that held a value (ghost distinction only)
	c04V1    = 3
	c04V2    = 4
)

const c04ST = byte(scommon.ST_STORAGE)

// constant foreign entries in the persistent store: neighbours of the
// ST_STORAGE prefix, which must never leak into CacheDB iteration.
var c04foreign = [][2]string{
	{string([]byte{c04ST - 1, 'a'}), "f-below"},
	{string([]byte{c04ST - 1, 0xff}), "f-below-ff"},
	{string([]byte{c04ST + 1}), "f-above"},
	{string([]byte{c04ST + 1, 'a'}), "f-above-a"},
}

type c04state struct {
	store, over, cache [c04MaxK]uint8
	oreset, creset     bool // ghost: the layer's memdb has been Reset at least once
}

func c04raw(k string) string { return string([]byte{c04ST}) + k }

// ---------------------------------------------------------------- reference

func c04memWrite(layer *[c04MaxK]uint8, k int, code uint8) {
	if code >= c04V1 {
		layer[k] = code
		return
	}
	// delete
	switch layer[k] {
	case c04None, c04TombF:
		layer[k] = c04TombF
	default:
		layer[k] = c04TombO
	}
}

type c04event struct {
	kind string // put del commit reset ocommit
	k, v int
}

func (e c04event) String() string {
	switch e.kind {
	case "put":
		return "put(" + strconv.Quote(c04keys[e.k]) + "," + c04vals[e.v] + ")"
	case "del":
		return "del(" + strconv.Quote(c04keys[e.k]) + ")"
	}
	return e.kind
}

func c04events(nk int) []c04event {
	var evs []c04event
	for k := 0; k < nk; k++ {
		evs = append(evs, c04event{"put", k, 0}, c04event{"put", k, 1}, c04event{"del", k, 0})
	}
	evs = append(evs, c04event{kind: "commit"}, c04event{kind: "reset"}, c04event{kind: "ocommit"})
	return evs
}

// c04step is the reference semantics of one event.
func c04step(s c04state, e c04event, nk int) c04state {
	switch e.kind {
	case "put":
		c04memWrite(&s.cache, e.k, uint8(c04V1+e.v))
	case "del":
		c04memWrite(&s.cache, e.k, c04TombF)
	case "commit": // publish exactly the cache's writes, then empty the cache
		for k := 0; k < nk; k++ {
			if s.cache[k] != c04None {
				c04memWrite(&s.over, k, s.cache[k])
			}
			s.cache[k] = c04None
		}
		s.creset = true
	case "reset": // discard the cache's writes
		for k := 0; k < nk; k++ {
			s.cache[k] = c04None
		}
		s.creset = true
	case "ocommit": // overlay -> persistent store, overlay emptied
		for k := 0; k < nk; k++ {
			switch {
			case s.over[k] >= c04V1:
				s.store[k] = s.over[k]
			case s.over[k] != c04None:
				s.store[k] = c04None
			}
			s.over[k] = c04None
		}
		s.oreset = true
	}
	return s
}

func c04val(code uint8) string {
	if code >= c04V1 {
		return c04vals[code-c04V1]
	}
	return ""
}

// c04maps materialises the reference state as three Go maps over RAW keys;
// "" is a tombstone in the two write-set layers.
func c04maps(s c04state, nk int) (store, over, cache map[string]string) {
	store, over, cache = map[string]string{}, map[string]string{}, map[string]string{}
	for _, f := range c04foreign {
		store[f[0]] = f[1]
	}
	for k := 0; k < nk; k++ {
		rk := c04raw(c04keys[k])
		if s.store[k] >= c04V1 {
			store[rk] = c04val(s.store[k])
		}
		if s.over[k] != c04None {
			over[rk] = c04val(s.over[k])
		}
		if s.cache[k] != c04None {
			cache[rk] = c04val(s.cache[k])
		}
	}
	return
}

// c04merge: the single ordered map the layers must behave like (top layer first).
func c04merge(layers ...map[string]string) map[string]string {
	m := map[string]string{}
	for i := len(layers) - 1; i >= 0; i-- { // bottom first, upper layers override
		for k, v := range layers[i] {
			if v == "" {
				delete(m, k)
			} else {
				m[k] = v
			}
		}
	}
	return m
}

func c04sorted(m map[string]string, prefix string) []string {
	var ks []string
	for k := range m {
		if strings.HasPrefix(k, prefix) {
			ks = append(ks, k)
		}
	}
	sort.Strings(ks)
	return ks
}

// ---------------------------------------------------------------- real system

type c04sys struct {
	store *leveldbstore.LevelDBStore
	over  *overlaydb.OverlayDB
	cache *CacheDB
}

// c04pool recycles memory-backed LevelDB stores (opening one costs tens of
// milliseconds).  A store is handed out only when its content equals the
// requested pre-population: either it already does, or it is converted with
// direct Put/Delete calls on the store (not through the code under test).
// Every observation re-reads the whole store and compares it with the
// reference, so a wrong pool content could not go unnoticed.
type c04pooled struct {
	st        *leveldbstore.LevelDBStore
	content   [c04MaxK]uint8
	writes    int // writes this store has received (conversions and overlay commits)
	compacted int // value of writes at the last compaction
}

// shadowed versions of earlier writes make every store iterator slower; after
// this many writes the store is compacted (VerifCompact seam = goleveldb CompactRange).
const c04compactEvery = 128

type c04pool struct {
	free        []*c04pooled
	made        int
	max         int
	compactions int
}

func (p *c04pool) acquire(want [c04MaxK]uint8) *c04pooled {
	best, bestD := -1, 1<<30
	for i, e := range p.free {
		d := 0
		for k := range want {
			if e.content[k] != want[k] {
				d++
			}
		}
		if d < bestD || (d == bestD && best >= 0 && e.writes < p.free[best].writes) {
			best, bestD = i, d
		}
	}
	if bestD != 0 && p.made < p.max {
		st := leveldbstore.NewMemLevelDBStore()
		for _, f := range c04foreign {
			st.Put([]byte(f[0]), []byte(f[1]))
		}
		p.made++
		e := &c04pooled{st: st}
		p.convert(e, want)
		return e
	}
	e := p.free[best]
	p.free = append(p.free[:best], p.free[best+1:]...)
	p.convert(e, want)
	return e
}

func (p *c04pool) convert(e *c04pooled, want [c04MaxK]uint8) {
	for k := range want {
		if e.content[k] == want[k] {
			continue
		}
		if want[k] >= c04V1 {
			e.st.Put([]byte(c04raw(c04keys[k])), []byte(c04val(want[k])))
		} else {
			e.st.Delete([]byte(c04raw(c04keys[k])))
		}
		e.writes++
		e.content[k] = want[k]
	}
}

// release returns a store whose content is known (the reference state's store
// layer, which the last observation confirmed); a store of unknown content is dropped.
func (p *c04pool) release(e *c04pooled, content [c04MaxK]uint8, writes int, ok bool) {
	if !ok {
		e.st.Close()
		p.made--
		return
	}
	e.content = content
	e.writes += writes
	if e.writes-e.compacted >= c04compactEvery {
		if err := e.st.VerifCompact(); err != nil {
			panic("compaction of a pooled store failed: " + err.Error())
		}
		e.compacted = e.writes
		p.compactions++
	}
	p.free = append(p.free, e)
}

func c04build(pool *c04pool, mask int, nk int) (*c04sys, *c04pooled) {
	e := pool.acquire(c04initial(mask, nk).store)
	ov := overlaydb.NewOverlayDB(e.st)
	return &c04sys{store: e.st, over: ov, cache: NewCacheDB(ov)}, e
}

func (s *c04sys) apply(e c04event) string {
	return vh.Catch(func() {
		switch e.kind {
		case "put":
			s.cache.Put([]byte(c04keys[e.k]), []byte(c04vals[e.v]))
		case "del":
			s.cache.Delete([]byte(c04keys[e.k]))
		case "commit":
			s.cache.Commit()
		case "reset":
			s.cache.Reset()
		case "ocommit":
			s.store.NewBatch()
			s.over.CommitTo()
			if err := s.store.BatchCommit(); err != nil {
				panic("BatchCommit: " + err.Error())
			}
			s.over.Reset()
		}
	})
}

func c04initial(mask, nk int) c04state {
	var s c04state
	for k := 0; k < nk; k++ {
		if mask&(1<<uint(k)) != 0 {
			s.store[k] = c04V1
		}
	}
	return s
}

// ---------------------------------------------------------------- observation

type c04obs struct {
	r  *vh.Run
	nk int
}

func c04q(s string) string { return strconv.QuoteToASCII(s) }

// c04drain runs First/Next to exhaustion.
func c04drain(it scommon.StoreIterator) (keys, vals []string, problem string) {
	p := vh.Catch(func() {
		n := 0
		for ok := it.First(); ok; ok = it.Next() {
			keys = append(keys, string(it.Key()))
			vals = append(vals, string(it.Value()))
			n++
			if n > 64 {
				problem = "does-not-terminate"
				break
			}
		}
		if err := it.Error(); err != nil && problem == "" {
			problem = "error:" + err.Error()
		}
		it.Release()
	})
	if p != "" {
		problem = "panic:" + p
	}
	return
}

// c04cmpIter compares one full forward iteration with the live keys of the
// reference merge that have the prefix.  tomb reports whether a raw key is
// tombstoned in some layer (only to name the violation class).
func c04cmpIter(level, prefixShown string, gotK, gotV []string, problem string, want map[string]string, rawPrefix string, stripLen int, tombs []map[string]string) (string, string) {
	if problem != "" {
		return level + ".Iter:" + strings.SplitN(problem, ":", 2)[0], fmt.Sprintf("%s.NewIterator(%s): %s", level, prefixShown, problem)
	}
	wk := c04sorted(want, rawPrefix)
	desc := func() string {
		var g, w []string
		for i := range gotK {
			g = append(g, c04q(gotK[i])+"="+gotV[i])
		}
		for _, k := range wk {
			w = append(w, c04q(k[stripLen:])+"="+want[k])
		}
		return fmt.Sprintf("%s.NewIterator(%s) yielded [%s], the reference map has [%s]", level, prefixShown, strings.Join(g, " "), strings.Join(w, " "))
	}
	for i := 1; i < len(gotK); i++ {
		if gotK[i-1] >= gotK[i] {
			if gotK[i-1] == gotK[i] {
				return level + ".Iter:duplicate-key", desc()
			}
			return level + ".Iter:not-ascending", desc()
		}
	}
	wantSet := map[string]bool{}
	for _, k := range wk {
		wantSet[k[stripLen:]] = true
	}
	gotSet := map[string]bool{}
	for _, k := range gotK {
		gotSet[k] = true
		if !wantSet[k] {
			full := rawPrefix[:stripLen] + k
			if !strings.HasPrefix(full, rawPrefix) {
				return level + ".Iter:key-outside-prefix", desc()
			}
			for _, t := range tombs {
				if v, ok := t[full]; ok && v == "" {
					return level + ".Iter:returns-deleted-key", desc()
				}
			}
			return level + ".Iter:extra-key", desc()
		}
	}
	for _, k := range wk {
		if !gotSet[k[stripLen:]] {
			return level + ".Iter:misses-live-key", desc()
		}
	}
	for i, k := range gotK {
		if want[rawPrefix[:stripLen]+k] != gotV[i] {
			return level + ".Iter:stale-value", desc()
		}
	}
	return "", ""
}

func c04cmpGet(level, shown string, got []byte, err error, want string, present bool) (string, string) {
	if err != nil {
		return level + ".Get:error", fmt.Sprintf("%s.Get(%s) returned error %v", level, shown, err)
	}
	switch {
	case !present && len(got) != 0:
		return level + ".Get:returns-deleted-or-absent-key", fmt.Sprintf("%s.Get(%s) = %q but the key is absent in the reference map", level, shown, got)
	case present && len(got) == 0:
		return level + ".Get:misses-live-key", fmt.Sprintf("%s.Get(%s) is empty but the reference map holds %q", level, shown, want)
	case present && string(got) != want:
		return level + ".Get:stale-value", fmt.Sprintf("%s.Get(%s) = %q, most recent write is %q", level, shown, got, want)
	}
	return "", ""
}

var c04cachePrefixes = []string{"", "a", "ab", "abc", "a\xff", "b", "c"}
var c04rawPrefixes = []string{"", string([]byte{c04ST}), c04raw("a"), c04raw("ab"), string([]byte{c04ST - 1}), string([]byte{c04ST + 1})}

// observe performs every read on the real layers and compares it with the
// reference state; the first difference is returned as (key, detail).
func (o *c04obs) observe(sys *c04sys, st c04state, count bool, light ...bool) (string, string) {
	store, over, cache := c04maps(st, o.nk)
	top := c04merge(cache, over, store)
	mid := c04merge(over, store)
	tombs := []map[string]string{cache, over}
	// --- point reads
	cacheKeys := append([]string{""}, c04keys[:o.nk]...)
	for _, k := range cacheKeys {
		var got []byte
		var err error
		if p := vh.Catch(func() { got, err = sys.cache.Get([]byte(k)) }); p != "" {
			return "cache.Get:panic", fmt.Sprintf("cache.Get(%s) panicked: %s", c04q(k), p)
		}
		want, present := top[c04raw(k)]
		if vk, d := c04cmpGet("cache", c04q(k), got, err, want, present); vk != "" {
			return vk, d
		}
		if count {
			rk := c04raw(k)
			switch {
			case cache[rk] != "":
				o.r.Class("get:answered-by-cache")
			case func() bool { _, ok := cache[rk]; return ok }():
				if mid[rk] != "" {
					o.r.Class("get:cache-tombstone-hides-lower-value")
				} else {
					o.r.Class("get:cache-tombstone-nothing-below")
				}
			case over[rk] != "":
				o.r.Class("get:answered-by-overlay")
			case func() bool { _, ok := over[rk]; return ok }():
				if store[rk] != "" {
					o.r.Class("get:overlay-tombstone-hides-store-value")
				} else {
					o.r.Class("get:overlay-tombstone-nothing-below")
				}
			case store[rk] != "":
				o.r.Class("get:answered-by-store")
			default:
				o.r.Class("get:absent-everywhere")
			}
		}
	}
	if len(light) > 0 && light[0] {
		return "", ""
	}
	var rawKeys []string
	for _, k := range cacheKeys {
		rawKeys = append(rawKeys, c04raw(k))
	}
	for _, f := range c04foreign {
		rawKeys = append(rawKeys, f[0])
	}
	for _, rk := range rawKeys {
		var got []byte
		var err error
		if p := vh.Catch(func() { got, err = sys.over.Get([]byte(rk)) }); p != "" {
			return "overlay.Get:panic", fmt.Sprintf("overlay.Get(%s) panicked: %s", c04q(rk), p)
		}
		want, present := mid[rk]
		if vk, d := c04cmpGet("overlay", c04q(rk), got, err, want, present); vk != "" {
			return vk, d
		}
	}
	// --- prefix iteration through the transaction cache
	for _, p := range c04cachePrefixes {
		var it scommon.StoreIterator
		if pn := vh.Catch(func() { it = sys.cache.NewIterator([]byte(p)) }); pn != "" {
			return "cache.Iter:panic", fmt.Sprintf("cache.NewIterator(%s) panicked: %s", c04q(p), pn)
		}
		gk, gv, prob := c04drain(it)
		if vk, d := c04cmpIter("cache", c04q(p), gk, gv, prob, top, c04raw(p), 1, tombs); vk != "" {
			return vk, d
		}
		if count {
			o.classifyJoin("cacheiter", c04raw(p), cache, mid)
		}
	}
	// --- prefix iteration at the overlay and at the store
	for _, rp := range c04rawPrefixes {
		var it scommon.StoreIterator
		if pn := vh.Catch(func() { it = sys.over.NewIterator([]byte(rp)) }); pn != "" {
			return "overlay.Iter:panic", fmt.Sprintf("overlay.NewIterator(%s) panicked: %s", c04q(rp), pn)
		}
		gk, gv, prob := c04drain(it)
		if vk, d := c04cmpIter("overlay", c04q(rp), gk, gv, prob, mid, rp, 0, tombs[1:]); vk != "" {
			return vk, d
		}
		if count {
			o.classifyJoin("overlayiter", rp, over, store)
		}
	}
	gk, gv, prob := c04drain(sys.store.NewIterator(nil))
	if vk, d := c04cmpIter("store", `""`, gk, gv, prob, store, "", 0, nil); vk != "" {
		return vk, d
	}
	// --- the overlay's write set (what a cache commit published; what goes into the state hash)
	var ws []string
	sys.over.GetWriteSet().ForEach(func(k, v []byte) { ws = append(ws, c04q(string(k))+"="+string(v)) })
	var wantWS []string
	for _, k := range c04sorted(over, "") {
		wantWS = append(wantWS, c04q(k)+"="+over[k])
	}
	if strings.Join(ws, " ") != strings.Join(wantWS, " ") {
		return "overlay.WriteSet:differs", fmt.Sprintf("overlay write set is [%s], the reference overlay layer is [%s]", strings.Join(ws, " "), strings.Join(wantWS, " "))
	}
	return "", ""
}

// classifyJoin names the join-iterator situation of one iteration (coverage
// classes only): which side is empty, equal keys on both sides, tombstones.
func (o *c04obs) classifyJoin(tag, rawPrefix string, mem, below map[string]string) {
	mk, bk := c04sorted(mem, rawPrefix), c04sorted(below, rawPrefix)
	switch {
	case len(mk) == 0 && len(bk) == 0:
		o.r.Class(tag + ":both-sides-empty")
		return
	case len(mk) == 0:
		o.r.Class(tag + ":mem-side-empty")
		return
	case len(bk) == 0:
		o.r.Class(tag + ":backend-side-empty")
	}
	both, tombOverLive, tombAlone := false, false, false
	for _, k := range mk {
		_, inBack := below[k]
		if inBack {
			both = true
		}
		if mem[k] == "" {
			if inBack {
				tombOverLive = true
			} else {
				tombAlone = true
			}
		}
	}
	if both {
		o.r.Class(tag + ":equal-key-on-both-sides")
	}
	if tombOverLive {
		o.r.Class(tag + ":mem-tombstone-over-backend-key")
	}
	if tombAlone {
		o.r.Class(tag + ":mem-tombstone-without-backend-key")
	}
	if len(bk) > 0 {
		if mk[len(mk)-1] < bk[len(bk)-1] {
			o.r.Class(tag + ":mem-side-exhausted-first")
		} else if mk[len(mk)-1] > bk[len(bk)-1] {
			o.r.Class(tag + ":backend-side-exhausted-first")
		}
		if mem[mk[len(mk)-1]] == "" {
			o.r.Class(tag + ":last-mem-entry-is-tombstone")
		}
	}
}

// ---------------------------------------------------------------- exploration

type c04node struct {
	st     c04state
	mask   uint8
	ev     uint8 // event that reached the state from parent
	depth  uint8
	parent int32 // -1 for a root
}

type c04graph struct {
	nodes []c04node
}

// hist returns the event indexes (after the pre-population) of the shortest history of node i.
func (g *c04graph) hist(i int) []uint8 {
	n := g.nodes[i]
	h := make([]uint8, n.depth)
	for d := int(n.depth) - 1; d >= 0; d-- {
		h[d] = n.ev
		n = g.nodes[n.parent]
	}
	return h
}

// c04explore enumerates the reachable reference states breadth-first.
func c04explore(nk, depth int) (g *c04graph, perDepth []int) {
	g = &c04graph{}
	evs := c04events(nk)
	seen := map[c04state]bool{}
	for m := 0; m < 1<<uint(nk); m++ {
		s := c04initial(m, nk)
		seen[s] = true
		g.nodes = append(g.nodes, c04node{st: s, mask: uint8(m), parent: -1})
	}
	perDepth = append(perDepth, len(g.nodes))
	lo := 0
	for d := 0; d < depth; d++ {
		hi := len(g.nodes)
		for i := lo; i < hi; i++ {
			n := g.nodes[i]
			for ei, e := range evs {
				s2 := c04step(n.st, e, nk)
				if seen[s2] {
					continue
				}
				seen[s2] = true
				g.nodes = append(g.nodes, c04node{st: s2, mask: n.mask, ev: uint8(ei), depth: uint8(d + 1), parent: int32(i)})
			}
		}
		perDepth = append(perDepth, len(g.nodes)-hi)
		lo = hi
	}
	return
}

func c04histNames(mask uint8, hist []uint8, evs []c04event, extra ...c04event) []string {
	out := []string{fmt.Sprintf("prepop:%d", mask)}
	for _, e := range hist {
		out = append(out, evs[e].String())
	}
	for _, e := range extra {
		out = append(out, e.String())
	}
	return out
}

// c04transition replays hist on fresh real layers (over a pooled store of the
// right content), reads, applies e, reads again.
func c04transition(r *vh.Run, o *c04obs, pool *c04pool, evs []c04event, n c04node, nhist []uint8, ei int, fullPre, count bool) {
	nk := o.nk
	e := evs[ei]
	sys, pe := c04build(pool, int(n.mask), nk)
	ok := false
	end := n.st.store
	writes := 0
	countWrites := func(st c04state, ev c04event) {
		if ev.kind == "ocommit" {
			for k := 0; k < nk; k++ {
				if st.over[k] != c04None {
					writes++
				}
			}
		}
	}
	defer func() { pool.release(pe, end, writes, ok) }()
	ms := c04initial(int(n.mask), nk)
	for _, h := range nhist {
		countWrites(ms, evs[h])
		ms = c04step(ms, evs[h], nk)
	}
	countWrites(n.st, e)
	for _, h := range nhist {
		if p := sys.apply(evs[h]); p != "" {
			hn := c04histNames(n.mask, nhist, evs)
			r.Violation("panic:"+evs[h].kind, "within "+strings.Join(hn, " ; ")+": "+p, map[string]interface{}{"history": hn})
			return
		}
	}
	if vk, d := o.observe(sys, n.st, count, !fullPre); vk != "" {
		hn := c04histNames(n.mask, nhist, evs)
		r.Violation(vk, "after "+strings.Join(hn, " ; ")+": "+d, map[string]interface{}{"history": hn})
		return
	}
	hn := func() []string { return c04histNames(n.mask, nhist, evs, e) }
	r.Trans(1)
	r.Trace(1)
	if p := sys.apply(e); p != "" {
		r.Violation("panic:"+e.kind, "after "+strings.Join(hn(), " ; ")+": "+p, map[string]interface{}{"history": hn()})
		return
	}
	s2 := c04step(n.st, e, nk)
	if vk, d := o.observe(sys, s2, false); vk != "" {
		r.Violation(vk, "after "+strings.Join(hn(), " ; ")+": "+d, map[string]interface{}{"history": hn()})
		return
	}
	end, ok = s2.store, true
	switch e.kind {
	case "commit", "reset", "ocommit":
		src := n.st.cache
		if e.kind == "ocommit" {
			src = n.st.over
		}
		if src != [c04MaxK]uint8{} {
			r.Class(e.kind + ":layer-had-writes")
		} else {
			r.Class(e.kind + ":layer-empty")
		}
	}
}

func TestVerif_C04(t *testing.T) {
	r := vh.Start(t, "C04", "layers")
	defer r.Finish()
	type pass struct{ nk, depth, from int }
	// quick: 4 keys, depth 4.  thorough: 5 keys to depth 5, then 4 keys one level
	// deeper (the 4-key states of depth<=4 and their events are a subset of pass 1,
	// so pass 2 expands the depth-5 states only).
	passes := []pass{{4, 4, 0}}
	if r.Thorough() {
		passes = []pass{{5, 5, 0}, {4, 6, 5}}
	}
	nk, depth := passes[0].nk, passes[0].depth
	evs := c04events(nk)
	o := &c04obs{r: r, nk: nk}
	r.Rule("reachable states of the three-layer reference model (store / overlay write set / cache write set, with tombstones, plus ghost bits for reused memdb buffers and tombstone-over-value) enumerated breadth-first from every pre-population of the store; for every state s and every event e the shortest history of s is replayed on fresh real CacheDB/OverlayDB objects over a LevelDB(mem) store, then: reads, e, all reads. states = reference states whose outgoing events were all executed (plus the final-depth states reached), transitions = (state,event) pairs executed on the real code, traces = replays. classes = which layer answers a Get and which join-iterator situation an iteration is in")
	bound := fmt.Sprintf("keys=%q values=%q events=%d (put x2/del per key, cache.Commit, cache.Reset, overlay->store commit) depth<=%d from all %d store pre-populations; cache prefixes %q", c04keys[:nk], c04vals, len(evs), depth, 1<<uint(nk), c04cachePrefixes)
	if len(passes) > 1 {
		bound += fmt.Sprintf("; second pass: keys=%q depth<=%d from all %d pre-populations", c04keys[:passes[1].nk], passes[1].depth, 1<<uint(passes[1].nk))
	}
	r.Bound(bound)
	r.Assume("goleveldb (memory storage) is trusted as the persistent store; store objects are recycled between replays after being brought to the required content (and compacted every 128 writes through a harness seam), and every observation re-reads the whole store")
	r.Assume("overlay->store commit is NewBatch+CommitTo+BatchCommit followed by OverlayDB.Reset (a block's overlay is discarded after its commit)")
	r.Assume("before the event, one event per state (rotating) is preceded by the full set of reads, the others by the point reads through the cache only; after the event all reads are made")
	pool := &c04pool{max: 4}

	var rc struct {
		History []string `json:"history"`
	}
	if r.ReplayCase(&rc) && len(rc.History) > 0 {
		mask, _ := strconv.Atoi(strings.TrimPrefix(rc.History[0], "prepop:"))
		nkr := c04MaxK
		sys, _ := c04build(pool, mask, nkr)
		o.nk = nkr
		st := c04initial(mask, nkr)
		all := c04events(nkr)
		hist := []string{rc.History[0]}
		if vk, d := o.observe(sys, st, false); vk != "" {
			r.Violation(vk, d, map[string]interface{}{"history": hist})
			return
		}
		for _, name := range rc.History[1:] {
			for _, e := range all {
				if e.String() == name {
					hist = append(hist, name)
					if p := sys.apply(e); p != "" {
						r.Violation("panic:"+e.kind, p, map[string]interface{}{"history": hist})
						return
					}
					st = c04step(st, e, nkr)
					r.Trans(1)
					if vk, d := o.observe(sys, st, false); vk != "" {
						r.Violation(vk, "after "+strings.Join(hist, " ; ")+": "+d, map[string]interface{}{"history": hist})
						return
					}
				}
			}
		}
		r.Trace(1)
		r.State(1)
		return
	}

	done := true
	offset := 0
	for pi, ps := range passes {
		nk, depth := ps.nk, ps.depth
		evs := c04events(nk)
		o.nk = nk
		g, perDepth := c04explore(nk, depth)
		nodes := g.nodes
		r.Set(fmt.Sprintf("pass%d_model_states_per_depth", pi+1), perDepth)
		expandable := len(nodes) - perDepth[len(perDepth)-1]
		first := 0 // states shallower than ps.from were expanded (with a superset of these events) by an earlier pass
		for d := 0; d < ps.from; d++ {
			first += perDepth[d]
		}
		for i := first; i < expandable; i++ {
			if !r.Mine(offset + i) {
				continue
			}
			if r.Expired() {
				done = false
				r.Set("stopped_in", fmt.Sprintf("pass %d at state index %d of %d", pi+1, i, expandable))
				break
			}
			n := nodes[i]
			nhist := g.hist(i)
			for ei := range evs {
				c04transition(r, o, pool, evs, n, nhist, ei, ei == i%len(evs), ei == 0)
			}
			if ps.from == 0 {
				r.State(1) // in a follow-up pass these states were already counted as final-depth states of the earlier pass
			}
			if r.R.States <= 3 && len(nhist) >= 2 {
				r.Sample(map[string]interface{}{"history": c04histNames(n.mask, nhist, evs), "state": fmt.Sprintf("%+v", n.st)})
			}
		}
		if !done {
			break
		}
		for i := expandable; i < len(nodes); i++ { // final-depth states: reached and observed, not expanded
			if r.Mine(offset + i) {
				r.State(1)
			}
		}
		offset += len(nodes)
	}
	r.Set("stores_opened", pool.made)
	r.Set("store_compactions", pool.compactions)
	r.Eval(r.R.Traces)
	r.Sample(map[string]interface{}{"history": []string{"prepop:5", "del(\"a\")", "commit", "put(\"ab\",v1)"}, "reads": "cache.Get per key, overlay.Get per raw key, 7 cache prefix iterations, 6 overlay prefix iterations, store iteration, overlay write set"})
	if r.R.NShards == 1 && done {
		for _, c := range []string{"cacheiter:equal-key-on-both-sides", "cacheiter:mem-tombstone-over-backend-key", "cacheiter:mem-side-exhausted-first",
			"cacheiter:backend-side-exhausted-first", "overlayiter:equal-key-on-both-sides", "overlayiter:mem-tombstone-over-backend-key",
			"get:cache-tombstone-hides-lower-value", "get:overlay-tombstone-hides-store-value", "commit:layer-had-writes", "reset:layer-had-writes", "ocommit:layer-had-writes"} {
			r.NeedClass(c)
		}
	}
	r.Need(r.R.Transitions > 0, "no transition executed")
}

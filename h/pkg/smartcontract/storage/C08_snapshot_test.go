package storage_test

import (
	"bytes"
	"fmt"
	"math/big"
	"strconv"
	"strings"
	"testing"

	ethcomm "github.com/ethereum/go-ethereum/common"
	"github.com/ethereum/go-ethereum/crypto"
	"github.com/ontio/ontology/core/store/leveldbstore"
	"github.com/ontio/ontology/core/store/overlaydb"
	"github.com/ontio/ontology/core/types"
	"github.com/ontio/ontology/smartcontract/service/native/ong"
	"github.com/ontio/ontology/smartcontract/storage"
	"github.com/ontio/ontology/verifshim/vh"
)

// C08 — StateDB.Snapshot / RevertToSnapshot / DiscardSnapshot restore exactly
// the observable EVM state.
//
// Explicit-state search.  The reference model is a plain struct of small
// arrays (storage slots, nonces, code, ONG balances, self-destruct marks, log
// list, refund counter) plus a stack of copies of it (a struct copy is a deep
// copy).  Its reachable states are enumerated breadth-first; for every state
// and every enabled event the shortest history of the state is replayed on a
// FRESH real StateDB (real CacheDB, real ong.OngBalanceHandle, over an overlay
// that holds committed state), the event is applied and every getter is
// compared with the model.  A second, model-independent oracle: the full
// getter vector recorded on the real object when a snapshot was taken must be
// read again after reverting to it.
//
// Snapshot ids are used the way the EVM uses them: the id returned by the
// real Snapshot() is what is later passed to Revert/Discard.

var (
	c08addrs = [2]ethcomm.Address{ethcomm.HexToAddress("0xa1a1a1a1a1a1a1a1a1a1a1a1a1a1a1a1a1a1a1a1"), ethcomm.HexToAddress("0xb2b2b2b2b2b2b2b2b2b2b2b2b2b2b2b2b2b2b2b2")}
	c08slots = [2]ethcomm.Hash{ethcomm.HexToHash("0x01"), ethcomm.HexToHash("0xff00000000000000000000000000000000000000000000000000000000000002")}
	c08vals  = [3]ethcomm.Hash{{}, ethcomm.HexToHash("0x1111"), ethcomm.HexToHash("0x2222222222222222222222222222222222222222222222222222222222222222")}
	c08codes = [3][]byte{nil, {0x60, 0x00, 0x60, 0x00, 0xf3}, {0x60, 0x01, 0xff}}
	c08giga  = big.NewInt(1000000000)
)

const c08MaxStack = 6
const c08MaxLogs = 8

// c08w is the observable world of the reference model.
type c08w struct {
	slot   [2][2]uint8 // [addr][slot] -> index into c08vals
	nonce  [2]uint8
	code   [2]uint8    // index into c08codes, 0 = no code
	bal    [2][2]uint8 // [addr]{units of 10^9, units of 1}
	sui    [2]bool
	nlogs  uint8
	logs   [c08MaxLogs]uint8
	refund uint8
}

type c08m struct {
	cur   c08w
	n     uint8
	stack [c08MaxStack]c08w
	// ghost (never read by the oracle): number of reverts so far, capped at 2.
	// After a revert the live memdb / self-destruct map / log slice are the
	// snapshot's own objects, so a reverted StateDB is kept apart from a
	// pristine one showing the same values and its continuations are explored too.
	rev uint8
}

func c08initial() c08m {
	var m c08m
	m.cur.slot[0][0] = 1
	m.cur.nonce[0] = 5
	m.cur.code[0] = 1
	m.cur.bal[0] = [2]uint8{2, 1}
	return m
}

type c08ev struct {
	kind    string
	a, k, v int
}

func (e c08ev) String() string {
	ab := "AB"
	switch e.kind {
	case "SetState":
		return fmt.Sprintf("SetState(%c,k%d,v%d)", ab[e.a], e.k, e.v)
	case "SetNonce":
		return fmt.Sprintf("SetNonce(%c,%d)", ab[e.a], e.v)
	case "SetCode":
		return fmt.Sprintf("SetCode(%c,c%d)", ab[e.a], e.v)
	case "AddBalance", "SubBalance":
		return fmt.Sprintf("%s(%c,%s)", e.kind, ab[e.a], []string{"1e9", "1"}[e.v])
	case "AddLog":
		return fmt.Sprintf("AddLog(l%d)", e.v)
	case "AddRefund", "SubRefund":
		return fmt.Sprintf("%s(%d)", e.kind, e.v)
	case "Suicide":
		return fmt.Sprintf("Suicide(%c)", ab[e.a])
	case "Snapshot":
		return "Snapshot"
	case "Revert", "Discard":
		return fmt.Sprintf("%s(#%d)", e.kind, e.v) // #i = i-th live snapshot, oldest first
	}
	return "?"
}

// alphabets: "wide" has one symbol per distinct code path of the mutators,
// "deep" has one mutator per kind of state so that nesting can go deeper.
var c08wide = []c08ev{
	{"SetState", 0, 0, 2}, {"SetState", 0, 0, 0}, {"SetState", 0, 1, 1}, {"SetState", 1, 0, 1}, {"SetState", 1, 0, 2},
	{"SetNonce", 0, 0, 6}, {"SetNonce", 1, 0, 1}, {"SetNonce", 1, 0, 0},
	{"SetCode", 0, 0, 2}, {"SetCode", 1, 0, 1},
	{"AddBalance", 0, 0, 1}, {"AddBalance", 1, 0, 0}, {"SubBalance", 0, 0, 0}, {"SubBalance", 0, 0, 1}, {"SubBalance", 1, 0, 0},
	{"AddLog", 0, 0, 1}, {"AddLog", 0, 0, 2},
	{"AddRefund", 0, 0, 5}, {"SubRefund", 0, 0, 3},
	{"Suicide", 0, 0, 0}, {"Suicide", 1, 0, 0},
	{"Snapshot", 0, 0, 0},
}
var c08deep = []c08ev{
	{"SetState", 0, 0, 2}, {"SetNonce", 1, 0, 1}, {"AddBalance", 0, 0, 1}, {"AddLog", 0, 0, 1}, {"AddRefund", 0, 0, 5}, {"Suicide", 0, 0, 0},
	{"Snapshot", 0, 0, 0},
}

// c08enabled lists the events enabled in a model state.
func c08enabled(m *c08m, base []c08ev) []c08ev {
	var out []c08ev
	w := &m.cur
	for _, e := range base {
		switch e.kind {
		case "SubBalance":
			if w.bal[e.a][e.v] == 0 { // no borrow across the 10^9 boundary, no overdraft (the EVM checks CanTransfer first)
				continue
			}
		case "SubRefund":
			if int(w.refund) < e.v { // SubRefund below zero panics by contract
				continue
			}
		case "Suicide":
			if w.nonce[e.a] == 0 && w.code[e.a] == 0 { // the EVM self-destructs only the executing contract account
				continue
			}
		case "AddLog":
			if w.nlogs >= c08MaxLogs {
				continue
			}
		case "Snapshot":
			if m.n >= c08MaxStack {
				continue
			}
		}
		out = append(out, e)
	}
	for i := 0; i < int(m.n); i++ {
		out = append(out, c08ev{"Revert", 0, 0, i})
	}
	for i := 0; i < int(m.n); i++ {
		out = append(out, c08ev{"Discard", 0, 0, i})
	}
	return out
}

// c08step: reference semantics of one event.
func c08step(m c08m, e c08ev) c08m {
	w := &m.cur
	switch e.kind {
	case "SetState":
		w.slot[e.a][e.k] = uint8(e.v)
	case "SetNonce":
		w.nonce[e.a] = uint8(e.v)
	case "SetCode":
		w.code[e.a] = uint8(e.v)
	case "AddBalance":
		w.bal[e.a][e.v]++
	case "SubBalance":
		w.bal[e.a][e.v]--
	case "AddLog":
		w.logs[w.nlogs] = uint8(e.v)
		w.nlogs++
	case "AddRefund":
		w.refund += uint8(e.v)
	case "SubRefund":
		w.refund -= uint8(e.v)
	case "Suicide":
		w.sui[e.a] = true
		w.bal[e.a] = [2]uint8{}
	case "Snapshot":
		m.stack[m.n] = m.cur
		m.n++
	case "Revert": // state as it was when snapshot #v was taken; #v and all later snapshots are gone
		m.cur = m.stack[e.v]
		for i := e.v; i < c08MaxStack; i++ {
			m.stack[i] = c08w{}
		}
		m.n = uint8(e.v)
		if m.rev < 2 {
			m.rev++
		}
	case "Discard": // state unchanged; #v and all later snapshots are gone
		for i := e.v; i < c08MaxStack; i++ {
			m.stack[i] = c08w{}
		}
		m.n = uint8(e.v)
	}
	return m
}

func c08balance(b [2]uint8) *big.Int {
	x := new(big.Int).Mul(big.NewInt(int64(b[0])), c08giga)
	return x.Add(x, big.NewInt(int64(b[1])))
}

// c08expect renders what every getter must return in world w.
func c08expect(w *c08w) []string {
	var o []string
	add := func(name string, v interface{}) { o = append(o, fmt.Sprintf("%s=%v", name, v)) }
	ab := "AB"
	for a := 0; a < 2; a++ {
		for k := 0; k < 2; k++ {
			add(fmt.Sprintf("GetState(%c,k%d)", ab[a], k), c08vals[w.slot[a][k]].Hex())
			committed := ethcomm.Hash{}
			if a == 0 && k == 0 {
				committed = c08vals[1]
			}
			add(fmt.Sprintf("GetCommittedState(%c,k%d)", ab[a], k), committed.Hex())
		}
		add(fmt.Sprintf("GetNonce(%c)", ab[a]), uint64(w.nonce[a]))
		ch := ethcomm.Hash{}
		if w.code[a] != 0 {
			ch = crypto.Keccak256Hash(c08codes[w.code[a]])
		}
		add(fmt.Sprintf("GetCodeHash(%c)", ab[a]), ch.Hex())
		add(fmt.Sprintf("GetCode(%c)", ab[a]), vh.Hex(c08codes[w.code[a]]))
		add(fmt.Sprintf("GetCodeSize(%c)", ab[a]), len(c08codes[w.code[a]]))
		bal := c08balance(w.bal[a])
		add(fmt.Sprintf("GetBalance(%c)", ab[a]), bal.String())
		add(fmt.Sprintf("HasSuicided(%c)", ab[a]), w.sui[a])
		empty := w.nonce[a] == 0 && w.code[a] == 0
		add(fmt.Sprintf("Exist(%c)", ab[a]), w.sui[a] || !empty || bal.Sign() > 0)
		add(fmt.Sprintf("Empty(%c)", ab[a]), empty && bal.Sign() == 0)
	}
	var ls []string
	for i := 0; i < int(w.nlogs); i++ {
		ls = append(ls, "l"+strconv.Itoa(int(w.logs[i])))
	}
	add("GetLogs", strings.Join(ls, ","))
	add("GetRefund", uint64(w.refund))
	return o
}

// ---------------------------------------------------------------- real system

type c08sys struct {
	sd        *storage.StateDB
	ids       []int      // real snapshot ids, oldest first
	snapObs   [][]string // getter vector read on the real object when each live snapshot was taken
	revertObs []string   // the vector of the snapshot most recently reverted to
}

type c08fixture struct {
	overlay *overlaydb.OverlayDB
	hash0   string
}

// c08newFixture builds the committed state (account A: nonce 5, code c1, slot
// k0=v1, 2*10^9+1 ONG units) the way a previous transaction would have: through
// a StateDB and Commit() into the block overlay.  No event of the search
// commits, so the overlay is shared by all replays; its change hash is
// re-checked after every transition.
func c08newFixture() *c08fixture {
	ov := overlaydb.NewOverlayDB(leveldbstore.NewMemLevelDBStore())
	sd := storage.NewStateDB(storage.NewCacheDB(ov), ethcomm.Hash{}, ethcomm.Hash{}, ong.OngBalanceHandle{})
	sd.SetNonce(c08addrs[0], 5)
	sd.SetCode(c08addrs[0], c08codes[1])
	sd.SetState(c08addrs[0], c08slots[0], c08vals[1])
	sd.AddBalance(c08addrs[0], c08balance([2]uint8{2, 1}))
	if err := sd.Commit(); err != nil {
		panic(err)
	}
	h := ov.ChangeHash()
	return &c08fixture{overlay: ov, hash0: h.ToHexString()}
}

func (f *c08fixture) fresh() *c08sys {
	return &c08sys{sd: storage.NewStateDB(storage.NewCacheDB(f.overlay), ethcomm.HexToHash("0x77"), ethcomm.HexToHash("0x88"), ong.OngBalanceHandle{})}
}

func (s *c08sys) apply(e c08ev) (panicked string) {
	return vh.Catch(func() {
		sd := s.sd
		switch e.kind {
		case "SetState":
			sd.SetState(c08addrs[e.a], c08slots[e.k], c08vals[e.v])
		case "SetNonce":
			sd.SetNonce(c08addrs[e.a], uint64(e.v))
		case "SetCode":
			sd.SetCode(c08addrs[e.a], c08codes[e.v])
		case "AddBalance":
			sd.AddBalance(c08addrs[e.a], c08amount(e.v))
		case "SubBalance":
			sd.SubBalance(c08addrs[e.a], c08amount(e.v))
		case "AddLog":
			sd.AddLog(&types.StorageLog{Address: c08addrs[0], Topics: []ethcomm.Hash{c08vals[1]}, Data: []byte{byte(e.v)}})
		case "AddRefund":
			sd.AddRefund(uint64(e.v))
		case "SubRefund":
			sd.SubRefund(uint64(e.v))
		case "Suicide":
			sd.Suicide(c08addrs[e.a])
		case "Snapshot":
			obs, _ := s.observe()
			id := sd.Snapshot()
			s.ids = append(s.ids, id)
			s.snapObs = append(s.snapObs, obs)
		case "Revert":
			sd.RevertToSnapshot(s.ids[e.v])
			s.ids = s.ids[:e.v]
			s.revertObs = s.snapObs[e.v]
			s.snapObs = s.snapObs[:e.v]
		case "Discard":
			sd.DiscardSnapshot(s.ids[e.v])
			s.ids = s.ids[:e.v]
			s.snapObs = s.snapObs[:e.v]
		}
	})
}

func c08amount(v int) *big.Int {
	if v == 0 {
		return new(big.Int).Set(c08giga)
	}
	return big.NewInt(1)
}

// observe calls every getter of the real StateDB.
func (s *c08sys) observe() (o []string, panicked string) {
	panicked = vh.Catch(func() {
		sd := s.sd
		add := func(name string, v interface{}) { o = append(o, fmt.Sprintf("%s=%v", name, v)) }
		ab := "AB"
		for a := 0; a < 2; a++ {
			ad := c08addrs[a]
			for k := 0; k < 2; k++ {
				add(fmt.Sprintf("GetState(%c,k%d)", ab[a], k), sd.GetState(ad, c08slots[k]).Hex())
				add(fmt.Sprintf("GetCommittedState(%c,k%d)", ab[a], k), sd.GetCommittedState(ad, c08slots[k]).Hex())
			}
			add(fmt.Sprintf("GetNonce(%c)", ab[a]), sd.GetNonce(ad))
			add(fmt.Sprintf("GetCodeHash(%c)", ab[a]), sd.GetCodeHash(ad).Hex())
			add(fmt.Sprintf("GetCode(%c)", ab[a]), vh.Hex(sd.GetCode(ad)))
			add(fmt.Sprintf("GetCodeSize(%c)", ab[a]), sd.GetCodeSize(ad))
			add(fmt.Sprintf("GetBalance(%c)", ab[a]), sd.GetBalance(ad).String())
			add(fmt.Sprintf("HasSuicided(%c)", ab[a]), sd.HasSuicided(ad))
			add(fmt.Sprintf("Exist(%c)", ab[a]), sd.Exist(ad))
			add(fmt.Sprintf("Empty(%c)", ab[a]), sd.Empty(ad))
		}
		var ls []string
		for _, l := range sd.GetLogs() {
			if l == nil || len(l.Data) != 1 || l.Address != c08addrs[0] || len(l.Topics) != 1 || !bytes.Equal(l.Topics[0][:], c08vals[1][:]) {
				ls = append(ls, fmt.Sprintf("corrupt%+v", l))
			} else {
				ls = append(ls, "l"+strconv.Itoa(int(l.Data[0])))
			}
		}
		add("GetLogs", strings.Join(ls, ","))
		add("GetRefund", sd.GetRefund())
		if err := sd.DbErr(); err != nil {
			add("DbErr", err)
		}
	})
	return
}

func c08getter(entry string) string {
	g := entry
	if i := strings.IndexByte(g, '='); i >= 0 {
		g = g[:i]
	}
	if i := strings.IndexByte(g, '('); i >= 0 {
		g = g[:i]
	}
	return g
}

func c08diff(got, want []string) (getter, detail string) {
	for i := 0; i < len(want) || i < len(got); i++ {
		var g, w string
		if i < len(got) {
			g = got[i]
		}
		if i < len(want) {
			w = want[i]
		}
		if g != w {
			n := w
			if n == "" {
				n = g
			}
			return c08getter(n), fmt.Sprintf("real %q, expected %q", g, w)
		}
	}
	return "", ""
}

// ---------------------------------------------------------------- exploration

// c08node: a model state is stored as (parent, event); the state itself is
// recomputed by running the model along the history.
type c08node struct {
	parent int32
	ev     uint8 // index into base, 100+i = Revert(#i), 200+i = Discard(#i)
	depth  uint8
}

type c08graph struct {
	base  []c08ev
	nodes []c08node
}

func (g *c08graph) event(code uint8) c08ev {
	switch {
	case code >= 200:
		return c08ev{"Discard", 0, 0, int(code - 200)}
	case code >= 100:
		return c08ev{"Revert", 0, 0, int(code - 100)}
	}
	return g.base[code]
}

func (g *c08graph) code(e c08ev) uint8 {
	switch e.kind {
	case "Revert":
		return uint8(100 + e.v)
	case "Discard":
		return uint8(200 + e.v)
	}
	for i, b := range g.base {
		if b == e {
			return uint8(i)
		}
	}
	panic("event not in alphabet")
}

func (g *c08graph) hist(i int) []c08ev {
	n := g.nodes[i]
	h := make([]c08ev, n.depth)
	for d := int(n.depth) - 1; d >= 0; d-- {
		h[d] = g.event(n.ev)
		n = g.nodes[n.parent]
	}
	return h
}

func c08run(h []c08ev) c08m {
	m := c08initial()
	for _, e := range h {
		m = c08step(m, e)
	}
	return m
}

func c08explore(base []c08ev, depth int) (g *c08graph, perDepth []int) {
	g = &c08graph{base: base}
	seen := map[c08m]bool{}
	root := c08initial()
	seen[root] = true
	g.nodes = append(g.nodes, c08node{parent: -1})
	perDepth = []int{1}
	lo := 0
	for d := 0; d < depth; d++ {
		hi := len(g.nodes)
		for i := lo; i < hi; i++ {
			m := c08run(g.hist(i))
			for _, e := range c08enabled(&m, base) {
				m2 := c08step(m, e)
				if seen[m2] {
					continue
				}
				seen[m2] = true
				g.nodes = append(g.nodes, c08node{ev: g.code(e), depth: uint8(d + 1), parent: int32(i)})
			}
		}
		perDepth = append(perDepth, len(g.nodes)-hi)
		lo = hi
	}
	return
}

func c08names(h []c08ev, extra ...c08ev) []string {
	out := make([]string, 0, len(h)+1)
	for _, e := range h {
		out = append(out, e.String())
	}
	for _, e := range extra {
		out = append(out, e.String())
	}
	return out
}

// c08situation names what a revert/discard has to deal with (coverage classes
// and the situation part of a violation key).
func c08situation(m *c08m, e c08ev, h []c08ev) string {
	s := "top"
	if e.v < int(m.n)-1 {
		s = "outer-with-inner-live"
	}
	if m.rev > 0 {
		s += "+after-earlier-revert"
	}
	return s
}

type c08runner struct {
	r   *vh.Run
	fx  *c08fixture
	tag string
}

// transition replays h on a fresh StateDB, applies e and compares every getter.
func (c *c08runner) transition(m c08m, h []c08ev, e c08ev, replayObserve bool) {
	r := c.r
	sys := c.fx.fresh()
	cs := func(extra ...c08ev) map[string]interface{} {
		return map[string]interface{}{"alphabet": c.tag, "history": c08names(h, extra...)}
	}
	mm := c08initial()
	for i, p := range h {
		if pn := sys.apply(p); pn != "" {
			r.Violation("panic:"+p.kind, "within "+strings.Join(c08names(h), " ; ")+": "+pn, cs())
			return
		}
		mm = c08step(mm, p)
		if replayObserve {
			if !c.check(sys, &mm, p, h[:i], h[:i+1]) {
				return
			}
		}
	}
	r.Trans(1)
	r.Trace(1)
	if pn := sys.apply(e); pn != "" {
		r.Violation("panic:"+e.kind, "after "+strings.Join(c08names(h, e), " ; ")+": "+pn, cs(e))
		return
	}
	m2 := c08step(m, e)
	full := append(append([]c08ev{}, h...), e)
	if !c.check(sys, &m2, e, h, full) {
		return
	}
	// coverage classes
	switch e.kind {
	case "Revert":
		sit := c08situation(&m, e, h)
		r.Class("revert:" + sit)
		before, after := c08expect(&m.cur), c08expect(&m2.cur)
		restored := map[string]bool{}
		for i := range before {
			if before[i] != after[i] {
				restored[c08getter(before[i])] = true
			}
		}
		for g := range restored {
			r.Class("revert-restores:" + g)
		}
		if len(restored) == 0 {
			r.Class("revert-restores:nothing-changed")
		}
	case "Discard":
		r.Class("discard:" + c08situation(&m, e, h))
	case "Snapshot":
		if m.cur.sui[0] || m.cur.sui[1] {
			r.Class("snapshot:after-suicide")
		} else {
			r.Class("snapshot:depth" + strconv.Itoa(int(m.n)))
		}
	default:
		if m.n > 0 {
			r.Class("mutate-under-snapshot:" + e.kind)
		}
	}
}

// check compares the real getters with the model world after event e.
func (c *c08runner) check(sys *c08sys, m *c08m, e c08ev, before, full []c08ev) bool {
	r := c.r
	cs := map[string]interface{}{"alphabet": c.tag, "history": c08names(full)}
	got, pn := sys.observe()
	if pn != "" {
		r.Violation("panic:getter-after-"+e.kind, "after "+strings.Join(c08names(full), " ; ")+": "+pn, cs)
		return false
	}
	sit := ""
	if e.kind == "Revert" || e.kind == "Discard" {
		mb := c08initial()
		for _, p := range before {
			mb = c08step(mb, p)
		}
		sit = ":" + c08situation(&mb, e, before)
	}
	if g, d := c08diff(got, c08expect(&m.cur)); g != "" {
		r.Violation(g+":after-"+e.kind+sit, "after "+strings.Join(c08names(full), " ; ")+": "+d, cs)
		return false
	}
	if e.kind == "Revert" {
		// model-independent: equals what the real object showed when the snapshot was taken
		if g, d := c08diff(got, sys.revertObs); g != "" {
			r.Violation(g+":differs-from-snapshot-time"+sit, "after "+strings.Join(c08names(full), " ; ")+": "+d+" (second value = read when the snapshot was taken)", cs)
			return false
		}
	}
	if h := c.fx.overlay.ChangeHash(); h.ToHexString() != c.fx.hash0 {
		r.Violation("committed-state-modified:after-"+e.kind, "after "+strings.Join(c08names(full), " ; ")+": the block overlay below the transaction cache changed", cs)
		c.fx = c08newFixture()
		return false
	}
	return true
}

func TestVerif_C08(t *testing.T) {
	r := vh.Start(t, "C08", "snapshot")
	defer r.Finish()
	type pass struct {
		tag   string
		base  []c08ev
		depth int
	}
	passes := []pass{{"wide", c08wide, r.Pick(4, 6)}, {"deep", c08deep, r.Pick(7, 9)}}
	r.Rule("reachable states of the reference model (world struct + stack of copies) enumerated breadth-first per alphabet; for every state and every enabled event the state's shortest history is replayed on a fresh real StateDB (real CacheDB + ong.OngBalanceHandle over an overlay with committed state), the event applied, all 26 getters compared with the model, and after a revert also with the getter vector read on the real object when the snapshot was taken. states = model states (incl. snapshot stack) whose enabled events were all executed plus final-depth states reached; transitions = (state,event) executions; classes = revert/discard situation (top / outer with inner live / after an earlier revert), which getters a revert had to restore, mutators applied under a live snapshot")
	r.Bound(fmt.Sprintf("alphabet wide: %d mutators+Snapshot (2 addresses, 2 slots, values 0/v1/v2, nonces, 2 codes, ONG amounts 1 and 1e9, 2 logs, refund +5/-3, Suicide) + Revert/Discard of every live snapshot, depth<=%d; alphabet deep: %d symbols + Revert/Discard of every live snapshot, depth<=%d", len(c08wide), passes[0].depth, len(c08deep), passes[1].depth))
	r.Assume("SubBalance only when covered by the balance, SubRefund only when covered by the counter, Suicide only on an account with nonce or code (preconditions the EVM establishes)")
	r.Assume("committed state lives in a shared block overlay that no event writes to; its change hash is re-checked after every transition")
	c := &c08runner{r: r, fx: c08newFixture()}

	var rc struct {
		Alphabet string   `json:"alphabet"`
		History  []string `json:"history"`
	}
	if r.ReplayCase(&rc) && len(rc.History) > 0 {
		c.tag = rc.Alphabet
		var h []c08ev
		m := c08initial()
		for _, name := range rc.History {
			found := false
			for _, e := range c08enabled(&m, c08wide) {
				if e.String() == name {
					h = append(h, e)
					m = c08step(m, e)
					found = true
					break
				}
			}
			r.Need(found, "replay: event %q not enabled", name)
		}
		mm := c08initial()
		for _, p := range h[:len(h)-1] {
			mm = c08step(mm, p)
		}
		c.transition(mm, h[:len(h)-1], h[len(h)-1], true)
		r.State(1)
		return
	}

	total := 0
	done := true
	for _, p := range passes {
		c.tag = p.tag
		g, perDepth := c08explore(p.base, p.depth)
		r.Set(p.tag+"_model_states_per_depth", perDepth)
		expandable := len(g.nodes) - perDepth[len(perDepth)-1]
		for i := 0; i < expandable && done; i++ {
			if !r.Mine(total + i) {
				continue
			}
			if r.Expired() {
				done = false
				r.Set("stopped_in", fmt.Sprintf("%s at state index %d of %d", p.tag, i, expandable))
				break
			}
			h := g.hist(i)
			nm := c08run(h)
			for _, e := range c08enabled(&nm, p.base) {
				c.transition(nm, h, e, false)
			}
			r.State(1)
			if len(h) >= 3 && r.R.States%1000 == 7 {
				r.Sample(map[string]interface{}{"alphabet": p.tag, "history": c08names(h), "expected_getters": c08expect(&nm.cur)})
			}
		}
		if !done {
			break
		}
		for i := expandable; i < len(g.nodes); i++ { // final-depth states: reached and observed, not expanded
			if r.Mine(total + i) {
				r.State(1)
			}
		}
		total += len(g.nodes)
	}
	r.Eval(r.R.Traces)
	r.Sample(map[string]interface{}{"alphabet": "deep", "history": []string{"Snapshot", "SetState(A,k0,v2)", "Snapshot", "Suicide(A)", "Revert(#0)"}, "oracle": "all getters equal the model and equal the vector read when snapshot #0 was taken"})
	if r.R.NShards == 1 && done {
		for _, cl := range []string{"revert:top", "revert:outer-with-inner-live", "revert:top+after-earlier-revert", "discard:outer-with-inner-live", "snapshot:after-suicide",
			"revert-restores:GetState", "revert-restores:GetNonce", "revert-restores:GetCode", "revert-restores:GetBalance", "revert-restores:GetLogs", "revert-restores:GetRefund", "revert-restores:HasSuicided"} {
			r.NeedClass(cl)
		}
	}
	r.Need(r.R.Transitions > 0, "no transition executed")
}

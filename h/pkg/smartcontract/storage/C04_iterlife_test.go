package storage

import (
	"fmt"
	"strconv"
	"strings"
	"testing"

	scommon "github.com/ontio/ontology/core/store/common"
	"github.com/ontio/ontology/verifshim/vh"
)

// C04, unit "iterlife" — iterator lifecycles interleaved with other operations.
//
// The unit "layers" (C04_layers_test.go) walks every iterator immediately
// after creating it.  The property quantifies over ALL interleavings of
// put/delete/get/iterate, so this unit separates the two halves of an
// iteration: "open an iterator on prefix p" and "walk it" become events of
// their own and other operations are placed between them.
//
// To keep the expected result unambiguous the operations placed between the
// opening and the walk of an iterator are restricted to those that do not
// change what is visible under its prefix:
//   - Get of any key,
//   - NewIterator(q) walked at once, for any prefix q,
//   - Put / Delete through the transaction cache of a key OUTSIDE p
//     (for an iterator opened directly on the block overlay: of any key,
//     because the transaction cache is not visible through the overlay),
//   - opening or walking a second held iterator.
// The walk must then yield exactly the live keys under p of the reference
// map, which is the same at opening time and at walking time (the harness
// asserts that the two agree, as a check of its own scenario generator).
//
// Every scenario runs on FRESH real objects on which the history of a base
// state (a reachable state of the reference model of unit "layers") has been
// replayed, so all three layers hold values and tombstones.

type c04lstep struct {
	Op    string `json:"op"`              // open get put del iter walk
	Level string `json:"level,omitempty"` // open: "cache" (prefix without the ST_STORAGE byte) or "overlay" (raw prefix)
	Key   string `json:"key,omitempty"`   // strconv.QuoteToASCII of the key or prefix
	Val   string `json:"val,omitempty"`   // put
	Idx   int    `json:"idx"`             // walk: which held iterator, in opening order
}

func (s c04lstep) key() string {
	k, err := strconv.Unquote(s.Key)
	if err != nil {
		panic("bad quoted key in scenario step: " + s.Key)
	}
	return k
}

func (s c04lstep) String() string {
	switch s.Op {
	case "open":
		return "open(" + s.Level + "," + s.Key + ")"
	case "put":
		return "put(" + s.Key + "," + s.Val + ")"
	case "walk":
		return fmt.Sprintf("walk#%d", s.Idx)
	}
	return s.Op + "(" + s.Key + ")"
}

func c04stepNames(steps []c04lstep) []string {
	var out []string
	for _, s := range steps {
		out = append(out, s.String())
	}
	return out
}

// two keys longer than every key of the alphabet: one under the prefixes
// "a"/"ab"/"abc", one under "b".  A keyed operation with one of them needs a
// longer key buffer than any earlier operation.
const c04longA = "abcdefgh"
const c04longB = "bcdefghi"

// a shard stops exploring after this many violations (the run is then reported as capped)
const c04lifeMaxViol = 40

// value written by the intervening puts (differs from both values of unit "layers")
const c04lifeVal = "w333"

type c04held struct {
	level  string
	prefix string // cache level: prefix as passed to CacheDB.NewIterator; overlay level: raw prefix
	it     scommon.StoreIterator
	atOpen string // rendering of the expected result at opening time
	done   bool
}

type c04lifeRun struct {
	r       *vh.Run
	sys     *c04sys
	nk      int
	store   map[string]string
	over    map[string]string
	cache   map[string]string
	held    []*c04held
	maxKey  int // longest key handed to a keyed CacheDB operation so far (history included)
	last    string
	count   bool
	problem string // scenario not admissible (generator/replay input error), never a verdict
}

func (x *c04lifeRun) top() map[string]string { return c04merge(x.cache, x.over, x.store) }
func (x *c04lifeRun) mid() map[string]string { return c04merge(x.over, x.store) }

// expectation of an iteration at the given level
func (x *c04lifeRun) want(level, prefix string) (m map[string]string, rawPrefix string, strip int, tombs []map[string]string) {
	if level == "overlay" {
		return x.mid(), prefix, 0, []map[string]string{x.over}
	}
	return x.top(), c04raw(prefix), 1, []map[string]string{x.cache, x.over}
}

func c04render(m map[string]string, rawPrefix string, strip int) string {
	var w []string
	for _, k := range c04sorted(m, rawPrefix) {
		w = append(w, c04q(k[strip:])+"="+m[k])
	}
	return strings.Join(w, " ")
}

func (x *c04lifeRun) noteKey(k string) {
	if x.count {
		if len(k) > x.maxKey {
			x.r.Class("held:intervening-key-longer-than-every-earlier-key")
		} else {
			x.r.Class("held:intervening-key-fits-earlier-key-length")
		}
		for _, h := range x.held {
			if h.done || h.level != "cache" {
				continue
			}
			switch {
			case len(k) < len(h.prefix):
				x.r.Class("held:intervening-key-shorter-than-prefix")
			case len(k) > len(h.prefix):
				x.r.Class("held:intervening-key-longer-than-prefix")
			default:
				x.r.Class("held:intervening-key-as-long-as-prefix")
			}
			switch {
			case strings.HasPrefix(k, h.prefix):
				x.r.Class("held:intervening-key-under-prefix")
			case k < h.prefix:
				x.r.Class("held:intervening-key-below-prefix")
			default:
				x.r.Class("held:intervening-key-above-prefix")
			}
		}
	}
	if len(k) > x.maxKey {
		x.maxKey = len(k)
	}
}

func (x *c04lifeRun) anyHeld() bool {
	for _, h := range x.held {
		if !h.done {
			return true
		}
	}
	return false
}

// step executes one scenario step on the real objects and on the reference
// maps; a difference is returned as (violation key, detail).
func (x *c04lifeRun) step(s c04lstep) (string, string) {
	heldBefore := x.anyHeld()
	defer func() { x.last = s.Op }()
	switch s.Op {
	case "open":
		p := s.key()
		h := &c04held{level: s.Level, prefix: p}
		var pn string
		if s.Level == "overlay" {
			pn = vh.Catch(func() { h.it = x.sys.over.NewIterator([]byte(p)) })
		} else {
			if heldBefore {
				x.noteKey(p)
			} else if len(p) > x.maxKey {
				x.maxKey = len(p)
			}
			pn = vh.Catch(func() { h.it = x.sys.cache.NewIterator([]byte(p)) })
		}
		if pn != "" {
			return "held-iterator:open:panic", fmt.Sprintf("%s.NewIterator(%s) panicked: %s", s.Level, s.Key, pn)
		}
		m, rp, strip, _ := x.want(h.level, h.prefix)
		h.atOpen = c04render(m, rp, strip)
		if x.count && heldBefore {
			x.r.Class("held:across-open-of-second-iterator")
		}
		x.held = append(x.held, h)
	case "get":
		k := s.key()
		if heldBefore {
			x.noteKey(k)
		}
		var got []byte
		var err error
		if pn := vh.Catch(func() { got, err = x.sys.cache.Get([]byte(k)) }); pn != "" {
			return "held-iterator:during:cache.Get:panic", fmt.Sprintf("cache.Get(%s) panicked: %s", s.Key, pn)
		}
		want, present := x.top()[c04raw(k)]
		if vk, d := c04cmpGet("cache", s.Key, got, err, want, present); vk != "" {
			return "held-iterator:during:" + vk, d
		}
		if x.count && heldBefore {
			x.r.Class("held:across-get")
		}
	case "put", "del":
		k := s.key()
		for _, h := range x.held {
			if !h.done && h.level == "cache" && strings.HasPrefix(k, h.prefix) {
				x.problem = fmt.Sprintf("%s changes the contents under the prefix %s of a held iterator: the expected result of its walk is not defined by the property", s.String(), c04q(h.prefix))
				return "", ""
			}
		}
		if heldBefore {
			x.noteKey(k)
		}
		var pn string
		if s.Op == "put" {
			pn = vh.Catch(func() { x.sys.cache.Put([]byte(k), []byte(s.Val)) })
			x.cache[c04raw(k)] = s.Val
		} else {
			pn = vh.Catch(func() { x.sys.cache.Delete([]byte(k)) })
			x.cache[c04raw(k)] = ""
		}
		if pn != "" {
			return "held-iterator:during:" + s.Op + ":panic", fmt.Sprintf("cache.%s panicked: %s", s.String(), pn)
		}
		if x.count && heldBefore {
			x.r.Class("held:across-" + s.Op + "-outside-prefix")
		}
	case "iter":
		q := s.key()
		if heldBefore {
			x.noteKey(q)
		}
		var it scommon.StoreIterator
		if pn := vh.Catch(func() { it = x.sys.cache.NewIterator([]byte(q)) }); pn != "" {
			return "held-iterator:during:cache.Iter:panic", fmt.Sprintf("cache.NewIterator(%s) panicked: %s", s.Key, pn)
		}
		gk, gv, prob := c04drain(it)
		m, rp, strip, tombs := x.want("cache", q)
		if vk, d := c04cmpIter("cache", s.Key, gk, gv, prob, m, rp, strip, tombs); vk != "" {
			return "held-iterator:during:" + vk, d
		}
		if x.count && heldBefore {
			x.r.Class("held:across-complete-iteration-of-another-iterator")
		}
	case "walk":
		if s.Idx < 0 || s.Idx >= len(x.held) || x.held[s.Idx].done {
			x.problem = "walk of an iterator that is not open: " + s.String()
			return "", ""
		}
		h := x.held[s.Idx]
		h.done = true
		gk, gv, prob := c04drain(h.it)
		m, rp, strip, tombs := x.want(h.level, h.prefix)
		if now := c04render(m, rp, strip); now != h.atOpen {
			x.problem = fmt.Sprintf("the reference contents under %s changed between opening [%s] and walk [%s]", c04q(h.prefix), h.atOpen, now)
			return "", ""
		}
		if vk, d := c04cmpIter(h.level, c04q(h.prefix), gk, gv, prob, m, rp, strip, tombs); vk != "" {
			return "held-iterator:" + vk, fmt.Sprintf("iterator #%d, opened earlier, walked right after a %s step: %s", s.Idx, x.last, d)
		}
		if x.count {
			if x.last == "walk" {
				x.r.Class("held:across-walk-of-second-iterator")
			}
			if s.Idx+1 < len(x.held) && !x.held[s.Idx+1].done {
				x.r.Class("held:two-open-walked-in-opening-order")
			}
			if s.Idx > 0 && !x.held[s.Idx-1].done {
				x.r.Class("held:two-open-walked-in-reverse-order")
			}
			mem := x.cache
			below := x.mid()
			tag := "held-cacheiter"
			if h.level == "overlay" {
				mem, below, tag = x.over, x.store, "held-overlayiter"
			}
			x.classify(tag, rp, mem, below)
		}
	default:
		x.problem = "unknown step " + s.Op
	}
	return "", ""
}

// classify names what the walk of a held iterator had to merge (coverage classes only).
func (x *c04lifeRun) classify(tag, rawPrefix string, mem, below map[string]string) {
	mk, bk := c04sorted(mem, rawPrefix), c04sorted(below, rawPrefix)
	live, tombOver, both := false, false, false
	for _, k := range mk {
		_, inBack := below[k]
		if mem[k] != "" {
			live = true
			if inBack {
				both = true
			}
		} else if inBack {
			tombOver = true
		}
	}
	switch {
	case len(mk) == 0 && len(bk) == 0:
		x.r.Class(tag + ":nothing-under-prefix")
	case len(mk) == 0:
		x.r.Class(tag + ":only-lower-layers-under-prefix")
	}
	if live {
		x.r.Class(tag + ":memory-layer-holds-live-key-under-prefix")
	}
	if tombOver {
		x.r.Class(tag + ":memory-layer-tombstone-hides-lower-key")
	}
	if both {
		x.r.Class(tag + ":memory-layer-overrides-lower-value")
	}
	// entries of the memory layer outside the prefix (what a wrong range would pick up)
	for k := range mem {
		if !strings.HasPrefix(k, rawPrefix) {
			if k < rawPrefix {
				x.r.Class(tag + ":memory-layer-entry-below-prefix")
			} else {
				x.r.Class(tag + ":memory-layer-entry-above-prefix")
			}
		}
	}
}

// finalReads: after the lifecycle every point read and a complete iteration
// must still agree with the reference map.
func (x *c04lifeRun) finalReads(keys []string) (string, string) {
	top := x.top()
	for _, k := range keys {
		var got []byte
		var err error
		if pn := vh.Catch(func() { got, err = x.sys.cache.Get([]byte(k)) }); pn != "" {
			return "held-iterator:afterwards:cache.Get:panic", fmt.Sprintf("cache.Get(%s) panicked: %s", c04q(k), pn)
		}
		want, present := top[c04raw(k)]
		if vk, d := c04cmpGet("cache", c04q(k), got, err, want, present); vk != "" {
			return "held-iterator:afterwards:" + vk, d
		}
	}
	var it scommon.StoreIterator
	if pn := vh.Catch(func() { it = x.sys.cache.NewIterator(nil) }); pn != "" {
		return "held-iterator:afterwards:cache.Iter:panic", "cache.NewIterator(nil) panicked: " + pn
	}
	gk, gv, prob := c04drain(it)
	m, rp, strip, tombs := x.want("cache", "")
	if vk, d := c04cmpIter("cache", `""`, gk, gv, prob, m, rp, strip, tombs); vk != "" {
		return "held-iterator:afterwards:" + vk, d
	}
	return "", ""
}

// ---------------------------------------------------------------- scenarios

func c04lq(s string) string { return strconv.QuoteToASCII(s) }

type c04lifeBounds struct {
	nk          int
	cacheSingle int // longest sequence of intervening operations, one held cache iterator
	overSingle  int // the same, one held overlay iterator
	pair        int // two held cache iterators
	mixed       int // one held cache iterator and one held overlay iterator
}

func c04lifePrefixes(nk int) []string {
	var ps []string
	for _, p := range c04cachePrefixes {
		if p == "a\xff" && nk < 5 { // no key of the alphabet is under it: the same situation as prefix "c"
			continue
		}
		ps = append(ps, p)
	}
	return ps
}

func c04lifeOverlayPrefixes() []string {
	return []string{string([]byte{c04ST}), c04raw("a"), c04raw("b")}
}

func c04lifeGetKeys(nk int) []string {
	ks := append([]string{""}, c04keys[:nk]...)
	return append(ks, "c", c04longA, c04longB)
}

func c04lifeWriteKeys(nk int) []string {
	ks := append([]string{}, c04keys[:nk]...)
	return append(ks, c04longA, c04longB)
}

// c04lifeOps: the operations that may stand between the opening and the walk
// of iterators held on the given cache-level prefixes.
func c04lifeOps(nk int, heldCachePrefixes []string) []c04lstep {
	var ops []c04lstep
	for _, k := range c04lifeGetKeys(nk) {
		ops = append(ops, c04lstep{Op: "get", Key: c04lq(k)})
	}
	for _, q := range c04lifePrefixes(nk) {
		ops = append(ops, c04lstep{Op: "iter", Key: c04lq(q)})
	}
	for _, k := range c04lifeWriteKeys(nk) {
		outside := true
		for _, p := range heldCachePrefixes {
			if strings.HasPrefix(k, p) {
				outside = false
			}
		}
		if outside {
			ops = append(ops, c04lstep{Op: "put", Key: c04lq(k), Val: c04lifeVal}, c04lstep{Op: "del", Key: c04lq(k)})
		}
	}
	return ops
}

func c04seqs(ops []c04lstep, minLen, maxLen int, f func(seq []c04lstep)) {
	var rec func(cur []c04lstep)
	rec = func(cur []c04lstep) {
		if len(cur) >= minLen {
			f(cur)
		}
		if len(cur) == maxLen {
			return
		}
		for _, o := range ops {
			rec(append(cur[:len(cur):len(cur)], o))
		}
	}
	rec(nil)
}

func c04cat(parts ...[]c04lstep) []c04lstep {
	var out []c04lstep
	for _, p := range parts {
		out = append(out, p...)
	}
	return out
}

// c04lifeScenarios enumerates all lifecycles within the bounds (the same set for every base state).
func c04lifeScenarios(b c04lifeBounds) [][]c04lstep {
	var out [][]c04lstep
	open := func(level, p string) c04lstep { return c04lstep{Op: "open", Level: level, Key: c04lq(p)} }
	walk := func(i int) c04lstep { return c04lstep{Op: "walk", Idx: i} }
	ps := c04lifePrefixes(b.nk)
	// one held cache iterator, 1..n intervening operations
	for _, p := range ps {
		c04seqs(c04lifeOps(b.nk, []string{p}), 1, b.cacheSingle, func(seq []c04lstep) {
			out = append(out, c04cat([]c04lstep{open("cache", p)}, seq, []c04lstep{walk(0)}))
		})
	}
	// one held overlay iterator; every cache operation leaves the overlay's contents alone
	for _, rp := range c04lifeOverlayPrefixes() {
		c04seqs(c04lifeOps(b.nk, nil), 1, b.overSingle, func(seq []c04lstep) {
			out = append(out, c04cat([]c04lstep{open("overlay", rp)}, seq, []c04lstep{walk(0)}))
		})
	}
	// two held cache iterators on different prefixes, walked in both orders
	for _, p1 := range ps {
		for _, p2 := range ps {
			if p1 == p2 {
				continue
			}
			c04seqs(c04lifeOps(b.nk, []string{p1, p2}), 0, b.pair, func(seq []c04lstep) {
				for _, order := range [][2]int{{0, 1}, {1, 0}} {
					out = append(out, c04cat([]c04lstep{open("cache", p1), open("cache", p2)}, seq, []c04lstep{walk(order[0]), walk(order[1])}))
				}
			})
		}
	}
	// a held cache iterator and a held overlay iterator, opened and walked in both orders
	for _, p := range ps {
		for _, rp := range c04lifeOverlayPrefixes() {
			c04seqs(c04lifeOps(b.nk, []string{p}), 0, b.mixed, func(seq []c04lstep) {
				for _, opens := range [][]c04lstep{{open("cache", p), open("overlay", rp)}, {open("overlay", rp), open("cache", p)}} {
					for _, order := range [][2]int{{0, 1}, {1, 0}} {
						out = append(out, c04cat(opens, seq, []c04lstep{walk(order[0]), walk(order[1])}))
					}
				}
			})
		}
	}
	return out
}

// ---------------------------------------------------------------- execution

// c04lifeCase replays the base history on fresh real layers and runs one lifecycle.
// It returns false when the objects must not be reused (violation).
func c04lifeCase(r *vh.Run, pool *c04pool, nk int, mask uint8, st c04state, evs []c04event, hist []c04event, steps []c04lstep, count bool) bool {
	sys, pe := c04build(pool, int(mask), nk)
	ok := false
	writes := 0
	ms := c04initial(int(mask), nk)
	maxKey := 0
	for _, e := range hist {
		if e.kind == "ocommit" {
			for k := 0; k < nk; k++ {
				if ms.over[k] != c04None {
					writes++
				}
			}
		}
		if (e.kind == "put" || e.kind == "del") && len(c04keys[e.k]) > maxKey {
			maxKey = len(c04keys[e.k])
		}
		ms = c04step(ms, e, nk)
	}
	if ms != st {
		panic("harness: base history does not lead to the base state")
	}
	defer func() { pool.release(pe, st.store, writes, ok) }()
	histNames := func() []string {
		out := []string{fmt.Sprintf("prepop:%d", mask)}
		for _, e := range hist {
			out = append(out, e.String())
		}
		return out
	}
	cs := func() map[string]interface{} {
		return map[string]interface{}{"history": histNames(), "lifecycle": steps}
	}
	for _, e := range hist {
		if p := sys.apply(e); p != "" {
			r.Violation("panic:"+e.kind, "within "+strings.Join(histNames(), " ; ")+": "+p, map[string]interface{}{"history": histNames()})
			return false
		}
	}
	x := &c04lifeRun{r: r, sys: sys, nk: nk, maxKey: maxKey, count: count}
	x.store, x.over, x.cache = c04maps(st, nk)
	r.Trace(1)
	for i, s := range steps {
		vk, d := x.step(s)
		if x.problem != "" {
			for _, h := range x.held {
				if !h.done {
					h.it.Release()
				}
			}
			r.Need(false, "scenario %v is not admissible: %s", c04stepNames(steps), x.problem)
			return false
		}
		r.Trans(1)
		if vk != "" {
			for _, h := range x.held {
				if !h.done {
					vh.Catch(func() { h.it.Release() })
				}
			}
			r.Violation(vk, "after "+strings.Join(histNames(), " ; ")+" then "+strings.Join(c04stepNames(steps[:i+1]), " ; ")+": "+d, cs())
			return false
		}
	}
	for _, h := range x.held {
		if !h.done {
			r.Need(false, "scenario %v leaves an iterator open", c04stepNames(steps))
			h.it.Release()
			return false
		}
	}
	if vk, d := x.finalReads(c04lifeGetKeys(nk)); vk != "" {
		r.Violation(vk, "after "+strings.Join(histNames(), " ; ")+" then "+strings.Join(c04stepNames(steps), " ; ")+": "+d, cs())
		return false
	}
	ok = true
	return true
}

func TestVerif_C04_iterlife(t *testing.T) {
	r := vh.Start(t, "C04", "iterlife")
	defer r.Finish()
	// Two passes per tier: a wide set of base states with short lifecycles, and the
	// shallower base states with longer lifecycles (the lifecycles of an earlier
	// pass are a subset of those of a later pass, so a later pass skips nothing
	// and an earlier pass starts at the first depth the later passes do not reach).
	type pass struct {
		from, to int // base states of depth from..to
		b        c04lifeBounds
	}
	nk := 4
	passes := []pass{
		{2, 2, c04lifeBounds{nk: nk, cacheSingle: 1, overSingle: 1, pair: 0, mixed: 0}},
		{0, 1, c04lifeBounds{nk: nk, cacheSingle: 2, overSingle: 1, pair: 1, mixed: 0}},
	}
	if r.Thorough() {
		passes = []pass{
			{3, 3, c04lifeBounds{nk: nk, cacheSingle: 1, overSingle: 1, pair: 0, mixed: 0}},
			{2, 2, c04lifeBounds{nk: nk, cacheSingle: 2, overSingle: 2, pair: 1, mixed: 1}},
			{0, 1, c04lifeBounds{nk: nk, cacheSingle: 2, overSingle: 2, pair: 2, mixed: 1}},
		}
	}
	r.Rule("iterator lifecycles: 'open an iterator on prefix p' and 'walk it' are separate events with other operations between them, restricted to operations that leave the contents under p unchanged (Get of any key; NewIterator+walk of any prefix; Put/Delete of keys outside p; opening/walking a second held iterator). Every lifecycle is run on fresh real CacheDB/OverlayDB objects over LevelDB(mem) on which the shortest history of a base state (reachable state of the three-layer reference model of unit layers) was replayed; the walk must equal the live keys under p of the merged reference maps, every intervening read must be right, and afterwards all point reads and a complete iteration must be right. states = base states, traces = lifecycles run, transitions = lifecycle steps run on the real code")
	pool := &c04pool{max: 4}

	var rc struct {
		History   []string   `json:"history"`
		Lifecycle []c04lstep `json:"lifecycle"`
	}
	if r.IsReplay() {
		if !r.ReplayCase(&rc) || len(rc.Lifecycle) == 0 || len(rc.History) == 0 {
			return // a case of another unit
		}
		mask, _ := strconv.Atoi(strings.TrimPrefix(rc.History[0], "prepop:"))
		nkr := c04MaxK
		all := c04events(nkr)
		var hist []c04event
		st := c04initial(mask, nkr)
		for _, name := range rc.History[1:] {
			found := false
			for _, e := range all {
				if e.String() == name {
					hist = append(hist, e)
					st = c04step(st, e, nkr)
					found = true
					break
				}
			}
			r.Need(found, "replay: unknown history event %q", name)
		}
		c04lifeCase(r, pool, nkr, uint8(mask), st, all, hist, rc.Lifecycle, true)
		r.State(1)
		r.Eval(1)
		return
	}

	evs := c04events(nk)
	maxDepth := 0
	for _, ps := range passes {
		if ps.to > maxDepth {
			maxDepth = ps.to
		}
	}
	g, perDepth := c04explore(nk, maxDepth)
	r.Set("iterlife_base_states_per_depth", perDepth)
	firstOfDepth := []int{0}
	for _, n := range perDepth {
		firstOfDepth = append(firstOfDepth, firstOfDepth[len(firstOfDepth)-1]+n)
	}
	var bound []string
	var perPass []int
	scens := make([][][]c04lstep, len(passes))
	for pi, ps := range passes {
		scens[pi] = c04lifeScenarios(ps.b)
		perPass = append(perPass, len(scens[pi]))
		bound = append(bound, fmt.Sprintf("pass %d: the %d base states of depth %d..%d, %d lifecycles each: one held cache iterator with 1..%d intervening operations, one held overlay iterator with 1..%d, two held cache iterators on different prefixes (both opening orders, both walking orders) with 0..%d, a held cache and a held overlay iterator (both opening and walking orders) with 0..%d",
			pi+1, firstOfDepth[ps.to+1]-firstOfDepth[ps.from], ps.from, ps.to, len(scens[pi]), ps.b.cacheSingle, ps.b.overSingle, ps.b.pair, ps.b.mixed))
	}
	r.Set("iterlife_lifecycles_per_base_state", perPass)
	r.Bound(fmt.Sprintf("base states: reference states over keys=%q from all %d store pre-populations; held cache prefixes %q, held overlay raw prefixes %q; intervening operations: Get of %q, NewIterator+walk of every cache prefix, Put(%s)/Delete of those of the keys %q that lie outside the held cache prefixes; %s",
		c04keys[:nk], 1<<uint(nk), c04lifePrefixes(nk), c04lifeOverlayPrefixes(), c04lifeGetKeys(nk), c04lifeVal, c04lifeWriteKeys(nk), strings.Join(bound, "; ")))
	r.Assume("operations that change what is visible under the prefix of a held iterator (writes under the prefix, cache commit/reset, overlay commit) are not placed between its opening and its walk: the property does not say whether such an iterator sees them")
	r.Assume("goleveldb (memory storage) is trusted as the persistent store; store objects are recycled between lifecycles (no lifecycle writes to the store)")
	item := 0
loop:
	for pi, ps := range passes {
		for i := firstOfDepth[ps.from]; i < firstOfDepth[ps.to+1]; i++ {
			item++
			if !r.Mine(item) {
				continue
			}
			if r.Expired() {
				r.Set("iterlife_stopped_at", fmt.Sprintf("pass %d base state %d", pi+1, i))
				break loop
			}
			n := g.nodes[i]
			var hist []c04event
			for _, h := range g.hist(i) {
				hist = append(hist, evs[h])
			}
			for _, steps := range scens[pi] {
				if !c04lifeCase(r, pool, nk, n.mask, n.st, evs, hist, steps, true) {
					// a violation: go on with the next base state; give up after c04lifeMaxViol of them
					if r.R.NViolations >= c04lifeMaxViol {
						r.Capped(fmt.Sprintf("stopped after %d violations", r.R.NViolations))
						break loop
					}
					break
				}
			}
			r.State(1)
			if r.R.States == 2 {
				r.Sample(map[string]interface{}{"history": c04histNames(n.mask, g.hist(i), evs), "lifecycle": c04stepNames(scens[pi][len(scens[pi])/2])})
			}
		}
	}
	r.Eval(r.R.Traces)
	r.Set("iterlife_stores_opened", pool.made)
	r.Need(r.R.Traces > 0, "no lifecycle executed")
}

package test

// C15 — mutation histories on ONE map inside one invocation.  The maporder part
// builds a map with SETITEMs and applies one operation; "all NeoVM programs
// manipulating maps" also covers programs that keep using a map after they
// changed it (a key list / order a map value remembers from an earlier use must
// not leak Go's iteration order into a later result).  This part enumerates
// EVERY sequence of <= L map operations (at most one of them an order-consuming
// read K / V / Z, see c15mutMaxReads; sequences containing Z have <= L-1 steps) over the alphabet
//
//	S<k>  DUP k v SETITEM   (k in a..e; v = 1 + position of the step, so overwrites are visible)
//	R<k>  DUP k REMOVE      (k in a..e; present and absent keys)
//	K V Z DUP KEYS|VALUES|Runtime.Serialize DROP   (a first use of the map's key order)
//	H     DUP "c" HASKEY DROP
//
// applied to each of the initial maps
//
//	empty   NEWMAP
//	asc3    b, c, d inserted in ascending order
//	desc3   d, c, b inserted in descending order
//	mid3    c, b, d
//	deser3  Runtime.Deserialize of the (constant) serialization of {b,c,d}
//
// followed by ONE final observation (KEYS / VALUES / Runtime.Serialize / HASKEY c),
// and runs each program in the real NeoVmService under every combination of
// iteration orders at every range-over-map (vnd).  Oracle as in the maporder
// part: all executions of one program give the same outcome.

import (
	"fmt"
	"sort"
	"strings"
	"time"

	"github.com/ontio/ontology/verifshim/vh"
	"github.com/ontio/ontology/verifshim/vnd"
	"github.com/ontio/ontology/vm/neovm"
)

var (
	c15mutKeys   = []string{"a", "b", "c", "d", "e"}
	c15mutInits  = []string{"empty", "asc3", "desc3", "mid3", "deser3"}
	c15mutFinals = []string{"keys", "values", "serialize", "haskey"}
)

// c15mutAlphabet: the step tokens.  full: SETITEM / REMOVE of every key a..e; otherwise (the 4-step layer of the thorough tier)
// SETITEM of a (new smallest key), c (overwrite), e (new largest key) and REMOVE of a (absent), b (first), c (middle), d (last).
func c15mutAlphabet(full bool) []string {
	setKeys, removeKeys := c15mutKeys, c15mutKeys
	if !full {
		setKeys, removeKeys = []string{"a", "c", "e"}, []string{"a", "b", "c", "d"}
	}
	var al []string
	for _, k := range setKeys {
		al = append(al, "S"+k)
	}
	for _, k := range removeKeys {
		al = append(al, "R"+k)
	}
	return append(al, "K", "V", "Z", "H")
}

// c15mutMaxReads: at most this many of the steps BEFORE the final observation are order-consuming reads (K, V, Z): every such read
// multiplies the number of executions of the program by the number of orders (squared for Z: cycle detector and key list).
const c15mutMaxReads = 1

// c15mutCap: executions per program; the largest program (Z on 5 entries, then Serialize: 12^2 x 12^2) needs 20736
const c15mutCap = 50000

func c15mutName(init string, seq []string, final string) string {
	return init + "|" + strings.Join(seq, ",") + "|" + final
}

// c15mutBuild: the bytecode of one program; ok=false for a malformed name (replay)
func c15mutBuild(init string, seq []string, final string) (p c15prog, ok bool) {
	var b []byte
	set := func(k string, v int) {
		c15push(&b, byte(neovm.DUP))
		c15key(&b, k)
		c15push(&b, byte(neovm.PUSH1)+byte(v-1), byte(neovm.SETITEM))
	}
	if init != "deser3" {
		c15push(&b, byte(neovm.NEWMAP))
	}
	switch init {
	case "empty":
	case "deser3":
		// the serialization of {b:9, c:10, d:11} (what Runtime.Serialize gives for asc3) as a constant: no iteration while the initial map is built
		c15key(&b, "\x82\x03\x00\x01b\x02\x01\x09\x00\x01c\x02\x01\x0a\x00\x01d\x02\x01\x0b")
		c15syscall(&b, "System.Runtime.Deserialize")
	case "asc3":
		set("b", 9)
		set("c", 10)
		set("d", 11)
	case "desc3":
		set("d", 11)
		set("c", 10)
		set("b", 9)
	case "mid3":
		set("c", 10)
		set("b", 9)
		set("d", 11)
	default:
		return p, false
	}
	for i, s := range seq {
		if len(s) == 0 {
			return p, false
		}
		switch s[0] {
		case 'S', 'R':
			if len(s) != 2 || !strings.Contains("abcde", s[1:]) {
				return p, false
			}
			if s[0] == 'S' {
				set(s[1:], i+1)
			} else {
				c15push(&b, byte(neovm.DUP))
				c15key(&b, s[1:])
				c15push(&b, byte(neovm.REMOVE))
			}
		case 'K':
			c15push(&b, byte(neovm.DUP), byte(neovm.KEYS), byte(neovm.DROP))
		case 'V':
			c15push(&b, byte(neovm.DUP), byte(neovm.VALUES), byte(neovm.DROP))
		case 'Z':
			c15push(&b, byte(neovm.DUP))
			c15syscall(&b, "System.Runtime.Serialize")
			c15push(&b, byte(neovm.DROP))
		case 'H':
			c15push(&b, byte(neovm.DUP))
			c15key(&b, "c")
			c15push(&b, byte(neovm.HASKEY), byte(neovm.DROP))
		default:
			return p, false
		}
	}
	switch final {
	case "keys":
		c15push(&b, byte(neovm.KEYS))
	case "values":
		c15push(&b, byte(neovm.VALUES))
	case "serialize":
		c15syscall(&b, "System.Runtime.Serialize")
	case "haskey":
		c15key(&b, "c")
		c15push(&b, byte(neovm.HASKEY))
	default:
		return p, false
	}
	return c15prog{name: c15mutName(init, seq, final), code: b}, true
}

// c15mutModel: the boring reference of the key set; returns the history class of the sequence and the number of entries at the end
func c15mutModel(init string, seq []string) (class string, entries int) {
	present := map[string]bool{}
	if init != "empty" {
		present["b"], present["c"], present["d"] = true, true, true
	}
	rank := 0 // build-only < reads < set < remove-absent < remove-existing
	up := func(n int) {
		if n > rank {
			rank = n
		}
	}
	for _, s := range seq {
		switch s[0] {
		case 'S':
			present[s[1:]] = true
			up(2)
		case 'R':
			if present[s[1:]] {
				delete(present, s[1:])
				up(4)
			} else {
				up(3)
			}
		default:
			up(1)
		}
	}
	return []string{"build-only", "reads", "set", "remove-absent", "remove-existing"}[rank], len(present)
}

func c15mutations(r *vh.Run, replay bool, rc c15case) {
	maxLen := r.Pick(3, 4)
	// sequences with a Runtime.Serialize step (two ranges: cycle detector and key list, so the number of executions is squared) are shorter
	zMaxLen := r.Pick(2, 3)
	t0 := time.Now()
	defer func() { r.Set("mutations_wall_s", time.Since(t0).Seconds()) }()
	if replay {
		if rc.Unit != "mutation" {
			return
		}
		parts := strings.Split(rc.Name, "|")
		r.Need(len(parts) == 3, "replay: malformed mutation program name %q", rc.Name)
		if len(parts) != 3 {
			return
		}
		var seq []string
		if parts[1] != "" {
			seq = strings.Split(parts[1], ",")
		}
		p, ok := c15mutBuild(parts[0], seq, parts[2])
		r.Need(ok, "replay: malformed mutation program name %q", rc.Name)
		if !ok {
			return
		}
		st, _ := vnd.Explore(func() string { return c15exec(p) }, c15mutCap)
		var outs []string
		for o, ch := range st.Outcomes {
			outs = append(outs, fmt.Sprintf("orders %v -> %.160s", ch, o))
		}
		sort.Strings(outs)
		r.Sample(map[string]interface{}{"program": p.name, "code": fmt.Sprintf("%x", p.code), "outcome-under-stored-orders": vnd.Replay(func() string { return c15exec(p) }, rc.Choices), "outcomes-over-all-orders": outs})
		if len(st.Outcomes) > 1 {
			class, _ := c15mutModel(parts[0], seq)
			r.Violationf("order-dependent:"+parts[2]+":map-after-"+class, rc, "program %s (%x): %d different outcomes over %d executions: %s", p.name, p.code, len(st.Outcomes), st.Executions, strings.Join(outs, " || "))
		}
		return
	}

	var programs, choicePoints int64
	reported := map[string]bool{}
	idx := 0
	for _, init := range c15mutInits {
		for n := 0; n <= maxLen; n++ {
			al := c15mutAlphabet(n <= 3)
			radix := make([]int, n)
			for i := range radix {
				radix[i] = len(al)
			}
			stop := false
			visit := func(d []int) bool {
				reads, zAt := 0, -1
				for i, x := range d {
					if strings.Contains("KVZ", al[x]) {
						reads++
					}
					if al[x] == "Z" {
						zAt = i
					}
				}
				if reads > c15mutMaxReads {
					return true
				}
				if zAt >= 0 && len(d) > zMaxLen {
					return true
				}
				idx++
				if !r.Mine(idx) {
					return true
				}
				if r.Expired() {
					stop = true
					return false
				}
				seq := make([]string, len(d))
				for i, x := range d {
					seq[i] = al[x]
				}
				class, entries := c15mutModel(init, seq)
				for _, final := range c15mutFinals {
					p, _ := c15mutBuild(init, seq, final)
					st, capped := vnd.Explore(func() string { return c15exec(p) }, c15mutCap)
					programs++
					choicePoints += st.ChoicePoints
					r.Trace(st.Executions)
					r.Eval(st.Executions)
					r.Trans(st.ChoicePoints)
					r.State(st.ChoicePoints + 1)
					if capped {
						r.Capped("execution cap for program " + p.name)
					}
					var first string
					var outs []string
					var wit []int
					var os []string
					for o := range st.Outcomes {
						os = append(os, o)
					}
					sort.Strings(os)
					for _, o := range os {
						outs = append(outs, fmt.Sprintf("orders %v -> %.160s", st.Outcomes[o], o))
						if len(st.Outcomes[o]) > 0 { // stored witness: the orders giving the last outcome that is not the all-default execution
							wit = st.Outcomes[o]
						}
					}
					if len(os) > 0 {
						first = os[0]
					}
					r.Need(len(st.Outcomes) >= 1, "no outcome for %s", p.name)
					r.Class("mutation:" + final + ":" + c15cls(first))
					r.Class("mutation-history:" + class)
					if entries >= 2 {
						r.Class("mutation-history:" + class + ":>=2-entries-left")
					}
					if idx%997 == 0 && final == "keys" {
						r.Sample(map[string]interface{}{"program": p.name, "code": fmt.Sprintf("%x", p.code), "executions": st.Executions, "outcome": first})
					}
					if len(st.Outcomes) > 1 {
						key := "order-dependent:" + final + ":map-after-" + class
						if reported[key] { // one report (the shortest, first enumerated sequence) per class and shard
							continue
						}
						reported[key] = true
						r.Violationf(key, c15case{"mutation", p.name, wit}, "program %s (%x; initial map %s, then %v, then %s): %d different outcomes over %d executions: %s", p.name, p.code, init, seq, final, len(st.Outcomes), st.Executions, strings.Join(outs, " || "))
					}
				}
				return true
			}
			if n == 0 {
				visit(nil)
			} else {
				vh.Odometer(radix, visit)
			}
			if stop {
				return
			}
		}
	}
	r.Add("mutation_programs", programs)
	r.Need(programs == 0 || choicePoints > 0, "mutation histories: %d programs executed but no range-over-map choice point was visited (instrumentation not effective)", programs)
}

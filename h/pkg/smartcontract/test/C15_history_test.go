package test

// C15 — histories: "running the same contract invocation on the same state any
// number of times yields the same ... result" also has to hold when OTHER
// invocations ran in the same process in between (a node executes one
// transaction after another, every one in a fresh engine).  The maporder part
// runs every program in isolation; this part runs every ordered history
// (A), (A,B), (A1,A2,B) over an alphabet of programs — among them programs
// whose Runtime.Serialize fails INSIDE a map entry (interop handle, output
// over MAX_BYTEARRAY_SIZE, over-deep entry) — in ONE process and demands
// that the last program's outcome equals its outcome as the very first
// execution of a fresh process (computed by re-executing the test binary),
// under the default iteration order and under every iteration order (vnd).
//
// Determinism of the harness: process-wide caches that the garbage collector
// may empty (sync.Pool) are part of the history's state, therefore the
// histories run on one P (GOMAXPROCS(1)) with the collector switched off, and
// every history starts with two explicit collections (which empty every
// sync.Pool including its victim cache).  The same history therefore gives
// the same verdict in every run and on replay.

import (
	"crypto/sha256"
	"fmt"
	"io/ioutil"
	"os"
	"os/exec"
	"path/filepath"
	"runtime"
	"runtime/debug"
	"sort"
	"strings"
	"time"

	"github.com/ontio/ontology/verifshim/vh"
	"github.com/ontio/ontology/verifshim/vnd"
	"github.com/ontio/ontology/vm/neovm"
)

const (
	c15envFresh    = "VERIF_C15_FRESH"
	c15envFreshOut = "VERIF_C15_FRESH_OUT"
)

// c15valueH: the additional entry kinds of the history alphabet.
//
//	B  a byte string of exactly MAX_BYTEARRAY_SIZE (1 MiB): legal as a value, but any serialization containing it exceeds the limit
//	I  an interop handle (the script container), which Serialize refuses
//	X  a nested map {x:1, y:2}
func c15valueH(b *[]byte, kind string) bool {
	switch kind {
	case "B":
		c15push(b, 32)
		for i := 0; i < 32; i++ {
			c15push(b, byte(i))
		}
		for i := 0; i < 15; i++ { // 32 << 15 = 1 MiB
			c15push(b, byte(neovm.DUP), byte(neovm.CAT))
		}
	case "I":
		c15syscall(b, "System.ExecutionEngine.GetScriptContainer")
	case "X":
		c15push(b, byte(neovm.NEWMAP))
		c15push(b, byte(neovm.DUP))
		c15key(b, "x")
		c15push(b, byte(neovm.PUSH1), byte(neovm.SETITEM))
		c15push(b, byte(neovm.DUP))
		c15key(b, "y")
		c15push(b, byte(neovm.PUSH2), byte(neovm.SETITEM))
	default:
		return false
	}
	return true
}

// c15compact keeps outcomes comparable but small (a notified 1 MiB value is 2 MiB of hex)
func c15compact(s string) string {
	if len(s) <= 600 {
		return s
	}
	return fmt.Sprintf("%s...[%d bytes, sha256 %x]", s[:300], len(s), sha256.Sum256([]byte(s)))
}

func c15execH(p c15prog) string { return c15compact(c15exec(p)) }

func c15op(p c15prog) string { return p.name[strings.Index(p.name, ":")+1:] }

func c15cls(outcome string) string { return strings.SplitN(outcome, ":", 2)[0] }

// c15alphabet: entry-kind lists x operations.  prefixOK marks the programs used as non-final steps of 3-step histories in the quick tier.
func c15alphabet(thorough bool) (progs []c15prog, prefixOK map[string]bool) {
	kindsets := [][]string{
		{"S", "S"},      // plain
		{"X", "S", "S"}, // nested multi-key map in first position
		{"S", "X", "S"}, // ... in the middle
		{"M", "S", "X"}, // two nested maps, one last
		{"B", "S"},      // serialization fails inside the first entry: over the size limit
		{"I", "S"},      // ... interop handle
		{"D", "S"},      // ... over-deep (refused by the depth detector before any entry is written)
		{"X", "I", "S"}, // fails after a nested map was written
	}
	ops := []string{"serialize", "values", "keys", "notify"}
	if thorough {
		kindsets = append(kindsets, []string{"S", "B"}, []string{"X", "B", "S"}, []string{"S", "S", "I"}, []string{"X", "X", "S"})
		ops = append(ops, "inarray-serialize", "deserialize-roundtrip", "serialize+notify")
	}
	prefixOK = map[string]bool{}
	for _, ks := range kindsets {
		for _, op := range ops {
			if strings.Contains(strings.Join(ks, ""), "B") && !strings.HasPrefix(op, "serialize") {
				// the 1 MiB entry is in the alphabet as a way to make Serialize fail inside an entry; elsewhere it is just a (costly) big value
				continue
			}
			p := c15build(ks, op)
			progs = append(progs, p)
			if op == "serialize" || op == "values" {
				prefixOK[p.name] = true
			}
		}
	}
	return
}

func c15findProg(name string) (c15prog, bool) {
	progs, _ := c15alphabet(true)
	for _, p := range progs {
		if p.name == name {
			return p, true
		}
	}
	return c15prog{}, false
}

// c15child: the body of the re-executed test binary: ONE program, first execution of the process.
func c15child(name string) {
	out := "child-error: unknown program " + name
	if p, ok := c15findProg(name); ok {
		out = c15execH(p)
	}
	if err := ioutil.WriteFile(os.Getenv(c15envFreshOut), []byte(out), 0644); err != nil {
		fmt.Fprintln(os.Stderr, "c15child:", err)
		os.Exit(3)
	}
}

// c15fresh computes, for every named program, its outcome as the first execution of a fresh process.
func c15fresh(names []string) (map[string]string, error) {
	bin := os.Getenv("VERIF_BIN")
	if bin == "" {
		var err error
		if bin, err = os.Executable(); err != nil {
			return nil, err
		}
	}
	dir := os.Getenv("VERIF_TMP")
	if dir == "" {
		dir = os.TempDir()
	}
	type res struct {
		name, out string
		err       error
	}
	ch := make(chan res, len(names))
	sem := make(chan bool, 3)
	for i, n := range names {
		go func(i int, n string) {
			sem <- true
			defer func() { <-sem }()
			outf := filepath.Join(dir, fmt.Sprintf("c15fresh_%d_%d.out", os.Getpid(), i))
			defer os.Remove(outf)
			cmd := exec.Command(bin, "-test.run", "^TestVerif_C15$", "-test.count", "1", "-test.timeout", "0")
			cmd.Dir = dir
			cmd.Env = append(os.Environ(), c15envFresh+"="+n, c15envFreshOut+"="+outf)
			if b, err := cmd.CombinedOutput(); err != nil {
				ch <- res{n, "", fmt.Errorf("fresh process for %s: %v: %.300s", n, err, b)}
				return
			}
			b, err := ioutil.ReadFile(outf)
			ch <- res{n, string(b), err}
		}(i, n)
	}
	m := map[string]string{}
	var firstErr error
	for range names {
		x := <-ch
		if x.err != nil && firstErr == nil {
			firstErr = x.err
		}
		m[x.name] = x.out
	}
	return m, firstErr
}

// c15drain empties every GC-clearable process-wide cache (sync.Pool: primary and victim)
func c15drain() { runtime.GC(); runtime.GC() }

type c15hres struct {
	executions, choicePoints int64
	bad                      []string // outcomes of the last step that differ from the reference (sorted), "" when fine
	wit                      []int
	prefixCls                []string
	capped                   bool
}

// c15runHistory: drain; run the prefix under the default (sorted) order; run the last program under
// every iteration order (the first of these executions is the default order).
func c15runHistory(h []c15prog, ref string, allOrders bool) (res c15hres) {
	c15drain()
	for _, p := range h[:len(h)-1] {
		res.prefixCls = append(res.prefixCls, c15cls(c15execH(p)))
		res.executions++
	}
	last := h[len(h)-1]
	var st vnd.Stats
	if allOrders {
		st, res.capped = vnd.Explore(func() string { return c15execH(last) }, 5000)
	} else {
		st = vnd.Stats{Executions: 1, Outcomes: map[string][]int{c15execH(last): nil}}
	}
	res.executions += st.Executions
	res.choicePoints = st.ChoicePoints
	for o, ch := range st.Outcomes {
		if o != ref {
			res.bad = append(res.bad, fmt.Sprintf("orders %v -> %.200s", ch, o))
			if res.wit == nil || len(ch) < len(res.wit) {
				res.wit = ch
			}
		}
	}
	sort.Strings(res.bad)
	return
}

func c15histName(h []c15prog) string {
	var ns []string
	for _, p := range h {
		ns = append(ns, p.name)
	}
	return strings.Join(ns, " -> ")
}

func c15histories(r *vh.Run, replay bool, rc c15case) {
	t0 := time.Now()
	defer func() { r.Set("histories_wall_s", time.Since(t0).Seconds()) }()
	defer runtime.GOMAXPROCS(runtime.GOMAXPROCS(1))
	// no automatic collection during a history.  (Not -1: with the collector "off" the background scavenger
	// returns every freed 1 MiB buffer to the OS at once, which costs more than the executions themselves;
	// with a target of 10^6 percent the first automatic collection would start at a heap of 40 GiB.)
	defer debug.SetGCPercent(debug.SetGCPercent(1000000))
	// an untouched (hence non-resident) pointer-free block: it raises the amount of freed memory the runtime keeps
	// instead of handing every 1 MiB buffer back to the OS after each of the explicit collections
	ballast := make([]byte, 512<<20)
	defer runtime.KeepAlive(ballast)

	progs, prefixOK := c15alphabet(r.Thorough())
	index := map[string]int{}
	for i, p := range progs {
		index[p.name] = i
	}

	report := func(h []c15prog, ref string, hr c15hres) {
		last := h[len(h)-1]
		var after string
		switch len(h) {
		case 1:
			after = "first-execution-after-earlier-histories"
		default:
			var a []string
			for i, p := range h[:len(h)-1] {
				a = append(a, map[string]string{"OK": "successful-", "ERR": "failed-", "PANIC": "panicking-"}[hr.prefixCls[i]]+c15op(p))
			}
			after = "after-" + strings.Join(a, ",")
		}
		r.Violationf("history-dependent:"+c15op(last)+":"+after, c15case{"history", c15histName(h), hr.wit},
			"history [%s] in one process (each program in a fresh engine on the same state): the last program's outcome differs from its outcome as the first execution of a fresh process.\n fresh process: %.300s\n in this history: %s", c15histName(h), ref, strings.Join(hr.bad, " || "))
	}
	account := func(hr c15hres) {
		r.Eval(hr.executions)
		r.Trace(hr.executions)
		r.Trans(hr.choicePoints)
		r.State(hr.choicePoints + 1)
		if hr.capped {
			r.Capped("execution cap in a history")
		}
	}

	if replay {
		if rc.Unit != "history" {
			return
		}
		var h []c15prog
		for _, n := range strings.Split(rc.Name, " -> ") {
			p, ok := c15findProg(n)
			r.Need(ok, "replay: unknown program %s", n)
			if !ok {
				return
			}
			h = append(h, p)
		}
		refs, err := c15fresh([]string{h[len(h)-1].name})
		r.Need(err == nil, "fresh-process reference: %v", err)
		ref := refs[h[len(h)-1].name]
		hr := c15runHistory(h, ref, true)
		r.Sample(map[string]interface{}{"history": rc.Name, "fresh": ref, "differing": hr.bad})
		if len(hr.bad) > 0 {
			report(h, ref, hr)
		}
		return
	}

	// the histories whose LAST program is mine
	var mine []c15prog
	var names []string
	for i, p := range progs {
		if r.Mine(i) {
			mine = append(mine, p)
			names = append(names, p.name)
		}
	}
	if len(mine) == 0 {
		return
	}
	refs, err := c15fresh(names)
	r.Need(err == nil, "fresh-process references: %v", err)
	if err != nil {
		return
	}
	for _, b := range mine {
		ref := refs[b.name]
		r.Need(ref != "" && !strings.HasPrefix(ref, "child-error"), "no fresh-process reference for %s: %q", b.name, ref)
		// the failing programs must fail, and where: otherwise the alphabet does not contain what it claims
		kinds := b.name[:strings.Index(b.name, ":")]
		if strings.Contains(c15op(b), "serialize") && strings.ContainsAny(kinds, "BID") {
			r.Need(c15cls(ref) == "ERR", "program %s was built to fail in Serialize but: %.200s", b.name, ref)
			r.Class("history:failing-serialize:" + map[bool]string{true: "inside-an-entry", false: "refused-by-depth-detector"}[!strings.Contains(kinds, "D")])
		}
		if idx := index[b.name]; idx < 4 {
			r.Sample(map[string]interface{}{"history-program": b.name, "code": fmt.Sprintf("%.120x", b.code), "fresh-process-outcome": ref})
		}

		// length 1
		hr := c15runHistory([]c15prog{b}, ref, true)
		account(hr)
		r.Class("history1:" + c15cls(ref))
		if len(hr.bad) > 0 {
			report([]c15prog{b}, ref, hr)
		}

		// length 2
		badPair := map[string]bool{}
		for _, a := range progs {
			if r.Expired() {
				return
			}
			h := []c15prog{a, b}
			hr := c15runHistory(h, ref, true)
			account(hr)
			r.Class("history2:" + c15cls(ref) + "-after-" + hr.prefixCls[0])
			if len(hr.bad) > 0 {
				badPair[a.name] = true
				report(h, ref, hr)
			}
		}

		// length 3 (reported only when no 2-step sub-history with the same last program already differs)
		for _, a1 := range progs {
			if r.Quick() && !prefixOK[a1.name] {
				continue
			}
			for _, a2 := range progs {
				if r.Quick() && !prefixOK[a2.name] {
					continue
				}
				if r.Expired() {
					return
				}
				h := []c15prog{a1, a2, b}
				hr := c15runHistory(h, ref, false)
				account(hr)
				r.Class("history3:" + c15cls(ref) + "-after-" + hr.prefixCls[0] + "," + hr.prefixCls[1])
				if len(hr.bad) > 0 && !badPair[a1.name] && !badPair[a2.name] {
					report(h, ref, hr)
				}
			}
		}
	}
}

package crossvm_codec

// C25 — cross-VM parameter codec: every bounded nested list of the codec's
// value types encodes and decodes back to an equal value (EncodeValue,
// EncodeList, DecodeValue, DeserializeCallParam, parseNotify/DeserializeNotify);
// every short byte string and every single-byte mutation / truncation of valid
// encodings decodes or is rejected without panic; a claimed size never drives
// an allocation (measured in a memory-limited worker subprocess).

import (
	"bufio"
	"bytes"
	"encoding/binary"
	"encoding/hex"
	"encoding/json"
	"fmt"
	"math/big"
	"os"
	"os/exec"
	"path/filepath"
	"runtime"
	"strconv"
	"strings"
	"syscall"
	"testing"

	"github.com/ontio/ontology/common"
	"github.com/ontio/ontology/common/log"
	"github.com/ontio/ontology/verifshim/vh"
)

// ---- value alphabet -------------------------------------------------------

func c25pow2(k uint) *big.Int { return new(big.Int).Lsh(big.NewInt(1), k) }

var (
	c25addr = func() common.Address {
		var a common.Address
		for i := range a {
			a[i] = byte(0xA0 + i)
		}
		return a
	}()
	c25hash = func() common.Uint256 {
		var h common.Uint256
		for i := range h {
			h[i] = byte(0x10 + i)
		}
		return h
	}()
	c25addrFF = func() common.Address {
		var a common.Address
		for i := range a {
			a[i] = 0xff
		}
		return a
	}()
	c25hashFF = func() common.Uint256 {
		var h common.Uint256
		for i := range h {
			h[i] = 0xff
		}
		return h
	}()
	c25maxI128 = new(big.Int).Sub(c25pow2(127), big.NewInt(1))
	c25minI128 = new(big.Int).Neg(c25pow2(127))
)

type c25leaf struct {
	name string
	v    interface{}
}

// one value per type first (the "reduced" alphabet is a prefix), then boundaries
func c25leaves() []c25leaf {
	return []c25leaf{
		{"bytes:010203", []byte{1, 2, 3}},
		{"int:-2", big.NewInt(-2)},
		{"bool:true", true},
		{"string:a", "a"},
		{"addr", c25addr},
		{"h256", c25hash},
		// boundaries and alternative Go representations
		{"bytes:empty", []byte{}},
		{"bytes:00", []byte{0}},
		{"string:empty", ""},
		{"string:nul-utf8", "\x00\xc3\xbc"},
		{"bool:false", false},
		{"addr:zero", common.Address{}},
		{"h256:zero", common.Uint256{}},
		{"int:0", big.NewInt(0)},
		{"int:1", big.NewInt(1)},
		{"int:-1", big.NewInt(-1)},
		{"int:255", big.NewInt(255)},
		{"int:-256", big.NewInt(-256)},
		{"int:2^63", c25pow2(63)},
		{"int:-2^63-1", new(big.Int).Sub(new(big.Int).Neg(c25pow2(63)), big.NewInt(1))},
		{"int:2^64", c25pow2(64)},
		{"int:2^127-1", c25maxI128},
		{"int:-2^127", c25minI128},
		{"int:-2^127+1", new(big.Int).Add(c25minI128, big.NewInt(1))},
		{"goint:7", int(7)},
		{"goint:2^40", int(1) << 40},
		{"goint:-2^40", -(int(1) << 40)},
		{"goint64:min", int64(-1 << 63)},
		{"goint64:max", int64(1<<63 - 1)},
		// all-ones values (the all-zero ones are above)
		{"addr:ff", c25addrFF},
		{"h256:ff", c25hashFF},
	}
}

// values that are NOT 128-bit integers: encoding must fail (it cannot round-trip)
func c25outOfRange() []c25leaf {
	return []c25leaf{
		{"int:2^127", c25pow2(127)},
		{"int:-2^127-1", new(big.Int).Sub(c25minI128, big.NewInt(1))},
		{"int:2^128", c25pow2(128)},
		{"int:2^200", c25pow2(200)},
	}
}

// c25norm maps the Go conveniences to the decoded representation.
func c25norm(v interface{}) interface{} {
	switch x := v.(type) {
	case int:
		return big.NewInt(int64(x))
	case int64:
		return big.NewInt(x)
	case int32:
		return big.NewInt(int64(x))
	case uint32:
		return big.NewInt(int64(x))
	}
	return v
}

func c25eq(a, b interface{}) bool {
	a, b = c25norm(a), c25norm(b)
	switch x := a.(type) {
	case []byte:
		y, ok := b.([]byte)
		return ok && bytes.Equal(x, y)
	case string:
		y, ok := b.(string)
		return ok && x == y
	case bool:
		y, ok := b.(bool)
		return ok && x == y
	case common.Address:
		y, ok := b.(common.Address)
		return ok && x == y
	case common.Uint256:
		y, ok := b.(common.Uint256)
		return ok && x == y
	case *big.Int:
		y, ok := b.(*big.Int)
		return ok && x != nil && y != nil && x.Cmp(y) == 0
	case []interface{}:
		y, ok := b.([]interface{})
		if !ok || len(x) != len(y) {
			return false
		}
		for i := range x {
			if !c25eq(x[i], y[i]) {
				return false
			}
		}
		return true
	}
	return false
}

func c25show(v interface{}) string {
	switch x := c25norm(v).(type) {
	case []byte:
		return "b" + hex.EncodeToString(x)
	case string:
		return strconv.Quote(x)
	case bool:
		return fmt.Sprint(x)
	case common.Address:
		return "addr" + hex.EncodeToString(x[:4])
	case common.Uint256:
		return "h" + hex.EncodeToString(x[:4])
	case *big.Int:
		return "i" + x.String()
	case []interface{}:
		p := make([]string, len(x))
		for i, e := range x {
			p[i] = c25show(e)
		}
		return "[" + strings.Join(p, ",") + "]"
	}
	return fmt.Sprintf("?%T", v)
}

// c25unstring: got is the DeserializeNotify form of orig; "" when every leaf text reads back to the leaf of orig,
// otherwise the type of the first leaf that does not.
func c25unstring(orig, got interface{}) string {
	switch x := c25norm(orig).(type) {
	case []byte:
		s, ok := got.(string)
		b, err := hex.DecodeString(s)
		if !ok || err != nil || !bytes.Equal(b, x) {
			return "bytes"
		}
	case string:
		if s, ok := got.(string); !ok || s != x {
			return "string"
		}
	case bool:
		if b, ok := got.(bool); !ok || b != x {
			return "bool"
		}
	case common.Address:
		s, ok := got.(string)
		a, err := common.AddressFromBase58(s)
		if !ok || err != nil || a != x {
			return "address"
		}
	case common.Uint256:
		s, ok := got.(string)
		h, err := common.Uint256FromHexString(s)
		if !ok || err != nil || h != x {
			return "h256"
		}
	case *big.Int:
		s, ok := got.(string)
		n, ok2 := new(big.Int).SetString(s, 10)
		if !ok || !ok2 || n.Cmp(x) != 0 {
			return "int"
		}
	case []interface{}:
		l, ok := got.([]interface{})
		if !ok || len(l) != len(x) {
			return "list"
		}
		for i := range x {
			if w := c25unstring(x[i], l[i]); w != "" {
				return w
			}
		}
	default:
		return "other"
	}
	return ""
}

// c25render: complete, canonical text of a value returned by the codec (decoded values and DeserializeNotify forms)
func c25render(v interface{}) string {
	switch x := v.(type) {
	case nil:
		return "nil"
	case []byte:
		return "bytes(" + hex.EncodeToString(x) + ")"
	case string:
		return "str(" + strconv.Quote(x) + ")"
	case bool:
		return fmt.Sprintf("bool(%v)", x)
	case common.Address:
		return "addr(" + hex.EncodeToString(x[:]) + ")"
	case common.Uint256:
		return "h256(" + hex.EncodeToString(x[:]) + ")"
	case *big.Int:
		if x == nil {
			return "int(nil)"
		}
		return "int(" + x.String() + ")"
	case []interface{}:
		p := make([]string, len(x))
		for i, e := range x {
			p[i] = c25render(e)
		}
		return "[" + strings.Join(p, ",") + "]"
	}
	return fmt.Sprintf("%T(%v)", v, v)
}

func c25depth(v interface{}) int {
	l, ok := v.([]interface{})
	if !ok {
		return 0
	}
	d := 0
	for _, e := range l {
		if x := c25depth(e); x > d {
			d = x
		}
	}
	return d + 1
}

// c25lists: all lists of width 0..w over the given symbols.
func c25lists(syms []interface{}, w int, f func(l []interface{}) bool) {
	for n := 0; n <= w; n++ {
		radix := make([]int, n)
		for i := range radix {
			radix[i] = len(syms)
		}
		if n == 0 {
			if !f([]interface{}{}) {
				return
			}
			continue
		}
		stop := false
		vh.Odometer(radix, func(d []int) bool {
			l := make([]interface{}, n)
			for i, x := range d {
				l[i] = syms[x]
			}
			if !f(l) {
				stop = true
				return false
			}
			return true
		})
		if stop {
			return
		}
	}
}

func c25collect(syms []interface{}, w int) []interface{} {
	var out []interface{}
	c25lists(syms, w, func(l []interface{}) bool { out = append(out, l); return true })
	return out
}

// ---- round trip -----------------------------------------------------------

type c25case struct {
	Value   string `json:"value,omitempty"`
	Bytes   string `json:"bytes,omitempty"`
	API     string `json:"api,omitempty"`
	Comment string `json:"comment,omitempty"`
	History string `json:"history,omitempty"` // unit "history" (C25_history_test.go): step names joined by " -> "
}

func c25typeClass(v interface{}) string {
	switch c25norm(v).(type) {
	case []byte:
		return "bytes"
	case string:
		return "string"
	case bool:
		return "bool"
	case common.Address:
		return "address"
	case common.Uint256:
		return "h256"
	case *big.Int:
		return "int"
	case []interface{}:
		return "list-depth" + strconv.Itoa(c25depth(v))
	}
	return "other"
}

// c25roundtrip: Encode -> Decode (three entry points) must give back v.
func c25roundtrip(r *vh.Run, v interface{}, name string) {
	r.Eval(1)
	tc := c25typeClass(v)
	bad := func(key, f string, a ...interface{}) {
		r.Violationf("roundtrip:"+key+":"+tc, c25case{Value: name}, f, a...)
	}
	p := vh.Catch(func() {
		enc, err := EncodeValue(v)
		if err != nil {
			bad("encode-error", "EncodeValue(%s) failed: %v", name, err)
			return
		}
		src := common.NewZeroCopySource(enc)
		got, err := DecodeValue(src)
		if err != nil {
			bad("decode-error", "DecodeValue(EncodeValue(%s)) failed: %v (encoding %x)", name, err, enc)
			return
		}
		if src.Len() != 0 {
			bad("trailing", "DecodeValue(EncodeValue(%s)) left %d bytes unread", name, src.Len())
			return
		}
		if !c25eq(v, got) {
			bad("not-equal", "DecodeValue(EncodeValue(%s)) = %s", name, c25show(got))
			return
		}
		// call-parameter framing: version byte + value
		got2, err := DeserializeCallParam(append([]byte{VERSION}, enc...))
		if err != nil || !c25eq(v, got2) {
			bad("callparam", "DeserializeCallParam(version||EncodeValue(%s)) = %s, %v", name, c25show(got2), err)
			return
		}
		// notify framing
		got3, err := parseNotify(append([]byte("evt\x00"), enc...))
		if err != nil || !c25eq(v, got3) {
			bad("notify", "parseNotify(evt0||EncodeValue(%s)) = %s, %v", name, c25show(got3), err)
			return
		}
		// the event-log form: DeserializeNotify renders every leaf as text (hex, base58, decimal); each text must
		// read back, with the type's own parser, to the leaf that was encoded
		got4 := DeserializeNotify(append([]byte("evt\x00"), enc...))
		if where := c25unstring(v, got4); where != "" {
			r.Violationf("roundtrip:notify-text:"+where+":"+tc, c25case{Value: name, API: "DeserializeNotify"},
				"DeserializeNotify(evt0||EncodeValue(%s)) = %s: the %s text does not read back to the encoded value", name, c25render(got4), where)
			return
		}
		if l, ok := v.([]interface{}); ok {
			// the entry point the VMs use for lists
			sink := common.NewZeroCopySink(nil)
			if err := EncodeList(sink, l); err != nil || !bytes.Equal(sink.Bytes(), enc) {
				bad("encodelist", "EncodeList(%s) differs from EncodeValue (err=%v)", name, err)
				return
			}
		}
		r.Class("roundtrip:ok:" + tc)
	})
	if p != "" {
		bad("panic", "round trip of %s panicked: %s", name, p)
	}
}

// ---- decoding arbitrary bytes --------------------------------------------

type c25acc struct {
	evals   int64
	classes map[string]int64
	viol    func(key string, c c25case, detail string)
}

func c25newAcc(r *vh.Run) *c25acc {
	return &c25acc{classes: map[string]int64{}, viol: func(key string, c c25case, detail string) { r.Violation(key, detail, c) }}
}

func (a *c25acc) flush(r *vh.Run) {
	r.Eval(a.evals)
	for k, n := range a.classes {
		r.ClassN(k, n)
	}
	a.evals, a.classes = 0, map[string]int64{}
}

func (a *c25acc) Violationf(key string, c c25case, f string, args ...interface{}) {
	a.viol(key, c, fmt.Sprintf(f, args...))
}

func c25tryDecode(data []byte) (v interface{}, err error, used uint64, p string) {
	defer func() {
		if e := recover(); e != nil {
			p = fmt.Sprint(e)
			if p == "" {
				p = "panic"
			}
		}
	}()
	src := common.NewZeroCopySource(data)
	v, err = DecodeValue(src)
	return v, err, src.Pos(), ""
}

func c25errClass(err error) string {
	switch err {
	case ERROR_PARAM_FORMAT:
		return "format"
	case ERROR_PARAM_NOT_SUPPORTED_TYPE:
		return "type"
	}
	return "other"
}

// c25decode: value or error, never a panic; an accepted value must survive
// Encode -> Decode unchanged (it is a value of the codec), and the framed
// entry points must agree with DecodeValue.
func c25decode(a *c25acc, data []byte, origin string) {
	a.evals++
	v, err, used, p := c25tryDecode(data)
	if p != "" {
		a.Violationf("decode:panic:"+origin, c25case{Bytes: hex.EncodeToString(data)}, "DecodeValue(%x) panicked: %s", data, p)
		return
	}
	if err != nil {
		if v != nil {
			a.Violationf("decode:value-and-error:"+origin, c25case{Bytes: hex.EncodeToString(data)}, "DecodeValue(%x) returned both a value and %v", data, err)
		}
		a.classes["decode:err:"+c25errClass(err)]++
		return
	}
	tc := c25typeClass(v)
	a.classes["decode:ok:"+tc]++
	p = vh.Catch(func() {
		enc, err := EncodeValue(v)
		if err != nil {
			a.Violationf("reencode:error:"+tc, c25case{Bytes: hex.EncodeToString(data)}, "value %s decoded from %x cannot be encoded: %v", c25show(v), data, err)
			return
		}
		if bytes.Equal(enc, data[:used]) {
			a.classes["reencode:same-bytes"]++
		} else {
			a.classes["reencode:other-bytes"]++ // an alternative encoding was accepted; the statement does not forbid it
		}
		back, err := DecodeValue(common.NewZeroCopySource(enc))
		if err != nil || !c25eq(v, back) {
			a.Violationf("reencode:not-equal:"+tc, c25case{Bytes: hex.EncodeToString(data)}, "value %s decoded from %x does not survive Encode->Decode (%s, %v)", c25show(v), data, c25show(back), err)
		}
	})
	if p != "" {
		a.Violationf("reencode:panic:"+tc, c25case{Bytes: hex.EncodeToString(data)}, "re-encoding the value decoded from %x panicked: %s", data, p)
	}
}

// c25framed: DeserializeCallParam / DeserializeNotify on raw input.
func c25framed(a *c25acc, data []byte) {
	a.evals++
	p := vh.Catch(func() {
		v, err := DeserializeCallParam(data)
		var wantV interface{}
		var wantErr error = ERROR_PARAM_FORMAT
		if len(data) > 0 && data[0] == VERSION {
			wantV, wantErr, _, _ = c25tryDecode(data[1:])
		}
		if (err != nil) != (wantErr != nil) || (err == nil && !c25eq(v, wantV)) {
			a.Violationf("callparam:disagrees-with-decode", c25case{Bytes: hex.EncodeToString(data), API: "DeserializeCallParam"},
				"DeserializeCallParam(%x) = %s, %v but DecodeValue of the body gives %s, %v", data, c25show(v), err, c25show(wantV), wantErr)
		}
		if err == nil {
			a.classes["callparam:ok"]++
		} else {
			a.classes["callparam:err"]++
		}
		n := DeserializeNotify(data)
		if raw, ok := n.([]byte); ok && len(raw) == len(data) && (len(data) == 0 || &raw[0] == &data[0]) {
			a.classes["notify:raw"]++
		} else {
			a.classes["notify:decoded"]++
		}
	})
	if p != "" {
		a.Violationf("framed:panic", c25case{Bytes: hex.EncodeToString(data)}, "DeserializeCallParam/DeserializeNotify(%x) panicked: %s", data, p)
	}
}

func c25corpus() [][]byte {
	vals := []interface{}{
		[]byte{1, 2, 3}, []byte{}, "hello", "", c25addr, true, false, big.NewInt(-2), c25maxI128, c25minI128, c25hash,
		[]interface{}{},
		[]interface{}{[]byte{9}},
		[]interface{}{"ab", []byte{1, 2}, true, big.NewInt(300), c25addr, c25hash},
		[]interface{}{[]interface{}{}, []interface{}{[]interface{}{false}}, "x"},
		[]interface{}{[]interface{}{big.NewInt(1), []interface{}{[]byte{7, 7}, []interface{}{"deep"}}}, []byte{}},
	}
	var out [][]byte
	for _, v := range vals {
		enc, err := EncodeValue(v)
		if err != nil {
			panic(err)
		}
		out = append(out, enc)
	}
	return out
}

// ---- allocation under claimed sizes (worker subprocess) --------------------

type c25allocCase struct {
	Name string `json:"name"`
	Hex  string `json:"hex"`
}

func c25u32(v uint32) []byte {
	var b [4]byte
	binary.LittleEndian.PutUint32(b[:], v)
	return b[:]
}

func c25allocCases() []c25allocCase {
	var out []c25allocCase
	add := func(name string, b []byte) { out = append(out, c25allocCase{name, hex.EncodeToString(b)}) }
	cat := func(parts ...[]byte) []byte { return bytes.Join(parts, nil) }
	elem := []byte{BooleanType, 1}
	for _, claim := range []uint32{2, 1000, 65536, 1 << 20, 1 << 24, 1 << 28, 1<<31 - 1, 1 << 31, 1<<32 - 1} {
		c := strconv.FormatUint(uint64(claim), 10)
		add("list-claim-"+c+":empty-body", cat([]byte{ListType}, c25u32(claim)))
		add("list-claim-"+c+":one-element", cat([]byte{ListType}, c25u32(claim), elem))
		add("list-claim-"+c+":nested", cat([]byte{ListType}, c25u32(2), elem, []byte{ListType}, c25u32(claim), elem))
		add("bytes-claim-"+c+":short-body", cat([]byte{ByteArrayType}, c25u32(claim), []byte{1}))
		add("string-claim-"+c+":short-body", cat([]byte{StringType}, c25u32(claim), []byte{1}))
		add("callparam-list-claim-"+c, cat([]byte{VERSION, ListType}, c25u32(claim), elem))
		add("notify-list-claim-"+c, cat([]byte("evt\x00"), []byte{ListType}, c25u32(claim), elem))
	}
	// honest sizes for comparison (allocation proportional to the INPUT is fine)
	big1 := cat([]byte{ListType}, c25u32(5000))
	for i := 0; i < 5000; i++ {
		big1 = append(big1, elem...)
	}
	add("list-honest-5000", big1)
	add("bytes-honest-100000", cat([]byte{ByteArrayType}, c25u32(100000), make([]byte, 100000)))
	deep := []byte{}
	for i := 0; i < 10000; i++ {
		deep = append(deep, ListType, 1, 0, 0, 0)
	}
	add("nested-10000-deep", append(deep, elem...))
	return out
}

// allowed allocation: a constant plus a multiple of the input length
func c25allocBound(inputLen int) uint64 { return 64<<10 + 256*uint64(inputLen) }

// The worker runs (under a 3 GB address-space limit) everything that feeds
// claimed sizes to the decoder: the allocation cases, and every single-byte
// mutation / size-field substitution / truncation of the valid encodings.
// Protocol on stdout: "C25W START <hex>" before an input (or a batch derived
// from it), JSON lines {"viol":...} as they happen, one final {"done":...}.
type c25wviol struct {
	Key    string  `json:"key"`
	Detail string  `json:"detail"`
	Case   c25case `json:"case"`
}

type c25wline struct {
	Viol    *c25wviol        `json:"viol,omitempty"`
	Done    bool             `json:"done,omitempty"`
	Evals   int64            `json:"evals,omitempty"`
	Classes map[string]int64 `json:"classes,omitempty"`
}

func c25shape(name string) string {
	if j := strings.IndexByte(name, ':'); j >= 0 {
		name = name[:j]
	}
	if j := strings.LastIndexByte(name, '-'); j >= 0 && strings.Contains(name, "claim") {
		name = name[:j]
	}
	return name
}

func TestVerif_C25_Worker(t *testing.T) {
	spec := os.Getenv("VERIF_C25_WORK")
	if spec == "" {
		t.Skip("worker entry point of TestVerif_C25")
	}
	var shard, nshards int
	fmt.Sscanf(spec, "%d/%d", &shard, &nshards)
	if nshards < 1 {
		nshards = 1
	}
	lim := syscall.Rlimit{Cur: 3 << 30, Max: 3 << 30}
	syscall.Setrlimit(syscall.RLIMIT_AS, &lim)
	log.InitLog(log.MaxLevelLog)
	out := bufio.NewWriter(os.Stdout)
	emit := func(l c25wline) {
		b, _ := json.Marshal(&l)
		out.Write(append(append([]byte("C25W "), b...), '\n'))
		out.Flush()
	}
	start := func(data []byte) { fmt.Fprintf(out, "C25W START %x\n", data); out.Flush() }
	a := &c25acc{classes: map[string]int64{}}
	a.viol = func(key string, c c25case, detail string) { emit(c25wline{Viol: &c25wviol{key, detail, c}}) }
	alloc := func() uint64 {
		var m runtime.MemStats
		runtime.ReadMemStats(&m)
		return m.TotalAlloc
	}
	item := 0
	mine := func() bool { item++; return item%nshards == shard }

	// (c) claimed sizes with short bodies
	for _, c := range c25allocCases() {
		if !mine() {
			continue
		}
		data, _ := hex.DecodeString(c.Hex)
		start(data)
		runtime.GC()
		m0 := alloc()
		res := "err"
		p := vh.Catch(func() {
			switch {
			case strings.HasPrefix(c.Name, "callparam"):
				if _, err := DeserializeCallParam(data); err == nil {
					res = "ok"
				}
			case strings.HasPrefix(c.Name, "notify"):
				if _, raw := DeserializeNotify(data).([]byte); !raw {
					res = "ok"
				}
			default:
				if _, err := DecodeValue(common.NewZeroCopySource(data)); err == nil {
					res = "ok"
				}
			}
		})
		n := alloc() - m0
		a.evals++
		switch {
		case p != "":
			a.Violationf("alloc:panic:"+c25shape(c.Name), c25case{Bytes: c.Hex}, "%s: decoding panicked: %s", c.Name, p)
		case n > c25allocBound(len(data)):
			a.Violationf("alloc:proportional-to-claimed-size:"+c25shape(c.Name), c25case{Bytes: c.Hex},
				"%s: decoding a %d-byte input allocated %d bytes (allowed %d)", c.Name, len(data), n, c25allocBound(len(data)))
		default:
			a.classes["alloc:bounded:"+c25shape(c.Name)+":"+res]++
		}
	}

	// (b2) mutations of valid encodings; allocation is measured per position (all alternatives of that position)
	for _, enc := range c25corpus() {
		if !mine() {
			continue
		}
		start(enc)
		c25decode(a, enc, "valid")
		c25framed(a, append([]byte{VERSION}, enc...))
		c25framed(a, append([]byte("evt\x00"), enc...))
		for _, v := range []byte{1, 2, 0x10, 0xff} { // wrong version byte / wrong notify magic in front of a valid body
			c25framed(a, append([]byte{v}, enc...))
		}
		for _, magic := range []string{"evt\x01", "Evt\x00", "evt", "\x00evt"} {
			c25framed(a, append([]byte(magic), enc...))
		}
		for cut := 0; cut < len(enc); cut++ {
			c25decode(a, enc[:cut], "truncated")
			c25framed(a, append([]byte{VERSION}, enc[:cut]...))
			c25framed(a, append([]byte("evt\x00"), enc[:cut]...))
		}
		c25decode(a, append(append([]byte{}, enc...), 0xff), "trailing")
		m := append([]byte{}, enc...)
		for pos := range m {
			start(append(append([]byte{}, m...), byte(pos)))
			m0, e0 := alloc(), a.evals
			for x := 1; x < 256; x++ {
				m[pos] = enc[pos] ^ byte(x)
				c25decode(a, m, "mutated")
			}
			m[pos] = enc[pos]
			if pos+4 <= len(m) {
				for _, sz := range []uint32{0, 1, 2, 0x00ffffff, 0x7fffffff, 0x80000000, 0xffffffff} {
					copy(m[pos:], c25u32(sz))
					c25decode(a, m, "size-substituted")
					c25framed(a, append([]byte{VERSION}, m...))
				}
				copy(m[pos:], enc[pos:pos+4])
			}
			calls := uint64(a.evals - e0)
			if n := alloc() - m0; n > calls*c25allocBound(len(enc)) {
				a.Violationf("alloc:proportional-to-claimed-size:mutated-encoding", c25case{Bytes: hex.EncodeToString(enc), API: fmt.Sprintf("position %d", pos)},
					"decoding the %d single-byte / size-field variants at position %d of %x allocated %d bytes (allowed %d)", calls, pos, enc, n, calls*c25allocBound(len(enc)))
			}
		}
	}
	emit(c25wline{Done: true, Evals: a.evals, Classes: a.classes})
}

func c25worker(r *vh.Run) {
	bin := os.Getenv("VERIF_BIN")
	if bin == "" {
		bin = os.Args[0]
	}
	if a, err := filepath.Abs(bin); err == nil {
		bin = a
	}
	cmd := exec.Command(bin, "-test.run", "^TestVerif_C25_Worker$", "-test.timeout", "0", "-test.count", "1")
	cmd.Env = append(os.Environ(), fmt.Sprintf("VERIF_C25_WORK=%d/%d", r.R.Shard, r.R.NShards), "VERIF_OUT=", "VERIF_REPLAY=", "GOTRACEBACK=none")
	var stdout, stderr bytes.Buffer
	cmd.Stdout, cmd.Stderr = &stdout, &stderr
	werr := cmd.Run()
	last, done := "", false
	for _, line := range strings.Split(stdout.String(), "\n") {
		if !strings.HasPrefix(line, "C25W ") {
			continue
		}
		line = line[5:]
		if strings.HasPrefix(line, "START ") {
			last = line[6:]
			continue
		}
		var l c25wline
		if json.Unmarshal([]byte(line), &l) != nil {
			continue
		}
		if l.Viol != nil {
			r.Violation(l.Viol.Key, l.Viol.Detail, l.Viol.Case)
		}
		if l.Done {
			done = true
			r.Eval(l.Evals)
			for k, n := range l.Classes {
				r.ClassN(k, n)
			}
		}
	}
	if !done {
		r.Need(last != "", "decoder worker did not start: %v %s", werr, stderr.String())
		msg := stderr.String()
		if i := strings.Index(msg, "fatal error:"); i >= 0 {
			msg = msg[i:]
		}
		if j := strings.IndexByte(msg, '\n'); j >= 0 {
			msg = msg[:j]
		}
		r.Eval(1)
		r.Violationf("alloc:process-killed", c25case{Bytes: last, Comment: "last input (or, for mutations, encoding followed by the position byte) announced by the worker"},
			"decoding killed the worker that runs under a 3 GB address-space limit: %s (%v); last input announced: %s", msg, werr, last)
		r.Capped("worker died; remaining mutation / allocation cases of this shard not run")
	}
}

// ---------------------------------------------------------------------------

func TestVerif_C25(t *testing.T) {
	r := vh.Start(t, "C25", "codec")
	defer r.Finish()
	log.InitLog(log.MaxLevelLog)
	r.Rule("(a) every nested list up to depth 3 / width 3 over the codec's value types (one value per type, plus boundary integers +-2^127, empty, all-zero and all-ones values, Go int/int64 forms) " +
		"through EncodeValue/EncodeList -> DecodeValue, DeserializeCallParam, parseNotify, compared structurally, and through DeserializeNotify, whose leaf texts (hex, base58, decimal) must read back to the encoded leaves with the types' own parsers; out-of-range integers must be refused; " +
		"(b) DecodeValue on every byte string up to length L (in-process) and, in a worker under a 3 GB address-space limit, on every single-byte mutation / truncation / size-field substitution of 16 valid encodings, " +
		"accepted values re-encoded and compared; DeserializeCallParam / DeserializeNotify on framed, wrongly framed and raw inputs must agree with DecodeValue; " +
		"(c) claimed sizes up to 2^32-1 with short bodies with TotalAlloc measured (bound: 64 KiB + 256 B per input byte); distinct = (operation, type/shape, outcome) classes")
	maxLen := r.Pick(3, 4)
	r.Bound(fmt.Sprintf("lists: depth<=3, width<=3 (alphabet narrowing with depth); byte strings<=%d", maxLen))

	var rc c25case
	if r.ReplayCase(&rc) && rc.History != "" {
		return // a case of the history unit
	}
	if r.ReplayCase(&rc) && rc.Bytes != "" {
		data, _ := hex.DecodeString(strings.SplitN(rc.Bytes, "..", 2)[0])
		a := c25newAcc(r)
		c25decode(a, data, "replay")
		c25framed(a, data)
		a.flush(r)
		return
	}

	leaves := c25leaves()
	item := 0
	mine := func() bool { item++; return r.Mine(item) }

	// (a1) leaves, and out-of-range integers
	if r.R.Shard == 0 {
		for _, l := range leaves {
			c25roundtrip(r, l.v, l.name)
		}
		for _, l := range c25outOfRange() {
			r.Eval(1)
			for _, v := range []interface{}{l.v, []interface{}{l.v}, []interface{}{true, []interface{}{l.v}}} {
				var enc []byte
				var err error
				p := vh.Catch(func() { enc, err = EncodeValue(v) })
				if p != "" {
					r.Violationf("encode:panic:out-of-range-int", c25case{Value: l.name}, "EncodeValue(%s) panicked: %s", c25show(v), p)
				} else if err == nil {
					r.Violationf("encode:accepts-out-of-range-int", c25case{Value: l.name}, "EncodeValue(%s) succeeded (%x) although the integer is outside the 128-bit range", c25show(v), enc)
				} else {
					r.Class("encode:refused:out-of-range-int")
				}
			}
		}
	}
	var all []interface{}
	var names []string
	for _, l := range leaves {
		all = append(all, l.v)
		names = append(names, l.name)
	}
	// (a2) depth 1: width<=3 over all leaves
	c25lists(all, 3, func(l []interface{}) bool {
		if mine() {
			c25roundtrip(r, l, c25show(l))
		}
		return !r.Expired()
	})
	// (a3) depth 2: width<=3 over {one value per type} + {depth-1 lists of width<=W over them}
	red := all[:6]
	w1 := r.Pick(2, 3)
	d1 := c25collect(red, w1)
	syms2 := append(append([]interface{}{}, red...), d1...)
	c25lists(syms2, 3, func(l []interface{}) bool {
		if mine() {
			c25roundtrip(r, l, c25show(l))
		}
		return !r.Expired()
	})
	// (a4) depth 3: width<=2 over {3 leaves} + {depth<=2 lists of width<=2 over them}
	red3 := all[:3]
	d1s := c25collect(red3, 2)
	d2s := c25collect(append(append([]interface{}{}, red3...), d1s...), 2)
	syms3 := append(append([]interface{}{}, red3...), d2s...)
	c25lists(syms3, 2, func(l []interface{}) bool {
		if mine() {
			c25roundtrip(r, l, c25show(l))
		}
		return !r.Expired()
	})
	// Go int forms that only EncodeList supports
	if r.R.Shard == 0 {
		for _, v := range []interface{}{int32(-5), uint32(1<<32 - 1), int32(-1 << 31)} {
			c25roundtrip(r, []interface{}{v, []interface{}{v}}, c25show([]interface{}{v, []interface{}{v}}))
		}
	}
	if r.R.Shard == 0 {
		r.Sample(c25case{Value: c25show(syms3[len(syms3)-1])})
		r.Sample(c25case{Value: c25show([]interface{}{c25maxI128, c25minI128})})
		r.Sample(c25case{Bytes: "1002000000030104" + strings.Repeat("00", 16)})
	}

	// (b) byte strings
	a := c25newAcc(r)
	c25decode(a, []byte{}, "short")
	c25framed(a, []byte{})
	buf := make([]byte, 0, 8)
	for b0 := 0; b0 < 256 && !r.Expired(); b0++ {
		if b0%r.R.NShards == r.R.Shard {
			c25decode(a, append(buf[:0], byte(b0)), "short")
			c25framed(a, append(buf[:0], byte(b0)))
		}
		for b1 := 0; b1 < 256; b1++ {
			if !mine() {
				continue
			}
			c25decode(a, append(buf[:0], byte(b0), byte(b1)), "short")
			c25framed(a, append(buf[:0], byte(b0), byte(b1)))
			c25framed(a, append(buf[:0], 'e', 'v', 't', 0, byte(b0), byte(b1)))
			for b2 := 0; b2 < 256; b2++ {
				c25decode(a, append(buf[:0], byte(b0), byte(b1), byte(b2)), "short")
				c25framed(a, append(buf[:0], byte(b0), byte(b1), byte(b2)))
				if maxLen >= 4 {
					for b3 := 0; b3 < 256; b3++ {
						c25decode(a, append(buf[:0], byte(b0), byte(b1), byte(b2), byte(b3)), "short")
					}
				}
			}
		}
	}
	a.flush(r)

	// (b2)+(c) mutations of valid encodings and claimed sizes: in the memory-limited worker
	c25worker(r)

	if r.R.NShards == 1 && !r.R.CapHit {
		for _, c := range []string{"roundtrip:ok:list-depth3", "roundtrip:ok:int", "decode:ok:list-depth1", "decode:err:format", "decode:err:type",
			"callparam:ok", "notify:decoded", "alloc:bounded:list-claim:err", "encode:refused:out-of-range-int"} {
			r.NeedClass(c)
		}
	}
}

package crossvm_codec

// C25 — call histories: "values ... encode and decode back to equal values"
// is a statement about every call of the codec, whatever the process did
// before.  The codec unit evaluates its values in one long enumeration; this
// unit executes every ordered history (A), (A,B) and (A1,A2,B) over an alphabet
// of codec calls — DeserializeNotify / DeserializeCallParam / EncodeValue on
// the all-zero address, its one-bit neighbours, addresses sharing the last
// byte with it and with each other, distinct addresses, the other leaf types
// and event lists — as the FIRST codec calls of a fresh process (the test
// binary re-executes itself once per history), and demands that the last
// call's result equals its result as the very first call of a fresh process.
//
// The payloads are encoded by hand (c25henc) so that a history contains no
// codec call other than its own steps.

import (
	"bytes"
	"encoding/binary"
	"encoding/hex"
	"fmt"
	"math/big"
	"os"
	"os/exec"
	"strconv"
	"strings"
	"sync"
	"testing"
	"time"

	"github.com/ontio/ontology/common"
	"github.com/ontio/ontology/common/log"
	"github.com/ontio/ontology/verifshim/vh"
)

const c25envHist = "VERIF_C25_HIST"

type c25step struct {
	name string // op:value
	op   string // notify | call | encode
	tc   string // type class of the value
	val  interface{}
	enc  []byte // hand-made encoding of val
}

// c25henc: the wire format written down independently of the codec.
func c25henc(v interface{}) []byte {
	u32 := func(n int) []byte {
		var b [4]byte
		binary.LittleEndian.PutUint32(b[:], uint32(n))
		return b[:]
	}
	switch x := v.(type) {
	case []byte:
		return append(append([]byte{0x00}, u32(len(x))...), x...)
	case string:
		return append(append([]byte{0x01}, u32(len(x))...), x...)
	case common.Address:
		return append([]byte{0x02}, x[:]...)
	case bool:
		if x {
			return []byte{0x03, 1}
		}
		return []byte{0x03, 0}
	case *big.Int: // history alphabet: int64 range only; 16 bytes little-endian two's complement
		n := x.Int64()
		out := []byte{0x04}
		var b [8]byte
		binary.LittleEndian.PutUint64(b[:], uint64(n))
		out = append(out, b[:]...)
		ext := byte(0)
		if n < 0 {
			ext = 0xff
		}
		for i := 0; i < 8; i++ {
			out = append(out, ext)
		}
		return out
	case common.Uint256:
		return append([]byte{0x05}, x[:]...)
	case []interface{}:
		out := append([]byte{0x10}, u32(len(x))...)
		for _, e := range x {
			out = append(out, c25henc(e)...)
		}
		return out
	}
	panic(fmt.Sprintf("c25henc: %T", v))
}

func c25addrWith(base common.Address, pos int, b byte) common.Address {
	base[pos] = b
	return base
}

// c25steps: the call alphabet.  addrCalls = DeserializeNotify on the eight addresses (the alphabet of the two-step
// fresh-process histories on the quick tier); zeroHood = those on the zero address and its one-bit neighbours
// (prefix alphabet of the three-step fresh-process histories).
func c25steps() (steps []c25step, addrCalls, zeroHood []int) {
	var zero common.Address
	var q common.Address
	for i := range q {
		q[i] = byte(0x31 + i)
	}
	type nv struct {
		name string
		v    interface{}
	}
	addrs := []nv{
		{"addr:zero", zero},
		{"addr:zero-first-byte-01", c25addrWith(zero, 0, 0x01)}, // shares the last byte (and 19 bytes) with zero
		{"addr:zero-last-byte-40", c25addrWith(zero, common.ADDR_LEN-1, 0x40)},
		{"addr:zero-last-byte-80", c25addrWith(zero, common.ADDR_LEN-1, 0x80)},
		{"addr:ff", c25addrFF},
		{"addr:P", c25addr},
		{"addr:P-first-byte-11", c25addrWith(c25addr, 0, 0x11)}, // shares the last byte with P
		{"addr:Q", q},
	}
	mint := []interface{}{"transfer", zero, c25addr, big.NewInt(100)}
	others := []nv{
		{"bytes:empty", []byte{}},
		{"bytes:010203", []byte{1, 2, 3}},
		{"h256:zero", common.Uint256{}},
		{"h256:H", c25hash},
		{"int:100", big.NewInt(100)},
		{"int:-2", big.NewInt(-2)},
		{"string:transfer", "transfer"},
		{"list:mint-event", mint},
		{"list:nested", []interface{}{c25addrWith(c25addr, 0, 0x11), []interface{}{zero, c25addrFF}, c25hash}},
	}
	add := func(op string, x nv) {
		steps = append(steps, c25step{name: op + ":" + x.name, op: op, tc: c25typeClass(x.v), val: x.v, enc: c25henc(x.v)})
	}
	for i, a := range addrs {
		if i < 4 {
			zeroHood = append(zeroHood, len(steps))
		}
		addrCalls = append(addrCalls, len(steps))
		add("notify", a)
	}
	for _, o := range others {
		add("notify", o)
	}
	for _, x := range []nv{addrs[0], addrs[5], others[4], others[7]} {
		add("call", x)
	}
	for _, x := range []nv{addrs[0], addrs[5], others[7]} {
		add("encode", x)
	}
	return
}

// c25doStep: one codec call, its complete result as text.
func c25doStep(s c25step) (out string) {
	p := vh.Catch(func() {
		switch s.op {
		case "notify":
			out = c25render(DeserializeNotify(append([]byte("evt\x00"), s.enc...)))
		case "call":
			v, err := DeserializeCallParam(append([]byte{0}, s.enc...))
			if err != nil {
				out = "error: " + err.Error()
			} else {
				out = c25render(v)
			}
		case "encode":
			b, err := EncodeValue(s.val)
			if err != nil {
				out = "error: " + err.Error()
			} else {
				out = "enc(" + hex.EncodeToString(b) + ")"
			}
		}
	})
	if p != "" {
		out = "PANIC: " + p
	}
	return
}

// c25histChild: the body of the re-executed test binary: the steps of ONE history, the first codec calls of this process.
func c25histChild(spec string) {
	log.InitLog(log.MaxLevelLog)
	steps, _, _ := c25steps()
	var sb strings.Builder
	for _, f := range strings.Split(spec, ",") {
		i, err := strconv.Atoi(f)
		if err != nil || i < 0 || i >= len(steps) {
			fmt.Printf("C25H ERROR bad step %q\n", f)
			return
		}
		sb.WriteString(fmt.Sprintf("C25H %d %s\n", i, strconv.Quote(c25doStep(steps[i]))))
	}
	os.Stdout.WriteString(sb.String())
}

func c25histSpec(h []int) string {
	p := make([]string, len(h))
	for i, x := range h {
		p[i] = strconv.Itoa(x)
	}
	return strings.Join(p, ",")
}

// c25runChild executes one history in a fresh process; the results of its steps.
func c25runChild(h []int) ([]string, error) {
	bin := os.Getenv("VERIF_BIN")
	if bin == "" {
		var err error
		if bin, err = os.Executable(); err != nil {
			return nil, err
		}
	}
	cmd := exec.Command(bin, "-test.run", "^TestVerif_C25_hist$", "-test.count", "1", "-test.timeout", "0")
	cmd.Env = append(os.Environ(), c25envHist+"="+c25histSpec(h), "VERIF_OUT=", "VERIF_REPLAY=", "GOTRACEBACK=none", "GOMAXPROCS=1")
	var stdout, stderr bytes.Buffer
	cmd.Stdout, cmd.Stderr = &stdout, &stderr
	if err := cmd.Run(); err != nil {
		return nil, fmt.Errorf("history %s: %v: %.300s", c25histSpec(h), err, stderr.String())
	}
	var res []string
	for _, line := range strings.Split(stdout.String(), "\n") {
		if !strings.HasPrefix(line, "C25H ") {
			continue
		}
		f := strings.SplitN(line[5:], " ", 2)
		if len(f) != 2 || f[0] == "ERROR" {
			return nil, fmt.Errorf("history %s: child says %q", c25histSpec(h), line)
		}
		s, err := strconv.Unquote(f[1])
		if err != nil {
			return nil, fmt.Errorf("history %s: child line %q: %v", c25histSpec(h), line, err)
		}
		res = append(res, s)
	}
	if len(res) != len(h) {
		return nil, fmt.Errorf("history %s: %d results from the child: %.300s %.300s", c25histSpec(h), len(res), stdout.String(), stderr.String())
	}
	return res, nil
}

// c25runChildren: every history in its own process, `par` at a time; results in the order of hs (nil = not run: deadline).
func c25runChildren(r *vh.Run, hs [][]int, par int) ([][]string, error) {
	out := make([][]string, len(hs))
	errs := make([]error, len(hs))
	var wg sync.WaitGroup
	next := make(chan int)
	for w := 0; w < par; w++ {
		wg.Add(1)
		go func() {
			defer wg.Done()
			for i := range next {
				out[i], errs[i] = c25runChild(hs[i])
			}
		}()
	}
	for i := range hs {
		if r.Expired() {
			break
		}
		next <- i
	}
	close(next)
	wg.Wait()
	for _, e := range errs {
		if e != nil {
			return out, e
		}
	}
	return out, nil
}

func c25histName(steps []c25step, h []int) string {
	p := make([]string, len(h))
	for i, x := range h {
		p[i] = steps[x].name
	}
	return strings.Join(p, " -> ")
}

// key: the last call's (operation, type) and the (operation, type) of the calls before it
func c25histKey(steps []c25step, h []int) string {
	last := steps[h[len(h)-1]]
	var pre []string
	for _, x := range h[:len(h)-1] {
		pre = append(pre, steps[x].op+":"+steps[x].tc)
	}
	return "history-dependent:" + last.op + ":" + last.tc + ":after-" + strings.Join(pre, ",")
}

func c25histOps(steps []c25step, h []int) string {
	var pre []string
	for _, x := range h[:len(h)-1] {
		pre = append(pre, steps[x].op)
	}
	s := steps[h[len(h)-1]].op
	if len(pre) > 0 {
		s += "-after-" + strings.Join(pre, ",")
	}
	return s
}

func TestVerif_C25_hist(t *testing.T) {
	if spec := os.Getenv(c25envHist); spec != "" {
		c25histChild(spec)
		return
	}
	r := vh.Start(t, "C25", "history")
	defer r.Finish()
	log.InitLog(log.MaxLevelLog)
	t0 := time.Now()
	defer func() { r.Set("history_wall_s", time.Since(t0).Seconds()) }()
	r.Rule("call histories: alphabet of codec calls = DeserializeNotify on 8 addresses (all-zero, its one-bit neighbours first byte 01 / last byte 40 / last byte 80, all-ones, two addresses sharing the last byte, a distinct one), " +
		"on bytes / h256 (zero and not) / integers / string and on two event lists containing addresses; DeserializeCallParam and EncodeValue on the zero address, an address, an integer and an event list. " +
		"Fresh-process histories: a history is executed as the first codec calls of a re-execution of the test binary (one process per history, payloads encoded by hand); the complete result of its last call " +
		"must equal that call's result as the very first codec call of a fresh process, and first calls must agree between fresh processes. " +
		"Long-lived process: all three-step histories over the whole alphabet one after another in one process against the same references; " +
		"distinct = (history length, operations) classes")

	steps, addrCalls, zeroHood := c25steps()
	n := len(steps)
	report := func(h []int, ref, got string) {
		r.Violationf(c25histKey(steps, h), c25case{History: c25histName(steps, h), API: steps[h[len(h)-1]].op},
			"history [%s] executed as the first codec calls of a fresh process: the last call's result differs from its result as the very first codec call of a fresh process.\n fresh process: %.400s\n in this history: %.400s",
			c25histName(steps, h), ref, got)
	}

	var rc c25case
	if r.ReplayCase(&rc) {
		if rc.History == "" {
			return // a case of the codec unit
		}
		var h []int
		for _, nm := range strings.Split(rc.History, " -> ") {
			idx := -1
			for i, s := range steps {
				if s.name == nm {
					idx = i
				}
			}
			r.Need(idx >= 0, "replay: unknown step %q", nm)
			h = append(h, idx)
		}
		res, err := c25runChildren(r, [][]int{{h[len(h)-1]}, h}, 2)
		r.Need(err == nil && res[0] != nil && res[1] != nil, "replay children: %v", err)
		ref, got := res[0][0], res[1][len(h)-1]
		r.Eval(2)
		r.Sample(map[string]string{"history": rc.History, "fresh": ref, "in-history": got})
		if ref != got {
			report(h, ref, got)
		}
		return
	}

	// the histories whose LAST call is mine
	var mine []int
	isMine := map[int]bool{}
	for b := 0; b < n; b++ {
		if r.Mine(b) {
			mine = append(mine, b)
			isMine[b] = true
		}
	}
	// two-step fresh-process histories: quick = addresses x addresses, thorough = everything x everything
	pair := addrCalls
	if r.Thorough() {
		pair = nil
		for a := 0; a < n; a++ {
			pair = append(pair, a)
		}
	}
	r.Bound(fmt.Sprintf("alphabet: %d calls; fresh process per history: %d first calls, %d^2 two-step histories (%s), on the thorough tier %d^2 x %d three-step histories (zero-address neighbourhood, then an address); one long-lived process: all %d^3 three-step histories",
		n, n, len(pair), map[bool]string{true: "all calls", false: "DeserializeNotify on the 8 addresses"}[r.Thorough()], len(zeroHood), len(addrCalls), n))
	var hs [][]int
	first := map[int]bool{}
	for _, b := range pair {
		if !isMine[b] {
			continue
		}
		for _, a := range pair {
			hs = append(hs, []int{a, b})
			first[a] = true
		}
	}
	if r.Thorough() {
		for _, b := range addrCalls {
			if !isMine[b] {
				continue
			}
			for _, a1 := range zeroHood {
				for _, a2 := range zeroHood {
					hs = append(hs, []int{a1, a2, b})
				}
			}
		}
	}
	for _, b := range mine {
		if !first[b] { // no history of mine starts with b: its first-call reference needs a process of its own
			hs = append(hs, []int{b})
		}
	}
	res, err := c25runChildren(r, hs, 4)
	r.Need(err == nil, "fresh-process histories: %v", err)

	// references: the first call of every fresh process (they must agree with each other)
	ref := map[int]string{}
	capped := false
	for i, h := range hs {
		if res[i] == nil {
			capped = true
			continue
		}
		a, got := h[0], res[i][0]
		if old, ok := ref[a]; ok {
			if old != got {
				r.Violationf("history-dependent:"+steps[a].op+":"+steps[a].tc+":first-calls-of-fresh-processes-disagree", c25case{History: steps[a].name, API: steps[a].op},
					"%s as the very first codec call gave different results in two fresh processes:\n %.400s\n %.400s", steps[a].name, old, got)
			}
			continue
		}
		ref[a] = got
		r.Eval(1)
		r.Trace(1)
		r.Class("history1:" + steps[a].op)
		// (whether the result is RIGHT is the codec unit's question; here it is the reference)
		if got != "" && !strings.HasPrefix(got, "PANIC") && !strings.HasPrefix(got, "error") {
			r.Class("history1:first-call-succeeds")
		} else {
			r.Class("history1:first-call-fails")
		}
		if isMine[a] && (a < 3 || steps[a].op != "notify") {
			r.Sample(map[string]string{"call": steps[a].name, "payload": hex.EncodeToString(steps[a].enc), "fresh-process-result": got})
		}
	}
	if capped {
		r.Capped("deadline: not every history was executed")
		return
	}
	badPair := map[[2]int]bool{} // (prefix call, last call) of a differing two-step history
	badLast := map[int]bool{}
	for i, h := range hs {
		if len(h) < 2 {
			continue
		}
		b := h[len(h)-1]
		got := res[i][len(h)-1]
		r.Eval(int64(len(h)))
		r.Trace(1)
		r.Class(fmt.Sprintf("history%d:%s", len(h), c25histOps(steps, h)))
		if got == ref[b] {
			continue
		}
		// a three-step history is reported only when no two-step sub-history with the same last call already differs
		if len(h) == 2 || (!badPair[[2]int{h[0], b}] && !badPair[[2]int{h[1], b}]) {
			report(h, ref[b], got)
		}
		if len(h) == 2 {
			badPair[[2]int{h[0], b}] = true
		}
		badLast[b] = true
	}

	// all three-step histories, one after another in THIS process (its state accumulates over the histories: a
	// weaker, much cheaper form of the same comparison; one key per kind of last call, reported only when no
	// fresh-process history with that last call already differs)
	for _, b := range mine {
		differs, firstH := 0, []int(nil)
		var firstGot string
		for a1 := 0; a1 < n; a1++ {
			for a2 := 0; a2 < n; a2++ {
				c25doStep(steps[a1])
				c25doStep(steps[a2])
				got := c25doStep(steps[b])
				if got != ref[b] {
					differs++
					if firstH == nil {
						firstH, firstGot = []int{a1, a2, b}, got
					}
				}
			}
		}
		r.Eval(int64(3 * n * n))
		r.Trace(int64(n * n))
		r.ClassN("history-long-lived:"+steps[b].op, int64(n*n))
		if differs > 0 && !badLast[b] {
			// (only on this failing path) look for a two-step history that shows it in a fresh process: a precise, replayable witness
			var ds [][]int
			for a := 0; a < n; a++ {
				ds = append(ds, []int{a, b})
			}
			dres, derr := c25runChildren(r, ds, 4)
			found := false
			for i, h := range ds {
				if derr == nil && dres[i] != nil && dres[i][1] != ref[b] {
					found = true
					r.Eval(2)
					report(h, ref[b], dres[i][1])
				}
			}
			if found {
				continue
			}
			r.Violationf("history-dependent:"+steps[b].op+":"+steps[b].tc+":after-earlier-histories-in-one-process",
				c25case{History: c25histName(steps, firstH), API: steps[b].op, Comment: "executed after other histories in one long-lived process; no two-step history shows it in a fresh process; need not reproduce as a history of its own"},
				"%d of the %d three-step histories ending in %s, executed one after another in one process, end in a result that differs from the call's result as the very first codec call of a fresh process; first: [%s]\n fresh process: %.400s\n in this process: %.400s",
				differs, n*n, steps[b].name, c25histName(steps, firstH), ref[b], firstGot)
		}
	}

	// the hand-made payloads are the codec's encodings (checked last: the parent's own codec calls are not part of any history)
	// (a disagreement is not judged here: the round trip is the codec unit's question; need_classes demands the agreement on a quiet run)
	agree := true
	for _, s := range steps {
		if enc, err := EncodeValue(s.val); err != nil || !bytes.Equal(enc, s.enc) {
			agree = false
			r.Sample(map[string]string{"call": s.name, "hand-made": hex.EncodeToString(s.enc), "EncodeValue": hex.EncodeToString(enc)})
		}
	}
	if agree {
		r.Class("history:hand-made-payloads-are-the-codec-encodings")
	}
	if r.R.NShards == 1 {
		for _, c := range []string{"history1:notify", "history1:call", "history1:encode", "history2:notify-after-notify",
			"history-long-lived:notify", "history-long-lived:call", "history-long-lived:encode", "history1:first-call-succeeds", "history:hand-made-payloads-are-the-codec-encodings"} {
			r.NeedClass(c)
		}
	}
}

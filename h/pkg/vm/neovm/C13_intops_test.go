package neovm

import (
	"fmt"
	"math/big"
	"sort"
	"testing"

	"github.com/ontio/ontology/verifshim/vh"
	"github.com/ontio/ontology/vm/neovm/types"
)

// C13 — every NeoVM arithmetic / bitwise / shift / comparison opcode returns
// the mathematically exact result whenever operands and result fit the VM's
// integer bound (|v| < 2^256, i.e. magnitude <= 32 bytes:
// types.IntValFromBigInt), faults otherwise, independently of how the
// operands are represented (machine int, big int, byte array of any padding,
// push opcode, bool).
//
// The oracle is arithmetic on math/big values written from the statement;
// bitwise operations are computed on sign-extended two's complement bytes by
// the harness' own codec so that they do not share code with the VM.

// ---------------------------------------------------------------- values

var (
	c13one   = big.NewInt(1)
	c13bound = new(big.Int).Lsh(big.NewInt(1), 256) // |v| < 2^256
	c13min64 = new(big.Int).Neg(new(big.Int).Lsh(big.NewInt(1), 63))
	c13max64 = new(big.Int).Sub(new(big.Int).Lsh(big.NewInt(1), 63), big.NewInt(1))
)

func c13pow(k uint) *big.Int { return new(big.Int).Lsh(big.NewInt(1), k) }

func c13inBound(v *big.Int) bool { return v.CmpAbs(c13bound) < 0 }

func c13isInt64(v *big.Int) bool { return v.Cmp(c13min64) >= 0 && v.Cmp(c13max64) <= 0 } // not big.Int.IsInt64: the VM uses that

// c13name gives the operand class used in violation keys: a few sharp values
// by name, everything else by sign and size class.
func c13name(v *big.Int) string {
	switch {
	case v.Sign() == 0:
		return "0"
	case v.Cmp(c13one) == 0:
		return "1"
	case v.Cmp(big.NewInt(-1)) == 0:
		return "-1"
	case v.Cmp(c13min64) == 0:
		return "MinInt64"
	case v.Cmp(c13max64) == 0:
		return "MaxInt64"
	case v.Cmp(new(big.Int).Sub(c13min64, c13one)) == 0:
		return "MinInt64-1"
	case v.Cmp(new(big.Int).Add(c13max64, c13one)) == 0:
		return "MaxInt64+1"
	case v.Cmp(new(big.Int).Sub(c13bound, c13one)) == 0:
		return "2^256-1"
	case v.Cmp(new(big.Int).Neg(new(big.Int).Sub(c13bound, c13one))) == 0:
		return "-(2^256-1)"
	}
	s := "+"
	if v.Sign() < 0 {
		s = "-"
	}
	a := new(big.Int).Abs(v)
	switch {
	case a.Cmp(big.NewInt(300)) <= 0:
		return s + "small"
	case c13isInt64(v):
		return s + "int64"
	case c13inBound(v):
		return s + "big"
	}
	return s + "oversize"
}

// c13enc is the harness' own minimal little-endian two's complement encoder.
func c13enc(v *big.Int) []byte {
	if v.Sign() == 0 {
		return []byte{}
	}
	// smallest n with -2^(8n-1) <= v < 2^(8n-1)
	var n int
	if v.Sign() > 0 {
		n = v.BitLen()/8 + 1
	} else {
		m := new(big.Int).Neg(v)
		m.Sub(m, c13one)
		n = m.BitLen()/8 + 1
	}
	return c13encW(v, n)
}

// c13encW encodes v in exactly w bytes (v must fit).
func c13encW(v *big.Int, w int) []byte {
	u := new(big.Int).Set(v)
	if u.Sign() < 0 {
		u.Add(u, c13pow(uint(8*w)))
	}
	be := u.Bytes()
	out := make([]byte, w)
	for i := 0; i < len(be) && i < w; i++ {
		out[i] = be[len(be)-1-i]
	}
	return out
}

func c13dec(b []byte) *big.Int {
	if len(b) == 0 {
		return new(big.Int)
	}
	be := make([]byte, len(b))
	for i := range b {
		be[len(b)-1-i] = b[i]
	}
	u := new(big.Int).SetBytes(be)
	if b[len(b)-1]&0x80 != 0 {
		u.Sub(u, c13pow(uint(8*len(b))))
	}
	return u
}

func c13pad(b []byte, neg bool, to int) []byte {
	out := append([]byte{}, b...)
	f := byte(0)
	if neg {
		f = 0xff
	}
	for len(out) < to {
		out = append(out, f)
	}
	return out
}

// ---------------------------------------------------------------- operand representations

const (
	c13repInt    = "int"    // VmValue of integer/bigint type placed on the stack
	c13repBytes  = "bytes"  // minimal byte array pushed by the script
	c13repPad    = "padded" // byte array with one redundant sign byte, pushed by the script
	c13repPad33  = "pad33"  // byte array sign-extended to 33 bytes (value still in bound)
	c13repPushOp = "pushop" // PUSHM1 / PUSH0..PUSH16
	c13repBool   = "bool"   // VmValue of bool type (0/1)
)

type c13operand struct {
	v    *big.Int
	name string
	reps []string          // representations available for this value
	frag map[string][]byte // script fragment per script representation
}

func c13mkOperand(v *big.Int, full bool, wide bool) c13operand {
	o := c13operand{v: v, name: c13name(v)}
	if c13inBound(v) {
		o.reps = append(o.reps, c13repInt)
	}
	o.reps = append(o.reps, c13repBytes)
	if full {
		o.reps = append(o.reps, c13repPad)
		if v.Cmp(big.NewInt(-1)) >= 0 && v.Cmp(big.NewInt(16)) <= 0 {
			o.reps = append(o.reps, c13repPushOp)
		}
		if v.Sign() == 0 || v.Cmp(c13one) == 0 {
			o.reps = append(o.reps, c13repBool)
		}
		if wide && len(c13enc(v)) < 33 {
			o.reps = append(o.reps, c13repPad33)
		}
	}
	o.frag = map[string][]byte{}
	for _, rp := range o.reps {
		o.frag[rp] = c13frag(v, rp)
	}
	return o
}

func c13frag(v *big.Int, rp string) []byte {
	switch rp {
	case c13repBytes:
		return c13script(c13enc(v))
	case c13repPad:
		return c13script(c13pad(c13enc(v), v.Sign() < 0, len(c13enc(v))+1))
	case c13repPad33:
		return c13script(c13pad(c13enc(v), v.Sign() < 0, 33))
	case c13repPushOp:
		if v.Sign() == 0 {
			return []byte{byte(PUSH0)}
		}
		return []byte{byte(int64(PUSH1) + v.Int64() - 1)}
	}
	return nil
}

func c13script(b []byte) []byte {
	if len(b) >= 1 && len(b) <= 75 {
		return append([]byte{byte(len(b))}, b...)
	}
	if len(b) > 255 {
		panic("c13script: operand too long")
	}
	return append([]byte{byte(PUSHDATA1), byte(len(b))}, b...)
}

// ---------------------------------------------------------------- opcodes

type c13op struct {
	name  string
	code  OpCode
	arity int
	// lenientOversize: the opcode reads its operands without the integer
	// conversion (comparison and boolean opcodes; "lift the 32byte limit" in
	// the code).  For operands beyond the bound the oracle then accepts a
	// fault or the exact answer, never a wrong answer.
	lenientOversize bool
}

var c13ops = []c13op{
	{"ADD", ADD, 2, false}, {"SUB", SUB, 2, false}, {"MUL", MUL, 2, false}, {"DIV", DIV, 2, false}, {"MOD", MOD, 2, false},
	{"AND", AND, 2, false}, {"OR", OR, 2, false}, {"XOR", XOR, 2, false},
	{"MIN", MIN, 2, false}, {"MAX", MAX, 2, false},
	{"SHL", SHL, 2, false}, {"SHR", SHR, 2, false},
	{"LT", LT, 2, true}, {"GT", GT, 2, true}, {"LTE", LTE, 2, true}, {"GTE", GTE, 2, true},
	{"NUMEQUAL", NUMEQUAL, 2, true}, {"NUMNOTEQUAL", NUMNOTEQUAL, 2, true},
	{"BOOLAND", BOOLAND, 2, true}, {"BOOLOR", BOOLOR, 2, true},
	{"EQUAL", EQUAL, 2, true},
	{"INC", INC, 1, false}, {"DEC", DEC, 1, false}, {"SIGN", SIGN, 1, false}, {"NEGATE", NEGATE, 1, false},
	{"ABS", ABS, 1, false}, {"NZ", NZ, 1, false}, {"INVERT", INVERT, 1, false}, {"NOT", NOT, 1, true},
	{"WITHIN", WITHIN, 3, false},
}

func c13opByName(n string) *c13op {
	for i := range c13ops {
		if c13ops[i].name == n {
			return &c13ops[i]
		}
	}
	return nil
}

// ---------------------------------------------------------------- oracle

type c13want struct {
	fault   bool     // must fault
	val     *big.Int // exact result when !fault
	lenient bool     // fault is also acceptable (see reason)
	reason  string   // outcome class
	enc     []byte
}

func (w *c13want) bytes() []byte {
	if w.enc == nil {
		w.enc = c13enc(w.val)
	}
	return w.enc
}

func c13b(x bool) *big.Int {
	if x {
		return big.NewInt(1)
	}
	return big.NewInt(0)
}

func c13bitwise(a, b *big.Int, f func(x, y byte) byte) *big.Int {
	const w = 40
	x, y := c13encW(a, w), c13encW(b, w)
	out := make([]byte, w)
	for i := range out {
		out[i] = f(x[i], y[i])
	}
	return c13dec(out)
}

func c13oracleP(op *c13op, a []*big.Int) *c13want {
	w := c13oracle(op, a)
	return &w
}

func c13oracle(op *c13op, a []*big.Int) c13want {
	over := false
	for _, x := range a {
		if !c13inBound(x) {
			over = true
		}
	}
	if over && !op.lenientOversize {
		return c13want{fault: true, reason: "fault:operand-beyond-bound"}
	}
	fin := func(v *big.Int) c13want {
		if !c13inBound(v) {
			return c13want{fault: true, reason: "fault:result-beyond-bound"}
		}
		if over {
			return c13want{val: v, lenient: true, reason: "oversize-operand:exact-or-fault"}
		}
		if c13isInt64(v) {
			return c13want{val: v, reason: "value:int64"}
		}
		return c13want{val: v, reason: "value:big"}
	}
	x := a[0]
	var y *big.Int
	if len(a) > 1 {
		y = a[1]
	}
	switch op.name {
	case "ADD":
		return fin(new(big.Int).Add(x, y))
	case "SUB":
		return fin(new(big.Int).Sub(x, y))
	case "MUL":
		return fin(new(big.Int).Mul(x, y))
	case "DIV":
		if y.Sign() == 0 {
			return c13want{fault: true, reason: "fault:div-by-zero"}
		}
		return fin(new(big.Int).Quo(x, y)) // truncates toward zero
	case "MOD":
		if y.Sign() == 0 {
			return c13want{fault: true, reason: "fault:div-by-zero"}
		}
		return fin(new(big.Int).Rem(x, y)) // sign of the dividend
	case "AND":
		return fin(c13bitwise(x, y, func(p, q byte) byte { return p & q }))
	case "OR":
		return fin(c13bitwise(x, y, func(p, q byte) byte { return p | q }))
	case "XOR":
		return fin(c13bitwise(x, y, func(p, q byte) byte { return p ^ q }))
	case "MIN":
		if x.Cmp(y) <= 0 {
			return fin(x)
		}
		return fin(y)
	case "MAX":
		if x.Cmp(y) >= 0 {
			return fin(x)
		}
		return fin(y)
	case "SHL", "SHR":
		if y.Sign() < 0 {
			return c13want{fault: true, reason: "fault:negative-shift"}
		}
		if y.Cmp(big.NewInt(256)) > 0 {
			// a count beyond the bit width of the bound: the only results that
			// fit are 0 (and -1 for SHR); the statement does not say whether
			// such a count is itself an acceptable operand, so a fault is
			// accepted as well as the exact value, a wrong value is not.
			if op.name == "SHL" {
				if x.Sign() != 0 {
					return c13want{fault: true, reason: "fault:result-beyond-bound"}
				}
				return c13want{val: big.NewInt(0), lenient: true, reason: "shift-count>256:exact-or-fault"}
			}
			r := big.NewInt(0)
			if x.Sign() < 0 {
				r = big.NewInt(-1)
			}
			return c13want{val: r, lenient: true, reason: "shift-count>256:exact-or-fault"}
		}
		n := uint(y.Int64())
		if op.name == "SHL" {
			return fin(new(big.Int).Mul(x, c13pow(n)))
		}
		return fin(new(big.Int).Div(x, c13pow(n))) // Euclidean with positive divisor = floor
	case "LT":
		return fin(c13b(x.Cmp(y) < 0))
	case "GT":
		return fin(c13b(x.Cmp(y) > 0))
	case "LTE":
		return fin(c13b(x.Cmp(y) <= 0))
	case "GTE":
		return fin(c13b(x.Cmp(y) >= 0))
	case "NUMEQUAL", "EQUAL":
		return fin(c13b(x.Cmp(y) == 0))
	case "NUMNOTEQUAL":
		return fin(c13b(x.Cmp(y) != 0))
	case "BOOLAND":
		return fin(c13b(x.Sign() != 0 && y.Sign() != 0))
	case "BOOLOR":
		return fin(c13b(x.Sign() != 0 || y.Sign() != 0))
	case "INC":
		return fin(new(big.Int).Add(x, c13one))
	case "DEC":
		return fin(new(big.Int).Sub(x, c13one))
	case "SIGN":
		return fin(big.NewInt(int64(x.Sign())))
	case "NEGATE":
		return fin(new(big.Int).Neg(x))
	case "ABS":
		return fin(new(big.Int).Abs(x))
	case "NZ":
		return fin(c13b(x.Sign() != 0))
	case "NOT":
		return fin(c13b(x.Sign() == 0))
	case "INVERT":
		return fin(new(big.Int).Sub(new(big.Int).Neg(x), c13one)) // ^x = -x-1
	case "WITHIN":
		return fin(c13b(x.Cmp(a[1]) >= 0 && x.Cmp(a[2]) < 0))
	}
	panic("c13oracle: " + op.name)
}

// ---------------------------------------------------------------- execution on the real Executor

type c13got struct {
	fault bool
	err   string
	val   *big.Int
	bytes []byte
	typ   byte
	count int
}

// c13exec loads the operands in order (a script push executed as one VM
// step, or a typed value placed on the evaluation stack) and then lets
// Executor.Execute run the opcode.
func c13exec(op *c13op, vals []*big.Int, reps []string, frags [][]byte) (g c13got, infra string) {
	code := make([]byte, 0, 80)
	for i, v := range vals {
		if frags != nil {
			code = append(code, frags[i]...)
		} else {
			code = append(code, c13frag(v, reps[i])...)
		}
	}
	code = append(code, byte(op.code))
	// a fresh engine per case; the two 64-slot stacks of NewExecutor are
	// recycled (emptied) instead of reallocated, everything else is what
	// NewExecutor sets up
	e := c13engine
	if e == nil {
		e = NewExecutor(code, VmFeatureFlag{})
		c13engine = e
	} else {
		for i := range e.EvalStack.data {
			e.EvalStack.data[i] = types.VmValue{}
		}
		for i := range e.AltStack.data {
			e.AltStack.data[i] = types.VmValue{}
		}
		e.EvalStack.data = e.EvalStack.data[:0]
		e.AltStack.data = e.AltStack.data[:0]
		e.Context = NewExecutionContext(code, VmFeatureFlag{})
		e.Callers = nil
		e.State = BREAK
	}
	for i, v := range vals {
		switch reps[i] {
		case c13repInt:
			val, err := types.VmValueFromBigInt(new(big.Int).Set(v))
			if err != nil {
				// the bound mechanism itself refuses a value that fits the bound
				g.fault, g.err = true, "operand "+c13name(v)+" refused by VmValueFromBigInt: "+err.Error()
				return g, ""
			}
			if err := e.EvalStack.Push(val); err != nil {
				return g, "push: " + err.Error()
			}
		case c13repBool:
			if err := e.EvalStack.Push(types.VmValueFromBool(v.Sign() != 0)); err != nil {
				return g, "push: " + err.Error()
			}
		default:
			opc, eof := e.Context.ReadOpCode()
			if eof {
				return g, "script eof while loading operands"
			}
			if _, err := e.ExecuteOp(opc, e.Context); err != nil {
				return g, "operand push faulted: " + err.Error()
			}
		}
	}
	if e.EvalStack.Count() != len(vals) {
		return g, fmt.Sprintf("stack holds %d operands, want %d", e.EvalStack.Count(), len(vals))
	}
	err := e.Execute()
	if err != nil || e.State == FAULT {
		g.fault = true
		if err != nil {
			g.err = err.Error()
		}
		return g, ""
	}
	g.count = e.EvalStack.Count()
	if g.count >= 1 {
		top, perr := e.EvalStack.Peek(0)
		if perr != nil {
			return g, "peek: " + perr.Error()
		}
		g.typ = top.GetType()
		bi, berr := top.AsBigInt()
		if berr != nil {
			return g, "result is not a number: " + berr.Error()
		}
		g.val = new(big.Int).Set(bi)
		g.bytes, _ = top.AsBytes()
	}
	return g, ""
}

var c13engine *Executor
var c13ii = []string{c13repInt, c13repInt}
var c13bb = []string{c13repBytes, c13repBytes}

type c13case struct {
	Op   string   `json:"op"`
	Args []string `json:"args"`
	Reps []string `json:"reps"`
}

func c13key(op *c13op, vals []*big.Int) string {
	k := op.name + ":"
	for i, v := range vals {
		if i > 0 {
			if op.name == "DIV" || op.name == "MOD" {
				k += "/"
			} else {
				k += ","
			}
		}
		k += c13name(v)
	}
	return k
}

// c13check runs one (opcode, operands, representations) case against want.
func c13check(r *vh.Run, op *c13op, vals []*big.Int, reps []string, frags [][]byte, want *c13want) {
	c13evals++
	var g c13got
	var infra string
	p := vh.Catch(func() { g, infra = c13exec(op, vals, reps, frags) })
	mk := func() c13case {
		c := c13case{Op: op.name, Reps: append([]string{}, reps...)}
		for _, v := range vals {
			c.Args = append(c.Args, v.String())
		}
		return c
	}
	desc := func() string {
		s := op.name + "("
		for i, v := range vals {
			if i > 0 {
				s += ", "
			}
			t := v.String()
			if len(t) > 24 {
				t = fmt.Sprintf("%s[%d bits]", c13name(v), v.BitLen())
			}
			s += t + " as " + reps[i]
		}
		return s + ")"
	}
	if p != "" {
		r.Violationf(c13key(op, vals)+":panic", mk(), "%s panicked: %s", desc(), p)
		return
	}
	if infra != "" {
		r.Need(false, "%s: %s", desc(), infra)
		return
	}
	switch {
	case want.fault:
		if !g.fault {
			r.Violationf(c13key(op, vals), mk(), "%s must fault (%s) but left %v on the stack", desc(), want.reason, g.val)
			return
		}
	case g.fault:
		if !want.lenient {
			r.Violationf(c13key(op, vals), mk(), "%s faulted (%s); exact result %v fits the bound", desc(), g.err, want.val)
			return
		}
		c13class(op, want.reason+":faulted")
		return
	default:
		if g.count != 1 || g.val == nil || g.val.Cmp(want.val) != 0 {
			r.Violationf(c13key(op, vals), mk(), "%s = %v (stack depth %d), exact result is %v", desc(), g.val, g.count, want.val)
			return
		}
		// the stored representation must not leak: the value reads back as the
		// minimal two's complement bytes whatever path computed it (boolean
		// results read back as one byte)
		if g.typ == types.IntegerType {
			if exp := want.bytes(); string(exp) != string(g.bytes) {
				r.Violationf(c13key(op, vals)+":bytes", mk(), "%s result %v reads back as bytes %x, want %x", desc(), want.val, g.bytes, exp)
				return
			}
		}
	}
	c13class(op, want.reason)
}

var c13classes = map[*c13op]map[string]int64{}

func c13class(op *c13op, reason string) {
	m := c13classes[op]
	if m == nil {
		m = map[string]int64{}
		c13classes[op] = m
	}
	m[reason]++
}

var c13evals int64

func c13flush(r *vh.Run) {
	r.Eval(c13evals)
	c13evals = 0
	for op, m := range c13classes {
		for k, n := range m {
			r.ClassN(op.name+":"+k, n)
		}
	}
	c13classes = map[*c13op]map[string]int64{}
}

// c13runAll enumerates every combination of available representations.
func c13runAll(r *vh.Run, op *c13op, ops []c13operand, repLimit map[string]bool) {
	vals := make([]*big.Int, len(ops))
	radix := make([]int, len(ops))
	for i, o := range ops {
		vals[i] = o.v
		radix[i] = len(o.reps)
	}
	want := c13oracleP(op, vals)
	reps := make([]string, len(ops))
	frags := make([][]byte, len(ops))
	vh.Odometer(radix, func(d []int) bool {
		for i, x := range d {
			reps[i] = ops[i].reps[x]
			frags[i] = ops[i].frag[reps[i]]
			if repLimit != nil && !repLimit[reps[i]] {
				return true
			}
			if op.name == "EQUAL" && (reps[i] == c13repPad || reps[i] == c13repPad33 || reps[i] == c13repBool) {
				// EQUAL compares byte strings, not numbers: only canonical forms
				return true
			}
		}
		c13check(r, op, vals, reps, frags, want)
		return true
	})
}

// ---------------------------------------------------------------- alphabets

func c13boundary() []*big.Int {
	var out []*big.Int
	seen := map[string]bool{}
	add := func(v *big.Int) {
		for _, s := range []*big.Int{v, new(big.Int).Neg(v)} {
			if !seen[s.String()] {
				seen[s.String()] = true
				out = append(out, s)
			}
		}
	}
	for _, x := range []int64{0, 1, 2, 3, 7, 10, 16, 17, 63, 64, 65, 127, 128, 129, 255, 256, 257, 32767, 32768,
		3037000499, 3037000500} {
		add(big.NewInt(x))
	}
	for _, k := range []uint{31, 32, 62, 63, 64, 127, 128, 255, 256} {
		p := c13pow(k)
		add(p)
		add(new(big.Int).Sub(p, c13one))
		add(new(big.Int).Add(p, c13one))
	}
	add(new(big.Int).Add(c13pow(256), c13pow(255))) // well beyond the bound, 33 bytes
	add(c13pow(300))
	return out
}

func TestVerif_C13(t *testing.T) {
	r := vh.Start(t, "C13", "intops")
	defer r.Finish()
	defer c13flush(r)
	r.Rule("for every opcode in {ADD SUB MUL DIV MOD AND OR XOR MIN MAX SHL SHR LT GT LTE GTE NUMEQUAL NUMNOTEQUAL BOOLAND BOOLOR EQUAL INC DEC SIGN NEGATE ABS NZ INVERT NOT WITHIN}: (a) all tuples over a boundary alphabet (0, +-1.., +-2^k and +-2^k+-1 for k in {31,32,62,63,64,127,128,255,256}, sqrt(2^63) neighbours, shift counts 63..65/255..257, values beyond the bound) x every combination of operand representations {typed int/bigint on the stack, minimal byte array pushed by script, byte array with redundant sign byte, 33-byte padded array, PUSHM1..PUSH16, bool}; (b) all pairs in [-R,R]^2 and all unary operands in [-U,U]; each executed on a real neovm.Executor (operands loaded, then Execute runs the opcode) and compared with a math/big oracle: exact value, or FAULT iff an operand or the result has magnitude >= 2^256 / division by zero / negative shift count; distinct = (opcode, outcome class)")
	R := int64(r.Pick(100, 130))
	U := int64(r.Pick(33000, 300000))
	r.Bound(fmt.Sprintf("boundary alphabet %d values (pairs, and triples over a 22-value subset for WITHIN); small pairs [-%d,%d]^2 in %s representation pairs; unary [-%d,%d]", len(c13boundary()), R, R, map[bool]string{true: "2 (int/int, bytes/bytes)", false: "4 ({int,bytes}^2)"}[r.Quick()], U, U))
	r.Assume("comparison and boolean opcodes (LT GT LTE GTE NUMEQUAL NUMNOTEQUAL BOOLAND BOOLOR NOT EQUAL) read operands without the 32-byte check on purpose (code comments: 'lift the 32byte limit', 'avoid hard-fork'): for operands beyond the bound the oracle accepts a fault or the exact answer, never a wrong one")
	r.Assume("shift counts above 256: a fault or the exact value (0 / -1) is accepted")

	var c c13case
	if r.ReplayCase(&c) && c.Op != "" {
		op := c13opByName(c.Op)
		r.Need(op != nil && len(c.Args) == op.arity && len(c.Reps) == op.arity, "bad replay case")
		vals := make([]*big.Int, len(c.Args))
		for i, s := range c.Args {
			v, ok := new(big.Int).SetString(s, 10)
			r.Need(ok, "bad replay operand %q", s)
			vals[i] = v
		}
		c13check(r, op, vals, c.Reps, nil, c13oracleP(op, vals))
		return
	}

	bvals := c13boundary()
	sort.Slice(bvals, func(i, j int) bool { return bvals[i].Cmp(bvals[j]) < 0 })
	bops := make([]c13operand, len(bvals))
	for i, v := range bvals {
		bops[i] = c13mkOperand(v, true, r.Thorough())
	}
	r.Set("boundary_values", int64(len(bvals)))

	item := 0
	// (a) boundary alphabet: unary and binary opcodes
	for i := range bops {
		item++
		if !r.Mine(item) {
			continue
		}
		if r.Expired() {
			return
		}
		for k := range c13ops {
			op := &c13ops[k]
			switch op.arity {
			case 1:
				c13runAll(r, op, []c13operand{bops[i]}, nil)
			case 2:
				for j := range bops {
					c13runAll(r, op, []c13operand{bops[i], bops[j]}, nil)
				}
			}
		}
	}
	// WITHIN over triples of a sub-alphabet
	var wsub []c13operand
	for _, o := range bops {
		a := new(big.Int).Abs(o.v)
		for _, keep := range []*big.Int{big.NewInt(0), big.NewInt(1), big.NewInt(2), c13pow(63), new(big.Int).Sub(c13pow(63), c13one),
			new(big.Int).Add(c13pow(63), c13one), c13pow(64), new(big.Int).Sub(c13pow(256), c13one), c13pow(256), c13pow(255), big.NewInt(128)} {
			if a.Cmp(keep) == 0 {
				wsub = append(wsub, c13mkOperand(o.v, r.Thorough(), false))
			}
		}
	}
	within := c13opByName("WITHIN")
	for i := range wsub {
		item++
		if !r.Mine(item) {
			continue
		}
		if r.Expired() {
			return
		}
		for j := range wsub {
			for k := range wsub {
				c13runAll(r, within, []c13operand{wsub[i], wsub[j], wsub[k]}, nil)
			}
		}
	}
	// small triples for WITHIN
	for x := int64(-3); x <= 3; x++ {
		item++
		if !r.Mine(item) {
			continue
		}
		for lo := int64(-3); lo <= 3; lo++ {
			for hi := int64(-3); hi <= 3; hi++ {
				c13runAll(r, within, []c13operand{c13mkOperand(big.NewInt(x), true, false), c13mkOperand(big.NewInt(lo), true, false),
					c13mkOperand(big.NewInt(hi), true, false)}, nil)
			}
		}
	}

	// (b) all small pairs
	small := make([]c13operand, 0, 2*R+1)
	for x := -R; x <= R; x++ {
		small = append(small, c13mkOperand(big.NewInt(x), false, false))
	}
	for i := range small {
		item++
		if !r.Mine(item) {
			continue
		}
		if r.Expired() {
			return
		}
		for j := range small {
			for k := range c13ops {
				op := &c13ops[k]
				if op.arity != 2 {
					continue
				}
				vals := []*big.Int{small[i].v, small[j].v}
				want := c13oracleP(op, vals)
				if r.Quick() {
					c13check(r, op, vals, c13ii, nil, want)
					c13check(r, op, vals, c13bb, [][]byte{small[i].frag[c13repBytes], small[j].frag[c13repBytes]}, want)
				} else {
					c13runAll(r, op, []c13operand{small[i], small[j]}, nil)
				}
			}
		}
	}
	// small x boundary mixed pairs (both orders), int and bytes representations
	lim := map[string]bool{c13repInt: true, c13repBytes: true}
	for i := range small {
		item++
		if !r.Mine(item) {
			continue
		}
		if r.Expired() {
			return
		}
		if r.Quick() && (small[i].v.Int64() < -10 || small[i].v.Int64() > 40) {
			continue
		}
		for j := range bops {
			for k := range c13ops {
				op := &c13ops[k]
				if op.arity != 2 {
					continue
				}
				c13runAll(r, op, []c13operand{small[i], bops[j]}, lim)
				c13runAll(r, op, []c13operand{bops[j], small[i]}, lim)
			}
		}
	}
	// unary over a dense range
	for x := -U; x <= U; x++ {
		if x%1024 == 0 {
			item++
			if r.Expired() {
				return
			}
		}
		if !r.Mine(item) {
			continue
		}
		o := c13mkOperand(big.NewInt(x), false, false)
		for k := range c13ops {
			if c13ops[k].arity == 1 {
				c13runAll(r, &c13ops[k], []c13operand{o}, nil)
			}
		}
	}

	r.Sample(c13case{"DIV", []string{c13min64.String(), "-1"}, []string{c13repInt, c13repInt}})
	r.Sample(c13case{"MUL", []string{c13pow(128).String(), c13pow(128).String()}, []string{c13repBytes, c13repInt}})
	r.Sample(c13case{"SHR", []string{"-5", "257"}, []string{c13repPad, c13repBytes}})
	c13flush(r)
	r.NeedClass("ADD:value:int64")
	r.NeedClass("ADD:value:big")
	r.NeedClass("MUL:fault:result-beyond-bound")
	r.NeedClass("DIV:fault:div-by-zero")
	r.NeedClass("SHL:fault:negative-shift")
}

package types

// C25 (NeoVM side): a NeoVM result marshalled with BuildResultFromNeo decodes
// with the cross-VM codec to the equal value (bytes, 128-bit integers,
// booleans, nested arrays); values the codec cannot carry are refused.

import (
	"bytes"
	"fmt"
	"math/big"
	"strings"
	"testing"

	"github.com/ontio/ontology/common"
	"github.com/ontio/ontology/common/log"
	"github.com/ontio/ontology/vm/crossvm_codec"
	"github.com/ontio/ontology/verifshim/vh"
)

// c25nval: description of a NeoVM value and the Go value it must decode to.
type c25nval struct {
	name string
	mk   func() VmValue
	want interface{} // nil: the codec cannot carry it (BuildResultFromNeo must refuse)
}

func c25nbig(x *big.Int) func() VmValue {
	return func() VmValue {
		v, err := VmValueFromBigInt(new(big.Int).Set(x))
		if err != nil {
			panic(err)
		}
		return v
	}
}

func c25nbytes(b []byte) func() VmValue {
	return func() VmValue {
		v, _ := VmValueFromBytes(append([]byte{}, b...))
		return v
	}
}

func c25nleaves() []c25nval {
	p := func(k uint) *big.Int { return new(big.Int).Lsh(big.NewInt(1), k) }
	max := new(big.Int).Sub(p(127), big.NewInt(1))
	min := new(big.Int).Neg(p(127))
	return []c25nval{
		{"b0102", c25nbytes([]byte{1, 2}), []byte{1, 2}},
		{"i-1", func() VmValue { return VmValueFromInt64(-1) }, big.NewInt(-1)},
		{"true", func() VmValue { return VmValueFromBool(true) }, true},
		{"b", c25nbytes(nil), []byte{}},
		{"i0", func() VmValue { return VmValueFromInt64(0) }, big.NewInt(0)},
		{"false", func() VmValue { return VmValueFromBool(false) }, false},
		{"i2^63", c25nbig(p(63)), p(63)},
		{"i-2^63", func() VmValue { return VmValueFromInt64(-1 << 63) }, new(big.Int).Neg(p(63))},
		{"i2^127-1", c25nbig(max), max},
		{"i-2^127", c25nbig(min), min},
		{"i2^127", c25nbig(p(127)), nil},
		{"i-2^127-1", c25nbig(new(big.Int).Sub(min, big.NewInt(1))), nil},
		{"struct", func() VmValue { return VmValueFromStructVal(NewStructValue()) }, nil},
		{"map", func() VmValue { return NewMapVmValue() }, nil},
	}
}

func c25narray(elems []c25nval) c25nval {
	names := make([]string, len(elems))
	var want []interface{}
	ok := true
	for i, e := range elems {
		names[i] = e.name
		if e.want == nil {
			ok = false
		}
		want = append(want, e.want)
	}
	out := c25nval{name: "[" + strings.Join(names, ",") + "]"}
	out.mk = func() VmValue {
		a := NewArrayValue()
		for _, e := range elems {
			if err := a.Append(e.mk()); err != nil {
				panic(err)
			}
		}
		return VmValueFromArrayVal(a)
	}
	if ok {
		if want == nil {
			want = []interface{}{}
		}
		out.want = want
	}
	return out
}

func c25nlists(syms []c25nval, w int, f func(v c25nval) bool) {
	for n := 0; n <= w; n++ {
		radix := make([]int, n)
		for i := range radix {
			radix[i] = len(syms)
		}
		if n == 0 {
			if !f(c25narray(nil)) {
				return
			}
			continue
		}
		stop := false
		vh.Odometer(radix, func(d []int) bool {
			el := make([]c25nval, n)
			for i, x := range d {
				el[i] = syms[x]
			}
			if !f(c25narray(el)) {
				stop = true
				return false
			}
			return true
		})
		if stop {
			return
		}
	}
}

func c25ncollect(syms []c25nval, w int) []c25nval {
	var out []c25nval
	c25nlists(syms, w, func(v c25nval) bool { out = append(out, v); return true })
	return out
}

func c25neq(a, b interface{}) bool {
	switch x := a.(type) {
	case []byte:
		y, ok := b.([]byte)
		return ok && bytes.Equal(x, y)
	case bool:
		y, ok := b.(bool)
		return ok && x == y
	case *big.Int:
		y, ok := b.(*big.Int)
		return ok && y != nil && x.Cmp(y) == 0
	case []interface{}:
		y, ok := b.([]interface{})
		if !ok || len(x) != len(y) {
			return false
		}
		for i := range x {
			if !c25neq(x[i], y[i]) {
				return false
			}
		}
		return true
	}
	return false
}

func c25nshape(v c25nval) string {
	d := 0
	for d < len(v.name) && v.name[d] == '[' {
		d++
	}
	// nesting depth = longest run of '[' anywhere
	max, cur := 0, 0
	for i := 0; i < len(v.name); i++ {
		switch v.name[i] {
		case '[':
			cur++
			if cur > max {
				max = cur
			}
		case ']':
			cur--
		}
	}
	if max == 0 {
		return "leaf"
	}
	return fmt.Sprintf("array-depth%d", max)
}

func c25ncheck(r *vh.Run, v c25nval) {
	r.Eval(1)
	shape := c25nshape(v)
	cs := map[string]string{"value": v.name}
	p := vh.Catch(func() {
		sink := common.NewZeroCopySink(nil)
		err := BuildResultFromNeo(v.mk(), sink)
		if v.want == nil {
			if err == nil {
				r.Violationf("neoresult:accepts-uncarriable:"+shape, cs, "BuildResultFromNeo(%s) succeeded (%x) although the codec cannot carry the value", v.name, sink.Bytes())
			} else {
				r.Class("neoresult:refused:" + shape)
			}
			return
		}
		if err != nil {
			if sink.Size() > crossvm_codec.MAX_PARAM_LENGTH {
				r.Class("neoresult:over-param-length")
				return
			}
			r.Violationf("neoresult:encode-error:"+shape, cs, "BuildResultFromNeo(%s) failed: %v", v.name, err)
			return
		}
		src := common.NewZeroCopySource(sink.Bytes())
		got, err := crossvm_codec.DecodeValue(src)
		if err != nil || src.Len() != 0 {
			r.Violationf("neoresult:decode-error:"+shape, cs, "DecodeValue(BuildResultFromNeo(%s)) = %v, %d bytes unread (encoding %x)", v.name, err, src.Len(), sink.Bytes())
			return
		}
		if !c25neq(v.want, got) {
			r.Violationf("neoresult:not-equal:"+shape, cs, "DecodeValue(BuildResultFromNeo(%s)) = %v", v.name, got)
			return
		}
		r.Class("neoresult:ok:" + shape)
	})
	if p != "" {
		r.Violationf("neoresult:panic:"+shape, cs, "BuildResultFromNeo(%s) panicked: %s", v.name, p)
	}
}

func TestVerif_C25_neo(t *testing.T) {
	r := vh.Start(t, "C25", "neoresult")
	defer r.Finish()
	log.InitLog(log.MaxLevelLog)
	r.Rule("every NeoVM value that is a leaf (bytes, booleans, integers at the int64 and +-2^127 boundaries, out-of-range integers, struct, map) or an array nested up to depth 3 / width 3 over them " +
		"is marshalled with BuildResultFromNeo and decoded with crossvm_codec.DecodeValue; distinct = (outcome, shape) classes")
	r.Bound("arrays: depth<=3, width<=3 (alphabet narrowing with depth), plus arrays around MAX_PARAM_LENGTH")
	leaves := c25nleaves()
	item := 0
	run := func(v c25nval) bool {
		item++
		if r.Mine(item) {
			c25ncheck(r, v)
		}
		return !r.Expired()
	}
	for _, l := range leaves {
		run(l)
	}
	c25nlists(leaves, 3, run)
	red := leaves[:4]
	c25nlists(append(append([]c25nval{}, red...), c25ncollect(red, 2)...), 3, run)
	red3 := leaves[:3]
	d2 := c25ncollect(append(append([]c25nval{}, red3...), c25ncollect(red3, 2)...), 2)
	c25nlists(append(append([]c25nval{}, red3...), d2...), 2, run)
	// around the parameter length limit: n booleans (2 bytes each) after a 5-byte header
	for _, n := range []int{500, 508, 509, 510, 511, 512, 600, 1024} {
		el := make([]c25nval, n)
		for i := range el {
			el[i] = leaves[2]
		}
		v := c25narray(el)
		v.name = fmt.Sprintf("[%d*true]", n)
		run(v)
	}
	if r.R.Shard == 0 {
		r.Sample(map[string]string{"value": "[b0102,[i-1,[true]]]"})
	}
	if r.R.NShards == 1 {
		r.NeedClass("neoresult:ok:array-depth3")
		r.NeedClass("neoresult:refused:leaf")
		r.NeedClass("neoresult:over-param-length")
	}
}

package types

// C14 — histories on the SAME objects.
//
// The statement quantifies over all VM values.  A value is a graph of Go
// objects (array / struct / map containers), and the objects of a value that
// was (correctly) rejected go on living: a contract removes the back reference
// and serializes the same map again, serializes one of its parts, or puts a
// part into a new container.  The part "vmvalue" builds every value from fresh
// objects and evaluates it in isolation; this part runs two-step histories in
// ONE process:
//
//	step 1   op1 on a value v that has to be rejected (a reference cycle that the
//	         examined walk closes) or that is nested deeper than MAX_STRUCT_DEPTH
//	(mid)    nothing / op1 on v once more
//	(repair) nothing / one reference slot of v is overwritten with a primitive
//	step 2   op2 on a value w made of the same objects: every node of the
//	         (repaired) graph as a root, bare or held by a new array / struct /
//	         map; or on an unrelated freshly built value
//
// Oracle for step 2, decided from the description of w alone: a cyclic w is
// rejected; an acyclic w within the limits gives exactly the outcome (verdict,
// error class, output bytes) that an equal value built from fresh objects gave
// before any value was rejected in this process -- for Serialize that reference
// is itself required to succeed and to round-trip.  Values beyond the limits
// only have to terminate without panic.
//
// Determinism of the harness: process-wide caches that the collector may empty
// (sync.Pool) are part of a history's state, therefore the histories run on one
// P with the collector switched off, and the histories of every first value
// start after two explicit collections (which empty every sync.Pool including
// its victim cache).  Without collections no address is reused inside such a
// group.  The same history gives the same verdict in every run and on replay.

import (
	"encoding/hex"
	"fmt"
	"hash/fnv"
	"runtime"
	"runtime/debug"
	"strconv"
	"strings"
	"testing"

	"github.com/ontio/ontology/common"
	"github.com/ontio/ontology/common/log"
	"github.com/ontio/ontology/verifshim/vh"
)

// c14hist: one history (the replayable case).
type c14hist struct {
	V     string `json:"v"`               // description of the first value
	Op1   string `json:"op1,omitempty"`   // "" = every history of V (replay of a process death)
	Mid   string `json:"mid,omitempty"`   // "" | "again"
	Cut   string `json:"cut,omitempty"`   // "i.j": slot j of node i is overwritten with the primitive 0 after step 1
	Node  int    `json:"node"`            // the node of the (repaired) graph that is the root of the second value
	Wrap  string `json:"wrap,omitempty"`  // "" | "A" | "S" | "M": the second value is a new container of that kind holding that node
	Fresh string `json:"fresh,omitempty"` // the second value is this unrelated value built from fresh objects (Cut/Node/Wrap unused)
	Op2   string `json:"op2,omitempty"`
}

var c14hOps = []string{"serialize", "detect", "native", "stringify", "dump"}

var c14hFresh = []string{"M:p0,n1;A:n2,p0;S:p0", "M:p0,p0", "A:n1;M:n2;M:p0"}

// ---------------------------------------------------------------------------
// real objects with handles on every node
// ---------------------------------------------------------------------------

type c14hObj struct {
	vals []VmValue
	arrs []*ArrayValue
	strs []*StructValue
	maps []*MapValue
}

func c14hBuild(g *c14graph) (*c14hObj, error) {
	n := len(g.kinds)
	o := &c14hObj{vals: make([]VmValue, n), arrs: make([]*ArrayValue, n), strs: make([]*StructValue, n), maps: make([]*MapValue, n)}
	for i, k := range g.kinds {
		switch k {
		case 'A':
			o.arrs[i] = NewArrayValue()
			o.vals[i] = VmValueFromArrayVal(o.arrs[i])
		case 'S':
			o.strs[i] = NewStructValue()
			o.vals[i] = VmValueFromStructVal(o.strs[i])
		case 'M':
			o.maps[i] = NewMapValue()
			o.vals[i] = VmValueFromMapValue(o.maps[i])
		}
	}
	for i, k := range g.kinds {
		for j, s := range g.slots[i] {
			var v VmValue
			if s.ref >= 0 {
				v = o.vals[s.ref]
			} else {
				var err error
				if v, err = c14prim(s.prim); err != nil {
					return nil, err
				}
			}
			var err error
			switch k {
			case 'A':
				err = o.arrs[i].Append(v)
			case 'S':
				err = o.strs[i].Append(v)
			case 'M':
				err = o.maps[i].Set(c14mapKey(j), v)
			}
			if err != nil {
				return nil, fmt.Errorf("constructor refused slot %d of node %d: %v", j, i, err)
			}
		}
	}
	return o, nil
}

// cut overwrites slot j of node i with the primitive 0, the way SETITEM does (same container object).
func (o *c14hObj) cut(g *c14graph, i, j int) error {
	p := VmValueFromInt64(0)
	switch g.kinds[i] {
	case 'A':
		o.arrs[i].Data[j] = p
	case 'S':
		o.strs[i].Data[j] = p
	case 'M':
		return o.maps[i].Set(c14mapKey(j), p)
	}
	return nil
}

// wrap puts node k into a new container.
func (o *c14hObj) wrap(k int, kind byte) (VmValue, error) {
	switch kind {
	case 'A':
		a := NewArrayValue()
		return VmValueFromArrayVal(a), a.Append(o.vals[k])
	case 'S':
		s := NewStructValue()
		return VmValueFromStructVal(s), s.Append(o.vals[k])
	case 'M':
		m := NewMapValue()
		return VmValueFromMapValue(m), m.Set(c14mapKey(0), o.vals[k])
	}
	return o.vals[k], nil
}

// ---------------------------------------------------------------------------
// descriptions (boring graph code)
// ---------------------------------------------------------------------------

func c14hClone(g *c14graph) *c14graph {
	out := &c14graph{kinds: append([]byte{}, g.kinds...), prim: g.prim}
	for _, sl := range g.slots {
		out.slots = append(out.slots, append([]c14slot{}, sl...))
	}
	return out
}

// c14hSub: the description of the value rooted at node k (nodes renumbered in discovery order), optionally held by a new container.
func c14hSub(g *c14graph, k int, wrap byte) *c14graph {
	idx := map[int]int{}
	var order []int
	var dfs func(i int)
	dfs = func(i int) {
		idx[i] = len(order)
		order = append(order, i)
		for _, s := range g.slots[i] {
			if s.ref >= 0 {
				if _, ok := idx[s.ref]; !ok {
					dfs(s.ref)
				}
			}
		}
	}
	dfs(k)
	out := &c14graph{}
	off := 0
	if wrap != 0 {
		off = 1
		out.kinds = append(out.kinds, wrap)
		out.slots = append(out.slots, []c14slot{{ref: 1}})
	}
	for _, i := range order {
		out.kinds = append(out.kinds, g.kinds[i])
		sl := make([]c14slot, len(g.slots[i]))
		for j, s := range g.slots[i] {
			if s.ref >= 0 {
				sl[j] = c14slot{ref: idx[s.ref] + off}
			} else {
				sl[j] = s
			}
		}
		out.slots = append(out.slots, sl)
	}
	return out
}

// c14hSpec: one way to make a second value out of the objects of the first.
type c14hSpec struct {
	ci, cj int // cut (ci < 0: none)
	node   int
	wrap   byte
	fresh  string
	w      *c14graph
	in     c14info
	desc   string
	rel    string
}

const c14hExamined = "cyclic:first-slot-path"

func c14hMkSpec(g2 *c14graph, ci, cj, node int, wrap byte) *c14hSpec {
	sp := &c14hSpec{ci: ci, cj: cj, node: node, wrap: wrap}
	sp.w = c14hSub(g2, node, wrap)
	sp.in = c14analyse(sp.w)
	sp.desc = sp.w.String()
	switch {
	case wrap != 0:
		sp.rel = "part-in-new-container"
	case ci >= 0:
		sp.rel = "repaired-value"
	default:
		sp.rel = "sub-value"
	}
	return sp
}

func c14hFreshSpec(desc string) *c14hSpec {
	g, err := c14parse(desc)
	if err != nil {
		panic("c14hFresh: " + err.Error())
	}
	return &c14hSpec{ci: -1, fresh: desc, w: g, in: c14analyse(g), desc: g.String(), rel: "unrelated-fresh-value"}
}

// c14hSpecs: no cut and every cut of one reference slot; every node as the root; bare and (full) held by a new container.
func c14hSpecs(g *c14graph, full bool, f func(sp *c14hSpec)) {
	wraps := []byte{0}
	if full {
		wraps = []byte{0, 'A', 'S', 'M'}
	}
	reach := c14hReach(g)
	each := func(g2 *c14graph, ci, cj int) {
		for k := range g2.kinds {
			if ci >= 0 && k != ci && !reach[k][ci] {
				continue // the cut container is not part of the value rooted at k: the same second value as without the cut
			}
			for _, w := range wraps {
				f(c14hMkSpec(g2, ci, cj, k, w))
			}
		}
	}
	each(g, -1, -1)
	for i := range g.kinds {
		for j, s := range g.slots[i] {
			if s.ref < 0 {
				continue
			}
			g2 := c14hClone(g)
			g2.slots[i][j] = c14slot{ref: -1, prim: "p0"}
			each(g2, i, j)
		}
	}
	if full {
		for _, d := range c14hFresh {
			f(c14hFreshSpec(d))
		}
	}
}

// c14hReach: reach[a][b] = node b is reachable from node a over >= 1 reference.
func c14hReach(g *c14graph) [][]bool {
	n := len(g.kinds)
	reach := make([][]bool, n)
	for i := range reach {
		reach[i] = make([]bool, n)
		for _, s := range g.slots[i] {
			if s.ref >= 0 {
				reach[i][s.ref] = true
			}
		}
	}
	for k := 0; k < n; k++ {
		for i := 0; i < n; i++ {
			if reach[i][k] {
				for j := 0; j < n; j++ {
					if reach[k][j] {
						reach[i][j] = true
					}
				}
			}
		}
	}
	return reach
}

// c14hFirst: a first value of the alphabet.
type c14hFirst struct {
	g    *c14graph
	cls  string // "cyclic" | "overdeep"
	full bool   // containers, mid steps and unrelated values too
}

// c14hTable: the alphabet of first values, stored without pointers (the collector runs before the histories of every
// first value and would otherwise walk the whole table each time).
type c14hTable struct {
	blob []byte
	off  []int32
	cls  []byte // 'c' cyclic, 'd' over-deep
	full []bool
}

func (t *c14hTable) add(desc string, cls byte, full bool) {
	t.off = append(t.off, int32(len(t.blob)))
	t.blob = append(append(t.blob, desc...), '\n')
	t.cls = append(t.cls, cls)
	t.full = append(t.full, full)
}

func (t *c14hTable) n() int { return len(t.off) }

func (t *c14hTable) desc(i int) string {
	end := len(t.blob)
	if i+1 < len(t.off) {
		end = int(t.off[i+1])
	}
	return string(t.blob[t.off[i] : end-1])
}

func (t *c14hTable) get(i int) *c14hFirst {
	g, err := c14parse(t.desc(i))
	if err != nil {
		panic("c14hTable: " + err.Error())
	}
	cls := "cyclic"
	if t.cls[i] == 'd' {
		cls = "overdeep"
	}
	return &c14hFirst{g, cls, t.full[i]}
}

// c14hFirstValues: the alphabet of first values.
//
//	(a) every canonical graph with <=3 container nodes, <=2 slots per node, one primitive, whose examined walk (slot 0 of
//	    arrays and structs, every entry of maps) closes a cycle: cycles through every kind at depth 1..3, every back-edge target;
//	(b) chains of 4..6 containers (kinds M / ASM / AM repeating, link in slot 0 or 1) whose last container refers back to any of them;
//	(c) acyclic chains of MAX_STRUCT_DEPTH+1..+3 containers (kinds A / S / M / ASM / MA repeating, link in slot 0 or 1) around a primitive.
//
// Values whose cycle lies off the examined walk are not in the alphabet: they are the listed findings of the part "vmvalue"
// (the process dies), which this in-process part cannot survive.
func c14hFirstValues(thorough bool) *c14hTable {
	t := &c14hTable{}
	var descs []string
	for _, fam := range []c14family{{1, 2, 1}, {2, 2, 1}, {3, 2, 1}} {
		descs = descs[:0]
		c14enumFamily(fam, func(g *c14graph) bool {
			in := c14analyse(g)
			if in.cyclic && in.cls == c14hExamined {
				descs = append(descs, g.String())
			}
			return true
		})
		for _, d := range descs {
			t.add(d, 'c', fam.nodes < 3 || thorough)
		}
	}
	chain := func(L int, pat string, pos int, last string) string {
		var parts []string
		for i := 0; i < L; i++ {
			body := last
			if i < L-1 {
				body = "n" + strconv.Itoa(i+1)
			}
			if pos == 1 {
				body = "p4," + body
			}
			parts = append(parts, string(pat[i%len(pat)])+":"+body)
		}
		return strings.Join(parts, ";")
	}
	add := func(desc string, cls byte) {
		g, err := c14parse(desc)
		if err != nil {
			panic("c14hFirstValues: " + desc + ": " + err.Error())
		}
		in := c14analyse(g)
		switch cls {
		case 'c':
			if !in.cyclic || in.cls != c14hExamined {
				return
			}
		case 'd':
			if in.cyclic || in.maxDepth <= MAX_STRUCT_DEPTH {
				panic("c14hFirstValues: not over-deep: " + desc)
			}
		}
		t.add(g.String(), cls, true)
	}
	for L := 4; L <= 6; L++ {
		for _, pat := range []string{"M", "ASM", "AM"} {
			for pos := 0; pos <= 1; pos++ {
				for back := 0; back < L; back++ {
					add(chain(L, pat, pos, "n"+strconv.Itoa(back)), 'c')
				}
			}
		}
	}
	for L := MAX_STRUCT_DEPTH + 1; L <= MAX_STRUCT_DEPTH+3; L++ {
		for _, pat := range []string{"A", "S", "M", "ASM", "MA"} {
			for pos := 0; pos <= 1; pos++ {
				add(chain(L, pat, pos, "p0"), 'd')
			}
		}
	}
	return t
}

// ---------------------------------------------------------------------------
// operations
// ---------------------------------------------------------------------------

// c14hRunOp: "ok:<output>" | "rejected:<error class>" | "panic:<text>"
func c14hRunOp(v *VmValue, op string) (out string) {
	p := vh.Catch(func() {
		switch op {
		case "detect":
			b, err := v.CircularRefAndDepthDetection()
			switch {
			case err != nil:
				out = "rejected:" + c14errClass(err)
			case b:
				out = "rejected:circular-or-depth"
			default:
				out = "ok:"
			}
		case "serialize":
			sink := common.NewZeroCopySink(nil)
			if err := v.Serialize(sink); err != nil {
				out = "rejected:" + c14errClass(err)
			} else {
				out = "ok:" + hex.EncodeToString(sink.Bytes())
			}
		case "native":
			sink := common.NewZeroCopySink(nil)
			if err := v.BuildParamToNative(sink); err != nil {
				out = "rejected:" + c14errClass(err)
			} else {
				out = "ok:" + hex.EncodeToString(sink.Bytes())
			}
		case "stringify":
			if s, err := v.Stringify(); err != nil {
				out = "rejected:" + c14errClass(err)
			} else {
				out = "ok:" + s
			}
		case "dump":
			if s := v.Dump(); strings.HasPrefix(s, "error") {
				out = "rejected:" + c14errClass(fmt.Errorf("%s", s))
			} else {
				out = "ok:" + s
			}
		default:
			panic("c14hRunOp: unknown op " + op)
		}
	})
	if p != "" {
		return "panic:" + p
	}
	return out
}

func c14hKind(out string) string { return out[:strings.IndexByte(out, ':')] }

// c14hDrain empties every GC-clearable process-wide cache (sync.Pool: primary and victim) and frees the objects of earlier histories.
func c14hDrain() { runtime.GC(); runtime.GC() }

// c14hSum: 128 bits of a string (two different FNV functions); keeps the reference table free of pointers.
func c14hSum(s string) [2]uint64 {
	a, b := fnv.New64(), fnv.New64a()
	a.Write([]byte(s))
	b.Write([]byte(s))
	return [2]uint64{a.Sum64(), b.Sum64() ^ uint64(len(s))<<48}
}

// ---------------------------------------------------------------------------
// the unit
// ---------------------------------------------------------------------------

type c14hRunner struct {
	r *vh.Run
	// sum("<description>|<op>") -> sum(outcome of an equal value built from fresh objects in a process that rejected nothing yet)
	refs    map[[2]uint64][2]uint64
	classes map[string]int64
	nviol   map[string]int
	evals   int64
	hists   int64
}

func (c *c14hRunner) violation(key string, h func() c14hist, detail func() string) {
	c.nviol[key]++
	if c.nviol[key] <= 3 {
		hh := h()
		c.r.Violation(key, detail(), c14case{Hist: &hh})
	} else {
		c.r.Violation(key, "", nil)
	}
}

// reference computes (once) the outcome of op on a freshly built value of that description.
func (c *c14hRunner) reference(sp *c14hSpec, op string) [2]uint64 {
	k := c14hSum(sp.desc + "|" + op)
	if ref, ok := c.refs[k]; ok {
		return ref
	}
	v, err := c14build(sp.w)
	c.r.Need(err == nil, "reference value %s: %v", sp.desc, err)
	ref := c14hRunOp(&v, op)
	c.evals++
	c.refs[k] = c14hSum(ref)
	if op == "serialize" {
		// the statement itself: an acyclic value within the limits serializes and deserializes back to an equal value
		h := func() c14hist { return c14hist{Fresh: sp.desc, Op2: op} }
		if c14hKind(ref) != "ok" {
			c.violation("history:Serialize:fresh-valid-value-refused:"+strings.SplitN(ref, ":", 2)[1], h, func() string {
				return fmt.Sprintf("Serialize of the acyclic value %s (depth %d, %d bytes) built from fresh objects: %.200s", sp.desc, sp.in.maxDepth, sp.in.size, ref)
			})
			return c.refs[k]
		}
		data, herr := hex.DecodeString(ref[3:])
		var back VmValue
		src := common.NewZeroCopySource(data)
		var derr error
		p := vh.Catch(func() { derr = back.Deserialize(src) })
		if herr != nil || p != "" || derr != nil || src.Len() != 0 || !c14eq(&v, &back) || len(data) != sp.in.size {
			c.violation("history:Serialize:fresh-valid-value-roundtrip", h, func() string {
				return fmt.Sprintf("Deserialize(Serialize(%s)): panic=%q err=%v unread=%d size=%d (model %d) or not structurally equal", sp.desc, p, derr, src.Len(), len(data), sp.in.size)
			})
		}
	}
	return c.refs[k]
}

// c14hJudged: is the second value one this part can judge (and survive)?
func c14hJudged(sp *c14hSpec) bool { return !sp.in.cyclic || sp.in.cls == c14hExamined }

func (sp *c14hSpec) cutName() string {
	if sp.ci < 0 {
		return ""
	}
	return strconv.Itoa(sp.ci) + "." + strconv.Itoa(sp.cj)
}

func (sp *c14hSpec) wrapName() string {
	if sp.wrap == 0 {
		return ""
	}
	return string(sp.wrap)
}

// history runs one history on fresh objects and judges it.
func (c *c14hRunner) history(fv *c14hFirst, sp *c14hSpec, op1, mid, op2 string) {
	h := func() c14hist {
		return c14hist{V: fv.g.String(), Op1: op1, Mid: mid, Cut: sp.cutName(), Node: sp.node, Wrap: sp.wrapName(), Fresh: sp.fresh, Op2: op2}
	}
	c.hists++
	o, err := c14hBuild(fv.g)
	c.r.Need(err == nil, "build %s: %v", fv.g, err)
	steps := 1
	if mid == "again" {
		steps = 2
	}
	k1 := ""
	for s := 0; s < steps; s++ {
		res1 := c14hRunOp(&o.vals[0], op1)
		c.evals++
		k1 = c14hKind(res1)
		switch {
		case k1 == "panic":
			c.violation("history:"+c14api[op1]+":panic:first-value", h, func() string {
				return fmt.Sprintf("%s on the %s value %s panicked: %.300s", c14api[op1], fv.cls, fv.g, res1)
			})
			return
		case fv.cls == "cyclic" && k1 != "rejected":
			c.violation("history:"+c14api[op1]+":cyclic-value-accepted:first-value", h, func() string {
				return fmt.Sprintf("%s on the cyclic value %s returned without an error (call %d)", c14api[op1], fv.g, s+1)
			})
			return
		}
		c.classes["history:step1:"+fv.cls+":"+k1]++
	}
	var w VmValue
	if sp.fresh != "" {
		w, err = c14build(sp.w)
	} else {
		if sp.ci >= 0 {
			err = o.cut(fv.g, sp.ci, sp.cj)
			c.r.Need(err == nil, "cut %s of %s: %v", sp.cutName(), fv.g, err)
		}
		w, err = o.wrap(sp.node, sp.wrap)
	}
	c.r.Need(err == nil, "second value of %+v: %v", h(), err)
	res2 := c14hRunOp(&w, op2)
	c.evals++
	k2 := c14hKind(res2)
	after := func() string {
		s := fmt.Sprintf("after %s on the %s value %s (%s)", c14api[op1], fv.cls, fv.g, k1)
		if mid == "again" {
			s += ", twice"
		}
		return s
	}
	how := func() string {
		if sp.fresh != "" {
			return "built from fresh objects"
		}
		s := "node " + strconv.Itoa(sp.node) + " of the same objects"
		if sp.ci >= 0 {
			s += " (slot " + strconv.Itoa(sp.cj) + " of node " + strconv.Itoa(sp.ci) + " overwritten with 0)"
		}
		if sp.wrap != 0 {
			s += " held by a new " + map[byte]string{'A': "array", 'S': "struct", 'M': "map"}[sp.wrap]
		}
		return s
	}
	switch {
	case k2 == "panic":
		c.violation("history:"+c14api[op2]+":panic:"+sp.rel, h, func() string {
			return fmt.Sprintf("%s on %s = %s panicked %s: %.300s", c14api[op2], sp.desc, how(), after(), res2)
		})
	case sp.in.cyclic:
		if k2 != "rejected" {
			c.violation("history:"+c14api[op2]+":cyclic-value-accepted:"+sp.rel, h, func() string {
				return fmt.Sprintf("%s on the cyclic value %s = %s returned without an error %s", c14api[op2], sp.desc, how(), after())
			})
			return
		}
		c.classes["history:step2:"+sp.rel+":cyclic:rejected"]++
	case !sp.in.within:
		// the statement is silent on values outside the limits
		c.classes["history:step2:"+sp.rel+":"+sp.in.cls+":"+k2+":unjudged"]++
	default:
		if c14hSum(res2) == c.reference(sp, op2) {
			c.classes["history:step2:"+sp.rel+":acyclic:"+k2+":same-as-fresh"]++
			return
		}
		fresh := func() string { // for the message only: the outcome on fresh objects, recomputed now
			v, err := c14build(sp.w)
			if err != nil {
				return err.Error()
			}
			return c14hRunOp(&v, op2)
		}
		if op2 == "serialize" && k2 == "rejected" {
			c.violation("history:Serialize:valid-value-refused:"+strings.SplitN(res2, ":", 2)[1]+":"+sp.rel, h, func() string {
				return fmt.Sprintf("Serialize of the acyclic value %s (depth %d, %d bytes) = %s is refused %s; an equal value built from fresh objects gives %.120s",
					sp.desc, sp.in.maxDepth, sp.in.size, how(), after(), fresh())
			})
			return
		}
		c.violation("history:"+c14api[op2]+":differs-from-fresh-equal-value", h, func() string {
			return fmt.Sprintf("%s on the acyclic value %s = %s gives %.200s %s; on an equal value built from fresh objects it gives %.200s", c14api[op2], sp.desc, how(), res2, after(), fresh())
		})
	}
}

// c14hPairs: the (op1, mid, op2) alphabet of a first value.  lite (3-node graphs, quick tier): Serialize;Serialize.
// Otherwise quick: every op as op1 with Serialize as op2 and Serialize as op1 with every op as op2, first step once, and
// Serialize;Serialize;Serialize; thorough: the full product, first step once and twice.
func c14hPairs(full, thorough bool) (out [][3]string) {
	if !full {
		return [][3]string{{"serialize", "", "serialize"}}
	}
	for _, op1 := range c14hOps {
		for _, mid := range []string{"", "again"} {
			for _, op2 := range c14hOps {
				if thorough || (mid == "" && (op1 == "serialize" || op2 == "serialize")) || (op1 == "serialize" && op2 == "serialize") {
					out = append(out, [3]string{op1, mid, op2})
				}
			}
		}
	}
	return
}

// first runs every history of one first value.
func (c *c14hRunner) first(fv *c14hFirst, only *c14hist) {
	c.r.Guard("history:first-value:"+fv.cls, "histories on the objects of the "+fv.cls+" value "+fv.g.String(), c14case{Hist: &c14hist{V: fv.g.String()}})
	defer c.r.Unguard()
	c14hDrain()
	pairs := c14hPairs(fv.full, c.r.Thorough() || only != nil)
	c14hSpecs(fv.g, fv.full, func(sp *c14hSpec) {
		if only != nil && (sp.cutName() != only.Cut || sp.wrapName() != only.Wrap || sp.fresh != only.Fresh || (sp.fresh == "" && sp.node != only.Node)) {
			return
		}
		if !c14hJudged(sp) {
			c.classes["history:second-value-not-judged:"+sp.in.cls]++
			return
		}
		for _, p := range pairs {
			if only != nil && (only.Op1 != p[0] || only.Mid != p[1] || only.Op2 != p[2]) {
				continue
			}
			c.history(fv, sp, p[0], p[1], p[2])
		}
	})
}

// references computes the reference outcomes of one first value's second values.
func (c *c14hRunner) references(fv *c14hFirst, thorough bool) {
	ops2 := map[string]bool{}
	for _, p := range c14hPairs(fv.full, thorough) {
		ops2[p[2]] = true
	}
	c14hSpecs(fv.g, fv.full, func(sp *c14hSpec) {
		if sp.in.cyclic || !sp.in.within {
			return
		}
		for _, op2 := range c14hOps {
			if ops2[op2] {
				c.reference(sp, op2)
			}
		}
	})
}

func c14hPick(r *vh.Run, q, t string) string {
	if r.Thorough() {
		return t
	}
	return q
}

func TestVerif_C14_history(t *testing.T) {
	r := vh.Start(t, "C14", "history")
	defer r.Finish()
	log.InitLog(log.MaxLevelLog)
	r.Rule("two-step histories on the same Go objects in one process: step 1 = op1 on a first value v (cyclic on the examined walk, or nested deeper than MAX_STRUCT_DEPTH), once or twice; " +
		"then optionally one reference slot of v overwritten with a primitive; step 2 = op2 on every node of the (repaired) graph as a root, bare or held by a new array/struct/map, or on an unrelated fresh value. " +
		"ops: Serialize, CircularRefAndDepthDetection, BuildParamToNative, Stringify, Dump. Oracle from the description of the second value: cyclic => rejected; acyclic within the limits => exactly the outcome " +
		"(verdict, error class, bytes) of an equal value built from fresh objects before anything was rejected in the process (for Serialize that reference must succeed and round-trip). One P, collector off, " +
		"two collections before the histories of each first value (sync.Pool state is deterministic). distinct = (step, relation of the second value to the first, class, outcome)")
	r.Bound("first values: all canonical graphs with <=3 container nodes x <=2 slots x 1 primitive that are cyclic on the examined walk; back-referring chains of 4..6 containers (M/ASM/AM, link in slot 0/1, every target); " +
		"acyclic chains of MAX_STRUCT_DEPTH+1..+3 containers (A/S/M/ASM/MA, link in slot 0/1). second values: no cut + every single reference slot cut, every node (that contains the cut container) as root, bare/new array/new struct/new map, 3 unrelated fresh values. " +
		"operations: " + c14hPick(r, "(op1,Serialize) and (Serialize,op2) for the 5 ops with the first step once, Serialize;Serialize also with the first step twice", "5 x 5 ops, first step once/twice") + "; " +
		c14hPick(r, "on the 3-node graphs only Serialize;Serialize on bare nodes", "the 3-node graphs like the others"))
	r.Assume("first values whose cycle lies off the examined walk (slot > 0 of an array or struct) are excluded: on them the process dies (listed findings of the part vmvalue); second values that became such values are skipped and counted")

	defer runtime.GOMAXPROCS(runtime.GOMAXPROCS(1))
	defer debug.SetGCPercent(debug.SetGCPercent(1000000)) // no automatic collection during a history
	defer debug.SetMaxStack(debug.SetMaxStack(64 << 20))  // a runaway recursion ends quickly (and is attributed through vh.Guard)

	c := &c14hRunner{r: r, refs: map[[2]uint64][2]uint64{}, classes: map[string]int64{}, nviol: map[string]int{}}
	defer func() {
		for k, n := range c.classes {
			r.ClassN(k, n)
		}
		r.Eval(c.evals)
		r.Trace(c.hists)
	}()

	firsts := c14hFirstValues(r.Thorough())

	var rc c14case
	if r.IsReplay() {
		if !r.ReplayCase(&rc) || rc.Hist == nil {
			return // a case of the part vmvalue
		}
		h := rc.Hist
		if h.V == "" {
			// a reference value that failed in isolation
			c.reference(c14hFreshSpec(h.Fresh), h.Op2)
			return
		}
		for i := 0; i < firsts.n(); i++ {
			if firsts.desc(i) != h.V {
				continue
			}
			fv := firsts.get(i)
			fv.full = true
			c.references(fv, true)
			if h.Op1 == "" {
				c.first(fv, nil)
			} else {
				n0 := c.hists
				c.first(fv, h)
				r.Need(c.hists == n0+1, "replay: %d histories match %+v", c.hists-n0, *h)
			}
			return
		}
		r.Need(false, "replay: first value %q is not in the alphabet", h.V)
		return
	}

	// pass 1: reference outcomes, while nothing has been rejected in this process
	for i := 0; i < firsts.n(); i++ {
		if !r.Mine(i) {
			continue
		}
		c.references(firsts.get(i), r.Thorough())
		if i%256 == 0 {
			c14hDrain()
			if r.Expired() {
				return
			}
		}
	}
	r.Set("history_references", len(c.refs))
	// pass 2: the histories
	nfirst := 0
	for i := 0; i < firsts.n(); i++ {
		if !r.Mine(i) {
			continue
		}
		if r.Expired() {
			break
		}
		c.first(firsts.get(i), nil)
		nfirst++
	}
	r.Set("history_first_values", nfirst)
	r.Set("history_alphabet", firsts.n())

	// non-vacuity (classes that every shard meets; the over-deep ones are required across shards by checks.d need_classes)
	if !r.R.CapHit && r.R.NViolations == 0 {
		need := func(k string) { r.Need(c.classes[k] > 0, "outcome class %q never observed", k) }
		need("history:step1:cyclic:rejected")
		need("history:step2:sub-value:acyclic:ok:same-as-fresh")
		need("history:step2:repaired-value:acyclic:ok:same-as-fresh")
		need("history:step2:repaired-value:cyclic:rejected")
		need("history:step2:part-in-new-container:acyclic:ok:same-as-fresh")
		need("history:step2:unrelated-fresh-value:acyclic:ok:same-as-fresh")
	}
}
